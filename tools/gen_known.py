#!/usr/bin/env python3
"""Writes /verif/known-findings.json from the tables below (hand-maintained; never written at check time)."""
import json, os
HERE = os.path.dirname(os.path.dirname(os.path.abspath(__file__)))

# (property, rule, key, what fails, input)
OPEN = [
    ("C05", "R-TEXTKEEP", "parser.(*Parser).parseComponentStmt|text token stepped onto (#1 in this function) is not lost",
     "whitespace-only text between a @component(...) use without slots and a following {{ }} block or directive is dropped: `<main>@component(\"~card\") \\n{{ 1 }}</main>` renders `...</div>1</main>` instead of `...</div> \\n1</main>`; parseComponentStmt steps onto the whitespace token to look for a @slot behind it and returns standing on it when there is none, and the caller steps over the last token of every statement. Keeping it needs a second token of lookahead (or carrying the text in the statement): not a small repair",
     "NewTemplate with components/card.tw = `<div>x</div>` and page.tw = `<main>@component(\"~card\") \\n{{ 1 }}</main>`; String(\"page\") == `<main><div>x</div>1</main>` (the ` \\n` is missing)"),
    ("C12", "R-KINDS", "evaluator.evalString|a string literal evaluates to the text as written",
     "a map key that contains &, < or > cannot be reached by its name: `{{ m[\"a&b\"] }}` with data {\"m\": {\"a&b\": 1}} fails with \"property 'a&amp;b' not found\". String literals are HTML-escaped when they are evaluated (evalString), not when they are printed, so the index, the built-ins (`\"<b>\".len()` is 9) and custom functions see the escaped text. C10 is stated in terms of this design (unescaping the output gives back the literal; raw() is the opt-out); moving the escaping to the printer changes what every string value means and is not a small repair: recorded",
     "EvaluateString(`{{ m[\"a&b\"] }}`, map[string]any{\"m\": map[string]any{\"a&b\": 1}}) returns the error \"property 'a&amp;b' not found in type 'OBJECT'\""),
    ("C09", "R-RECDEPTH", "object.NativeToObject|recursion through NativeToObject is bounded by a depth guard",
     "the conversion of the caller's data recurses through pointers, slices, maps and struct fields without a depth limit or a visited set: data with a pointer cycle (`type N struct{ Name string; Next *N }; n := &N{Name: \"a\"}; n.Next = n`) ends the process with `fatal error: stack overflow`, which is not a panic and cannot be recovered. Detecting cycles needs a visited set threaded through the four conversion functions (or a depth limit, which is a design decision): recorded, not repaired",
     "EvaluateString(\"{{ n.name }}\", map[string]any{\"n\": n}) with n.Next = n"),
    ("C08", "R-RECDEPTH", "parser.parseExpression|recursion through parseExpression is bounded by a depth guard",
     "expressions are parsed by recursive descent without a nesting limit: `{{ ` + 3,000,000 x `(` + `1` + 3,000,000 x `)` + ` }}` (6 MB) ends the process with `fatal error: stack overflow` (goroutine stack exceeds 1000000000-byte limit), which no recover can catch. A nesting limit is a design decision (which limit, which error) and needs a counterpart for the left spine of `1+1+1+...` that the evaluator recurses over: recorded, not repaired",
     "EvaluateString(\"{{ \" + strings.Repeat(\"(\", 3000000) + \"1\" + strings.Repeat(\")\", 3000000) + \" }}\", nil)"),
    ("C08", "R-RECDEPTH", "parser.parseStatement|recursion through parseStatement is bounded by a depth guard",
     "blocks are parsed by recursive descent without a nesting limit: 1,500,000 x `@if(true)` followed by 1,500,000 x `@end` (20 MB) ends the process with `fatal error: stack overflow`. Same design decision as for expressions: recorded, not repaired",
     "EvaluateString(strings.Repeat(\"@if(true)\", 1500000) + strings.Repeat(\"@end\", 1500000), nil)"),
]

# (property, commit, what failed)
FIXED = [
    ("C09", "1ee276c", "`{{ 1.x }}` panicked: unchecked left.(*object.Obj) in evalDotExp"),
    ("C09", "065e5f1", "`@each(v in 5)x@end` panicked: unchecked arrObj.(*object.Array) in evalEachStmt"),
    ("C03", "065e5f1", "iterating a non-array panicked instead of being an error"),
    ("C09", "7394342", "`{{ 5 % 0 }}` panicked: integer modulo without a zero guard in evalIntegerInfixExp"),
    ("C01", "7394342", "modulo by zero did not fail the render with an error"),
    ("C09", "7676092", "`{{ o[\"\"] }}` panicked: idx[:1] on an empty property name in evalObjectIndexExp"),
    ("C09", "91b393b", "`@for(;;)x@break@end`, `@for(i = 0;;i++)...` dereferenced nil Condition/Post; `@for(i++; ...)` failed node.Init.(*ast.AssignStmt)"),
    ("C03", "91b393b", "`@for(; c; )x@break@end` could never break: the continue taken when init/post is absent skipped the break test"),
    ("C11", "5f5f17a", "`\"héllo\".truncate(2)` cut a multi-byte character by bytes (invalid UTF-8)"),
    ("C09", "5f5f17a", "`\"hello\".truncate(-1)` panicked (slice bounds out of range)"),
    ("C11", "7485b01", "`\"éa\".capitalize()` upper-cased one byte of a two-byte character (invalid UTF-8)"),
    ("C09", "90dfc64", "`\"abc\".at(-5)` panicked (index out of range [-2])"),
    ("C09", "a89ab64", "`\"abc\".repeat(-1)` and `5.decimal(\".\", -1)` panicked (strings: negative Repeat count)"),
    ("C09", "def0f17", "`[1,2,3].slice(2,1)` panicked (slice bounds out of range [2:1])"),
    ("C09", "7aa4e9c", "data `{\"p\": (*int)(nil)}` panicked: reflect Elem().Interface() on a nil pointer in NativeToObject"),
    ("C12", "7aa4e9c", "a nil pointer in the data crashed the call instead of being visible as nil"),
    ("C09", "d643169", "data `{\"p\": []any{make(chan int)}}` stored a nil Object and panicked when printed"),
    ("C12", "d643169", "unsupported values nested in slices/maps/structs and maps with non-string keys were accepted instead of returning an error"),
    ("C20", "d643169", "a custom function result containing an unsupported value became a nil Object"),
    ("C01", "8c2c336", "`{{ 0.5-- }}` rendered 18446744073709552000; `x--` with x = -1.5 left x unchanged (error of SubtractFromFloat dropped)"),
    ("C08", "86d095e", "`{{-- --}\\@end` panicked the lexer: Truncate(-1) on an empty text buffer in readHTML"),
    ("C09", "86d095e", "lexer panic on an escaped directive at the start of a text run (render path through parseStr)"),
    ("C01", "779d679", "`{{ 8 / 2 / 2 }}` rendered 8, `{{ 8 / 2 * 3 }}` rendered 1, `{{ 3 == 1 + 2 }}` failed: right operands parsed at the constant SUM level"),
    ("C01", "d743000", "`{{ x = 1 + 2 }}{{ x }}` rendered 1: assignment value parsed at the SUM level"),
    ("C08", "8b2b973", "`@if(true)x`, `@each(x in [1])y`, `@if(true){{ # }}@end` hung: parseBlockStmt had no exit on EOF / ILLEGAL"),
    ("C18", "8b2b973", "a truncated template file in the template directory hung NewTemplate"),
    ("C08", "b797938", "`{{ {a: 1` and `{{ {a: 1 b: 2} }}` hung: parseObjectLiteral made no progress without a comma"),
    ("C08", "98dbcd4", "`{{ \"abc` rendered abc: unterminated string accepted"),
    ("C08", "a884685", "`{{-- abc` rendered nothing without an error: unterminated comment accepted"),
    ("C05", "a884685", "`{{-- a --}x --}}y` leaked ` --}}y`: comment terminator test used || instead of && over the bytes of `--}}`"),
    ("C08", "be6848d", "`@insert(\"a\")x` accepted without @end"),
    ("C08", "47663ae", "`{{ 1` rendered 1 and `{{ x = 1` was accepted: closing }} optional"),
    ("C08", "daf2d12", "`@use(\"x\"`, `@reserve(\"x\"`, `@breakIf(x`, `@continueIf(x`, `@insert(\"a\", 1` accepted without the closing parenthesis"),
    ("C08", "d1199a4", "`@component(\"c\")@slot(\"a\")x` accepted without @end"),
    ("C16", "8e11d82", "after any EvaluateString/EvaluateFile/Response error page, a failing tpl.String(\"bad\") reported <cwd>/bad.tw instead of <cwd>/<dir>/bad.tw (usesTemplates read by getFullPath on the render path)"),
    ("C15", "af919a4", "concurrent EvaluateString/EvaluateFile/Response-error-page calls raced on the plain bool usesTemplates (go test -race: DATA RACE at textwire.go:37)"),
    ("C14", "9d7df53", "`{{ {a: 1, b: 2, c: 3} }}` and @dump printed object properties in a different order on every run (Obj.String/Obj.Dump ranged over the map)"),
    ("C14", "2d8b171", "`{{ {a: x1, b: x2} }}` and component arguments with several failing entries reported a different error from run to run"),
    ("C14", "7b69a4d", "data `{\"a\": chan, \"b\": func}` reported a different unsupported key from run to run (EnvFromMap ranged over the map)"),
    ("C14", "2befd07", "with several undefined inserts, duplicate slots or faulty template files, which one was reported depended on map iteration order"),
    ("C18", "8c4bab0", "`t/notes.tw.bak` was parsed and registered as template `notes.bak` (strings.Contains on the extension); a broken backup file made NewTemplate fail"),
    ("C18", "29c066c", "TemplateDir `./t` or `t/../t` made every lookup \"template not found\"; `a.tw.d/real.tw` lost the extension from the middle of its name (strings.Replace)"),
    ("C04", "62b993e", "`{{ x = \"s\" }}@component(\"~box\", {x: 1})` and an argument named loop were silently not bound (error of Env.Set dropped)"),
    ("C07", "62b993e", "component argument binding errors were dropped"),
    ("C07", "ef8a81b", "two uses of one component shared one parsed program: `...{t:\"A\"})@slot one@end@end|...{t:\"B\"})@slot two@end@end` rendered `[A: two]|[B: two]`"),
    ("C05", "98ff919", "`}} b` rendered ` b` and `{{ 1 }}}}` rendered `1`: a closing-braces token was produced in text mode"),
    ("C01", "29ddbf6", "`{{ !flag }}` with {\"flag\": true} failed with \"prefix operator '!' cannot be applied to 'BOOLEAN'\": evalBangOperatorExp compared by identity with the TRUE/FALSE/NIL singletons"),
    ("C08", "d334c39", "`@dump(1;)@dump(2)` panicked (index out of range [54] with length 54): the token-name table had no entry for DUMP and an empty one for EACH"),
    ("C09", "d334c39", "parser panic through token.String(DUMP) on the render path of the string API"),
    ("C13", "8e11d82", "reported path of a failing page changed after a string evaluation"),
    ("C13", "b962b4c", "`a\\n{{ 1 +\\n# }}` reported the illegal character on line 2 instead of 3: the unread ILLEGAL token took its end from the previous character (newToken)"),
    ("C19", "b962b4c", "the ILLEGAL token of an unknown character had an inverted range (end one column before its start, or on the previous line)"),
    ("C02", "a6d2624", "`A@if(x)@else b @end B` rendered the @else body exactly when x was truthy; `@if(x)a@elseif(y)@else b@end` with y truthy rendered b: the @else/@elseif closing an empty body was parsed into that body together with the branch after it"),
    ("C03", "a6d2624", "`@each(i in [1])@else none @end` rendered ` none ` and `@each(i in [])@else none @end` rendered nothing; `@for(...)@end` with an empty body was a parse error"),
    ("C07", "a6c3e33", "`@component(\"~card\")\\n  {{-- c --}}\\n  @slot(\"head\")H@end ... @end` rendered the component with empty slots and the slot bodies as loose text: parseComponentStmt stepped over one whitespace token only, a comment splits the whitespace into two"),
    ("C09", "b5e45e5", "`{{ \"ab\".repeat(9223372036854775807) }}` and `{{ 1.decimal(\".\", 9223372036854775807) }}` panicked (strings: Repeat output length overflow / makeslice: len out of range): a count taken from the template had no upper bound"),
    ("C11", "b5e45e5", "repeat and decimal with an oversized count crashed the render instead of returning an error"),
    ("C13", "11d4371", "`{{ 10\\n\\n/ 0 }}` reported line 1 and `{{ 10\\n\\n+ \"a\" }}` reported line 1: evaluator errors about a binary operator were built from its left operand's node, not from the infix node (operator on line 3)"),
    ("C18", "6fc55e6", "TemplateDir `/srv/app/templates` was looked up as `srv/app/templates` under the working directory: Configure trimmed \"/\" at both ends of the directory"),
    ("C07", "4af6242", "`@component(\"~box\")@slot(\"x\")@end@end|tail` rendered without `|tail`: the @end of an empty slot body was taken for the body's last token and the component's @end for the slot's"),
    ("C06", "4af6242", "`@insert(\"a\")@end` (an empty insert body) was a parse error: expected next token to be '@end'"),
    ("C08", "6d2917f", "6,000,000 consecutive comments (54 MB) ended the process with a stack overflow: NextToken called itself after every comment"),
    ("C18", "122cdfd", "NewTemplate with TemplateDir `no-such-dir/v%sw` reported `lstat no-such-dir/v%!s(MISSING)w: no such file or directory`: fail.FromError used the text of the wrapped error as a format string"),
    ("C13", "122cdfd", "the path in a load error was mangled when it contained a percent sign"),
    ("C11", "2b0af35", "`{{ \"abc\".truncate(10, 5) }}`, `{{ \"abc\".decimal(1) }}` and `{{ \"abc\".decimal(\"a\", \"b\", \"c\") }}` rendered `abc`: the early return for receivers that need no work came before the check of the argument kinds"),
    ("C08", "b7ae855", "`@component(\"c\")@slot x@end` (the component's own @end missing) was accepted; `@component(\"c\")@slot x@end@if(a)b@end` lost its @if: parseSlots returned standing on whatever followed the last slot and the caller stepped over it"),
    ("C05", "b7ae855", "`@component(\"c\")@slot(\"a\")x@end tail@end` dropped ` tail`: every text token after a slot was skipped, not only whitespace"),
    ("C07", "b7ae855", "a component use with slots did not require its own @end"),
    ("C08", "5bff172", "`{{ x )` was accepted although its `{{` is never closed: `)` counts as an end of embedded code and was skipped without an error where a statement is expected"),
    ("C12", "0a000e4", "field `Élan` was not reachable as `s[\"élan\"]` / `s.élan`: the first-letter fallback upper-cased the first byte (`idx[:1]`), not the first letter"),
    ("C03", "e601156", "`{{ n = 0 }}@for(; n < 3; n++){{ n }}@end` never ended (the value of the post clause was bound to the init variable only; without one the step was lost) and `@for(i = 0; i < 6; i = i + 2)` failed with \"cannot assign variable 'i' of type 'INTEGER' to type 'NIL'\" (the nil an assignment yields was bound to i)"),
    ("C19", "b97f69a", "the ILLEGAL token of an unterminated string ended one column (or one line) past the last byte and the end-of-input token two past it: readString skipped \"the closing quote\" also when the input had ended"),
    ("C13", "b97f69a", "`a\\n{{ \"abc }}\\n\\n` (an unterminated string) was reported on line 4 of a 3-line input"),
    ("C17", "d3e3b1f", "`a@dump(nope)b` rendered successfully with the error object (message and, for files, the path) inside the page: evalDumpStmt never tested the argument with isError"),
]

def main():
    out = {
        "_comment": "Known findings for the twcheck checks. 'open' entries are genuine defects that are recorded rather than repaired; a violated obligation whose (property, rule, key) matches one prints KNOWN-FINDING and does not fail the check. 'fixed' entries suppress nothing. The file is never written at check time.",
        "open": [{"property": p, "rule": r, "key": k, "what": w, "input": i} for (p, r, k, w, i) in OPEN],
        "fixed": [{"property": p, "commit": c, "what": w, "line": "fixed: property=%s %s %s" % (p, c, w)} for (p, c, w) in FIXED],
    }
    with open(os.path.join(HERE, "known-findings.json"), "w") as f:
        json.dump(out, f, indent=1, ensure_ascii=False)
        f.write("\n")
    print("known-findings.json:", len(OPEN), "open,", len(FIXED), "fixed")

main()
