#!/bin/sh
# rebase_patches.sh <base-commit> <diff>... : for each stored diff that no longer applies to /repo's main, applies it at <base-commit>
# (where it applied), rebases that onto main and, when git resolves it alone, rewrites the diff. Prints what is left to do by hand.
base=$1; shift
export GOFLAGS=-mod=mod GOPROXY=off GOSUMDB=off GOTOOLCHAIN=local
for f in "$@"; do
  n=$(basename $f .diff)
  if git -C /repo apply --check "$f" 2>/dev/null; then continue; fi
  rm -rf /tmp/wt/rb; git -C /repo worktree prune
  git -C /repo worktree add -q --detach /tmp/wt/rb $base
  ( cd /tmp/wt/rb
    if ! git apply "$f" 2>/dev/null; then echo "$n: does not apply at $base either"; exit; fi
    git add -A; git commit -qm patch
    if git rebase -q main >/dev/null 2>&1 && go build ./... 2>/dev/null; then git diff main > "$f"; echo "$n: rebased automatically"
    else echo "$n: CONFLICT: $(git status --short | grep -E '^(UU|AA)' | tr '\n' ' ')"; fi )
  git -C /repo worktree remove --force /tmp/wt/rb
done
