#!/usr/bin/env python3
"""seeded_check.py <Cxx> <k> [props...]
Confirms a sub-agent's seeded change (/tmp/wt/out-cxx/change<k>.diff + demo<k>_test.go):
  1. applies it to a fresh scratch copy of /repo, builds, runs the existing suite (must pass),
  2. runs the demonstration with the change (must fail) and without it (must pass),
  3. runs the registered checks for the property (and any extra properties) on the changed copy,
  4. on confirmation stores it under /verif/seeded/<Cxx>-<k>/ (patch.diff, demo, meta.json)."""
import sys, os, subprocess, shutil, json, tempfile, re
pid, k = sys.argv[1], sys.argv[2]
extra = sys.argv[3:]
src = os.environ.get("SEED_SRC", "/tmp/wt/out-%s" % pid.lower())
patch = os.path.join(src, "change%s.diff" % k)
demo = os.path.join(src, "demo%s_test.go" % k)
note = os.path.join(src, "change%s.md" % k)
stored = "/verif/seeded/%s-%s" % (pid, k)
if os.path.exists(os.path.join(stored, "patch.diff")):  # a stored seed is re-checked from its stored files, whatever lies in /tmp
    patch = os.path.join(stored, "patch.diff"); demo = os.path.join(stored, "demo_test.go.txt"); note = os.path.join(stored, "NOTE.md")
RACE = "-race " if pid == "C15" else ""
env = dict(os.environ, GOFLAGS="-mod=mod -trimpath", GOPROXY="off", GOSUMDB="off", GOTOOLCHAIN="local")
env.pop("GOWORK", None)
def run(cmd, cwd, timeout=600):
    try:
        r = subprocess.run(cmd, shell=True, cwd=cwd, env=env, capture_output=True, text=True, timeout=timeout)
        return r.returncode, (r.stdout + r.stderr)
    except subprocess.TimeoutExpired:
        return 124, "TIMEOUT"
scr = tempfile.mkdtemp(prefix="twseed-")
try:
    subprocess.run("cp -r /repo/. %s/ && rm -rf %s/.git" % (scr, scr), shell=True, check=True)
    # demo on clean tree
    m = re.search(r"func (Test\w+)\(", open(demo).read())
    tname = m.group(1) if m else "Test"
    shutil.copy(demo, os.path.join(scr, "zz_seed_demo_test.go"))
    rc_clean, out_clean = run("timeout 300 go test %s-vet=off -count=1 -run '%s' ." % (RACE, tname), scr)
    os.remove(os.path.join(scr, "zz_seed_demo_test.go"))
    rc, out = run("patch -p1 < %s" % patch, scr)
    if rc != 0:
        print("PATCH FAILED", out); sys.exit(2)
    rc_build, out_build = run("go build ./...", scr)
    rc_suite, out_suite = run("go test -vet=off -count=1 ./...", scr)
    shutil.copy(demo, os.path.join(scr, "zz_seed_demo_test.go"))
    rc_bad, out_bad = run("timeout 300 go test %s-vet=off -count=1 -run '%s' ." % (RACE, tname), scr)
    os.remove(os.path.join(scr, "zz_seed_demo_test.go"))
    confirmed = rc_clean == 0 and rc_build == 0 and rc_suite == 0 and rc_bad != 0
    print("demo on clean tree: %s | build: %s | existing suite with change: %s | demo with change: %s  => %s" % (
        "pass" if rc_clean == 0 else "FAIL", "ok" if rc_build == 0 else "FAIL", "pass" if rc_suite == 0 else "FAIL",
        "fails (as required)" if rc_bad != 0 else "PASSES (not a demonstration)", "CONFIRMED" if confirmed else "NOT CONFIRMED"))
    if not confirmed:
        print((out_clean if rc_clean else "") + (out_build if rc_build else "") + (out_suite[-1500:] if rc_suite else "") )
    results = {}
    for p in [pid] + extra:
        rc, out = run("/verif/bin/twcheck -prop %s -repo %s -verif /verif -no-evidence" % (p, scr), "/verif")
        hits = [l.strip() for l in out.splitlines() if "VIOLATED" in l or "UNDECIDED" in l]
        results[p] = {"exit": rc, "reported": hits[:8]}
        print("check %s on changed tree: exit %d" % (p, rc))
        for h in hits[:6]:
            print("    " + h[:230])
    if confirmed:
        dst = "/verif/seeded/%s-%s" % (pid, k)
        os.makedirs(dst, exist_ok=True)
        if os.path.abspath(patch) != os.path.abspath(os.path.join(dst, "patch.diff")):
            shutil.copy(patch, os.path.join(dst, "patch.diff"))
            shutil.copy(demo, os.path.join(dst, "demo_test.go.txt"))
            if os.path.exists(note):
                shutil.copy(note, os.path.join(dst, "NOTE.md"))
        meta = {
            "property": pid, "source": "independent sub-agent given only the property text and a scratch worktree",
            "what": open(note).read() if os.path.exists(note) else "",
            "confirmed": {"demo_passes_on_clean_tree": True, "builds": True, "existing_suite_passes_with_change": True, "demo_fails_with_change": True,
                          "commands": ["go build ./...", "go test -vet=off -count=1 ./...", "go test -vet=off -count=1 -run %s ." % tname]},
            "checks_on_changed_tree": results,
            "detected_by": [p for p in results if results[p]["exit"] == 1],
        }
        json.dump(meta, open(os.path.join(dst, "meta.json"), "w"), indent=1)
finally:
    shutil.rmtree(scr, ignore_errors=True)
