#!/bin/sh
# import_round3.sh Cxx... : takes round-3 sub-agent output (change1/2 in /tmp/wt/out-cxx) as seeds 5 and 6 and confirms + checks them
cd /verif
for id in "$@"; do
  low=$(echo $id | tr 'C' 'c'); o=/tmp/wt/out-$low
  for k in 1 2; do
    n=$((k+4))
    [ -f $o/change$k.diff ] || { echo "$id-$n: no change$k.diff"; continue; }
    cp $o/change$k.diff $o/change$n.diff; cp $o/demo${k}_test.go $o/demo${n}_test.go; cp $o/change$k.md $o/change$n.md 2>/dev/null
    echo "== $id-$n"
    python3 tools/seeded_check.py $id $n 2>&1 | grep -E "CONFIRMED|check C|VIOLATED|UNDECIDED" | cut -c1-220
  done
done
