#!/bin/sh
# revert_test.sh <prop> <commit>...  — scratch copy of /repo with the given fix commits reverted, then run the check on it.
# Used to confirm that a check fires again on the defect a fix removed.
prop=$1; shift
scr=$(mktemp -d /tmp/twscr.XXXXXX)
cp -r /repo/. "$scr"/
for c in "$@"; do
  git -C "$scr" -c user.name=x -c user.email=x@x revert -n "$c" >/dev/null 2>&1 || { echo "revert $c failed"; git -C "$scr" status --short | head; }
done
(cd "$scr" && GOFLAGS=-mod=mod GOPROXY=off go build ./... 2>&1 | head -5)
/verif/bin/twcheck -prop "$prop" -repo "$scr" -verif /verif -no-evidence | grep -E 'VIOLATED|UNDECIDED|violations' | cut -c1-260
rm -rf "$scr"
