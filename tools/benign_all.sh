#!/bin/sh
# Re-runs every stored behaviour-preserving refactoring (benign/*.diff must stay silent; benign/pending/*.diff are false alarms still to fix).
# usage: tools/benign_all.sh [pending|all|<name>...]
cd "$(dirname "$0")/.."
sel="${1:-all}"
case "$sel" in
  pending) files=$(ls benign/pending/*.diff 2>/dev/null);;
  all) files=$(ls benign/*.diff benign/pending/*.diff 2>/dev/null);;
  *) files=""; for n in "$@"; do for f in benign/$n.diff benign/pending/$n.diff; do [ -f "$f" ] && files="$files $f"; done; done;;
esac
tmp=$(mktemp -d /tmp/benign-all.XXXXXX)
for f in $files; do echo "$f"; done | xargs -P 8 -I{} sh -c 'n=$(basename {} .diff); python3 tools/benign_check.py {} $n > '"$tmp"'/$n.txt 2>&1'
cat "$tmp"/*.txt
rm -rf "$tmp"
# move newly silent diffs out of pending
for f in benign/pending/*.diff; do [ -f "$f" ] || continue; n=$(basename "$f"); [ -f "benign/$n" ] && rm -f "$f"; done
exit 0
