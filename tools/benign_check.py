#!/usr/bin/env python3
"""benign_check.py <diff-file> [name]
Applies a behaviour-preserving refactoring to a scratch copy of /repo, confirms it builds and the suite passes,
then runs ALL twenty checks on it; any VIOLATED/UNDECIDED line is a false alarm to be fixed in the checker.
If silent, the refactoring is stored under /verif/benign/<name>.diff."""
import sys, os, subprocess, shutil, tempfile
patch = os.path.abspath(sys.argv[1])
name = sys.argv[2] if len(sys.argv) > 2 else os.path.basename(patch)
env = dict(os.environ, GOFLAGS="-mod=mod -trimpath", GOPROXY="off", GOSUMDB="off", GOTOOLCHAIN="local"); env.pop("GOWORK", None)
def run(cmd, cwd, timeout=900):
    r = subprocess.run(cmd, shell=True, cwd=cwd, env=env, capture_output=True, text=True, timeout=timeout)
    return r.returncode, r.stdout + r.stderr
scr = tempfile.mkdtemp(prefix="twbenign-")
try:
    subprocess.run("cp -r /repo/. %s/ && rm -rf %s/.git" % (scr, scr), shell=True, check=True)
    rc, out = run("patch -p1 < %s" % patch, scr)
    if rc != 0:
        print("PATCH FAILED:", out[-500:]); sys.exit(2)
    rc_b, out_b = run("go build ./... && go test -vet=off -count=1 ./...", scr)
    if rc_b != 0:
        print("build/suite FAILED for", name, out_b[-800:]); sys.exit(2)
    rc, out = run("/verif/bin/twcheck -prop all -repo %s -verif /verif -no-evidence" % scr, "/verif")
    alarms = [l.strip() for l in out.splitlines() if "VIOLATED" in l or "UNDECIDED" in l or l.startswith("twcheck:")]
    print("%s: suite ok; checks exit %d; %d alarm lines" % (name, rc, len(alarms)))
    for a in alarms[:12]:
        print("    " + a[:260])
    if rc == 0 and not alarms:
        os.makedirs("/verif/benign", exist_ok=True)
        dst = "/verif/benign/%s.diff" % name.replace(".diff", "")
        if os.path.abspath(patch) != dst:
            shutil.copy(patch, dst)
    sys.exit(1 if alarms or rc else 0)
finally:
    shutil.rmtree(scr, ignore_errors=True)
