#!/usr/bin/env python3
"""Regenerates /verif/MANIFEST.json from the table below (kept in one place so the manifest is always valid)."""
import json, os, sys
HERE = os.path.dirname(os.path.dirname(os.path.abspath(__file__)))

NOTE = ("Trusted base: go/types, go/ssa and the VTA call graph of golang.org/x/tools v0.29.0; Go spec semantics of the "
        "operators and of range-over-map; documented behaviour of the standard-library functions the rules name. "
        "The check decides the structural clauses listed in DESIGN.md for this property (each a necessary condition "
        "of the behaviour), not the behavioural statement itself; idioms outside the enumerated set are reported as UNDECIDED and fail.")

# id -> (technique, level text, design ref)
CLAIMED = {
}
PENDING = {}

def load_table():
    path = os.path.join(HERE, "tools", "claims.json")
    with open(path) as f:
        return json.load(f)

def main():
    t = load_table()
    checks = []
    for pid in sorted(t["claimed"]):
        c = t["claimed"][pid]
        checks.append({
            "property_id": pid,
            "quick_cmd": "./run.sh %s quick" % pid,
            "thorough_cmd": "./run.sh %s thorough" % pid,
            "evidence_file": "/verif/evidence/%s.json" % pid,
            "replay_cmd_template": "./run.sh --replay {path}",
            "engine": "twcheck",
            "level_claimed": {"category": "other", "text": c["level_text"], "design_ref": c.get("design_ref", "DESIGN.md section 4 (%s)" % pid)},
            "level_note": c.get("level_note", NOTE),
            "technique": c["technique"],
        })
    na = [{"property_id": pid, "reason": t["not_applicable"][pid]} for pid in sorted(t["not_applicable"])]
    man = {
        "version": 1,
        "setup_cmd": "cd /verif/twcheck && GOFLAGS=-mod=mod GOPROXY=off GOSUMDB=off GOTOOLCHAIN=local GOWORK=off go build -o ../bin/twcheck .",
        "hooks": {
            "guard": "verif",
            "enable": "none needed: the checks are static and read /repo's working tree; thorough tier additionally loads the tree with -tags verif so that any guarded file is analysed too",
            "baseline_off_cmd": "cd /repo && go test -mod=mod -vet=off -count=1 -timeout 25m ./...",
            "source_commits": [],
            "add_only": True,
        },
        "engines": [{
            "name": "twcheck",
            "path": "/verif/twcheck",
            "serves_properties": sorted(t["claimed"]),
            "kind_free_text": "repository-specific static analyser (go/packages + go/ssa + VTA call graph, golang.org/x/tools v0.29.0): dominance/dataflow/table rules, one obligation per construct; never executes /repo code",
        }],
        "checks": checks,
        "not_applicable": na,
        "notes": t.get("notes", ""),
    }
    with open(os.path.join(HERE, "MANIFEST.json"), "w") as f:
        json.dump(man, f, indent=1)
        f.write("\n")
    try:
        import jsonschema
        jsonschema.validate(man, json.load(open("/root/.vp/MANIFEST.schema.json")))
        print("MANIFEST.json valid:", len(checks), "claimed,", len(na), "not_applicable")
    except ImportError:
        print("MANIFEST.json written (jsonschema not importable here)")

if __name__ == "__main__":
    main()
