#!/bin/sh
# seedrun.sh <seed> [prop]: runs the property's check on a scratch copy with the stored seed applied
s=$1; p=${2:-${s%-*}}; d=/tmp/scr-seed-$s; rm -rf $d; mkdir -p $d; cp -r /repo/. $d/; rm -rf $d/.git
(cd $d && patch -s -p1 < /verif/seeded/$s/patch.diff) || exit 2
/verif/bin/twcheck -prop $p -repo $d -verif /verif -no-evidence | grep -E "VIOLATED|UNDECIDED|^C[0-9][0-9]:" -A1 | cut -c1-400 | head -${3:-8}
rm -rf $d
