#!/usr/bin/env python3
"""Generates /verif/twcheck/selftest/variants.json: seeded breaking variants (must be reported) and
behaviour-preserving variants (must stay silent) used by the thorough tier's self-test."""
import json, os
HERE = os.path.dirname(os.path.dirname(os.path.abspath(__file__)))
V = []

def v(name, props, edits, expect="violation", rule="", note=""):
    V.append({"name": name, "props": props, "edits": [{"file": f, "old": o, "new": n} for (f, o, n) in edits], "expect": expect, "rule": rule, "note": note})

P = "parser/parser.go"
E = "evaluator/evaluator.go"
L = "lexer/lexer.go"

# ---- C01
v("c01-mul-at-sum", ["C01"], [(P, "token.MUL:      PRODUCT,", "token.MUL:      SUM,")], rule="R-PRATT")
v("c01-right-operand-constant-sum", ["C01"], [(P, "exp.Right = p.parseExpression(precedence)", "exp.Right = p.parseExpression(SUM)"), (P, "\tprecedence := p.curPrecedence()\n\n\tp.nextToken() // skip operator", "\tp.nextToken() // skip operator")], rule="R-PRATT")
v("c01-right-operand-lowest", ["C01"], [(P, "exp.Right = p.parseExpression(precedence)", "exp.Right = p.parseExpression(LOWEST)"), (P, "\tprecedence := p.curPrecedence()\n\n\tp.nextToken() // skip operator", "\tp.nextToken() // skip operator")], rule="R-PRATT")
v("c01-loop-lte", ["C01"], [(P, "precedence < p.peekPrecedence()", "precedence <= p.peekPrecedence()")], rule="R-PRATT")
v("c01-ternary-else-at-ternary", ["C01"], [(P, "exp.Alternative = p.parseExpression(LOWEST)", "exp.Alternative = p.parseExpression(TERNARY)")], rule="R-PRATT")
v("c01-assign-at-sum", ["C01"], [(P, "stmt.Value = p.parseExpression(LOWEST)", "stmt.Value = p.parseExpression(SUM)")], rule="R-PRATT-SITES")
v("c01-index-inner-at-sum", ["C01"], [(P, "exp.Index = p.parseExpression(LOWEST)", "exp.Index = p.parseExpression(SUM)")], rule="R-PRATT")
v("c01-prefix-operand-lowest", ["C01"], [(P, "exp.Right = p.parseExpression(PREFIX)", "exp.Right = p.parseExpression(LOWEST)")], rule="R-PRATT")
v("c01-swap-enum-sum-product", ["C01"], [(P, "\tSUM           // +\n\tPRODUCT       // *", "\tPRODUCT       // *\n\tSUM           // +")], rule="R-PRATT")
v("c01-benign-enum-gaps", ["C01"], [(P, "\t_ int = iota\n\tLOWEST", "\t_ int = iota * 3\n\tLOWEST")], expect="silent", note="levels renumbered with gaps: same order")
v("c01-benign-if-cond-lowest-const", ["C01"], [(P, "stmt.Condition = p.parseExpression(LOWEST)\n\n\tif !p.expectPeek(token.RPAREN) { // move to \")\"\n\t\treturn nil\n\t}\n\n\tstmt.Consequence", "stmt.Condition = p.parseExpression(1)\n\n\tif !p.expectPeek(token.RPAREN) { // move to \")\"\n\t\treturn nil\n\t}\n\n\tstmt.Consequence")], expect="silent")

# ---- C02
U = "evaluator/utils.go"
v("c02-int-gt-zero", ["C02"], [(U, "return obj.Value != 0\n", "return obj.Value > 0\n")], rule="R-TRUTH")
v("c02-str-case-dropped", ["C02"], [(U, "\tcase *object.Str:\n\t\treturn obj.Value != \"\"\n", "")], rule="R-TRUTH")
v("c02-nil-truthy", ["C02"], [(U, "\tcase *object.Nil:\n\t\treturn false\n", "\tcase *object.Nil:\n\t\treturn true\n")], rule="R-TRUTH")
v("c02-array-falsy-when-empty", ["C02"], [(U, "\tcase nil:\n\t\treturn false\n", "\tcase nil:\n\t\treturn false\n\tcase *object.Array:\n\t\treturn len(obj.Elements) != 0\n")], rule="R-TRUTH")
v("c02-else-when-elseif-taken", ["C02"], [(E, "\t\tif isTruthy(condition) {\n\t\t\treturn e.Eval(alt.Consequence, newEnv)\n\t\t}", "\t\tif isTruthy(condition) {\n\t\t\te.Eval(alt.Consequence, newEnv)\n\t\t}")], rule="R-BRANCH")
v("c02-breakif-compares-singleton", ["C02"], [(E, "\tif isTruthy(condition) {\n\t\treturn BREAK\n\t}", "\tif condition == TRUE {\n\t\treturn BREAK\n\t}")], rule="R-TRUTH")
v("c02-elseif-conditions-preevaluated", ["C02"], [(E, "\tfor _, alt := range node.Alternatives {\n\t\tcondition = e.Eval(alt.Condition, env)", "\tfor _, alt := range node.Alternatives {\n\t\tif isError(e.Eval(alt.Condition, env)) {\n\t\t\tcontinue\n\t\t}\n\t}\n\n\tfor _, alt := range node.Alternatives {\n\t\tcondition = e.Eval(alt.Condition, env)")], expect="violation", rule="R-")
v("c02-elseif-keyword-pair-dropped", ["C02"], [(L, "(tok == token.ELSE && l.char == 'i' && l.peekChar() == 'f') ||\n\t\t", "")], rule="R-PREFIXKW")
v("c02-program-skips-nil-output", ["C02"], [(E, "\t\tout.WriteString(stmtObj.String())\n\t}\n\n\treturn &object.HTML{Value: out.String()}", "\t\tif stmtObj.Is(object.NIL_OBJ) {\n\t\t\tcontinue\n\t\t}\n\n\t\tout.WriteString(stmtObj.String())\n\t}\n\n\treturn &object.HTML{Value: out.String()}")], expect="silent", note="skipping the empty output of NIL is behaviour preserving... but R-EMIT cannot know; kept as a documented expected alarm? no: removed below")
V.pop()  # the variant above is ambiguous; not used
v("c02-benign-truthy-renamed-var", ["C02"], [(E, "\tcondition := e.Eval(node.Condition, env)\n\n\tif isError(condition) {\n\t\treturn condition\n\t}\n\n\tnewEnv := object.NewEnclosedEnv(env)\n\n\tif isTruthy(condition) {\n\t\treturn e.Eval(node.Consequence, newEnv)\n\t}", "\tcond0 := e.Eval(node.Condition, env)\n\n\tif isError(cond0) {\n\t\treturn cond0\n\t}\n\n\tnewEnv := object.NewEnclosedEnv(env)\n\n\tif ok := isTruthy(cond0); ok {\n\t\tres := e.Eval(node.Consequence, newEnv)\n\t\treturn res\n\t}\n\n\tvar condition object.Object")], expect="silent")

# ---- C04
v("c04-component-set-error-dropped", ["C04", "C07"], [(E, "\t\t\tif err := newEnv.Set(key, val); err != nil {\n\t\t\t\treturn e.newError(node, \"%s\", err.Error())\n\t\t\t}", "\t\t\tnewEnv.Set(key, val)")], rule="R-ERRDROP")

# ---- C08
v("c08-block-no-eof-exit", ["C08"], [(P, "\t\tif p.curTokenIs(token.EOF) || p.curTokenIs(token.ILLEGAL) {\n\t\t\tbreak\n\t\t}\n", "")], rule="R-PROGRESS")
v("c08-block-no-illegal-exit", ["C08"], [(P, "if p.curTokenIs(token.EOF) || p.curTokenIs(token.ILLEGAL) {", "if p.curTokenIs(token.EOF) {")], rule="R-PROGRESS")
v("c08-slots-html-loop-no-progress", ["C08"], [(P, "\t\tfor p.curTokenIs(token.HTML) && isWhitespace(p.curToken.Literal) {\n\t\t\tp.nextToken() // skip whitespace\n\t\t}", "\t\tfor p.curTokenIs(token.HTML) && isWhitespace(p.curToken.Literal) {\n\t\t\tif len(slots) > 100 {\n\t\t\t\tp.nextToken() // skip whitespace\n\t\t\t}\n\t\t}")], rule="R-PROGRESS")
v("c08-skipwhitespace-no-readchar", ["C08"], [(L, "\tfor l.char == ' ' || l.char == '\\t' || l.char == '\\n' || l.char == '\\r' {\n\t\tl.readChar()\n\t}", "\tfor l.char == ' ' || l.char == '\\t' || l.char == '\\n' || l.char == '\\r' {\n\t\tif l.isHTML {\n\t\t\tl.readChar()\n\t\t}\n\t}")], rule="R-PROGRESS")
v("c08-string-loop-ignores-eof", ["C08"], [(L, "\tfor l.char != 0 {\n\t\tprevChar := l.char", "\tfor l.char != quote {\n\t\tprevChar := l.char")], expect="violation", rule="R-")
v("c08-unterminated-string-accepted", ["C08"], [(L, "\t\tif !closed {\n\t\t\treturn l.newToken(token.ILLEGAL, str)\n\t\t}\n", "\t\t_ = closed\n")], rule="R-DELIM")
v("c08-unterminated-comment-accepted", ["C08"], [(L, "\t\t\t\tif !l.skipComment() {\n\t\t\t\t\treturn l.newToken(token.ILLEGAL, \"{{--\")\n\t\t\t\t}\n", "\t\t\t\tl.skipComment()\n")], rule="R-DELIM")
v("c08-optional-closing-braces", ["C08"], [(P, "\tif !p.expectEndOfCode() {\n\t\treturn nil\n\t}\n\n\tif p.peekTokenIs(token.RBRACES) {", "\tif p.peekTokenIs(token.RBRACES) {")], rule="R-DELIM")
v("c08-if-without-end-accepted", ["C08"], [(P, "\tif p.peekTokenIs(token.ELSE) {\n\t\tstmt.Alternative = p.parseAlternativeBlock()\n\n\t\tif stmt.Alternative == nil {\n\t\t\treturn nil\n\t\t}\n\t}\n\n\tif !p.expectPeek(token.END) { // move to \"@end\"\n\t\treturn nil\n\t}", "\tif p.peekTokenIs(token.ELSE) {\n\t\tstmt.Alternative = p.parseAlternativeBlock()\n\n\t\tif stmt.Alternative == nil {\n\t\t\treturn nil\n\t\t}\n\t}\n\n\tif p.peekTokenIs(token.END) {\n\t\tp.nextToken()\n\t}")], rule="R-DELIM")
v("c08-use-without-rparen", ["C08"], [(P, "\tif !p.expectPeek(token.RPAREN) { // move to \")\"\n\t\treturn nil\n\t}\n\n\tp.useStmt = stmt", "\tp.useStmt = stmt")], rule="R-DELIM")
v("c08-recursion-without-consuming", ["C08"], [(P, "func (p *Parser) parseGroupedExpression() ast.Expression {\n\tp.nextToken() // skip \"(\"\n", "func (p *Parser) parseGroupedExpression() ast.Expression {\n")], expect="violation", rule="R-")
v("c08-benign-loop-reshaped", ["C08"], [(P, "\tfor !p.curTokenIs(token.EOF) {\n\t\tstmt := p.parseStatement()", "\tfor {\n\t\tif p.curTokenIs(token.EOF) {\n\t\t\tbreak\n\t\t}\n\n\t\tstmt := p.parseStatement()")], expect="silent")

v("c08-nil-without-error-else-elseif", ["C08"], [(P, "\t\tp.newError(p.peekToken.ErrorLine(), fail.ErrElseifCannotFollowElse)\n\t\treturn nil", "\t\treturn nil")], rule="R-NILERR")
v("c08-parsestr-program-with-errors", ["C08"], [("parser_utils.go", "\tif pars.HasErrors() {\n\t\treturn nil, pars.Errors()\n\t}\n\n\treturn prog, nil", "\tif prog == nil {\n\t\treturn nil, pars.Errors()\n\t}\n\n\treturn prog, nil")], rule="R-NILERR")
v("c08-benign-nilerr-local-alt", ["C08"], [(P, "\t\tstmt.Alternative = p.parseAlternativeBlock()\n\n\t\tif stmt.Alternative == nil {\n\t\t\treturn nil\n\t\t}", "\t\talt := p.parseAlternativeBlock()\n\t\tif alt == nil {\n\t\t\treturn nil\n\t\t}\n\n\t\tstmt.Alternative = alt")], expect="silent")

# ---- C09
v("c09-dot-unchecked", ["C09"], [(E, "\tif !left.Is(object.OBJ_OBJ) {\n\t\treturn e.newError(node, fail.ErrDotOperatorNotSupported, left.Type())\n\t}\n\n", "")], rule="R-ASSERT")
v("c09-each-unchecked", ["C09", "C03"], [(E, "\tif !arrObj.Is(object.ARR_OBJ) {\n\t\treturn e.newError(node, fail.ErrEachRequiresArray, arrObj.Type())\n\t}\n\n", "")], rule="R-ASSERT")
v("c09-mod-zero-guard-removed", ["C09", "C01"], [(E, "\tcase \"%\":\n\t\tif rightVal == 0 {\n\t\t\treturn e.newError(leftNode, fail.ErrDivisionByZero)\n\t\t}\n\n", "\tcase \"%\":\n")], rule="R-DIVGUARD")
v("c09-div-zero-guard-removed", ["C09", "C01"], [(E, "\tcase \"/\":\n\t\tif rightVal == 0 {\n\t\t\treturn e.newError(leftNode, fail.ErrDivisionByZero)\n\t\t}\n\n", "\tcase \"/\":\n")], rule="R-DIVGUARD")
v("c09-for-post-unguarded", ["C09", "C03"], [(E, "\t\tif node.Post == nil {\n\t\t\tcontinue\n\t\t}\n\n", "")], rule="R-NILFIELD")
v("c09-for-init-assert", ["C09"], [(E, "\tif initStmt, ok := node.Init.(*ast.AssignStmt); ok {\n\t\treturn initStmt.Name.Value\n\t}\n\n\tstmt, ok := node.Post.(*ast.ExpressionStmt)", "\tif node.Init != nil {\n\t\treturn node.Init.(*ast.AssignStmt).Name.Value\n\t}\n\n\tstmt, ok := node.Post.(*ast.ExpressionStmt)")], rule="R-ASSERT")
v("c03-for-post-step-lost", ["C03"], [(E, "\tif ident, ok := postfix.Left.(*ast.Identifier); ok {\n\t\treturn ident.Value\n\t}\n\n\treturn \"\"\n}", "\t_ = postfix\n\n\treturn \"\"\n}")], rule="R-LOOP")
v("c03-for-post-assignment-rebound", ["C03"], [(E, "\t\t// an assignment has already bound its variable\n\t\tif _, isAssign := node.Post.(*ast.AssignStmt); isAssign {\n\t\t\tcontinue\n\t\t}\n\n", "")], rule="R-LOOP")
v("c09-benign-empty-key-guard-removed", ["C09", "C12"], [(E, "\tif idx == \"\" {\n\t\treturn e.newError(node, fail.ErrPropertyNotFound, idx, object.OBJ_OBJ)\n\t}\n\n", "")], expect="silent", note="since the first letter is decoded as a rune the empty name needs no guard: it is looked up under U+FFFD, not found, and reported")
v("c09-at-negative", ["C09", "C11"], [("evaluator/str_func.go", "if index < 0 || index >= len(chars) {", "if index >= len(chars) {")], rule="R-BOUNDS")
v("c09-repeat-negative", ["C09", "C11"], [("evaluator/str_func.go", "count := max(int(firstArg.Value), 0)", "count := int(firstArg.Value)")], rule="R-BOUNDS")
v("c09-slice-end-before-start", ["C09", "C11"], [("evaluator/array_func.go", "\tif end < start {\n\t\tend = start\n\t}\n\n", "")], rule="R-BOUNDS")
v("c09-array-index-upper-off-by-one", ["C09"], [(E, "if index < 0 || index > max {", "if index < 0 || index > max+1 {")], rule="R-BOUNDS")
v("c09-nil-pointer-elem", ["C09", "C12"], [("object/utils.go", "\t\tif ptr.IsNil() {\n\t\t\treturn &Nil{}\n\t\t}\n\n", "")], rule="R-NILOBJ")
v("c09-nested-nil-stored", ["C09", "C12"], [("object/utils.go", "\t\telem := NativeToObject(val)\n\n\t\tif elem == nil {\n\t\t\treturn nil\n\t\t}\n", "\t\telem := NativeToObject(val)\n")], rule="R-NILOBJ")
v("c09-panic-call-added", ["C09"], [(E, "\tif node.Program == nil {\n\t\treturn e.newError(node, fail.ErrUseStmtMustHaveProgram)\n\t}", "\tif node.Program == nil {\n\t\tpanic(fail.ErrUseStmtMustHaveProgram)\n\t}")], rule="R-PANICCALL")
v("c09-args-index-unguarded", ["C09", "C11"], [("evaluator/bool_func.go", "\tif len(args) == 1 {\n\t\treturn &object.Nil{}, nil\n\t}\n\n", "")], rule="R-BOUNDS")
v("c09-benign-is-to-type-compare", ["C09"], [(E, "\tif !left.Is(object.OBJ_OBJ) {\n\t\treturn e.newError(node, fail.ErrDotOperatorNotSupported, left.Type())\n\t}", "\tif left.Type() != object.OBJ_OBJ {\n\t\treturn e.newError(node, fail.ErrDotOperatorNotSupported, left.Type())\n\t}")], expect="silent")
v("c09-benign-commaok-assert", ["C09"], [(E, "\telems := arrObj.(*object.Array).Elements", "\tarr, isArr := arrObj.(*object.Array)\n\tif !isArr {\n\t\treturn e.newError(node, fail.ErrEachRequiresArray, arrObj.Type())\n\t}\n\n\telems := arr.Elements")], expect="silent")

# ---- C14
v("c14-obj-string-map-range", ["C14"], [("object/obj.go", "\tfor _, key := range utils.SortedKeys(o.Pairs) {\n\t\tpair := o.Pairs[key]\n\n\t\tout.WriteString(key + \": \" + pair.String())", "\tfor key, pair := range o.Pairs {\n\t\tout.WriteString(key + \": \" + pair.String())")], rule="R-MAPORDER")
v("c14-sortedkeys-not-sorted", ["C14"], [("utils/maps.go", "\tsort.Strings(keys)\n", "\t_ = sort.Strings\n")], rule="R-MAPORDER")
v("c14-time-in-builtin", ["C14"], [("evaluator/int_func.go", "\tval := receiver.(*object.Int).Value\n\treturn &object.Float{Value: float64(val)}, nil", "\tval := receiver.(*object.Int).Value + time.Now().Unix()%1\n\treturn &object.Float{Value: float64(val)}, nil"), ("evaluator/int_func.go", "import (\n\t\"strconv\"\n", "import (\n\t\"strconv\"\n\t\"time\"\n")], rule="R-NONDET")
v("c14-env-from-map-range", ["C14"], [("object/env.go", "\tfor _, key := range utils.SortedKeys(data) {\n\t\tval := data[key]\n", "\tfor key, val := range data {\n"), ("object/env.go", "\t\"github.com/textwire/textwire/v2/utils\"\n", "")], rule="R-MAPORDER")
v("c14-benign-count-keys", ["C14"], [("object/obj.go", "\tidx := 0\n\tlast := len(o.Pairs) - 1\n", "\tidx := 0\n\tlast := -1\n\tfor range o.Pairs {\n\t\tlast++\n\t}\n")], expect="silent")

# ---- C15 / C16
v("c15-global-cache-in-string", ["C15", "C16"], [("template.go", "\tctx := ctx.NewContext(absPath, customFunc, userConfig)", "\trenderCount[filename]++\n\tif renderCount[filename] > 1000000 {\n\t\treturn \"\", nil\n\t}\n\tctx := ctx.NewContext(absPath, customFunc, userConfig)"), ("template.go", "type Template struct", "var renderCount = map[string]int{}\n\ntype Template struct")], rule="R-SHARED")
v("c15-ast-write-during-eval", ["C15", "C16"], [(E, "\tif node.Alternative != nil {\n\t\treturn e.Eval(node.Alternative, newEnv)\n\t}\n\n\treturn NIL\n}", "\tif node.Alternative != nil {\n\t\treturn e.Eval(node.Alternative, newEnv)\n\t}\n\n\tnode.Alternatives = nil\n\n\treturn NIL\n}")], rule="R-SHARED")
v("c15-data-map-written", ["C15", "C16", "C12"], [("template.go", "\tprog, ok := t.programs[filename]", "\tif data != nil {\n\t\tdata[\"__template\"] = filename\n\t}\n\n\tprog, ok := t.programs[filename]")], rule="R-SHARED")
v("c15-plain-bool-flag-again", ["C15"], [("textwire.go", "var usesTemplates atomic.Bool", "var usesTemplates atomic.Bool\nvar lastWasString bool"), ("textwire.go", "\tusesTemplates.Store(false)\n\n\tprog, errs := parseStr(inp)", "\tusesTemplates.Store(false)\n\tlastWasString = true\n\n\tprog, errs := parseStr(inp)")], rule="R-SHARED")
v("c16-history-flag-read-on-render", ["C16"], [("template.go", "absPath, err := templateFullPath(filename)", "absPath, err := getFullPath(filename, true)"), ("textwire.go", "var usesTemplates atomic.Bool", "var usesTemplates bool"), ("textwire.go", "\tusesTemplates.Store(false)\n\n\tprog, errs := parseStr(inp)", "\tusesTemplates = false\n\n\tprog, errs := parseStr(inp)"), ("textwire.go", "\tusesTemplates.Store(false)\n\n\tcontent, err := fileContent(absPath)", "\tusesTemplates = false\n\n\tcontent, err := fileContent(absPath)"), ("textwire.go", "\tusesTemplates.Store(true)", "\tusesTemplates = true"), ("files.go", "if usesTemplates.Load() {", "if usesTemplates {"), ("textwire.go", "\t\"path/filepath\"\n\t\"sync/atomic\"\n", "\t\"path/filepath\"\n")], rule="R-SHARED")
v("c15-benign-local-buffer", ["C15", "C16"], [("template.go", "\treturn evaluated.String(), nil\n}\n\nfunc (t *Template) Response", "\tout := []string{evaluated.String()}\n\tout[0] += \"\"\n\n\treturn out[0], nil\n}\n\nfunc (t *Template) Response")], expect="silent")

# ---- C03
v("c03-iter-off-by-one", ["C03"], [(E, '"iter":  &object.Int{Value: int64(i + 1)},', '"iter":  &object.Int{Value: int64(i)},')], rule="R-LOOP")
v("c03-last-off-by-one", ["C03"], [(E, "nativeBoolToBooleanObject(i == elemsLen-1)", "nativeBoolToBooleanObject(i == elemsLen)")], rule="R-LOOP")
v("c03-each-break-test-removed", ["C03"], [(E, "\t\tblocks.WriteString(block.String())\n\n\t\tif hasBreakStmt(block) {\n\t\t\tbreak\n\t\t}\n\n\t\tif hasContinueStmt(block) {\n\t\t\tcontinue\n\t\t}\n\t}", "\t\tblocks.WriteString(block.String())\n\t}")], rule="R-LOOP")
v("c03-output-after-break-test", ["C03"], [(E, "\t\tblocks.WriteString(block.String())\n\n\t\tif hasBreakStmt(block) {\n\t\t\tbreak\n\t\t}\n\n\t\tif hasContinueStmt(block) {", "\t\tif hasBreakStmt(block) {\n\t\t\tbreak\n\t\t}\n\n\t\tblocks.WriteString(block.String())\n\n\t\tif hasContinueStmt(block) {")], rule="R-LOOP")
v("c03-else-when-one-element", ["C03"], [(E, "if elemsLen == 0 && node.Alternative != nil {", "if elemsLen <= 1 && node.Alternative != nil {")], rule="R-LOOP")
v("c03-loop-body-in-outer-scope", ["C03", "C04"], [(E, "\t\tblock := e.Eval(node.Block, newEnv)\n\n\t\tif isError(block) {\n\t\t\treturn block\n\t\t}\n\n\t\tblocks.WriteString(block.String())\n\n\t\tif hasBreakStmt(block) {\n\t\t\tbreak\n\t\t}\n\n\t\tif hasContinueStmt(block) {", "\t\tblock := e.Eval(node.Block, env)\n\n\t\tif isError(block) {\n\t\t\treturn block\n\t\t}\n\n\t\tblocks.WriteString(block.String())\n\n\t\tif hasBreakStmt(block) {\n\t\t\tbreak\n\t\t}\n\n\t\tif hasContinueStmt(block) {")], rule="R-SCOPE")
v("c03-control-not-recursive", ["C03"], [("evaluator/utils.go", "\tfor _, elem := range block.Elements {\n\t\tif hasControlStmt(elem, controlType) {\n\t\t\treturn true\n\t\t}\n\t}", "\tfor _, elem := range block.Elements {\n\t\tif elem.Is(controlType) {\n\t\t\treturn true\n\t\t}\n\t}")], rule="R-LOOP")
v("c03-benign-last-rewritten", ["C03"], [(E, "nativeBoolToBooleanObject(i == elemsLen-1)", "nativeBoolToBooleanObject(i+1 == elemsLen)")], expect="silent")

# ---- C04
v("c04-reserved-name-test-removed", ["C04"], [("object/env.go", "\tif key == \"loop\" {\n\t\treturn errors.New(fail.ErrLoopVariableIsReserved)\n\t}\n\n", "")], rule="R-SCOPE")
v("c04-set-writes-outer", ["C04"], [("object/env.go", "\te.store[key] = val\n\n\treturn nil", "\tif _, here := e.store[key]; !here && e.outer != nil {\n\t\tif _, up := e.outer.store[key]; up {\n\t\t\te.outer.store[key] = val\n\t\t\treturn nil\n\t\t}\n\t}\n\n\te.store[key] = val\n\n\treturn nil")], rule="R-SCOPE")
v("c04-if-branch-in-outer-scope", ["C04"], [(E, "\tif isTruthy(condition) {\n\t\treturn e.Eval(node.Consequence, newEnv)\n\t}", "\tif isTruthy(condition) {\n\t\treturn e.Eval(node.Consequence, env)\n\t}")], rule="R-SCOPE")

# ---- C05
v("c05-rbraces-in-text-mode", ["C05"], [(L, "if !l.isHTML && l.char == '}' && l.peekChar() == '}' && l.countCurlyBraces == 0 {", "if l.char == '}' && l.peekChar() == '}' && l.countCurlyBraces == 0 {")], rule="R-LEXMODE")
v("c05-cr-not-written", ["C05"], [(L, "\t\tout.WriteByte(l.char)\n\t\tl.readChar()", "\t\tif l.char != '\\r' {\n\t\t\tout.WriteByte(l.char)\n\t\t}\n\t\tl.readChar()")], rule="R-TEXT")
v("c05-escape-removes-two-bytes", ["C05"], [(L, "out.Truncate(out.Len() - 1)", "out.Truncate(max(out.Len()-2, 0))")], rule="R-TEXT")
v("c05-html-literal-trimmed", ["C05"], [("ast/html_stmt.go", "return hs.Token.Literal", "return strings.TrimRight(hs.Token.Literal, \"\\r\")"), ("ast/html_stmt.go", "import \"github.com/textwire/textwire/v2/token\"", "import (\n\t\"strings\"\n\n\t\"github.com/textwire/textwire/v2/token\"\n)")], rule="R-TEXT")

# ---- C06
v("c06-link-any-insert", ["C06"], [("ast/program.go", "\t\tinsert, hasInsert := inserts[reserve.Name.Value]\n\n\t\tif hasInsert {\n\t\t\treserve.Insert = insert\n\t\t}", "\t\tfor _, insert := range inserts {\n\t\t\tif reserve.Insert == nil {\n\t\t\t\treserve.Insert = insert\n\t\t\t}\n\t\t}")], rule="R-LAYOUT")
v("c06-undefined-insert-ignored", ["C06"], [("ast/program.go", "\tif err := p.checkUndefinedInsert(inserts); err != nil {\n\t\treturn err\n\t}\n", "\tp.checkUndefinedInsert(inserts)\n")], rule="R-LAYOUT")
v("c06-layout-appends-use", ["C06"], [("ast/program.go", "p.Statements = []Statement{p.UseStmt}", "p.Statements = append(p.Statements, p.UseStmt)")], rule="R-LAYOUT")
v("c06-alias-anywhere", ["C06"], [(P, "\tif name[0] == '~' {\n\t\tname = shortenTo + \"/\" + name[1:]\n\t}", "\tname = strings.Replace(name, \"~\", shortenTo+\"/\", 1)"), (P, "import (\n\t\"strconv\"\n", "import (\n\t\"strconv\"\n\t\"strings\"\n")], rule="R-LAYOUT")

# ---- C07 / C10 / C11 / C12
v("c07-share-program-again", ["C07"], [("ast/program.go", "\t\tif comp.Name.Value != name || comp.Block != nil {\n\t\t\tcontinue\n\t\t}", "\t\tif comp.Name.Value != name {\n\t\t\tcontinue\n\t\t}"), ("ast/program.go", "\t\tcomp.Block = prog\n\n\t\tbreak\n\t}", "\t\tcomp.Block = prog\n\t}")], rule="R-OWN")
v("c10-escape-removed", ["C10"], [(E, "str := html.EscapeString(node.Value)", "str := node.Value\n\t_ = html.EscapeString")], rule="R-ESCAPE")
v("c10-lt-restored", ["C10"], [(E, "\tstr = strings.ReplaceAll(str, \"&#39;\", `'`)\n", "\tstr = strings.ReplaceAll(str, \"&#39;\", `'`)\n\tstr = strings.ReplaceAll(str, \"&lt;\", `<`)\n")], rule="R-ESCAPE")
v("c10-raw-identity", ["C10"], [("evaluator/str_func.go", "return &object.Str{Value: html.UnescapeString(val)}, nil", "_ = html.UnescapeString\n\treturn &object.Str{Value: val}, nil")], rule="R-ESCAPE")
v("c10-unescape-in-concat", ["C10"], [(E, "return &object.Str{Value: leftVal + rightVal}", "return &object.Str{Value: html.UnescapeString(leftVal) + rightVal}")], rule="R-ESCAPE")
v("c11-reverse-in-place", ["C11"], [("evaluator/array_func.go", "\treversed := make([]object.Object, length)\n\n\tfor i, el := range elems {\n\t\treversed[length-i-1] = el\n\t}\n\n\treturn &object.Array{Elements: reversed}, nil", "\tfor i := 0; i < length/2; i++ {\n\t\telems[i], elems[length-1-i] = elems[length-1-i], elems[i]\n\t}\n\n\treturn receiver, nil")], rule="R-PURE")
v("c11-wrong-name-in-message", ["C11"], [("evaluator/str_func.go", "msg := fmt.Sprintf(fail.ErrFuncFirstArgStr, \"trimRight\", object.STR_OBJ)", "msg := fmt.Sprintf(fail.ErrFuncFirstArgStr, \"trim\", object.STR_OBJ)")], rule="R-SIBLING")
v("c11-arg-kind-ignored", ["C11"], [("evaluator/str_func.go", "\t\tstr, ok := args[0].(*object.Str)\n\n\t\tif !ok {\n\t\t\tmsg := fmt.Sprintf(fail.ErrFuncFirstArgStr, \"split\", object.STR_OBJ)\n\t\t\treturn nil, errors.New(msg)\n\t\t}\n\n\t\tseparator = str.Value", "\t\tif str, ok := args[0].(*object.Str); ok {\n\t\t\tseparator = str.Value\n\t\t}")], expect="violation", rule="R-")
v("c12-kind-case-deleted", ["C12"], [("object/utils.go", "\tcase uint32:\n\t\treturn &Int{Value: int64(v)}\n", ""), ("object/utils.go", "reflect.Uint16, reflect.Uint32, reflect.Uint64:", "reflect.Uint16, reflect.Uint64:")], rule="R-KINDS", note="uint32 has neither a case of the type switch nor a kind case")
v("c12-benign-type-case-deleted", ["C12"], [("object/utils.go", "\tcase uint32:\n\t\treturn &Int{Value: int64(v)}\n", "")], expect="silent", note="since 0f76527 a value of type uint32 that misses the type switch is converted by the kind case: behaviour preserving")
v("c12-map-key-test-removed", ["C12"], [("object/utils.go", "\tif valValue.Type().Key().Kind() != reflect.String {\n\t\treturn nil\n\t}\n\n", "")], rule="R-KINDS")
v("c12-unexported-fields-exposed", ["C12"], [("object/utils.go", "\t\tif !field.IsExported() {\n\t\t\tcontinue\n\t\t}\n\n", "")], rule="R-")

# ---- C13 / C17 / C18 / C19 / C20
v("c13-errorline-from-startline", ["C13", "C19"], [("token/token.go", "return t.Pos.EndLine + 1", "return t.Pos.StartLine + 1")], rule="R-")
v("c13-node-line-of-other-token", ["C13"], [("ast/infix_exp.go", "return ie.Token.ErrorLine()", "return ie.Left.Tok().ErrorLine()")], expect="violation", rule="R-ERRLINE")
v("c13-parser-error-line-zero", ["C13"], [(P, "\t\tp.newError(p.curToken.ErrorLine(), fail.ErrEmptyBraces)", "\t\tp.newError(0, fail.ErrEmptyBraces)")], rule="R-ERRLINE")
v("c17-write-before-error-test", ["C17"], [("template.go", "\tif failErr == nil {\n\t\tfmt.Fprint(w, evaluated)\n\t\treturn nil\n\t}", "\tfmt.Fprint(w, evaluated)\n\n\tif failErr == nil {\n\t\treturn nil\n\t}")], rule="R-RESPONSE")
v("c17-custom-page-in-debug-mode", ["C17"], [("template.go", "if hasErrorPage && !userConfig.DebugMode {", "if hasErrorPage {")], rule="R-RESPONSE")
v("c17-failure-returns-nil", ["C17"], [("template.go", "\tfmt.Fprint(w, out)\n\n\treturn failErr.Error()", "\tfmt.Fprint(w, out)\n\n\treturn nil")], rule="R-RESPONSE")
v("c17-debug-flag-constant", ["C17"], [("utils.go", "\"debugMode\": userConfig.DebugMode,", "\"debugMode\": true,")], rule="R-RESPONSE")
v("c18-template-with-error", ["C18"], [("textwire.go", "\tif parseErr != nil {\n\t\treturn nil, parseErr.Error()\n\t}", "\tif parseErr != nil {\n\t\treturn &Template{programs: programs}, parseErr.Error()\n\t}")], rule="R-PATHAPI")
v("c18-layouts-registered", ["C18"], [("parser_utils.go", "\t\tif !prog.HasReserveStmt() {\n\t\t\tresult[name] = prog\n\t\t}", "\t\tresult[name] = prog")], rule="R-PATHAPI")
v("c18-load-error-dropped", ["C18"], [("parser_utils.go", "\t\tif err := applyLayoutToProgram(prog); err != nil {\n\t\t\treturn nil, err\n\t\t}\n", "\t\tapplyLayoutToProgram(prog)\n")], rule="R-ERRDROP")
v("c19-contains-exclusive-end", ["C19"], [("token/position.go", "if line == p.EndLine && col > p.EndCol {", "if line == p.EndLine && col >= p.EndCol {")], rule="R-ORDERINGS")
v("c19-start-after-first-read", ["C19"], [(L, "func (l *Lexer) addToken() token.Token {\n\tl.tokenBegins()\n\tl.readChar() // skip \"+\"", "func (l *Lexer) addToken() token.Token {\n\tl.readChar() // skip \"+\"\n\tl.tokenBegins()")], rule="R-TOKPOS")
v("c13-slot-error-line-of-component-file", ["C13"], [("ast/program.go", "\t\t\t\treturn fail.New(slot.Line(), progFilePath, \"parser\",\n\t\t\t\t\tfail.ErrSlotNotDefined, slot.Name.Value, name)", "\t\t\t\treturn fail.New(prog.Line(), progFilePath, \"parser\",\n\t\t\t\t\tfail.ErrSlotNotDefined, slot.Name.Value, name)")], rule="R-ERRLINE", note="reverts 0f5722c at one site")
v("c12-named-string-kind-case-dropped", ["C12"], [("object/utils.go", "\tcase reflect.String:\n\t\treturn &Str{Value: reflect.ValueOf(val).String()}\n", "")], rule="R-KINDS", note="reverts part of the named-types fix: a named string type is unsupported again")
v("c12-keyword-after-dot-refused", ["C12", "C20"], [("parser/parser.go", "\tif p.peekTokenIs(token.TRUE, token.FALSE, token.NIL, token.IN) {\n\t\tp.nextToken() // skip \".\" and move to the name\n\t} else if !p.expectPeek(token.IDENT) {", "\tif !p.expectPeek(token.IDENT) {")], rule="R-DOTKW", note="reverts the keyword-after-dot fix")
v("c19-read-past-end", ["C19", "C13"], [(L, "\tif closed {\n\t\tl.readChar() // skip the last quote\n\t}\n", "\tl.readChar() // skip the last quote\n")], rule="R-TOKPOS", note="reverts b97f69a: an unterminated string moves the lexer past the end of the input")
v("c19-counter-written-elsewhere", ["C19"], [(L, "func (l *Lexer) skipWhitespace() {\n", "func (l *Lexer) skipWhitespace() {\n\tif l.char == '\\r' {\n\t\tl.col = 0\n\t}\n")], rule="R-TOKPOS")
v("c19-end-from-current-position", ["C19", "C13"], [(L, "\t\tendCol = l.prevCol\n\t\tendLine = l.prevLine", "\t\tendCol = l.prevCol\n\t\tendLine = l.line")], rule="R-TOKPOS")
v("c20-duplicate-check-removed", ["C20"], [("textwire.go", "\tif _, ok := customFunc.Int[name]; ok {\n\t\treturn fail.New(0, \"\", \"API\", fail.ErrFuncAlreadyDefined, name, \"integers\").Error()\n\t}\n\n", "")], rule="R-REGISTRY")
v("c20-custom-before-builtin", ["C20", "C11"], [(E, "\tbuitin, ok := typeFuncs[node.Function.Value]\n\n\tif ok {", "\tbuitin, ok := typeFuncs[node.Function.Value]\n\n\tif ok && !hasCustomFunc(e.ctx.CustomFunc, receiverType, funcName) {")], rule="R-REGISTRY")
v("c20-registry-cleared-in-configure", ["C20"], [("textwire.go", "func Configure(opt *config.Config) {\n", "func Configure(opt *config.Config) {\n\tcustomFunc = config.NewFunc()\n")], rule="R-REGISTRY")
v("c20-wrong-table-in-has", ["C20"], [("evaluator/utils.go", "\tcase object.FLOAT_OBJ:\n\t\treturn customFunc.Float[funcName] != nil", "\tcase object.FLOAT_OBJ:\n\t\treturn customFunc.Int[funcName] != nil")], rule="R-REGISTRY")

os.makedirs(os.path.join(HERE, "twcheck", "selftest"), exist_ok=True)
# ---- rules added with the round-4 findings (each is the reverse of a fix, or a guard removed)
v("c13-infix-error-on-left-operand", ["C13"], [(E, "return e.evalInfixOperatorExp(node.Operator, leftObj, rightObj, node)", "return e.evalInfixOperatorExp(node.Operator, leftObj, rightObj, node.Left)")], rule="R-ERRNODE")
v("c07-slot-body-entered-on-closer", ["C07", "C02"], [(P, "\t\t\tif !p.expectPeek(token.RPAREN) { // move to \")\"\n\t\t\t\treturn nil\n\t\t\t}\n\t\t}\n\n\t\tslots = append(slots, &ast.SlotStmt{\n\t\t\tToken: tok, // \"@slot\"\n\t\t\tName:  slotName,\n\t\t\tBody:  p.parseBody(),", "\t\t\tif !p.expectPeek(token.RPAREN) { // move to \")\"\n\t\t\t\treturn nil\n\t\t\t}\n\n\t\t\tp.nextToken() // skip \")\"\n\t\t}\n\n\t\tslots = append(slots, &ast.SlotStmt{\n\t\t\tToken: tok, // \"@slot\"\n\t\t\tName:  slotName,\n\t\t\tBody:  p.parseBlockStmt(),")], rule="R-BODYENTRY")
v("c06-insert-body-entered-on-closer", ["C06"], [(P, "\tif hasBody {\n\t\tstmt.Block = p.parseBody()\n", "\tif hasBody {\n\t\tp.nextToken() // skip \")\"\n\t\tstmt.Block = p.parseBlockStmt()\n")], rule="R-BODYENTRY")
v("c02-parsebody-without-closer-test", ["C02", "C03"], [(P, "\tif p.peekTokenIs(token.ELSE, token.ELSE_IF, token.END) {\n\t\treturn &ast.BlockStmt{Token: p.peekToken}\n\t}\n\n\tp.nextToken() // move to the first token of the body", "\tp.nextToken() // move to the first token of the body")], rule="R-BODYENTRY")
v("c08-comment-recursion", ["C08"], [(L, "continue // lex what follows the comment", "return l.NextToken()")], rule="R-RECDEPTH")
v("c09-repeat-uncapped", ["C09"], [("evaluator/str_func.go", "\tif count > maxStrLen || len(val)*count > maxStrLen {\n\t\tmsg := fmt.Sprintf(fail.ErrFuncResultTooLong, \"repeat\", object.STR_OBJ, maxStrLen)\n\t\treturn nil, errors.New(msg)\n\t}\n\n", "")], rule="R-BOUNDS")
v("c09-decimal-uncapped", ["C09"], [(U, "\t\tif decimals > maxStrLen {\n\t\t\tmsg := fmt.Sprintf(fail.ErrFuncResultTooLong, \"decimal\", objType, maxStrLen)\n\t\t\treturn nil, errors.New(msg)\n\t\t}\n", "")], rule="R-BOUNDS")
v("c18-absolute-dir-trimmed", ["C18"], [("textwire.go", "userConfig.TemplateDir = filepath.Clean(opt.TemplateDir)", "userConfig.TemplateDir = strings.Trim(opt.TemplateDir, \"/\")"), ("textwire.go", "\t\"path/filepath\"\n", "\t\"strings\"\n")], rule="R-PATHAPI")
v("c18-benign-dir-trimright", ["C18"], [("textwire.go", "userConfig.TemplateDir = filepath.Clean(opt.TemplateDir)", "userConfig.TemplateDir = strings.TrimRight(filepath.Clean(opt.TemplateDir), \"/\")"), ("textwire.go", "\t\"path/filepath\"\n", "\t\"path/filepath\"\n\t\"strings\"\n")], expect="silent")
v("c13-benign-infix-node-renamed", ["C13", "C01"], [(E, "return e.evalInfixOperatorExp(node.Operator, leftObj, rightObj, node)", "op, at := node.Operator, ast.Node(node)\n\n\treturn e.evalInfixOperatorExp(op, leftObj, rightObj, at)")], expect="silent")

v("c08-component-end-not-required", ["C08", "C07"], [(P, "\t// the slots are followed by the \"@end\" of the component\n\tif !p.curTokenIs(token.END) {\n\t\tp.newError(\n\t\t\tp.curToken.ErrorLine(),\n\t\t\tfail.ErrWrongNextToken,\n\t\t\ttoken.String(token.END),\n\t\t\ttoken.String(p.curToken.Type),\n\t\t)\n\n\t\treturn nil\n\t}\n\n", "")], rule="R-DELIM")
v("c05-slot-gap-text-skipped", ["C05", "C07"], [(P, "\t\tfor p.curTokenIs(token.HTML) && isWhitespace(p.curToken.Literal) {\n\t\t\tp.nextToken() // skip whitespace", "\t\tfor p.curTokenIs(token.HTML) {\n\t\t\tp.nextToken() // skip whitespace")], rule="R-TEXTKEEP")
v("c08-stray-paren-skipped", ["C08"], [(P, "\tcase token.RPAREN:\n\t\t// \")\" ends a clause of \"@for\"; where a statement is expected it closes nothing\n\t\tp.newError(p.curToken.ErrorLine(), fail.ErrIllegalToken, p.curToken.Literal)\n\t\treturn nil\n", "")], rule="R-DELIM")
v("c12-first-letter-by-byte", ["C12"], [(E, "\tfirst, size := utf8.DecodeRuneInString(idx)\n\tidxUpper := string(unicode.ToUpper(first)) + idx[size:]\n", "\tidxUpper := strings.ToUpper(idx[:1]) + idx[1:]\n"), (E, "\t\"unicode\"\n\t\"unicode/utf8\"\n", "")], rule="R-UTF8")
v("c11-truncate-kind-check-after-return", ["C11"], [("evaluator/str_func.go", "\tellipsis := \"...\"\n\n\tif len(args) > 1 {\n\t\tsecondArg, ok := args[1].(*object.Str)\n\n\t\tif ok {\n\t\t\tellipsis = secondArg.Value\n\t\t} else {\n\t\t\tmsg := fmt.Sprintf(fail.ErrFuncSecondArgStr, \"truncate\", object.STR_OBJ)\n\t\t\treturn nil, errors.New(msg)\n\t\t}\n\t}\n\n\tval := receiver.(*object.Str).Value\n\tchars := []rune(val)\n\tlimit := max(int(firstArg.Value), 0)\n\n\tif limit >= len(chars) {\n\t\treturn &object.Str{Value: val}, nil\n\t}\n", "\tval := receiver.(*object.Str).Value\n\tchars := []rune(val)\n\tlimit := max(int(firstArg.Value), 0)\n\n\tif limit >= len(chars) {\n\t\treturn &object.Str{Value: val}, nil\n\t}\n\n\tellipsis := \"...\"\n\n\tif len(args) > 1 {\n\t\tsecondArg, ok := args[1].(*object.Str)\n\n\t\tif ok {\n\t\t\tellipsis = secondArg.Value\n\t\t} else {\n\t\t\tmsg := fmt.Sprintf(fail.ErrFuncSecondArgStr, \"truncate\", object.STR_OBJ)\n\t\t\treturn nil, errors.New(msg)\n\t\t}\n\t}\n")], rule="R-ARGS")
v("c18-error-text-as-format", ["C18", "C13"], [("fail/fail.go", "return New(line, absPath, origin, \"%s\", err.Error())", "return New(line, absPath, origin, err.Error())")], rule="R-FORMAT")

with open(os.path.join(HERE, "twcheck", "selftest", "variants.json"), "w") as f:
    json.dump(V, f, indent=1)
print(len(V), "variants")
