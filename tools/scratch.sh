#!/bin/sh
# scratch.sh <diff> : scratch copy of /repo with the diff applied at /tmp/scr-<name> (caller removes it)
p=$(realpath "$1"); n=$(basename "$1" .diff); d=/tmp/scr-$n; rm -rf "$d"; mkdir -p "$d"; cp -r /repo/. "$d"/; rm -rf "$d/.git"
(cd "$d" && patch -s -p1 < "$p") && echo "$d"
