#!/bin/sh
# re-runs every stored seeded change against the current checks (8 at a time) and rewrites meta.json; prints one line per seed and a summary
cd /verif
tmp=$(mktemp -d /tmp/seeds-all.XXXXXX)
ls -d seeded/*/ | xargs -P 8 -I{} sh -c 'n=$(basename {}); id=${n%-*}; k=${n#*-}; python3 tools/seeded_check.py $id $k > '"$tmp"'/$n.txt 2>&1'
tot=0; det=0
for f in "$tmp"/*.txt; do
  n=$(basename $f .txt); tot=$((tot+1))
  if grep -q "on changed tree: exit 1" $f && grep -q CONFIRMED $f; then det=$((det+1)); echo "$n detected"; else echo "$n NOT DETECTED: $(grep -E 'CONFIRMED|check C|FAIL' $f | tr '\n' ' ' | cut -c1-200)"; fi
done
echo "seeds: $det of $tot detected"
rm -rf "$tmp"
