#!/bin/sh
# re-runs every stored seeded change against the current checks and rewrites meta.json
cd /verif
for d in seeded/*/; do
  n=$(basename $d); id=${n%-*}; k=${n#*-}
  echo "== $n"
  python3 tools/seeded_check.py $id $k 2>&1 | grep -E "CONFIRMED|check C" | cut -c1-160
done
