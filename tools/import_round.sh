#!/bin/sh
# import_round.sh <offset> Cxx... : takes a round's sub-agent output (change1/2 in /tmp/wt/out-cxx) as seeds offset+1, offset+2;
# confirms each (build, suite, demonstration) and runs the property's check on it
cd /verif
off=$1; shift
for id in "$@"; do
  low=$(echo $id | tr 'C' 'c'); o=/tmp/wt/out-$low
  for k in 1 2; do
    n=$((k+off))
    [ -f $o/change$k.diff ] || { echo "$id-$n: no change$k.diff"; continue; }
    mkdir -p /tmp/wt/imp-$low; cp $o/change$k.diff /tmp/wt/imp-$low/change$n.diff; cp $o/demo${k}_test.go /tmp/wt/imp-$low/demo${n}_test.go; cp $o/change$k.md /tmp/wt/imp-$low/change$n.md 2>/dev/null
    echo "== $id-$n"
    SEED_SRC=/tmp/wt/imp-$low python3 tools/seeded_check.py $id $n 2>&1 | grep -E "CONFIRMED|check C|VIOLATED|UNDECIDED" | cut -c1-220
  done
done
