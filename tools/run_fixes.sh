#!/bin/sh
# Runs the demonstration tests of the repaired defects (documentation, not a registered check) against /repo's working tree:
# fixes/*.go use the public API from their own module, fixes/inpkg/*.go are copied into a scratch copy of the repository.
export GOFLAGS=-mod=mod GOPROXY=off GOSUMDB=off GOTOOLCHAIN=local
unset GOWORK
cd "$(dirname "$0")/.."
tmp=$(mktemp -d /tmp/run-fixes.XXXXXX)
trap 'rm -rf "$tmp"' EXIT
cp -r fixes "$tmp/demo"; rm -rf "$tmp/demo/inpkg"; cp /repo/go.sum "$tmp/demo/" 2>/dev/null
(cd "$tmp/demo" && go test -vet=off -count=1 . 2>&1 | tail -15)
rsync -a --exclude .git /repo/ "$tmp/repo/"; cp fixes/inpkg/*.go "$tmp/repo/"
(cd "$tmp/repo" && go test -vet=off -count=1 . 2>&1 | tail -15)
