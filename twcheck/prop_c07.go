package main

import "golang.org/x/tools/go/ssa"

func init() {
	register(&PropInfo{
		ID:    "C07",
		Title: "Each @component use renders the component file with its own arguments and slots",
		Rules: []string{
			"R-SHARED (load history): nothing a load writes is read by a later load, except the configuration",
			"R-DELIM (brace nesting): where the lexer builds a { or } token the nesting counter is stepped on every path",
			"R-LOADERR: a failure while parsing and linking the templates ends NewTemplate with that error (not kept for later)",
			"R-LOADALL: in the loader's loop a program is registered only after both linkers ran (must-pass-through), and a pass ends by registering, by failing or over the HasReserveStmt() edge",
			"R-EMIT (empty slot by cases): Eval of a slot statement without a passed body, scope unknown, is the nil object",
			"R-KEEP: a node a parse function returns is stored, passed on or returned on every path of its caller to a successful return",
			"R-SLOTIDX: the placeholder lookup of package ast, by cases: named and default placeholders are found at their positions (position 0 included), other names are not found",
			"R-WALK: a recursive walk of the parsed tree (the evaluator; a collector of components or inserts) that reads one parser-filled statement-holding field of a node type reads all of them (@each has a body and an @else)",
			"R-LAYOUT (alias) / R-EMIT: ~ expands to components/ only as the first character; evalProgram evaluates and emits every statement on every evaluation",
			"R-DIRMODE: after each directive, followed by `(`, by another character and by a blank and `(`, the lexer is in the mode the directive's grammar asks for (case evaluation of directiveToken on real lexer states)",
			"R-BODYENTRY: every caller of the block parser, evaluated by cases on an abstract parser (token types as named unknowns), enters it only on a token it has looked at and that is not END / ELSE / ELSE_IF — an empty body is an empty block, not the enclosing construct's closer",
			"R-OWN: a parsed component program is stored into the Block of one use only (a loop-invariant program stored into loop-varying uses must leave the loop), the loader passes a freshly parsed program per use, ApplyComponent serves a use that has no program yet; a missing component file is reported with the component's name",
			"R-SCOPE: component arguments are evaluated in the caller's scope and bound through Set in a fresh enclosed scope in which the block is evaluated",
			"R-ERRDROP / R-NILFIELD on evalComponentStmt, evalSlotStmt and the loader functions: binding errors are returned; Block, Argument and slot Body are nil-tested",
			"R-DELIM: @component(...) and @slot bodies must be closed",
			"R-SLOTGAP: wherever the component-use parser steps over a text token on its way to a @slot, the step is the body of a loop on that very test (a comment splits a run of text into two tokens)",
			"R-PATHAPI: the file of a component name is <template dir>/<name><extension>, whatever the name looks like",
		},
		Decided:     "TODO",
		NotDecided:  "TODO",
		Assumptions: trustedBase,
		Run: func(m *Model, s *Sink) {
			m.RunSharedWrites(s, "R-SHARED", m.Roots().Load, "history", map[string]string{
				"textwire.userConfig":    "NewTemplate/Configure install the caller's configuration (documented, sticky by design)",
				"textwire.usesTemplates": "NewTemplate switches the package to template mode",
			}) // what one load leaves behind must not reach the next: a component file is read when the templates are loaded
			m.RunBraceCount(s, "R-DELIM")    // the argument of a use is an object literal: nested closing braces are not the end of code
			m.RunLoadErr(s, "R-LOADERR")     // what is wrong with a use is reported when the templates are loaded: a failure of the load ends NewTemplate with an error
			m.RunLoadAll(s, "R-LOADALL")     // a page that uses a layout and components has both linked
			m.RunSlotNilCase(s, "R-EMIT")    // a placeholder the caller passed nothing for renders nothing, whatever variables are visible
			m.RunKeepParsed(s, "R-KEEP")     // every slot and body that was parsed is in the tree
			m.RunSlotIndex(s, "R-SLOTIDX")   // a slot body goes to the placeholder of its name wherever it stands (also as the first statement)
			m.RunWalk(s, "R-WALK")           // a walk that descends into a construct descends into all of it
			m.RunEmit(s, "R-EMIT")           // every statement of a component program is evaluated for every use
			m.RunLayout(s, "R-LAYOUT")       // ~ expands only as the first character of a component name
			m.RunTextSkip(s, "R-TEXTKEEP")   // text between slots is whitespace, or an error
			m.RunSlotListEnd(s, "R-DELIM")   // a component use with slots is closed by its own @end
			m.RunDirMode(s, "R-DIRMODE")     // @slot takes its name only from parentheses that follow at once: `@slot (text)` is a default slot and text
			m.RunBodyEntry(s, "R-BODYENTRY") // an empty body (of a slot, an insert, a branch, a loop) does not take the enclosing closer
			m.RunOwn(s, "R-OWN")
			m.RunScope(s, "R-SCOPE")
			m.RunSlotGap(s, "R-SLOTGAP")
			m.RunPathAPI(s, "R-PATHAPI") // a component name is looked up as the file dir/name+ext
			var fns []*ssa.Function
			for _, n := range []string{"evalComponentStmt", "evalSlotStmt"} {
				if fn := m.Method("evaluator", "Evaluator", n); fn != nil {
					fns = append(fns, fn)
				}
			}
			m.RunNilField(s, "R-NILFIELD", fns)
			if fn := m.PkgFunc("textwire", "applyComponentToProgram"); fn != nil {
				fns = append(fns, fn)
			}
			if fn := m.Method("ast", "Program", "ApplyComponent"); fn != nil {
				fns = append(fns, fn)
			}
			m.RunErrDrop(s, "R-ERRDROP", fns)
			s.RequireMin("R-OWN", 4, "block store, caller freshness, skip of served uses, missing-file error")
		},
	})
}
