package main

// rule_maporder.go — R-MAPORDER (iteration over a map must not influence
// output or the chosen error) and R-NONDET (who may consult a source of
// nondeterminism).

import (
	"fmt"
	"go/token"
	"go/types"
	"strings"

	"golang.org/x/tools/go/ssa"
)

type mapLoop struct {
	fn      *ssa.Function
	src     string // "range over map" | "reflect MapKeys" ...
	li      *loopInfo
	seeds   []ssa.Value // key / value of the iteration
	srcPos  ssa.Instruction
	iterPhi *ssa.Phi
}

// findMapLoops: loops that iterate a Go map (directly, or a key slice obtained from reflect MapKeys / maps.Keys).
func (m *Model) findMapLoops(fn *ssa.Function) []*mapLoop {
	var out []*mapLoop
	loops := naturalLoops(fn)
	for _, li := range loops {
		// direct: header has Next on a Range over a map
		for _, in := range li.header.Instrs {
			nx, ok := in.(*ssa.Next)
			if !ok || nx.IsString {
				continue
			}
			rg, ok := nx.Iter.(*ssa.Range)
			if !ok {
				continue
			}
			if _, isMap := rg.X.Type().Underlying().(*types.Map); !isMap {
				continue
			}
			ml := &mapLoop{fn: fn, src: "range over map " + valueDesc(rg.X), li: li, srcPos: rg}
			for _, r := range *nx.Referrers() {
				if ex, ok := r.(*ssa.Extract); ok && ex.Index >= 1 {
					ml.seeds = append(ml.seeds, ex)
				}
			}
			out = append(out, ml)
		}
		// indirect: index loop over a slice produced by an unordered key source
		for _, in := range li.header.Instrs {
			phi, ok := in.(*ssa.Phi)
			if !ok {
				continue
			}
			_ = phi
		}
		for b := range li.body {
			for _, in := range b.Instrs {
				ia, ok := in.(*ssa.IndexAddr)
				if !ok {
					continue
				}
				call, ok := ia.X.(*ssa.Call)
				if !ok || call.Call.StaticCallee() == nil || li.body[call.Block()] {
					continue
				}
				name := fnFullName(call.Call.StaticCallee())
				if name != "(reflect.Value).MapKeys" && name != "maps.Keys" && name != "maps.Values" {
					continue
				}
				dup := false
				for _, o := range out {
					if o.li == li {
						dup = true
					}
				}
				if dup {
					continue
				}
				ml := &mapLoop{fn: fn, src: "range over " + name + "()", li: li, srcPos: call}
				for _, r := range *ia.Referrers() {
					if ld, ok := r.(*ssa.UnOp); ok {
						ml.seeds = append(ml.seeds, ld)
					}
				}
				out = append(out, ml)
			}
		}
	}
	return out
}

type mapLoopVerdict struct {
	sensitive []string // reasons (each names a construct)
	notes     []string
}

// classify decides whether the loop's observable result depends on iteration order.
func (m *Model) classifyMapLoop(ml *mapLoop) *mapLoopVerdict {
	v := &mapLoopVerdict{}
	ea := m.Effects()
	li := ml.li
	fn := ml.fn
	// loop-carried values that launder iteration order: commutative reductions and slices sorted before use
	blockers := map[ssa.Value]bool{}
	ar := m.NewArith(fn)
	for _, hin := range li.header.Instrs {
		if phi, ok := hin.(*ssa.Phi); ok {
			if reductionIdiom(phi, li, ar) != "" || m.collectThenSort(phi, li) != "" {
				blockers[phi] = true
			}
		}
	}
	// taint: anything computed (anywhere in the function) from the iteration variables
	taint := map[ssa.Value]bool{}
	for _, s := range ml.seeds {
		taint[s] = true
	}
	for changed := true; changed; {
		changed = false
		for _, b := range fn.Blocks {
			for _, in := range b.Instrs {
				val, ok := in.(ssa.Value)
				if !ok || taint[val] || blockers[val] {
					continue
				}
				for _, op := range in.Operands(nil) {
					if *op != nil && taint[*op] {
						taint[val] = true
						changed = true
						break
					}
				}
			}
		}
	}
	st := ea.stateFor(fn)
	// derivedFromElem: address rooted at a tainted pointer (the element itself) or at memory allocated inside the loop
	local := func(addr ssa.Value) bool {
		for x := addr; x != nil; {
			if taint[x] {
				if _, isAddr := x.(*ssa.FieldAddr); !isAddr {
					if _, isIdx := x.(*ssa.IndexAddr); !isIdx {
						return true
					}
				}
			}
			switch y := x.(type) {
			case *ssa.FieldAddr:
				x = y.X
			case *ssa.IndexAddr:
				x = y.X
			case *ssa.Alloc:
				return li.body[y.Block()] // allocated per iteration
			case *ssa.MakeMap:
				return li.body[y.Block()]
			case *ssa.MakeSlice:
				return li.body[y.Block()]
			default:
				if in, ok := x.(ssa.Instruction); ok && taint[x] && li.body[in.Block()] {
					return true
				}
				return false
			}
		}
		return false
	}
	keyDerived := func(k ssa.Value) bool { return taint[k] }
	effects := 0
	persistent := 0 // effects on memory that outlives the function (not fresh to this activation)
	freshHere := func(v ssa.Value) bool {
		os := st.ownOf(v)
		if len(os) == 0 {
			return false
		}
		for o := range os {
			if o.kind != oFresh {
				return false
			}
		}
		return true
	}
	var appendPhis []*ssa.Phi
	for b := range li.body {
		for _, in := range b.Instrs {
			switch x := in.(type) {
			case *ssa.Store:
				if local(x.Addr) {
					if !freshHere(x.Addr) {
						persistent++
					}
					continue
				}
				if why := m.indexedCollectThenSort(x, li, ar); why != "" {
					v.notes = append(v.notes, why)
					continue
				}
				effects++
				persistent++
				v.sensitive = append(v.sensitive, fmt.Sprintf("store to %s at %s (memory that outlives the iteration and is not keyed by the loop key)", valueDesc(x.Addr), m.InstrPos(in)))
			case *ssa.MapUpdate:
				if keyDerived(x.Key) || local(x.Map) {
					effects++ // per-key update: commutative
					if !freshHere(x.Map) {
						persistent++
					}
					continue
				}
				effects++
				v.sensitive = append(v.sensitive, fmt.Sprintf("map update %s[%s] at %s with a key that does not come from the loop key", valueDesc(x.Map), valueDesc(x.Key), m.InstrPos(in)))
			case *ssa.Call:
				com := &x.Call
				if bi, ok := com.Value.(*ssa.Builtin); ok {
					switch bi.Name() {
					case "append":
						effects++
						// loop-carried accumulation? find header phi fed by this append
						fed := false
						for _, hin := range li.header.Instrs {
							if phi, ok := hin.(*ssa.Phi); ok {
								for _, e := range phi.Edges {
									if e == ssa.Value(x) {
										appendPhis = append(appendPhis, phi)
										fed = true
									}
								}
							}
						}
						if !fed {
							v.sensitive = append(v.sensitive, fmt.Sprintf("append at %s whose result is not the loop-carried slice", m.InstrPos(in)))
						}
					case "delete", "copy", "clear":
						effects++
						v.sensitive = append(v.sensitive, fmt.Sprintf("%s at %s", bi.Name(), m.InstrPos(in)))
					}
					continue
				}
				// callee effects
				callees := m.calleesOf(x)
				args := st.argsFor(x, nil)
				impure := ""
				known := false
				perKeyCalls := 0
				for _, cal := range callees {
					sum := ea.sums[cal]
					if sum == nil {
						continue
					}
					known = true
					for _, w := range sum.writes {
						switch w.o.kind {
						case oGlobal:
							impure = fmt.Sprintf("%s writes package-level %s", fnKey(cal), w.o.g.Name())
						case oParam:
							if w.o.idx < len(args) && !local(args[w.o.idx]) && !taint[args[w.o.idx]] {
								// a per-key update made by a helper: the helper stores under its key parameter, the key handed in
								// comes from the loop key, and the object written is fresh to this activation (it is given up
								// when the loop is left early) — commutative like the direct `obj[key] = v`
								if w.kind == "mapupdate" && w.keyParam1 > 0 && w.keyParam1-1 < len(args) && keyDerived(args[w.keyParam1-1]) && freshHere(args[w.o.idx]) {
									perKeyCalls++
									continue
								}
								impure = fmt.Sprintf("%s writes through %s (%s at %s)", fnKey(cal), valueDesc(args[w.o.idx]), w.what, w.pos)
							}
						}
					}
				}
				if !known {
					name := ""
					if sc := com.StaticCallee(); sc != nil {
						name = fnFullName(sc)
					}
					if idx, ok := extWrites[name]; ok && idx >= 0 && idx < len(com.Args) && !local(com.Args[idx]) {
						impure = fmt.Sprintf("%s writes through %s", name, valueDesc(com.Args[idx]))
					}
					if com.IsInvoke() && strings.HasPrefix(com.Method.Name(), "Write") {
						impure = "Write on " + valueDesc(com.Value)
					}
				}
				if impure == "" && perKeyCalls > 0 {
					effects++ // per-key update through a helper: commutative, on memory fresh to this activation
				}
				if impure != "" {
					effects++
					persistent++
					v.sensitive = append(v.sensitive, fmt.Sprintf("call at %s has an effect that outlives the iteration: %s", m.InstrPos(in), impure))
				}
			}
		}
	}
	// results and effects outside the loop that depend on which key/value was being visited
	for _, b := range fn.Blocks {
		for _, in := range b.Instrs {
			switch x := in.(type) {
			case *ssa.Return:
				for _, r := range x.Results {
					if taint[r] {
						v.sensitive = append(v.sensitive, fmt.Sprintf("return at %s of a value that depends on the key/value being visited (whichever entry iteration reaches first decides it)", m.InstrPos(in)))
						break
					}
				}
			case *ssa.Store:
				if !li.body[b] && taint[x.Val] && !local(x.Addr) {
					v.sensitive = append(v.sensitive, fmt.Sprintf("store after the loop at %s of a value that depends on the key/value last visited", m.InstrPos(in)))
				}
			}
		}
	}
	// loop-carried values
	for _, hin := range li.header.Instrs {
		phi, ok := hin.(*ssa.Phi)
		if !ok {
			continue
		}
		isAppend := false
		for _, ap := range appendPhis {
			if ap == phi {
				isAppend = true
			}
		}
		if isAppend {
			if why := m.collectThenSort(phi, li); why != "" {
				v.notes = append(v.notes, "collected into a slice that is sorted before use ("+why+")")
			} else {
				v.sensitive = append(v.sensitive, fmt.Sprintf("slice %s accumulates elements in iteration order and is used without being sorted first", valueDesc(phi)))
			}
			continue
		}
		if isIterIndex(phi, li) {
			continue
		}
		if why := reductionIdiom(phi, li, ar); why != "" {
			v.notes = append(v.notes, why)
			continue
		}
		// a carried value that does not change in the loop
		same := true
		for i, e := range phi.Edges {
			if li.body[phi.Block().Preds[i]] && e != ssa.Value(phi) {
				same = false
			}
		}
		if same {
			continue
		}
		v.sensitive = append(v.sensitive, fmt.Sprintf("loop-carried value %s (%s) is updated in a way that is not a commutative reduction", valueDesc(phi), phi.Type()))
	}
	// early exits (break, or return of an order-independent value) after effects that persist
	for b := range li.body {
		if b == li.header {
			continue
		}
		for _, sc := range b.Succs {
			if li.body[sc] {
				continue
			}
			if persistent > 0 {
				v.sensitive = append(v.sensitive, fmt.Sprintf("early exit at %s after effects that persist: which keys were processed depends on iteration order", m.InstrPos(b.Instrs[len(b.Instrs)-1])))
			}
			if len(appendPhis) > 0 {
				// sorting afterwards does not help: WHICH elements were collected before the exit depends on the order
				v.sensitive = append(v.sensitive, fmt.Sprintf("early exit at %s from a loop that collects elements: the collected subset depends on iteration order (sorting it later does not undo that)", m.InstrPos(b.Instrs[len(b.Instrs)-1])))
			}
		}
	}
	v.sensitive = dedup(v.sensitive)
	return v
}

func isIterIndex(phi *ssa.Phi, li *loopInfo) bool {
	// the hidden index of a slice range loop: phi(-1, phi+1)
	return isInduction(phi, li) && phi.Comment == "rangeindex"
}

// reductionIdiom recognises counters (x += c), max/min selections and boolean or/and.
func reductionIdiom(phi *ssa.Phi, li *loopInfo, ar *Arith) string {
	if isInteger(phi.Type()) {
		allCount := true
		for i, e := range phi.Edges {
			if !li.body[phi.Block().Preds[i]] {
				continue
			}
			if isCounterStep(e, phi, li, ar, 0) {
				continue
			}
			// max/min candidate taken on an edge guarded by a comparison with the carried value
			guarded := false
			pred := phi.Block().Preds[i]
			for _, f := range expandFacts(factsOnEdge(pred, phi.Block())) {
				if bo, ok := f.Cond.(*ssa.BinOp); ok {
					switch bo.Op {
					case token.GTR, token.LSS, token.GEQ, token.LEQ:
						same := func(a, b ssa.Value) bool { return a == b || ar.lin(a).String() == ar.lin(b).String() }
						if (same(bo.X, e) && bo.Y == ssa.Value(phi)) || (same(bo.Y, e) && bo.X == ssa.Value(phi)) {
							guarded = true
						}
					}
				}
			}
			if !guarded {
				allCount = false
			}
		}
		if allCount {
			return "integer counter / max-min reduction " + valueDesc(phi)
		}
	}
	if isBoolT(phi.Type()) {
		ok := true
		for i, e := range phi.Edges {
			if !li.body[phi.Block().Preds[i]] {
				continue
			}
			if e == ssa.Value(phi) {
				continue
			}
			if c, isC := e.(*ssa.Const); isC && c.Value != nil {
				continue // found = true
			}
			ok = false
		}
		if ok {
			return "boolean flag reduction " + valueDesc(phi)
		}
	}
	return ""
}

// isCounterStep: e is phi, phi+const, or an inner phi choosing between such values / a max-min candidate guarded by a comparison with phi.
func isCounterStep(e ssa.Value, phi *ssa.Phi, li *loopInfo, ar *Arith, d int) bool {
	if d > 4 {
		return false
	}
	if e == ssa.Value(phi) {
		return true
	}
	switch x := e.(type) {
	case *ssa.BinOp:
		if (x.Op == token.ADD || x.Op == token.SUB) && isCounterStep(x.X, phi, li, ar, d+1) {
			if _, isC := x.Y.(*ssa.Const); isC {
				return true
			}
		}
	case *ssa.Phi:
		// join after `if cand > phi { phi = cand }`
		all := true
		for i, ie := range x.Edges {
			if isCounterStep(ie, phi, li, ar, d+1) {
				continue
			}
			// candidate value: must be selected under a comparison between it and phi
			pred := x.Block().Preds[i]
			guarded := false
			for _, f := range factsOnEdge(pred, x.Block()) {
				if bo, ok := f.Cond.(*ssa.BinOp); ok {
					switch bo.Op {
					case token.GTR, token.LSS, token.GEQ, token.LEQ:
						same := func(a, b ssa.Value) bool { return a == b || ar.lin(a).String() == ar.lin(b).String() }
						if (same(bo.X, ie) && bo.Y == ssa.Value(phi)) || (same(bo.Y, ie) && bo.X == ssa.Value(phi)) {
							guarded = true
						}
					}
				}
			}
			if !guarded {
				all = false
			}
		}
		return all
	case *ssa.Call:
		if b, ok := x.Call.Value.(*ssa.Builtin); ok && (b.Name() == "max" || b.Name() == "min") {
			for _, a := range x.Call.Args {
				if a == ssa.Value(phi) {
					return true
				}
			}
		}
	}
	return false
}

var sortFuncs = map[string]bool{
	"sort.Strings": true, "sort.Ints": true, "sort.Float64s": true, "sort.Slice": true, "sort.SliceStable": true, "sort.Sort": true, "sort.Stable": true,
	"slices.Sort": true, "slices.SortFunc": true, "slices.SortStableFunc": true,
}

// collectThenSort: every use of the accumulated slice after the loop is a sort call or dominated by one.
func (m *Model) collectThenSort(phi *ssa.Phi, li *loopInfo) string {
	ctx := m.Ctx(phi.Parent())
	var sorts []ssa.Instruction
	var others []ssa.Instruction
	var visit func(v ssa.Value, d int)
	seen := map[ssa.Value]bool{}
	visit = func(v ssa.Value, d int) {
		if seen[v] || d > 3 || v.Referrers() == nil {
			return
		}
		seen[v] = true
		for _, r := range *v.Referrers() {
			if li.body[r.Block()] {
				continue
			}
			switch x := r.(type) {
			case *ssa.Call:
				if sc := x.Call.StaticCallee(); sc != nil && sortFuncs[fnFullName(sc)] && len(x.Call.Args) > 0 && sameSliceValue(x.Call.Args[0], v) {
					sorts = append(sorts, x)
					continue
				}
				others = append(others, r)
			case *ssa.MakeInterface:
				visit(x, d+1)
			case *ssa.ChangeType:
				visit(x, d+1)
			case *ssa.DebugRef:
			default:
				others = append(others, r)
			}
		}
	}
	visit(phi, 0)
	if len(sorts) == 0 {
		return ""
	}
	for _, o := range others {
		dom := false
		for _, s := range sorts {
			if ctx.instrDominates(s, o) && s != o {
				dom = true
			}
		}
		if !dom {
			return ""
		}
	}
	return fnFullName(sorts[0].(*ssa.Call).Call.StaticCallee()) + " at " + m.InstrPos(sorts[0])
}

func sameSliceValue(a, b ssa.Value) bool {
	for i := 0; i < 3; i++ {
		if a == b {
			return true
		}
		switch x := a.(type) {
		case *ssa.MakeInterface:
			a = x.X
		case *ssa.ChangeType:
			a = x.X
		default:
			return false
		}
	}
	return a == b
}

// RunMapOrder checks every map iteration in fns.
func (m *Model) RunMapOrder(s *Sink, rule string, fns []*ssa.Function) {
	for _, fn := range fns {
		for _, ml := range m.findMapLoops(fn) {
			key := fmt.Sprintf("%s|%s %s", fnKey(fn), ml.src, fmt.Sprintf("loop#%d", ml.li.ord))
			v := m.classifyMapLoop(ml)
			pos := m.InstrPos(ml.srcPos)
			if len(v.sensitive) == 0 {
				note := "body only performs per-key updates, commutative reductions or order-independent exits"
				if len(v.notes) > 0 {
					note += "; " + strings.Join(v.notes, "; ")
				}
				s.OK(rule, key, pos, "%s", note)
				continue
			}
			s.Violation(rule, key, pos, "iteration order of the map reaches an observable result in %s: %s. Go randomises map iteration order, so output or the reported error differs from run to run",
				fnKey(fn), strings.Join(v.sensitive, "; "))
		}
	}
	// out-of-scope map ranges are listed for the record
	n := 0
	for _, fn := range m.ModFns {
		if isUserPkg(fnPkgPath(fn)) && fn.Blocks != nil {
			n += len(m.findMapLoops(fn))
		}
	}
	s.Note(rule, "out-of-scope map iterations", "-", "%d map iterations in lsp/, repl/ and textwire/example are user-level tooling, outside the render/load/registry roots", n)
}

// R-NONDET

var nondetPkgs = map[string]bool{"math/rand": true, "math/rand/v2": true, "crypto/rand": true, "hash/maphash": true}
var nondetFuncs = map[string]bool{
	"time.Now": true, "time.Since": true, "time.Until": true, "os.Getpid": true, "os.Getppid": true, "os.Environ": true, "os.Getenv": true, "os.LookupEnv": true, "os.Hostname": true,
	"runtime.NumGoroutine": true, "runtime.Caller": true, "runtime.Stack": true, "runtime.NumCPU": true, "runtime.GOMAXPROCS": true,
}

func (m *Model) RunNondet(s *Sink, rule string, fns []*ssa.Function) {
	f := m.Facts()
	allowed := map[*ssa.Function]string{}
	for _, be := range f.Builtins {
		if be.Name == "shuffle" || be.Name == "rand" {
			allowed[be.Fn] = be.Kind + "." + be.Name
		}
	}
	nAllowed := 0
	for _, fn := range fns {
		for _, b := range fn.Blocks {
			for _, in := range b.Instrs {
				what := ""
				switch x := in.(type) {
				case *ssa.Go:
					what = "go statement (scheduling order)"
				case *ssa.Select:
					if len(x.States) > 1 {
						what = "select over several channels"
					}
				case ssa.CallInstruction:
					sc := x.Common().StaticCallee()
					if sc == nil || sc.Pkg == nil {
						continue
					}
					pk := sc.Pkg.Pkg.Path()
					if nondetPkgs[pk] || nondetFuncs[pk+"."+canonFnName(sc)] {
						what = "call to " + fnFullName(sc)
					}
				}
				if what == "" {
					continue
				}
				key := fmt.Sprintf("%s|%s", fnKey(fn), what)
				root := fn
				for root.Parent() != nil {
					root = root.Parent()
				}
				if name, ok := allowed[root]; ok {
					nAllowed++
					s.OKTrivial(rule, key, m.InstrPos(in), "inside the builtin registered as %s, which is allowed to vary", name)
					continue
				}
				s.Violation(rule, key, m.InstrPos(in), "%s in %s: a source of nondeterminism on a render/load path outside shuffle()/rand()", what, fnKey(fn))
			}
		}
	}
	s.OK(rule, "nondeterminism sources confined", "-", "%d uses of random/time/process sources, all inside builtins registered as shuffle or rand; none elsewhere in %d reachable functions", nAllowed, len(fns))
}

// indexedCollectThenSort: `sl[i] = v` inside a map range where sl is a slice made in this function, i counts the
// passes (0, +1 per pass), the loop only writes sl, and after the loop sl is sorted before any other use: the
// slice holds the same multiset whatever the iteration order and sorting removes the order.
func (m *Model) indexedCollectThenSort(st *ssa.Store, li *loopInfo, ar *Arith) string {
	ia, ok := st.Addr.(*ssa.IndexAddr)
	if !ok {
		return ""
	}
	mk, ok := ia.X.(*ssa.MakeSlice)
	if !ok || li.body[mk.Block()] {
		return ""
	}
	phi, ok := ia.Index.(*ssa.Phi)
	if !ok || phi.Block() != li.header || ar.mapRangeCounter(phi) == nil {
		return ""
	}
	ctx := m.Ctx(st.Parent())
	var sorts, others []ssa.Instruction
	for _, r := range *mk.Referrers() {
		if li.body[r.Block()] {
			if r != ssa.Instruction(ia) {
				return "" // the loop also reads or re-slices it
			}
			continue
		}
		if c, isC := r.(*ssa.Call); isC {
			if sc := c.Call.StaticCallee(); sc != nil && sortFuncs[fnFullName(sc)] && len(c.Call.Args) > 0 && sameSliceValue(c.Call.Args[0], mk) {
				sorts = append(sorts, c)
				continue
			}
		}
		if _, isDbg := r.(*ssa.DebugRef); isDbg {
			continue
		}
		others = append(others, r)
	}
	for _, r := range *ia.Referrers() {
		if r != ssa.Instruction(st) {
			if _, isDbg := r.(*ssa.DebugRef); !isDbg {
				return ""
			}
		}
	}
	if len(sorts) == 0 {
		return ""
	}
	for _, o := range others {
		dom := false
		for _, s := range sorts {
			if ctx.instrDominates(s, o) {
				dom = true
			}
		}
		if !dom {
			return ""
		}
	}
	return "filled by pass counter into a slice that is sorted before use (" + fnFullName(sorts[0].(*ssa.Call).Call.StaticCallee()) + " at " + m.InstrPos(sorts[0]) + ")"
}
