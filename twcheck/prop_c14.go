package main

func init() {
	register(&PropInfo{
		ID:    "C14",
		Title: "Rendering is deterministic",
		Rules: []string{
			"R-MAPORDER: for every iteration over a Go map (range, reflect MapKeys) reachable from the render, load and registry roots, the loop body only performs per-key updates, commutative reductions and order-independent exits, or the keys are collected and sorted before use",
			"R-NONDET: random, time and process sources are consulted only inside the builtins registered as shuffle and rand; no go statements or multi-way selects on render/load paths",
		},
		Decided:     "TODO",
		NotDecided:  "TODO",
		Assumptions: trustedBase,
		Run: func(m *Model, s *Sink) {
			r := m.Roots()
			fns := m.reachableFns(r.Render, r.Load, r.Registry)
			m.RunMapOrder(s, "R-MAPORDER", fns)
			m.RunNondet(s, "R-NONDET", fns)
			s.RequireMin("R-MAPORDER", 8, "map iterations in object, ast, evaluator, token and the root package")
		},
	})
}
