package main

func init() {
	register(&PropInfo{
		ID:    "C14",
		Title: "Rendering is deterministic",
		Rules: []string{
			"R-SHARED(history): no package-level state is both written and read on render paths (pools, caches): otherwise what a call returns depends on the calls before it",
			"R-MAPORDER: for every iteration over a Go map (range, reflect MapKeys) reachable from the render, load and registry roots, the loop body only performs per-key updates, commutative reductions and order-independent exits, or the keys are collected and sorted before use",
			"R-NONDET: random, time and process sources are consulted only inside the builtins registered as shuffle and rand; no go statements or multi-way selects on render/load paths",
		},
		Decided:     "TODO",
		NotDecided:  "TODO",
		Assumptions: trustedBase,
		Run: func(m *Model, s *Sink) {
			r := m.Roots()
			fns := m.reachableFns(r.Render, r.Load, r.Registry)
			m.RunMapOrder(s, "R-MAPORDER", fns)
			m.RunNondet(s, "R-NONDET", fns)
			// the same call gives the same result only if nothing a render leaves behind reaches a later one
			m.RunSharedWrites(s, "R-SHARED", r.Render, "history")
			s.RequireMin("R-MAPORDER", 8, "map iterations in object, ast, evaluator, token and the root package")
		},
	})
}
