package main

// rule_literal.go — R-LITERAL (C01): a number literal is its decimal value.
//   (a) the parser converts literal text with strconv.ParseInt(text, 10, 64) / strconv.ParseFloat(text, 64): another
//       base (0 = "guess from the prefix") reads 010 as 8 and 0x10 as 16;
//   (b) the lexer's number reader takes only the bytes 0-9 and '.' into a number: decided by evaluating the reader's
//       loop for every other byte value (it must leave the loop).

import (
	"fmt"
	"go/constant"
	"go/types"

	"golang.org/x/tools/go/ssa"
)

func (m *Model) RunLiteral(s *Sink, rule string) {
	n := 0
	for _, fn := range m.ModFns {
		if fn.Blocks == nil || shortPkg(fnPkgPath(fn)) != "parser" {
			continue
		}
		for _, b := range fn.Blocks {
			for _, in := range b.Instrs {
				c, ok := in.(*ssa.Call)
				if !ok || c.Call.StaticCallee() == nil {
					continue
				}
				name := fnFullName(c.Call.StaticCallee())
				intArg := func(i int) (int64, bool) {
					if i < len(c.Call.Args) {
						if k, isK := c.Call.Args[i].(*ssa.Const); isK && k.Value != nil {
							return k.Int64(), true
						}
					}
					return 0, false
				}
				switch name {
				case "strconv.ParseInt", "strconv.ParseUint":
					n++
					key := fmt.Sprintf("%s|%s reads the literal as a decimal 64-bit integer", fnKey(fn), name)
					base, ok1 := intArg(1)
					bits, ok2 := intArg(2)
					if ok1 && ok2 && base == 10 && bits == 64 {
						s.OK(rule, key, m.InstrPos(c), "base 10, 64 bits")
					} else {
						s.Violation(rule, key, m.InstrPos(c), "%s converts literal text with base %s and size %s instead of base 10 and 64 bits: with base 0 strconv guesses the base from the text, so `010` is 8, `0x10` is 16 and `08` is not a number; other bases or sizes change or reject ordinary literals", fnKey(fn), valueDesc(c.Call.Args[1]), valueDesc(c.Call.Args[2]))
					}
				case "strconv.ParseFloat":
					n++
					key := fmt.Sprintf("%s|%s reads the literal as a 64-bit float", fnKey(fn), name)
					if bits, ok := intArg(1); ok && bits == 64 {
						s.OK(rule, key, m.InstrPos(c), "64 bits")
					} else {
						s.Violation(rule, key, m.InstrPos(c), "%s converts float literal text with size %s instead of 64 bits: the value is rounded to single precision", fnKey(fn), valueDesc(c.Call.Args[1]))
					}
				case "strconv.Atoi":
					n++
					s.Violation(rule, fmt.Sprintf("%s|strconv.Atoi on literal text", fnKey(fn)), m.InstrPos(c), "%s converts literal text with strconv.Atoi: the size of int depends on the platform, C01 fixes 64-bit integers", fnKey(fn))
				}
			}
		}
	}
	if n < 2 {
		s.Undecided(rule, "parser|literal conversions", "-", "expected the integer and the float literal conversion (strconv.ParseInt / ParseFloat) in the parser, found %d", n)
	}
	// (c) between the tokens of an expression, blanks, tabs, line feeds and carriage returns are skipped and nothing
	// else is: skipWhitespace is evaluated for every byte value as the current character
	if sw := m.Method("lexer", "Lexer", "skipWhitespace"); sw != nil {
		lexT := m.namedType("lexer", "Lexer")
		rc := m.Method("lexer", "Lexer", "readChar")
		fChar := -1
		if lexT != nil {
			st := lexT.Underlying().(*types.Struct)
			for i := 0; i < st.NumFields(); i++ {
				if canonFieldName(lexT, i, st.Field(i).Name()) == "char" {
					fChar = i
				}
			}
		}
		want := map[int]bool{' ': true, '\t': true, '\n': true, '\r': true}
		var wrong []string
		undecided := ""
		for bv := 0; bv < 256 && fChar >= 0 && rc != nil; bv++ {
			lx := &iStruct{typ: lexT, fields: map[int]any{fChar: constant.MakeInt64(int64(bv))}}
			reads := 0
			ip := &Interp{m: m, useGlobals: true}
			ip.call = func(c *ssa.Call, args []any) (any, bool) {
				if c.Call.StaticCallee() == rc {
					reads++
					lx.fields[fChar] = constant.MakeInt64('x') // what follows is not a blank
					return nil, true
				}
				return nil, false
			}
			ip.Run(sw, []any{lx})
			if ip.stuck != "" {
				undecided = fmt.Sprintf("byte %q: %s", rune(bv), ip.stuck)
				break
			}
			if (reads > 0) != want[bv] {
				wrong = append(wrong, fmt.Sprintf("%q", rune(bv)))
			}
		}
		key := fnKey(sw) + "|exactly blank, tab, line feed and carriage return separate the tokens of an expression"
		switch {
		case fChar < 0 || rc == nil:
			s.Undecided(rule, key, m.Pos(sw.Pos()), "lexer.Lexer.char / readChar not found")
		case undecided != "":
			s.Undecided(rule, key, m.Pos(sw.Pos()), "skipWhitespace could not be evaluated (%s)", undecided)
		case len(wrong) > 0:
			s.Violation(rule, key, m.Pos(sw.Pos()), "skipWhitespace treats the byte(s) %v differently from the whitespace set {' ', '\\t', '\\n', '\\r'}: an expression laid out with such a character between its tokens (CRLF line ends!) is lexed differently from the same expression on one line", wrong)
		default:
			s.OK(rule, key, m.Pos(sw.Pos()), "case evaluation for all 256 byte values: exactly the four whitespace bytes are read over")
		}
	}
	// (d) an identifier is made of letters, digits and underscores: the identifier reader is evaluated on real lexer
	// states for `a<byte>b ` with every byte value — it reads `a<byte>b` for the 63 identifier bytes and `a` otherwise
	// (a hyphen taken into the name turns `a-b` into one unknown identifier: blanks would change the result)
	if ri := m.Method("lexer", "Lexer", "readIdentifier"); ri != nil && len(ri.Params) == 1 {
		var wrong []string
		undecided := ""
		for bv := 1; bv < 256 && undecided == ""; bv++ {
			in := "a" + string([]byte{byte(bv)}) + "b "
			lx, ok := m.lexerAt(in, 0)
			if !ok {
				undecided = "lexer.New could not be evaluated"
				break
			}
			ip := &Interp{m: m, useGlobals: true}
			res, okR := ip.Run(ri, []any{lx})
			rc, isC := res.(constant.Value)
			if !okR || !isC || rc.Kind() != constant.String || ip.stuck != "" {
				undecided = fmt.Sprintf("byte %q: %s", rune(bv), ip.stuck)
				break
			}
			isIdent := bv == '_' || (bv >= '0' && bv <= '9') || (bv >= 'a' && bv <= 'z') || (bv >= 'A' && bv <= 'Z')
			want := "a"
			if isIdent {
				want = in[:3]
			}
			if constant.StringVal(rc) != want {
				wrong = append(wrong, fmt.Sprintf("%q", rune(bv)))
			}
		}
		key := fnKey(ri) + "|an identifier consists of letters, digits and underscores only"
		switch {
		case undecided != "":
			s.Undecided(rule, key, m.Pos(ri.Pos()), "readIdentifier could not be evaluated (%s)", undecided)
		case len(wrong) > 0:
			if len(wrong) > 8 {
				wrong = append(wrong[:8], "...")
			}
			s.Violation(rule, key, m.Pos(ri.Pos()), "readIdentifier treats the byte(s) %v between two letters differently from the identifier alphabet [A-Za-z0-9_]: `a-b` or `a.b` written without blanks is read as one name (or a name is cut short), so blanks change the value of an expression", wrong)
		default:
			s.OK(rule, key, m.Pos(ri.Pos()), "case evaluation on real lexer states for all 255 non-zero byte values between two letters")
		}
	}
	// (b) the number reader
	rn := m.Method("lexer", "Lexer", "readNumber")
	if rn == nil {
		s.Undecided(rule, "lexer.readNumber", "-", "the lexer's number reader was not found")
		return
	}
	loops := naturalLoops(rn)
	if len(loops) == 0 {
		// the reader hands a byte predicate to a generic scanning helper: the predicate says which bytes belong
		var preds []*ssa.Function
		for _, b := range rn.Blocks {
			for _, in := range b.Instrs {
				c, ok := in.(*ssa.Call)
				if !ok {
					continue
				}
				for _, a := range c.Call.Args {
					var f *ssa.Function
					switch x := a.(type) {
					case *ssa.MakeClosure:
						f, _ = x.Fn.(*ssa.Function)
					case *ssa.Function:
						f = x
					}
					if f != nil && f.Signature.Params().Len() == 1 && f.Signature.Results().Len() == 1 && isBoolT(f.Signature.Results().At(0).Type()) {
						preds = append(preds, f)
					}
				}
			}
		}
		if len(preds) == 0 {
			s.Undecided(rule, fnKey(rn)+"|loop", m.Pos(rn.Pos()), "neither a loop nor a byte predicate in the number reader")
			return
		}
		var extra []string
		undecided := ""
		for bv := 0; bv < 256; bv++ {
			if (bv >= '0' && bv <= '9') || bv == '.' {
				continue
			}
			for _, pf := range preds {
				ip := &Interp{m: m}
				res, ok := ip.runClosure(pf, []any{constant.MakeInt64(int64(bv))}, make([]any, len(pf.FreeVars)), 0)
				rc, isC := res.(constant.Value)
				switch {
				case !ok || !isC || rc.Kind() != constant.Bool:
					undecided = fmt.Sprintf("%q: %s", rune(bv), ip.stuck)
				case constant.BoolVal(rc):
					extra = append(extra, fmt.Sprintf("%q", rune(bv)))
				}
			}
		}
		key := fnKey(rn) + "|a number consists of digits and dots only"
		switch {
		case len(extra) > 0:
			if len(extra) > 6 {
				extra = append(extra[:6], "...")
			}
			s.Violation(rule, key, m.Pos(rn.Pos()), "%s accepts the byte(s) %v as part of a number literal: the literal's text is then not a decimal number", fnKey(rn), extra)
		case undecided != "":
			s.Undecided(rule, key, m.Pos(rn.Pos()), "the byte predicate of the number reader could not be evaluated for %s", undecided)
		default:
			s.OK(rule, key, m.Pos(rn.Pos()), "the byte predicate the reader scans with rejects each of the 245 other byte values")
		}
		return
	}
	pc := &progressCtx{m: m}
	var extra []string
	for bv := 0; bv < 256; bv++ {
		if (bv >= '0' && bv <= '9') || bv == '.' {
			continue
		}
		for _, li := range loops {
			if ok, _ := exitsInState(li, pc.lexEval(int64(bv))); !ok {
				extra = append(extra, fmt.Sprintf("%q", rune(bv)))
				break
			}
		}
	}
	key := fnKey(rn) + "|a number consists of digits and dots only"
	if len(extra) == 0 {
		s.OK(rule, key, m.Pos(rn.Pos()), "for each of the 245 other byte values the reader's loop is left at once")
	} else {
		if len(extra) > 6 {
			extra = append(extra[:6], "...")
		}
		s.Violation(rule, key, m.Pos(rn.Pos()), "%s can take the byte(s) %v into a number literal: the literal's text is then not a decimal number (what the parser makes of it depends on the conversion: an error, or another value)", fnKey(rn), extra)
	}
}
