package main

// rule_lexmode.go — R-LEXMODE and R-TEXT (C05): code tokens only in code mode; text bytes reach the output unchanged.

import (
	"fmt"
	"go/constant"
	"go/token"
	"go/types"
	"sort"
	"strings"

	"golang.org/x/tools/go/ssa"
)

func (m *Model) RunLexMode(s *Sink, rule string) {
	nt := m.Method("lexer", "Lexer", "NextToken")
	newTok := m.Method("lexer", "Lexer", "newToken")
	if nt == nil || newTok == nil {
		s.Undecided(rule, "NextToken", "-", "NextToken/newToken not found")
		return
	}
	dirs, prob := m.directiveTable()
	if prob != "" {
		s.Undecided(rule, "directives", "-", "%s", prob)
		return
	}
	textAlphabet := map[string]bool{"HTML": true, "EOF": true, "ILLEGAL": true, "LBRACES": true, "(directive token)": true}
	for _, v := range dirs {
		textAlphabet[tokenConstNames[v]] = true
	}
	// tokens a lexer function can build (constant newToken type; parameter types resolved per call site)
	memo := map[*ssa.Function]map[string]bool{}
	var builds func(fn *ssa.Function, depth int) map[string]bool
	builds = func(fn *ssa.Function, depth int) map[string]bool {
		if r, ok := memo[fn]; ok {
			return r
		}
		res := map[string]bool{}
		memo[fn] = res
		if fn.Blocks == nil || depth > 6 {
			return res
		}
		for _, b := range fn.Blocks {
			for _, in := range b.Instrs {
				c, ok := in.(*ssa.Call)
				if !ok || c.Call.StaticCallee() == nil || !inPkg(c.Call.StaticCallee(), "lexer") {
					continue
				}
				sc := c.Call.StaticCallee()
				if sc == newTok {
					switch x := c.Call.Args[1].(type) {
					case *ssa.Const:
						res[tokenConstNames[x.Int64()]] = true
					case *ssa.Parameter:
						res["param:"+x.Name()] = true
					default:
						for k := range m.tokenClasses(c.Call.Args[1], 0, map[ssa.Value]bool{}) {
							res[k] = true
						}
					}
					continue
				}
				if sc == fn || sc == nt {
					continue // recursion into NextToken is judged at NextToken itself (whatever it returns obeys this rule)
				}
				for k := range builds(sc, depth+1) {
					if strings.HasPrefix(k, "param:") {
						// resolve through this call's constant arguments
						pname := strings.TrimPrefix(k, "param:")
						for i, p := range sc.Params {
							if p.Name() == pname && i < len(c.Call.Args) {
								if kc, ok := c.Call.Args[i].(*ssa.Const); ok {
									res[tokenConstNames[kc.Int64()]] = true
								} else if own, isPar := c.Call.Args[i].(*ssa.Parameter); isPar {
									res["param:"+own.Name()] = true // handed down once more: resolved at this function's call sites
								} else {
									for k := range m.tokenClasses(c.Call.Args[i], 0, map[ssa.Value]bool{}) {
										res[k] = true
									}
								}
							}
						}
						continue
					}
					res[k] = true
				}
			}
		}
		return res
	}
	n := 0
	// the calls of NextToken that build code tokens lie under !l.isHTML; a call that does not is followed into the
	// callee (a piece of NextToken that was given a name: the mode test may sit there), up to three levels
	visited := map[*ssa.Function]bool{}
	var sites func(host *ssa.Function, depth int)
	sites = func(host *ssa.Function, depth int) {
		if visited[host] {
			return
		}
		visited[host] = true
		for _, b := range host.Blocks {
			for _, in := range b.Instrs {
				c, ok := in.(*ssa.Call)
				if !ok || c.Call.StaticCallee() == nil || !inPkg(c.Call.StaticCallee(), "lexer") || c.Call.StaticCallee() == nt || c.Call.StaticCallee() == host {
					continue
				}
				sc := c.Call.StaticCallee()
				var code []string
				set := map[string]bool{}
				if sc == newTok {
					if kc, ok := c.Call.Args[1].(*ssa.Const); ok {
						set[tokenConstNames[kc.Int64()]] = true
					}
				} else {
					for k := range builds(sc, 0) {
						if strings.HasPrefix(k, "param:") {
							pname := strings.TrimPrefix(k, "param:")
							for i, p := range sc.Params {
								if p.Name() == pname && i < len(c.Call.Args) {
									if kc, ok := c.Call.Args[i].(*ssa.Const); ok {
										set[tokenConstNames[kc.Int64()]] = true
									}
								}
							}
							continue
						}
						set[k] = true
					}
				}
				for k := range set {
					if !textAlphabet[k] {
						code = append(code, k)
					}
				}
				if len(code) == 0 {
					continue
				}
				sort.Strings(code)
				show := code
				if len(show) > 4 {
					show = append(append([]string{}, show[:4]...), "...")
				}
				inCode := false
				for _, f := range expandFacts(factsAt(b)) {
					if m.isTextModeRead(f.Cond) && !f.Holds {
						inCode = true
					}
				}
				if !inCode && sc != newTok && depth < 3 && sc.Blocks != nil {
					// not guarded here: the callee must guard its own code-token sites
					sites(sc, depth+1)
					continue
				}
				n++
				key := fmt.Sprintf("%s|%s(%s) builds code tokens only in code mode", fnKey(host), canonFnName(sc), argConsts(c))
				if inCode {
					s.OK(rule, key, m.InstrPos(c), "the call is dominated by !l.isHTML; tokens: %v", show)
				} else {
					s.Violation(rule, key, m.InstrPos(c), "%s can call %s, which builds code tokens %v, while lexing plain text (no dominating !l.isHTML test, here or at the callers): such characters in text would be tokenised instead of being emitted (e.g. \"}}\" in text disappears)", host.Name(), canonFnName(sc), show)
				}
			}
		}
	}
	sites(nt, 0)
	if n < 2 {
		s.Undecided(rule, "code-token sites", "-", "expected at least two calls in NextToken that build code tokens (embedded code, closing braces), found %d", n)
	}
}

// tokenClasses: the token types a computed TokenType value can take, by where it comes from:
// a lookup in token.directives gives directive tokens, anything else computed is a code token.
func (m *Model) tokenClasses(v ssa.Value, d int, seen map[ssa.Value]bool) map[string]bool {
	res := map[string]bool{}
	if seen[v] || d > 8 {
		return res
	}
	seen[v] = true
	add := func(o map[string]bool) {
		for k := range o {
			res[k] = true
		}
	}
	switch x := v.(type) {
	case *ssa.Const:
		res[tokenConstNames[x.Int64()]] = true
	case *ssa.Phi:
		for _, e := range x.Edges {
			add(m.tokenClasses(e, d+1, seen))
		}
	case *ssa.Extract:
		if lk, ok := x.Tuple.(*ssa.Lookup); ok {
			add(m.tokenClasses(lk, d+1, seen))
		} else if c, ok := x.Tuple.(*ssa.Call); ok {
			add(m.returnTokenClasses(c, x.Index, d+1, seen))
		}
	case *ssa.Lookup:
		tab := x.X
		if p, isP := tab.(*ssa.Parameter); isP {
			// a table handed to a generic lookup helper: what the (single) caller chain passes
			if rs := m.resolveUp(p, nil, 0); len(rs) > 0 {
				allDir := true
				for _, r := range rs {
					if g, ok := derefGlobal(r); !ok || canonGlobalName(g) != "directives" {
						allDir = false
					}
				}
				if allDir {
					res["(directive token)"] = true
					break
				}
				// several tables share the helper: classify by the call site that reaches this use
				if m.lookupTableAt != nil {
					if g, ok := derefGlobal(m.lookupTableAt[p]); ok && canonGlobalName(g) == "directives" {
						res["(directive token)"] = true
						break
					}
				}
			}
		}
		if g, ok := derefGlobal(tab); ok && canonGlobalName(g) == "directives" {
			res["(directive token)"] = true
		} else {
			res["(computed code token)"] = true
		}
	case *ssa.Parameter:
		// a fallback value passed to a lookup helper
		if m.lookupTableAt != nil {
			if v, ok := m.lookupTableAt[x]; ok {
				add(m.tokenClasses(v, d+1, seen))
				break
			}
		}
		res["(computed code token)"] = true
	case *ssa.Call:
		add(m.returnTokenClasses(x, 0, d+1, seen))
	case *ssa.UnOp:
		// load of a local variable: what was stored
		if al, ok := x.X.(*ssa.Alloc); ok {
			for _, r := range *al.Referrers() {
				if st, ok := r.(*ssa.Store); ok && st.Addr == ssa.Value(al) {
					add(m.tokenClasses(st.Val, d+1, seen))
				}
			}
		} else {
			res["(computed code token)"] = true
		}
	default:
		res["(computed code token)"] = true
	}
	return res
}

func (m *Model) returnTokenClasses(c *ssa.Call, idx int, d int, seen map[ssa.Value]bool) map[string]bool {
	res := map[string]bool{}
	sc := c.Call.StaticCallee()
	if sc == nil || !m.InModule(sc) || sc.Blocks == nil {
		res["(computed code token)"] = true
		return res
	}
	// context: what this call passes for the callee's parameters (tables and fallbacks of lookup helpers)
	if m.lookupTableAt == nil {
		m.lookupTableAt = map[*ssa.Parameter]ssa.Value{}
	}
	saved := map[*ssa.Parameter]ssa.Value{}
	for i, a := range c.Call.Args {
		if i < len(sc.Params) {
			if old, had := m.lookupTableAt[sc.Params[i]]; had {
				saved[sc.Params[i]] = old
			}
			m.lookupTableAt[sc.Params[i]] = a
		}
	}
	for _, b := range sc.Blocks {
		if ret, ok := b.Instrs[len(b.Instrs)-1].(*ssa.Return); ok && idx < len(ret.Results) {
			sub := map[ssa.Value]bool{}
			for k, v := range seen {
				sub[k] = v
			}
			for k := range m.tokenClasses(ret.Results[idx], d+1, sub) {
				res[k] = true
			}
		}
	}
	for i := range c.Call.Args {
		if i < len(sc.Params) {
			if old, had := saved[sc.Params[i]]; had {
				m.lookupTableAt[sc.Params[i]] = old
			} else {
				delete(m.lookupTableAt, sc.Params[i])
			}
		}
	}
	return res
}

// allPathsEstablish: every path into b passes an edge on which pred holds (looking through join blocks).
func allPathsEstablish(b *ssa.BasicBlock, pred0 func(Fact) bool, depth int) bool {
	// a fact on a named boolean (`flag := a || b; if flag`) is a fact on a phi: it establishes pred when every
	// incoming edge that can give the phi that value does
	var pred func(Fact) bool
	pred = func(f Fact) bool {
		if pred0(f) {
			return true
		}
		phi, ok := f.Cond.(*ssa.Phi)
		if !ok || !isBoolT(phi.Type()) || depth > 6 {
			return false
		}
		for i, e := range phi.Edges {
			pb := phi.Block().Preds[i]
			if k, isK := e.(*ssa.Const); isK && k.Value != nil {
				if constant.BoolVal(k.Value) != f.Holds {
					continue // this edge cannot give the phi that value
				}
				okEdge := false
				for _, ef := range expandFacts(edgeFact(pb, phi.Block())) {
					if pred0(ef) {
						okEdge = true
					}
				}
				if !okEdge && !allPathsEstablish(pb, pred0, depth+1) {
					return false
				}
				continue
			}
			if !pred(Fact{Cond: e, Holds: f.Holds}) {
				return false
			}
		}
		return true
	}
	for _, f := range expandFacts(factsAt(b)) {
		if pred(f) {
			return true
		}
	}
	if depth > 6 || len(b.Preds) == 0 {
		return false
	}
	if len(b.Preds) == 1 {
		return allPathsEstablish(b.Preds[0], pred, depth+1)
	}
	for _, p := range b.Preds {
		ok := false
		for _, f := range expandFacts(edgeFact(p, b)) {
			if pred(f) {
				ok = true
			}
		}
		if !ok && !allPathsEstablish(p, pred, depth+1) {
			return false
		}
	}
	return true
}

func argConsts(c *ssa.Call) string {
	var out []string
	for _, a := range c.Call.Args[1:] {
		if k, ok := a.(*ssa.Const); ok {
			out = append(out, valueDesc(k))
		}
	}
	return strings.Join(out, ",")
}

// RunTextFlow: the text scanner writes every byte it consumes; the only removal is the escape backslash;
// the literal flows unchanged from the token to the output.
func (m *Model) RunTextFlow(s *Sink, rule string) {
	rh := m.Method("lexer", "Lexer", "readHTML")
	readChar := m.Method("lexer", "Lexer", "readChar")
	if rh == nil || readChar == nil {
		s.Undecided(rule, "readHTML", "-", "readHTML/readChar not found")
		return
	}
	fk := fnKey(rh)
	loops := naturalLoops(rh)
	if len(loops) != 1 {
		s.Undecided(rule, fk+"|scan loop", m.Pos(rh.Pos()), "expected one loop in readHTML")
		return
	}
	li := loops[0]
	// every pass that reads the next character first writes the current one
	writeByte := func(c ssa.CallInstruction) bool {
		sc := c.Common().StaticCallee()
		if sc == nil {
			return false
		}
		n := fnFullName(sc)
		if n != "(*bytes.Buffer).WriteByte" && n != "(*strings.Builder).WriteByte" {
			return false
		}
		return fieldPathOf(c.Common().Args[1]) == ".char"
	}
	// the text may also be collected in a byte slice: append(text, l.char)
	appendChar := func(c ssa.CallInstruction) bool {
		if bi, isB := c.Common().Value.(*ssa.Builtin); isB && bi.Name() == "append" && len(c.Common().Args) == 2 {
			el := variadicElems(c.Common().Args[1])
			return len(el) == 1 && fieldPathOf(el[0]) == ".char"
		}
		return false
	}
	sliceText := false
	for _, b := range rh.Blocks {
		for _, in := range b.Instrs {
			if c, isC := in.(ssa.CallInstruction); isC && appendChar(c) {
				sliceText = true
			}
		}
	}
	if sliceText {
		base := writeByte
		writeByte = func(c ssa.CallInstruction) bool {
			return appendChar(c) || (c.Common().StaticCallee() != nil && base(c))
		}
	}
	pi := m.newPassInfo(writeByte, func(*ssa.Call) bool { return false }, []*ssa.Function{rh}, nil)
	skipped := false
	for b := range li.body {
		for i, in := range b.Instrs {
			c, ok := in.(*ssa.Call)
			if !ok || c.Call.StaticCallee() != readChar {
				continue
			}
			target, idx := b, i
			if pi.pathAvoiding(rh, li.header, 0, func(x *ssa.BasicBlock) bool { return x == target && !pi.blockConsumesBefore(x, idx) }, li.body) {
				skipped = true
			}
		}
	}
	if skipped {
		s.Violation(rule, fk+"|every consumed byte is written", m.Pos(rh.Pos()), "in the text scanner a byte can be consumed (readChar) on a pass that did not write it to the output buffer: text would lose characters")
	} else {
		s.OK(rule, fk+"|every consumed byte is written", m.Pos(rh.Pos()), "on every pass WriteByte(l.char) precedes readChar")
	}
	// removals: only Truncate(Len-1), only under an escape flag
	a := m.NewArith(rh)
	nTr := 0
	for _, b := range rh.Blocks {
		for _, in := range b.Instrs {
			c, ok := in.(*ssa.Call)
			if !ok || c.Call.StaticCallee() == nil {
				continue
			}
			n := fnFullName(c.Call.StaticCallee())
			if n == "(*bytes.Buffer).Reset" || n == "(*bytes.Buffer).Next" || n == "(*bytes.Buffer).ReadByte" {
				s.Violation(rule, fk+"|no other removal from the text buffer", m.InstrPos(c), "%s removes text from the output buffer", n)
			}
			if n != "(*bytes.Buffer).Truncate" {
				continue
			}
			nTr++
			d := a.lin(c.Call.Args[1]).add(a.bufLen(c.Call.Args[0], c), -1)
			oneByte := len(d.T) == 0 && d.C == -1
			escaped := allPathsEstablish(b, func(f Fact) bool {
				ex, ok := f.Cond.(*ssa.Extract)
				if !ok || !f.Holds || ex.Index != 1 {
					return false
				}
				call, ok := ex.Tuple.(*ssa.Call)
				if !ok || call.Call.StaticCallee() == nil {
					return false
				}
				nm := canonFnName(call.Call.StaticCallee())
				return nm == "isDirectiveToken" || nm == "areBracesToken"
			}, 0)
			key := fk + "|only the escape backslash is removed"
			if oneByte && escaped {
				s.OK(rule, key, m.InstrPos(c), "Truncate(Len()-1) under the escaped-directive / escaped-braces flag")
			} else {
				s.Violation(rule, key, m.InstrPos(c), "the text scanner removes output (Truncate) other than exactly one byte under the escape flags: text bytes are lost")
			}
		}
	}
	if sliceText {
		// removal from a byte slice: text[:len(text)-1], under an escape flag; no other reslicing of the collected text
		for _, b := range rh.Blocks {
			for _, in := range b.Instrs {
				sl, ok := in.(*ssa.Slice)
				if !ok {
					continue
				}
				if _, isBytes := sl.X.Type().Underlying().(*types.Slice); !isBytes {
					continue
				}
				if _, isAlloc := sl.X.(*ssa.Alloc); isAlloc {
					continue // the argument array of a variadic call
				}
				nTr++
				oneByte := false
				if sl.Low == nil && sl.High != nil {
					d := a.lin(sl.High).add(a.lin(lenOfValue(sl.X, b)), -1)
					oneByte = len(d.T) == 0 && d.C == -1
					if !oneByte {
						// len(text) computed by a separate call on the same value
						if sub, isSub := sl.High.(*ssa.BinOp); isSub && sub.Op == token.SUB {
							if k, isK := sub.Y.(*ssa.Const); isK && k.Value != nil && k.Int64() == 1 {
								if lc, isCall := sub.X.(*ssa.Call); isCall {
									if bi, isB := lc.Call.Value.(*ssa.Builtin); isB && bi.Name() == "len" && lc.Call.Args[0] == sl.X {
										oneByte = true
									}
								}
							}
						}
					}
				}
				escaped := allPathsEstablish(b, func(f Fact) bool { return f.Holds && m.isEscapeFlag(f.Cond, 0) }, 0)
				key := fk + "|only the escape backslash is removed"
				if oneByte && escaped {
					s.OK(rule, key, m.InstrPos(sl), "text[:len(text)-1] under the escaped-directive / escaped-braces flag")
				} else {
					s.Violation(rule, key, m.InstrPos(sl), "the text scanner removes output (reslices the collected text) other than exactly one byte under the escape flags: text bytes are lost")
				}
			}
		}
	}
	if nTr == 0 {
		s.Violation(rule, fk+"|only the escape backslash is removed", m.Pos(rh.Pos()), "the escape backslash before {{ or a directive is never removed")
	}
	// escape looks at the byte immediately before
	pc := m.Method("lexer", "Lexer", "prevChar")
	if pc != nil {
		ok := false
		ap := m.NewArith(pc)
		for _, b := range pc.Blocks {
			for _, in := range b.Instrs {
				if ix, isIx := in.(*ssa.Index); isIx && fieldPathOf(ix.X) == ".input" {
					d := ap.lin(ix.Index)
					for k, coef := range d.T {
						if strings.HasSuffix(k, ".pos") || strings.Contains(k, ".pos#") {
							if coef == 1 && d.C == -1 && len(d.T) == 1 {
								ok = true
							}
						}
					}
				}
			}
		}
		if ok {
			s.OK(rule, fnKey(pc)+"|the byte immediately before", m.Pos(pc.Pos()), "prevChar reads input[pos-1]")
		} else {
			s.Violation(rule, fnKey(pc)+"|the byte immediately before", m.Pos(pc.Pos()), "prevChar does not read input[pos-1]: the escape test looks at the wrong byte")
		}
	}
	// the escape flag is raised only in front of what it escapes: a backslash before an '@' that starts no directive,
	// or before a single brace, is ordinary text and must stay
	if idt := m.Method("lexer", "Lexer", "isDirectiveToken"); idt != nil && idt.Signature.Results().Len() == 2 {
		illegal := int64(-1)
		for v, n := range tokenConstNames {
			if n == "ILLEGAL" {
				illegal = v
			}
		}
		okAll, nTrue := true, 0
		where := ""
		for _, b := range idt.Blocks {
			ret, isRet := b.Instrs[len(b.Instrs)-1].(*ssa.Return)
			if !isRet || len(ret.Results) != 2 {
				continue
			}
			k, isK := retSource(ret, 1).(*ssa.Const)
			if isK && k.Value != nil && k.Value.Kind() == constant.Bool && !constant.BoolVal(k.Value) {
				continue // escaped = false
			}
			nTrue++
			matched := false
			for _, f := range expandFacts(factsAt(b)) {
				bo, isBo := f.Cond.(*ssa.BinOp)
				if !isBo || (bo.Op != token.EQL && bo.Op != token.NEQ) {
					continue
				}
				for _, pr := range [][2]ssa.Value{{bo.X, bo.Y}, {bo.Y, bo.X}} {
					c, isC := pr[0].(*ssa.Call)
					kc, isKc := pr[1].(*ssa.Const)
					if isC && isKc && c.Call.StaticCallee() != nil && canonFnName(c.Call.StaticCallee()) == "LookupDirective" && kc.Value != nil && kc.Int64() == illegal && (bo.Op == token.NEQ) == f.Holds {
						matched = true
					}
				}
			}
			if !matched {
				okAll = false
				where = m.InstrPos(ret)
			}
		}
		key := fnKey(idt) + "|escaped only when a directive keyword follows"
		switch {
		case nTrue == 0:
			s.Violation(rule, key, m.Pos(idt.Pos()), "isDirectiveToken never reports an escaped directive: `\\@if` cannot be written as text")
		case okAll:
			s.OK(rule, key, m.Pos(idt.Pos()), "every return that reports an escape lies under LookupDirective(keyword) != ILLEGAL")
		default:
			s.Violation(rule, key, where, "isDirectiveToken can report an escaped directive (return at %s) without having found a directive keyword after the '@': the text scanner then removes the backslash of ordinary text such as `C:\\@home` or `\\@foo`", where)
		}
	}
	if abt := m.Method("lexer", "Lexer", "areBracesToken"); abt != nil && abt.Signature.Results().Len() == 2 {
		lexT := m.namedType("lexer", "Lexer")
		fChar := -1
		if lexT != nil {
			st := lexT.Underlying().(*types.Struct)
			for i := 0; i < st.NumFields(); i++ {
				if canonFieldName(lexT, i, st.Field(i).Name()) == "char" {
					fChar = i
				}
			}
		}
		bad, undecided := "", ""
		combos := [][3]byte{{'{', '{', '\\'}, {'{', '{', 'x'}, {'{', 'x', '\\'}, {'x', '{', '\\'}, {'{', 'x', 'x'}, {'x', '{', 'x'}, {'x', 'x', '\\'}, {'x', 'x', 'x'}}
		// only a backslash escapes: every other byte in front of `{{` leaves it the start of code
		for pv := 1; pv < 256; pv++ {
			if pv != '\\' && pv != 'x' {
				combos = append(combos, [3]byte{'{', '{', byte(pv)})
			}
		}
		for _, cs := range combos {
			if fChar < 0 {
				undecided = "lexer.Lexer.char not found"
				break
			}
			// on a real lexer state first (whatever way the function looks at the bytes), else on an abstract one
			var res any
			ok := false
			ip := &Interp{m: m, useGlobals: true}
			if clx, okL := m.lexerAt(string([]byte{cs[2], cs[0], cs[1]})+" t", 1); okL {
				res, ok = ip.Run(abt, []any{clx})
				if _, isT := res.(iTuple); !ok || !isT || ip.stuck != "" {
					ok = false
				}
			}
			if !ok {
				lx := &iStruct{typ: lexT, fields: map[int]any{fChar: constant.MakeInt64(int64(cs[0]))}}
				ip = &Interp{m: m}
				ip.call = func(c *ssa.Call, args []any) (any, bool) {
					if sc := c.Call.StaticCallee(); sc != nil {
						switch canonFnName(sc) {
						case "peekChar":
							return constant.MakeInt64(int64(cs[1])), true
						case "prevChar":
							return constant.MakeInt64(int64(cs[2])), true
						}
					}
					return nil, false
				}
				res, ok = ip.Run(abt, []any{lx})
			}
			tup, isT := res.(iTuple)
			if !ok || !isT || len(tup) != 2 || ip.stuck != "" {
				undecided = "current " + string(cs[0]) + ", next " + string(cs[1]) + ": " + ip.stuck
				break
			}
			r0, ok0 := tup[0].(constant.Value)
			r1, ok1 := tup[1].(constant.Value)
			if !ok0 || !ok1 {
				undecided = "results unknown"
				break
			}
			braces := cs[0] == '{' && cs[1] == '{'
			wantB, wantE := braces && cs[2] != '\\', braces && cs[2] == '\\'
			if constant.BoolVal(r0) != wantB || constant.BoolVal(r1) != wantE {
				bad = fmt.Sprintf("with current %q, next %q, previous %q it answers (braces %v, escaped %v), expected (%v, %v)", rune(cs[0]), rune(cs[1]), rune(cs[2]), constant.BoolVal(r0), constant.BoolVal(r1), wantB, wantE)
				break
			}
		}
		key := fnKey(abt) + "|braces and escaped braces are told apart by the bytes around them"
		switch {
		case undecided != "":
			s.Undecided(rule, key, m.Pos(abt.Pos()), "areBracesToken could not be evaluated (%s)", undecided)
		case bad != "":
			s.Violation(rule, key, m.Pos(abt.Pos()), "areBracesToken: %s — text loses a backslash that escapes nothing, or `{{` in text is (not) taken as the start of code", bad)
		default:
			s.OK(rule, key, m.Pos(abt.Pos()), "case evaluation over the 8 combinations of (current is '{', next is '{', previous is a backslash) and over every other byte in front of `{{`")
		}
	}
	// literal -> output chain
	type link struct {
		key string
		ok  bool
		pos string
		bad string
	}
	var links []link
	// HTMLStmt.String returns Token.Literal
	if fn := m.Method("ast", "HTMLStmt", "String"); fn != nil {
		ok := len(fn.Blocks) == 1
		if ok {
			ret, isRet := fn.Blocks[0].Instrs[len(fn.Blocks[0].Instrs)-1].(*ssa.Return)
			ok = isRet && fieldPathOf(ret.Results[0]) == ".Token.Literal"
		}
		links = append(links, link{"ast.(*HTMLStmt).String|is the token's literal", ok, m.Pos(fn.Pos()), "HTMLStmt.String() is not exactly its token's literal"})
	}
	if fn := m.Method("object", "HTML", "String"); fn != nil {
		ok := len(fn.Blocks) == 1
		if ok {
			ret, isRet := fn.Blocks[0].Instrs[len(fn.Blocks[0].Instrs)-1].(*ssa.Return)
			ok = isRet && fieldPathOf(ret.Results[0]) == ".Value"
		}
		links = append(links, link{"object.(*HTML).String|is its value", ok, m.Pos(fn.Pos()), "object.HTML.String() is not exactly its Value"})
	}
	if ev := m.Method("evaluator", "Evaluator", "Eval"); ev != nil {
		// decided by evaluating Eval on an abstract *ast.HTMLStmt whose token literal is a known text
		ok := false
		res, _, _ := m.evalOnNode("HTMLStmt", map[string]any{"Token.Literal": constant.MakeString("<TEXT>")})
		if ro, isO := res.(*iStruct); isO && ro.typ.Obj().Name() == "HTML" {
			for _, fv := range ro.fields {
				if c, isC := fv.(constant.Value); isC && c.Kind() == constant.String && constant.StringVal(c) == "<TEXT>" {
					ok = true
				}
			}
		}
		links = append(links, link{"evaluator.(*Evaluator).Eval|text statement evaluates to its literal", ok, m.Pos(ev.Pos()), "the Eval case for *ast.HTMLStmt does not produce object.HTML{Value: node.String()}"})
	}
	if ph := m.Method("parser", "Parser", "parseHTMLStmt"); ph != nil {
		ok := false
		for _, b := range ph.Blocks {
			for _, in := range b.Instrs {
				if st, isSt := in.(*ssa.Store); isSt && tokenSource(m, st.Val, 0) {
					ok = true
				}
			}
		}
		links = append(links, link{"parser.(*Parser).parseHTMLStmt|keeps the token", ok, m.Pos(ph.Pos()), "parseHTMLStmt does not store the current token in the statement"})
	}
	// NextToken: newToken(HTML, readHTML())
	if nt := m.Method("lexer", "Lexer", "NextToken"); nt != nil {
		ok := false
		var ntBlocks []*ssa.BasicBlock
		for _, hf := range m.helpersOf(nt) {
			ntBlocks = append(ntBlocks, hf.Blocks...)
		}
		for _, b := range ntBlocks {
			for _, in := range b.Instrs {
				if c, isC := in.(*ssa.Call); isC && c.Call.StaticCallee() != nil && canonFnName(c.Call.StaticCallee()) == "newToken" {
					if k, isK := c.Call.Args[1].(*ssa.Const); isK && tokenConstNames[k.Int64()] == "HTML" {
						if src, isS := c.Call.Args[2].(*ssa.Call); isS && src.Call.StaticCallee() == rh {
							ok = true
						}
					}
				}
			}
		}
		links = append(links, link{"lexer.(*Lexer).NextToken|text token carries the scanned run", ok, m.Pos(nt.Pos()), "the HTML token's literal is not exactly what readHTML returned"})
	}
	// readHTML returns out.String()
	{
		ok := false
		for _, b := range rh.Blocks {
			if ret, isRet := b.Instrs[len(b.Instrs)-1].(*ssa.Return); isRet {
				if c, isC := ret.Results[0].(*ssa.Call); isC && c.Call.StaticCallee() != nil && (fnFullName(c.Call.StaticCallee()) == "(*bytes.Buffer).String" || fnFullName(c.Call.StaticCallee()) == "(*strings.Builder).String") {
					ok = true
				}
				// string(text) of the byte slice the characters were appended to
				if cv, isCv := ret.Results[0].(*ssa.Convert); isCv {
					if _, isSl := cv.X.Type().Underlying().(*types.Slice); isSl {
						ok = true
					}
				}
			}
		}
		links = append(links, link{fk + "|returns the buffer", ok, m.Pos(rh.Pos()), "readHTML does not return the content of its buffer unchanged"})
	}
	for _, l := range links {
		if l.ok {
			s.OK(rule, l.key, l.pos, "no transformation on this link of the chain token literal -> statement -> object -> output")
		} else {
			s.Violation(rule, l.key, l.pos, "%s: text would not reach the output byte for byte", l.bad)
		}
	}
	if len(links) < 6 {
		s.Undecided(rule, "text chain", "-", "only %d of 6 links of the text passthrough chain were found", len(links))
	}
	// comment terminator is the full four-byte constant
	sc := m.Method("lexer", "Lexer", "skipComment")
	if sc != nil {
		ok, nTrue := true, 0
		isTerm := func(c *ssa.Call, names ...string) bool {
			if c == nil || c.Call.StaticCallee() == nil || len(c.Call.Args) < 2 {
				return false
			}
			n := fnFullName(c.Call.StaticCallee())
			for _, want := range names {
				if n == want {
					lit, okl := constOfValue(c.Call.Args[1])
					return okl && lit == "--}}"
				}
			}
			return false
		}
		for _, b := range sc.Blocks {
			ret, isRet := b.Instrs[len(b.Instrs)-1].(*ssa.Return)
			if !isRet || len(ret.Results) != 1 {
				continue
			}
			if k, isK := ret.Results[0].(*ssa.Const); !isK || k.Value == nil || k.Value.String() != "true" {
				if isK {
					continue // return false
				}
				// the returned boolean is itself the outcome of the search for the terminator (closed := idx != -1)
				var foundVal func(v ssa.Value, d int) bool
				foundVal = func(v ssa.Value, d int) bool {
					if d > 4 {
						return false
					}
					switch x := v.(type) {
					case *ssa.Const:
						return x.Value != nil && x.Value.String() == "false"
					case *ssa.Phi:
						for _, e := range x.Edges {
							if !foundVal(e, d+1) {
								return false
							}
						}
						return true
					case *ssa.Call:
						return isTerm(x, "strings.HasPrefix", "strings.Contains")
					case *ssa.Extract:
						c, isC := x.Tuple.(*ssa.Call)
						return isC && x.Index == 2 && isTerm(c, "strings.Cut")
					case *ssa.BinOp:
						c, _ := x.X.(*ssa.Call)
						k, isK := x.Y.(*ssa.Const)
						if isTerm(c, "strings.Index") && isK && k.Value != nil {
							return (x.Op == token.GEQ && k.Int64() == 0) || (x.Op == token.NEQ && k.Int64() == -1) || (x.Op == token.GTR && k.Int64() == -1)
						}
					}
					return false
				}
				nTrue++
				if !foundVal(ret.Results[0], 0) {
					ok = false
				}
				continue
			}
			nTrue++
			seenTerm := false
			for _, f := range expandFacts(factsAt(b)) {
				if c, isC := f.Cond.(*ssa.Call); isC && f.Holds && isTerm(c, "strings.HasPrefix") {
					seenTerm = true
				}
				// found by a search: strings.Index(rest, "--}}") >= 0, or the found flag of strings.Cut
				if bo, isBo := f.Cond.(*ssa.BinOp); isBo {
					c, _ := bo.X.(*ssa.Call)
					k, isK := bo.Y.(*ssa.Const)
					if isTerm(c, "strings.Index") && isK && k.Value != nil {
						found := (bo.Op == token.GEQ && k.Int64() == 0 && f.Holds) || (bo.Op == token.LSS && k.Int64() == 0 && !f.Holds) ||
							(bo.Op == token.NEQ && k.Int64() == -1 && f.Holds) || (bo.Op == token.EQL && k.Int64() == -1 && !f.Holds) || (bo.Op == token.GTR && k.Int64() == -1 && f.Holds)
						if found {
							seenTerm = true
						}
					}
				}
				if ex, isEx := f.Cond.(*ssa.Extract); isEx && f.Holds && ex.Index == 2 {
					if c, isC := ex.Tuple.(*ssa.Call); isC && isTerm(c, "strings.Cut") {
						seenTerm = true
					}
				}
				// a predicate of the lexer (`l.atCommentEnd()`), decided by cases on real lexer states: true exactly where
				// the input at the current position starts with the terminator
				if c, isC := f.Cond.(*ssa.Call); isC && f.Holds && c.Call.StaticCallee() != nil && m.InModule(c.Call.StaticCallee()) && m.isCommentEndPredicate(c.Call.StaticCallee()) {
					seenTerm = true
				}
			}
			if !seenTerm && !m.everyPathSeesTerminator(sc, b, func(c *ssa.Call) bool { return isTerm(c, "strings.HasPrefix") }) {
				ok = false
			}
		}
		ok = ok && nTrue > 0
		if ok {
			s.OK(rule, fnKey(sc)+"|a comment ends only at --}}", m.Pos(sc.Pos()), "the terminated outcome is reached only under HasPrefix(rest, \"--}}\") or a successful search for that constant")
		} else {
			s.Violation(rule, fnKey(sc)+"|a comment ends only at --}}", m.Pos(sc.Pos()), "skipComment can report the comment as terminated without having seen the full terminator --}}: text inside or after a comment is misinterpreted")
		}
	}
}

// everyPathSeesTerminator: does every path from the entry of fn to block target pass the true edge of a test that the
// rest of the input starts with the terminator (isTermCall)? Path by path, with one more thing known along a path:
// whether the current character is NUL (from the tests of l.char against 0 the path has passed, forgotten at every call
// that may read) — a loop left "because the input ended or the terminator was found", followed by "input ended: not
// terminated", leaves only the paths on which the terminator was found.
func (m *Model) everyPathSeesTerminator(fn *ssa.Function, target *ssa.BasicBlock, isTermCall func(*ssa.Call) bool) bool {
	type state struct {
		b    *ssa.BasicBlock
		seen bool
		zero int // 0 unknown, 1 the current character is NUL, 2 it is not
	}
	charTest := func(v ssa.Value) (isTest bool, trueMeansZero bool) {
		bo, ok := v.(*ssa.BinOp)
		if !ok || (bo.Op != token.EQL && bo.Op != token.NEQ) {
			return false, false
		}
		for _, pr := range [][2]ssa.Value{{bo.X, bo.Y}, {bo.Y, bo.X}} {
			k, isK := pr[1].(*ssa.Const)
			if isCharLoad(pr[0]) && isK && k.Value != nil && k.Int64() == 0 {
				return true, bo.Op == token.EQL
			}
		}
		return false, false
	}
	visited := map[state]bool{}
	bad := false
	var walk func(st state)
	walk = func(st state) {
		if bad || visited[st] {
			return
		}
		visited[st] = true
		if st.b == target {
			if !st.seen {
				bad = true
			}
			return
		}
		zero := st.zero
		for _, in := range st.b.Instrs {
			if c, isC := in.(*ssa.Call); isC {
				if sc := c.Call.StaticCallee(); sc == nil || shortPkg(fnPkgPath(sc)) == "lexer" {
					zero = 0 // may read
				}
			}
		}
		last := st.b.Instrs[len(st.b.Instrs)-1]
		ifi, isIf := last.(*ssa.If)
		if !isIf {
			for _, nx := range st.b.Succs {
				walk(state{nx, st.seen, zero})
			}
			return
		}
		cond, neg := ifi.Cond, false
		for {
			u, isU := cond.(*ssa.UnOp)
			if !isU || u.Op != token.NOT {
				break
			}
			cond, neg = u.X, !neg
		}
		if c, isC := cond.(*ssa.Call); isC && isTermCall(c) {
			tIdx := 0
			if neg {
				tIdx = 1
			}
			walk(state{st.b.Succs[tIdx], true, zero})
			walk(state{st.b.Succs[1-tIdx], st.seen, zero})
			return
		}
		if isT, tz := charTest(cond); isT {
			if neg {
				tz = !tz
			}
			// successor 0 is taken when the condition holds
			zeroOn := func(i int) int {
				if (i == 0) == tz {
					return 1
				}
				return 2
			}
			for i := 0; i < 2; i++ {
				z := zeroOn(i)
				if zero != 0 && zero != z {
					continue // infeasible on this path
				}
				walk(state{st.b.Succs[i], st.seen, z})
			}
			return
		}
		for _, nx := range st.b.Succs {
			walk(state{nx, st.seen, zero})
		}
	}
	walk(state{fn.Blocks[0], false, 0})
	return !bad
}

// RunDirMode: after a directive keyword the lexer enters code mode exactly when the parser will read parentheses there.
// Lexer side: directiveToken is case-evaluated on an abstract lexer for every directive token D and next character
// '(' / other (the keyword reader is abstracted: "read D, now at c"), observing the mode flags it leaves.
// Parser side: the statement parser of D requires "(" (every successful path passes expectPeek(LPAREN)), tests for it
// (peekTokenIs(LPAREN)), or never looks for it. A bare directive (@end, @else, @break, @continue) followed by "(" must
// stay in text mode: the parenthesised text belongs to the page.
func (m *Model) RunDirMode(s *Sink, rule string) {
	dt := m.Method("lexer", "Lexer", "directiveToken")
	rd := m.Method("lexer", "Lexer", "readDirective")
	lexT := m.namedType("lexer", "Lexer")
	ps := m.Method("parser", "Parser", "parseStatement")
	if dt == nil || rd == nil || lexT == nil || ps == nil {
		s.Undecided(rule, "lexer.directiveToken", "-", "directiveToken / readDirective / Lexer / parseStatement not found")
		return
	}
	dirs, prob := m.directiveTable()
	if prob != "" {
		s.Undecided(rule, "directives", "-", "%s", prob)
		return
	}
	pm := m.extractPratt()
	lparen, okLP := pm.tokVal["LPAREN"]
	if !okLP {
		s.Undecided(rule, "token.LPAREN", "-", "not found")
		return
	}
	fieldIdx := func(name string) int {
		st := lexT.Underlying().(*types.Struct)
		for i := 0; i < st.NumFields(); i++ {
			if canonFieldName(lexT, i, st.Field(i).Name()) == name {
				return i
			}
		}
		return -1
	}
	fChar := fieldIdx("char")
	mp, fresh, why := m.lexTextMode()
	if fChar < 0 || mp == nil {
		s.Undecided(rule, "lexer.Lexer fields", "-", "the current character / the text-mode state of the lexer were not found (%s)", why)
		return
	}
	// which directives are written with parentheses is part of the language (lsp/metadata/en/*.md: @break, @continue, @end
	// and @else are bare; @slot has an optional name; every other directive takes arguments)
	specBare := map[string]bool{"@else": true, "@end": true, "@break": true, "@continue": true}
	specOptional := map[string]bool{"@slot": true}
	takes := func(kw string) string {
		switch {
		case specBare[kw]:
			return "never"
		case specOptional[kw]:
			return "optional"
		}
		return "always"
	}
	_ = ps
	_ = lparen
	var names []string
	for k := range dirs {
		names = append(names, k)
	}
	sort.Strings(names)
	n := 0
	for _, kw := range names {
		tok := dirs[kw]
		want := takes(kw)
		// blanks before the parenthesis: an argument list for the directives that always take one (`@if (x)`), text for
		// the others (`@slot (optional)` in a component is a default slot followed by text). Evaluated on a real lexer
		// state; skipped when that is not possible
		if clx, okL := m.lexerAt(kw+" (x) t", 0); okL {
			if cst, isSt := clx.(*iStruct); isSt {
				ipc := &Interp{m: m, useGlobals: true}
				ipc.Run(dt, []any{cst})
				if hv, ok1 := mp.eval(m, cst); ipc.stuck == "" && ok1 && hv.Kind() == constant.Bool {
					key := fmt.Sprintf("%s|after %s followed by %q the mode matches what the parser reads", fnKey(dt), kw, " (")
					n++
					code := !constant.BoolVal(hv)
					if code == (want == "always") {
						s.OK(rule, key, m.Pos(dt.Pos()), "the directive takes parentheses: %s; lexer enters code mode: %v", want, code)
					} else if code {
						s.Violation(rule, key, m.Pos(dt.Pos()), "after %s followed by a blank and \"(\" the lexer enters code mode, but the directive takes its parentheses only when they follow at once (%s): `%s (text)` is a bare directive followed by text, which would be tokenised and disappear", kw, want, kw)
					} else {
						s.Violation(rule, key, m.Pos(dt.Pos()), "after %s followed by a blank and \"(\" the lexer stays in text mode, but the directive always takes arguments: they are emitted as text", kw)
					}
				}
			}
		}
		for _, next := range []byte{'(', 'x'} {
			lx := fresh.copyVal() // the state lexer.New leaves (text mode), standing on the '@' of the directive
			lx.val = false
			lx.fields[fChar] = constant.MakeInt64('@')
			ip := &Interp{m: m, useGlobals: true}
			ip.call = func(c *ssa.Call, args []any) (any, bool) {
				if c.Call.StaticCallee() == rd {
					lx.fields[fChar] = constant.MakeInt64(int64(next))
					return iTuple{constant.MakeInt64(tok), constant.MakeString(kw)}, true
				}
				return nil, false
			}
			ip.Run(dt, []any{lx})
			// on a real lexer state when possible: a lookahead that reads the input itself sees the same bytes
			if clx, okL := m.lexerAt(kw+string([]byte{next})+"x) t", 0); okL {
				if cst, isSt := clx.(*iStruct); isSt {
					ipc := &Interp{m: m, useGlobals: true}
					ipc.Run(dt, []any{cst})
					if hv, ok1 := mp.eval(m, cst); ipc.stuck == "" && ok1 && hv.Kind() == constant.Bool {
						lx, ip = cst, ipc
					}
				}
			}
			key := fmt.Sprintf("%s|after %s followed by %q the mode matches what the parser reads", fnKey(dt), kw, string(next))
			n++
			hv, ok1 := mp.eval(m, lx)
			if ip.stuck != "" || !ok1 || hv.Kind() != constant.Bool {
				s.Undecided(rule, key, m.Pos(dt.Pos()), "directiveToken could not be evaluated for this case (%s)", ip.stuck)
				continue
			}
			code := !constant.BoolVal(hv)
			wantCode := want == "always" || (want == "optional" && next == '(')
			if code == wantCode {
				s.OK(rule, key, m.Pos(dt.Pos()), "the directive takes parentheses: %s; lexer enters code mode: %v", want, code)
			} else if code {
				s.Violation(rule, key, m.Pos(dt.Pos()), "after the bare directive %s the lexer enters code mode when %q follows, but the directive takes no arguments: the following text is tokenised and disappears from the output", kw, string(next))
			} else {
				s.Violation(rule, key, m.Pos(dt.Pos()), "after %s followed by %q the lexer stays in text mode, but the directive takes arguments (%s): they are emitted as text", kw, string(next), want)
			}
		}
	}
	if n < 20 {
		s.Undecided(rule, "directive cases", "-", "expected at least 20 (directive, next character) cases, found %d", n)
	}
}

// lexModePred: how the lexer tells text mode from code mode — the bool field isHTML, or (when the state is encoded
// otherwise, e.g. as a flag word) the one pure niladic bool method of *Lexer that holds in the state lexer.New leaves.
type lexModePred struct {
	field  int
	getter *ssa.Function
}

func (mp *lexModePred) eval(m *Model, lx *iStruct) (constant.Value, bool) {
	if mp.getter == nil {
		v, ok := lx.field(mp.field)
		c, isC := v.(constant.Value)
		return c, ok && isC
	}
	ip := &Interp{m: m, useGlobals: true}
	res, ok := ip.Run(mp.getter, []any{lx})
	c, isC := res.(constant.Value)
	return c, ok && isC && ip.stuck == "" && !ip.dirty
}

// lexTextMode finds the text-mode predicate and the lexer state after construction.
func (m *Model) lexTextMode() (*lexModePred, *iStruct, string) {
	if m.lexModeDone {
		return m.lexMode, m.lexFresh, m.lexModeWhy
	}
	m.lexModeDone = true
	lexT := m.namedType("lexer", "Lexer")
	newFn := m.PkgFunc("lexer", "New")
	if lexT == nil || newFn == nil || len(newFn.Params) != 1 {
		m.lexModeWhy = "lexer.Lexer / lexer.New not found"
		return nil, nil, m.lexModeWhy
	}
	ip := &Interp{m: m, useGlobals: true}
	res, _ := ip.Run(newFn, []any{constant.MakeString("x")})
	fresh, ok := res.(*iStruct)
	if !ok || fresh.typ != lexT {
		m.lexModeWhy = "lexer.New could not be evaluated (" + ip.stuck + ")"
		return nil, nil, m.lexModeWhy
	}
	m.lexFresh = fresh
	st := lexT.Underlying().(*types.Struct)
	for i := 0; i < st.NumFields(); i++ {
		if canonFieldName(lexT, i, st.Field(i).Name()) == "isHTML" && isBoolT(st.Field(i).Type()) {
			m.lexMode = &lexModePred{field: i}
			return m.lexMode, fresh, ""
		}
	}
	var cands []*ssa.Function
	ms := m.Prog.MethodSets.MethodSet(types.NewPointer(lexT))
	for i := 0; i < ms.Len(); i++ {
		fn := m.Prog.MethodValue(ms.At(i))
		if fn == nil || fn.Blocks == nil || len(fn.Params) != 1 || fn.Signature.Results().Len() != 1 || !isBoolT(fn.Signature.Results().At(0).Type()) {
			continue
		}
		if sum := m.Effects().sums[fn]; sum == nil || len(sum.writes) > 0 {
			continue
		}
		c, ok := (&lexModePred{getter: fn}).eval(m, fresh)
		if ok && c.Kind() == constant.Bool && constant.BoolVal(c) {
			cands = append(cands, fn)
		}
	}
	if len(cands) != 1 {
		m.lexModeWhy = fmt.Sprintf("no bool field isHTML and %d candidate text-mode predicates", len(cands))
		return nil, fresh, m.lexModeWhy
	}
	m.lexMode = &lexModePred{getter: cands[0]}
	return m.lexMode, fresh, ""
}

// isTextModeRead: v reads the text-mode state of the lexer (the field, or a call of the predicate method).
func (m *Model) isTextModeRead(v ssa.Value) bool {
	if fieldPathOf(v) == ".isHTML" {
		return true
	}
	mp, _, _ := m.lexTextMode()
	if mp == nil || mp.getter == nil {
		return false
	}
	c, ok := v.(*ssa.Call)
	return ok && c.Call.StaticCallee() == mp.getter
}

// lenOfValue: a value standing for len(v) in the linear engine (the len call on v in this block, if any; else v itself).
func lenOfValue(v ssa.Value, b *ssa.BasicBlock) ssa.Value {
	for _, in := range b.Instrs {
		if c, ok := in.(*ssa.Call); ok {
			if bi, isB := c.Call.Value.(*ssa.Builtin); isB && bi.Name() == "len" && len(c.Call.Args) == 1 && c.Call.Args[0] == v {
				return c
			}
		}
	}
	return v
}

// RunLexInput — R-LEXINPUT (C05, C13, C19): the lexer scans exactly the text it is given. lexer.New stores its argument as
// the input unchanged, and no caller hands it a transformed text (trimmed, with a byte order mark removed, ...): bytes
// dropped before lexing are missing from the output, and every position and line the lexer reports is one in the
// shortened text, not in the caller's.
func (m *Model) RunLexInput(s *Sink, rule string) {
	nw := m.PkgFunc("lexer", "New")
	if nw == nil || len(nw.Params) < 1 {
		s.Undecided(rule, "lexer.New", "-", "not found")
		return
	}
	okStore, nStore := true, 0
	what := ""
	for _, b := range nw.Blocks {
		for _, in := range b.Instrs {
			st, ok := in.(*ssa.Store)
			if !ok {
				continue
			}
			fa, ok := st.Addr.(*ssa.FieldAddr)
			if !ok || fieldName(fa.X.Type(), fa.Field) != "input" {
				continue
			}
			nStore++
			v := st.Val
			if ld, isLd := v.(*ssa.UnOp); isLd {
				if cv, okc := cellValue(ld); okc {
					v = cv
				}
			}
			if v != ssa.Value(nw.Params[0]) {
				okStore = false
				what = valueDesc(st.Val)
			}
		}
	}
	key := fnKey(nw) + "|the lexer's input is the given text, unchanged"
	switch {
	case nStore == 0:
		s.Undecided(rule, key, m.Pos(nw.Pos()), "no store into the lexer's input field in lexer.New")
	case okStore:
		s.OK(rule, key, m.Pos(nw.Pos()), "l.input = input")
	default:
		s.Violation(rule, key, m.Pos(nw.Pos()), "lexer.New stores %s instead of its argument as the input: the bytes removed are missing from the output, and token positions, EOF and error lines refer to the shortened text, not to the text the caller gave", what)
	}
	// callers: the text is a parameter handed through, or the content of a file as read
	if node := m.CG.Nodes[nw]; node != nil {
		n := 0
		for _, e := range node.In {
			caller := e.Caller.Func
			if isUserPkg(fnPkgPath(caller)) || !m.InModule(caller) || len(e.Site.Common().Args) < 1 {
				continue
			}
			n++
			k2 := fmt.Sprintf("%s|hands the lexer the text it was given", fnKey(caller))
			bad := ""
			for _, r := range m.resolveUp(e.Site.Common().Args[0], nil, 0) {
				v := r
				if ex, isEx := v.(*ssa.Extract); isEx {
					v = ex.Tuple
				}
				switch x := v.(type) {
				case *ssa.Parameter, *ssa.Const, *ssa.UnOp, *ssa.Phi:
				case *ssa.Call:
					if sc := x.Call.StaticCallee(); sc == nil || !m.InModule(sc) {
						bad = "the result of " + valueDesc(x)
					}
				case *ssa.Convert:
					// string(bytes) of a read
				default:
					bad = valueDesc(v)
				}
			}
			if bad == "" {
				s.OK(rule, k2, m.InstrPos(e.Site), "the argument is a parameter handed through or the content of a file")
			} else {
				s.Violation(rule, k2, m.InstrPos(e.Site), "%s hands lexer.New %s, a transformed text: what is removed or changed before lexing is removed or changed in the output, and reported positions and lines refer to the transformed text", fnKey(caller), bad)
			}
		}
		if n == 0 {
			s.Undecided(rule, "lexer.New|callers", "-", "no caller of lexer.New in the library")
		}
	}
}

// isCommentEndPredicate: fn(lexer) bool, evaluated on the lexer states New leaves for a family of inputs (and some
// reads further), answers true exactly when the rest of the input at the current position starts with "--}}".
func (m *Model) isCommentEndPredicate(fn *ssa.Function) bool {
	if m.cePred == nil {
		m.cePred = map[*ssa.Function]bool{}
	}
	if v, ok := m.cePred[fn]; ok {
		return v
	}
	m.cePred[fn] = false
	if fn.Blocks == nil || len(fn.Params) != 1 || fn.Signature.Results().Len() != 1 || !isBoolT(fn.Signature.Results().At(0).Type()) {
		return false
	}
	type cs struct {
		in    string
		steps int
	}
	cases := []cs{{"--}}", 0}, {"--}}x", 0}, {"--}", 0}, {"--", 0}, {"-", 0}, {"", 0}, {"-}}}", 0}, {"--}x", 0}, {"-x}}", 0}, {"x-}}", 0}, {"x--}}", 0}, {"x--}}", 1},
		{"---}}", 0}, {"---}}", 1}, {"ab--}}cd", 2}, {"ab--}}cd", 3}, {"--}}--}}", 4}, {"}}--", 0}, {"--} }", 0}, {"- -}}", 0}}
	for _, c := range cases {
		lx, ok := m.lexerAt(c.in, c.steps)
		if !ok {
			return false
		}
		ip := &Interp{m: m, useGlobals: true}
		res, okR := ip.Run(fn, []any{lx})
		rc, isC := res.(constant.Value)
		if !okR || !isC || rc.Kind() != constant.Bool || ip.stuck != "" || len(ip.lost) > 0 {
			return false
		}
		want := c.steps <= len(c.in) && strings.HasPrefix(c.in[c.steps:], "--}}")
		if constant.BoolVal(rc) != want {
			return false
		}
	}
	m.cePred[fn] = true
	return true
}

// isEscapeFlag: v is the "escaped" result of isDirectiveToken / areBracesToken — directly, as `a || b` of the two, or
// as a result of a lexer helper every return of which hands back such a value (or false).
func (m *Model) isEscapeFlag(v ssa.Value, d int) bool {
	if d > 4 {
		return false
	}
	switch x := v.(type) {
	case *ssa.Extract:
		call, ok := x.Tuple.(*ssa.Call)
		if !ok || call.Call.StaticCallee() == nil {
			return false
		}
		sc := call.Call.StaticCallee()
		if nm := canonFnName(sc); (nm == "isDirectiveToken" || nm == "areBracesToken") && x.Index == 1 {
			return true
		}
		if !m.InModule(sc) || sc.Blocks == nil || shortPkg(fnPkgPath(sc)) != "lexer" {
			return false
		}
		n := 0
		for _, b := range sc.Blocks {
			ret, isRet := b.Instrs[len(b.Instrs)-1].(*ssa.Return)
			if !isRet || x.Index >= len(ret.Results) {
				continue
			}
			rv := ret.Results[x.Index]
			if k, isK := rv.(*ssa.Const); isK && k.Value != nil && k.Value.String() == "false" {
				continue
			}
			n++
			if !m.isEscapeFlag(rv, d+1) {
				return false
			}
		}
		return n > 0
	case *ssa.Phi:
		n := 0
		for i, e := range x.Edges {
			if k, isK := e.(*ssa.Const); isK && k.Value != nil {
				if k.Value.String() == "false" {
					continue
				}
				// `a || b`: the edge that carries true comes from where a holds
				okEdge := false
				if i < len(x.Block().Preds) {
					for _, f := range expandFacts(edgeFact(x.Block().Preds[i], x.Block())) {
						if f.Holds && m.isEscapeFlag(f.Cond, d+1) {
							okEdge = true
						}
					}
					for _, f := range expandFacts(factsAt(x.Block().Preds[i])) {
						if f.Holds && m.isEscapeFlag(f.Cond, d+1) {
							okEdge = true
						}
					}
				}
				if !okEdge {
					return false
				}
				n++
				continue
			}
			if !m.isEscapeFlag(e, d+1) {
				return false
			}
			n++
		}
		return n > 0
	}
	return false
}
