package main

// rule_own.go — R-OWN (C07): every use of a component owns its parsed program; loader clauses for components and layouts.

import (
	"fmt"
	"go/token"
	"strings"

	"golang.org/x/tools/go/ssa"
)

func (m *Model) RunOwn(s *Sink, rule string) {
	ea := m.Effects()
	// stores `comp.Block = P`
	n := 0
	for _, fn := range m.ModFns {
		if fn.Blocks == nil || isUserPkg(fnPkgPath(fn)) {
			continue
		}
		loops := naturalLoops(fn)
		for _, b := range fn.Blocks {
			for _, in := range b.Instrs {
				st, ok := in.(*ssa.Store)
				if !ok {
					continue
				}
				fa, ok := st.Addr.(*ssa.FieldAddr)
				if !ok || !strings.HasSuffix(derefTypeString(fa.X.Type()), "ast.ComponentStmt") || fieldName(fa.X.Type(), fa.Field) != "Block" {
					continue
				}
				n++
				key := fmt.Sprintf("%s|a parsed component program is given to one use only", fnKey(fn))
				P := st.Val
				li := loopOf(loops, b)
				// does the function also write into P (slot bodies)?
				writesP := false
				if par, isPar := P.(*ssa.Parameter); isPar {
					pi := -1
					for i, q := range fn.Params {
						if q == par {
							pi = i
						}
					}
					for _, w := range ea.sums[fn].writes {
						if w.o.kind == oParam && w.o.idx == pi {
							writesP = true
						}
					}
				}
				switch {
				case li == nil:
					s.OK(rule, key, m.InstrPos(st), "the store is not in a loop")
				case definedIn(P, li):
					s.OK(rule, key, m.InstrPos(st), "the program is produced inside the same loop pass")
				default:
					// loop-invariant program stored into loop-varying components: at most once per loop run?
					again := false
					for _, sc := range b.Succs {
						if li.body[sc] || sc == li.header {
							again = true
						}
					}
					// the block may continue inside the loop through later blocks
					ctx := m.Ctx(fn)
					if ctx.reach[b][li.header] && !exitsOnly(b, li) {
						again = true
					}
					if again && writesP {
						s.Violation(rule, key, m.InstrPos(st), "%s stores one and the same program (%s, defined outside the loop) into the Block of several component uses while also writing each use's slot bodies into that program: all uses of the component then share the slot bodies of the last one", fnKey(fn), valueDesc(P))
					} else if again {
						s.Violation(rule, key, m.InstrPos(st), "%s stores one loop-invariant program into the Block of several component uses: uses of the component are not independent", fnKey(fn))
					} else {
						s.OK(rule, key, m.InstrPos(st), "the store leaves the loop (break/return): one program is applied to one use per call")
					}
				}
				// callers must pass a fresh program per call (a caller that merely forwards its own parameter is looked through)
				if par, isPar := P.(*ssa.Parameter); isPar {
					pi := -1
					for i, q := range fn.Params {
						if q == par {
							pi = i
						}
					}
					var checkCallers func(callee *ssa.Function, pi int, depth int)
					checkCallers = func(callee *ssa.Function, pi int, depth int) {
						node := m.CG.Nodes[callee]
						if node == nil || pi < 0 {
							return
						}
						for _, e := range node.In {
							caller := e.Caller.Func
							if isUserPkg(fnPkgPath(caller)) || !m.InModule(caller) || pi >= len(e.Site.Common().Args) {
								continue
							}
							arg := e.Site.Common().Args[pi]
							if fp, isFwd := arg.(*ssa.Parameter); isFwd && depth < 3 {
								for i, q := range caller.Params {
									if q == fp {
										checkCallers(caller, i, depth+1)
									}
								}
								continue
							}
							k2 := fmt.Sprintf("%s|passes a freshly parsed program per component use", fnKey(caller))
							cl := loopOf(naturalLoops(caller), e.Site.Block())
							fresh := false
							cst := ea.stateFor(caller)
							for o := range cst.ownOf(arg) {
								if o.kind == oFresh {
									fresh = true
								} else {
									fresh = false
									break
								}
							}
							if fresh && (cl == nil || freshInLoop(m, arg, cl, 0)) {
								s.OK(rule, k2, m.InstrPos(e.Site), "the program argument is produced by a parse inside the same loop pass")
							} else {
								s.Violation(rule, k2, m.InstrPos(e.Site), "%s hands %s a program that is not freshly parsed for this use (defined outside the loop over the page's components, or not fresh): several uses would alias one program", fnKey(caller), fnKey(callee))
							}
						}
					}
					checkCallers(fn, pi, 0)
				}
			}
		}
	}
	if n == 0 {
		s.Undecided(rule, "component block stores", "-", "no store to ComponentStmt.Block found: component programs are never attached")
	}
	// applying a program skips uses that already have one (so that each call serves a different use)
	ac := m.Method("ast", "Program", "ApplyComponent")
	if ac != nil {
		okSkip := false
		// "x.Block == nil" is known for the use x that receives the program: as a branch fact dominating the store, or
		// as the postcondition of the helper that selected x (every non-nil result it returns is returned under that fact)
		blockNilFact := func(b *ssa.BasicBlock, x ssa.Value) bool {
			xr, xp, xok := pathOf(stripIface(x))
			for _, f := range expandFacts(factsAt(b)) {
				bo, ok := f.Cond.(*ssa.BinOp)
				if !ok || !isNilConst(bo.Y) || (bo.Op != token.EQL && bo.Op != token.NEQ) {
					continue
				}
				if (bo.Op == token.NEQ) == f.Holds {
					continue // Block != nil
				}
				br, bp, bok := pathOf(stripIface(bo.X))
				if !bok || !strings.HasSuffix(bp, ".Block") {
					continue
				}
				if ld, isLd := bo.X.(*ssa.UnOp); isLd {
					if fa, isFA := ld.X.(*ssa.FieldAddr); isFA && fa.X == x {
						return true
					}
				}
				if xok && br == xr && bp == xp+".Block" {
					return true
				}
			}
			return false
		}
		var acBlocks []*ssa.BasicBlock
		for _, f := range m.ModFns { // the store may live in ApplyComponent or in a method it delegates to
			if f.Blocks != nil && shortPkg(fnPkgPath(f)) == "ast" {
				acBlocks = append(acBlocks, f.Blocks...)
			}
		}
		for _, b := range acBlocks {
			for _, in := range b.Instrs {
				st, ok := in.(*ssa.Store)
				if !ok {
					continue
				}
				fa, ok := st.Addr.(*ssa.FieldAddr)
				if !ok || fieldName(fa.X.Type(), fa.Field) != "Block" || !strings.HasSuffix(derefTypeString(fa.X.Type()), "ast.ComponentStmt") {
					continue
				}
				if blockNilFact(b, fa.X) {
					okSkip = true
					continue
				}
				holder := fa.X
				if _, isPar := holder.(*ssa.Parameter); isPar {
					// the use is handed in by the caller(s): what they pass
					if rs := m.resolveUp(holder, nil, 0); len(rs) == 1 {
						holder = rs[0]
						if hi, isInstr := holder.(ssa.Instruction); isInstr && blockNilFact(hi.Block(), holder) {
							okSkip = true
							continue
						}
					}
				}
				if c, isC := holder.(*ssa.Call); isC && c.Call.StaticCallee() != nil && m.InModule(c.Call.StaticCallee()) && c.Call.StaticCallee().Blocks != nil {
					h := c.Call.StaticCallee()
					all, n := true, 0
					for _, hb := range h.Blocks {
						ret, isRet := hb.Instrs[len(hb.Instrs)-1].(*ssa.Return)
						if !isRet || len(ret.Results) != 1 || isNilConst(ret.Results[0]) {
							continue
						}
						n++
						if !blockNilFact(hb, ret.Results[0]) {
							all = false
						}
					}
					if all && n > 0 {
						okSkip = true
					}
				}
			}
		}
		// the slot bodies of a use are written into the program only for the use that receives it: every store of a
		// slot body (into the new program's placeholders) is made under "this use has no program yet" too
		{
			okBodies, nBodies := true, 0
			bodyAt := ""
			for _, b := range acBlocks {
				for _, in := range b.Instrs {
					st, ok := in.(*ssa.Store)
					if !ok {
						continue
					}
					fa, ok := st.Addr.(*ssa.FieldAddr)
					if !ok || fieldName(fa.X.Type(), fa.Field) != "Body" || !strings.HasSuffix(derefTypeString(fa.X.Type()), "ast.SlotStmt") {
						continue
					}
					nBodies++
					under := false
					for _, f := range expandFacts(factsAt(b)) {
						bo, isBo := f.Cond.(*ssa.BinOp)
						if !isBo || !isNilConst(bo.Y) || (bo.Op != token.EQL && bo.Op != token.NEQ) || (bo.Op == token.NEQ) == f.Holds {
							continue
						}
						if _, bp, bok := pathOf(stripIface(bo.X)); bok && strings.HasSuffix(bp, ".Block") {
							under = true
						}
					}
					if !under {
						// the store sits in a helper that fills the placeholders for a use handed in by its caller: the
						// use the slot body comes from (the root of `X.Slots[i].Body`) must be one without a program there
						// the uses the slot body may come from: the roots X of `X.Slots[i].Body`, through parameters to the callers
						type useAt struct {
							v  ssa.Value
							at *ssa.BasicBlock // where "this use has no program yet" must hold: the store's block, or the call site the value came through
						}
						var uses []useAt
						lost := false
						// paramArgs: the arguments a parameter stands for, each with the block of its call site
						paramArgs := func(x *ssa.Parameter) []useAt {
							h := x.Parent()
							idx := -1
							for i, q := range h.Params {
								if q == x {
									idx = i
								}
							}
							node := m.CG.Nodes[h]
							if idx < 0 || node == nil {
								return nil
							}
							var out []useAt
							for _, e := range node.In {
								if e.Site == nil || e.Site.Common().StaticCallee() != h || idx >= len(e.Site.Common().Args) {
									return nil
								}
								out = append(out, useAt{e.Site.Common().Args[idx], e.Site.Block()})
							}
							return out
						}
						var findUses func(v ssa.Value, at *ssa.BasicBlock, depth int)
						findUses = func(v ssa.Value, at *ssa.BasicBlock, depth int) {
							cur := stripIface(v)
							for d := 0; d < 10; d++ {
								switch x := cur.(type) {
								case *ssa.UnOp:
									cur = x.X
								case *ssa.IndexAddr:
									cur = x.X
								case *ssa.FieldAddr:
									if fieldName(x.X.Type(), x.Field) == "Slots" {
										uses = append(uses, useAt{x.X, at})
										return
									}
									cur = x.X
								case *ssa.Extract:
									cur = x.Tuple
								case *ssa.Next:
									cur = x.Iter
								case *ssa.Range:
									cur = x.X
								case *ssa.Parameter:
									rs := paramArgs(x)
									if depth > 3 || len(rs) == 0 {
										lost = true
										return
									}
									for _, r := range rs {
										findUses(r.v, r.at, depth+1)
									}
									return
								default:
									lost = true
									return
								}
							}
							lost = true
						}
						findUses(st.Val, b, 0)
						useOK := func(u useAt) bool {
							if blockNilFact(u.at, u.v) {
								return true
							}
							if hi, isInstr := u.v.(ssa.Instruction); isInstr && blockNilFact(hi.Block(), u.v) {
								return true
							}
							if c, isC := u.v.(*ssa.Call); isC && c.Call.StaticCallee() != nil && c.Call.StaticCallee().Blocks != nil {
								allRet, nRet := true, 0
								for _, hb := range c.Call.StaticCallee().Blocks {
									ret, isRet := hb.Instrs[len(hb.Instrs)-1].(*ssa.Return)
									if !isRet || len(ret.Results) < 1 || isNilConst(ret.Results[0]) {
										continue
									}
									nRet++
									if !blockNilFact(hb, ret.Results[0]) {
										allRet = false
									}
								}
								return allRet && nRet > 0
							}
							return false
						}
						all, n := !lost, 0
						for _, u := range uses {
							if par, isPar := u.v.(*ssa.Parameter); isPar {
								rs := paramArgs(par)
								if len(rs) == 0 {
									all = false
								}
								for _, r := range rs {
									n++
									if !useOK(r) {
										all = false
									}
								}
								continue
							}
							n++
							if !useOK(u) {
								all = false
							}
						}
						under = all && n > 0
					}
					if !under {
						okBodies = false
						bodyAt = m.InstrPos(st)
					}
				}
			}
			if nBodies > 0 {
				if okBodies {
					s.OK(rule, fnKey(ac)+"|slot bodies go into the program of the use they belong to", m.Pos(ac.Pos()), "every store of a slot body is dominated by comp.Block == nil of the use being served")
				} else {
					s.Violation(rule, fnKey(ac)+"|slot bodies go into the program of the use they belong to", bodyAt, "ApplyComponent writes slot bodies into the program at %s for a use that may already have its own program (the store is not under comp.Block == nil): an earlier use's slot bodies end up in the program of a later use, which then shows them in placeholders it passed nothing for", bodyAt)
				}
			}
		}
		if okSkip {
			s.OK(rule, fnKey(ac)+"|serves a use that has no program yet", m.Pos(ac.Pos()), "the store is dominated by comp.Block == nil: repeated calls for one name serve successive uses")
		} else {
			s.Violation(rule, fnKey(ac)+"|serves a use that has no program yet", m.Pos(ac.Pos()), "ApplyComponent does not skip uses that already have a program: with several uses of one component the later programs are never attached to the later uses")
		}
	}
	// missing component file -> error naming the component
	act := m.PkgFuncOr("textwire", "applyComponentToProgram", func(f *ssa.Function) bool { return callsNamed(f, "ApplyComponent", "ast.Program") })
	if act != nil {
		ok := false
		var actBlocks []*ssa.BasicBlock
		for _, h := range m.helpersOf(act) { // the loader function and the private helpers its body is split into
			actBlocks = append(actBlocks, h.Blocks...)
		}
		for _, b := range actBlocks {
			for _, in := range b.Instrs {
				c, isC := in.(*ssa.Call)
				if !isC || c.Call.StaticCallee() == nil || canonFnName(c.Call.StaticCallee()) != "New" || len(c.Call.Args) < 5 {
					continue
				}
				msg, _ := constOfValue(c.Call.Args[3])
				if strings.Contains(msg, "is not defined") {
					for _, e := range variadicElems(c.Call.Args[4]) {
						if strings.HasSuffix(fieldPathOf(e), ".Name.Value") {
							ok = true
						}
					}
				}
			}
		}
		if ok {
			s.OK(rule, fnKey(act)+"|a missing component file is reported with the component's name", m.Pos(act.Pos()), "ErrUndefinedComponent carries comp.Name.Value")
		} else {
			s.Violation(rule, fnKey(act)+"|a missing component file is reported with the component's name", m.Pos(act.Pos()), "the undefined-component error does not name the component")
		}
	}
}

func definedIn(v ssa.Value, li *loopInfo) bool {
	if in, ok := v.(ssa.Instruction); ok {
		return li.body[in.Block()]
	}
	return false
}

// exitsOnly: every successor path of b leaves the loop without reaching the header (break or return).
func exitsOnly(b *ssa.BasicBlock, li *loopInfo) bool {
	seen := map[*ssa.BasicBlock]bool{}
	stack := append([]*ssa.BasicBlock{}, b.Succs...)
	for len(stack) > 0 {
		x := stack[len(stack)-1]
		stack = stack[:len(stack)-1]
		if seen[x] {
			continue
		}
		seen[x] = true
		if x == li.header {
			return false
		}
		if !li.body[x] {
			continue
		}
		stack = append(stack, x.Succs...)
	}
	return true
}

// freshInLoop: v is produced anew on every pass of the loop: the result of a call made inside the
// loop body (possibly through extracts/phis), not a value read from memory that outlives the pass.
func freshInLoop(m *Model, v ssa.Value, li *loopInfo, d int) bool {
	if d > 4 {
		return false
	}
	switch x := v.(type) {
	case *ssa.Call:
		if !li.body[x.Block()] {
			return false
		}
		sc := x.Call.StaticCallee()
		return sc != nil && m.InModule(sc)
	case *ssa.Extract:
		return freshInLoop(m, x.Tuple, li, d+1)
	case *ssa.Phi:
		for _, e := range x.Edges {
			if !freshInLoop(m, e, li, d+1) {
				return false
			}
		}
		return len(x.Edges) > 0
	case *ssa.Alloc:
		return li.body[x.Block()]
	}
	return false
}
