package main

// rule_builtin.go — C11: argument discipline, UTF-8 safety and sibling agreement of the builtin table.

import (
	"fmt"
	"go/constant"
	"go/token"
	"go/types"
	"sort"
	"strings"

	"golang.org/x/tools/go/ssa"
)

// builtinClosure: the builtin functions and the in-package helpers they call.
func (m *Model) builtinClosure() ([]*ssa.Function, map[*ssa.Function][]BuiltinEntry) {
	f := m.Facts()
	seen := map[*ssa.Function]bool{}
	var out []*ssa.Function
	owners := map[*ssa.Function][]BuiltinEntry{}
	var add func(fn *ssa.Function, be BuiltinEntry)
	add = func(fn *ssa.Function, be BuiltinEntry) {
		owners[fn] = append(owners[fn], be)
		if seen[fn] || fn.Blocks == nil {
			return
		}
		seen[fn] = true
		out = append(out, fn)
		for _, b := range fn.Blocks {
			for _, in := range b.Instrs {
				if c, ok := in.(*ssa.Call); ok && c.Call.StaticCallee() != nil && inPkg(c.Call.StaticCallee(), "evaluator") && c.Call.StaticCallee().Signature.Recv() == nil {
					add(c.Call.StaticCallee(), be)
				}
			}
		}
	}
	for _, be := range f.Builtins {
		add(be.Fn, be)
	}
	sort.Slice(out, func(i, j int) bool { return fnKey(out[i]) < fnKey(out[j]) })
	return out, owners
}

func (m *Model) RunBuiltinRules(s *Sink, ruleArg, ruleUTF, ruleSib string) {
	f := m.Facts()
	fns, _ := m.builtinClosure()
	// argument discipline: every comma-ok assertion on an element of args has an error on its miss edge
	for _, fn := range fns {
		for _, b := range fn.Blocks {
			for _, in := range b.Instrs {
				ta, ok := in.(*ssa.TypeAssert)
				if !ok || !ta.CommaOk {
					continue
				}
				ld, ok := ta.X.(*ssa.UnOp)
				if !ok {
					continue
				}
				ia, ok := ld.X.(*ssa.IndexAddr)
				if !ok {
					continue
				}
				if _, isParam := ia.X.(*ssa.Parameter); !isParam {
					continue
				}
				key := fmt.Sprintf("%s|argument %s of the wrong kind is an error", fnKey(fn), valueDesc(ia.Index))
				var okv ssa.Value
				for _, r := range *ta.Referrers() {
					if ex, isEx := r.(*ssa.Extract); isEx && ex.Index == 1 {
						okv = ex
					}
				}
				good := okv != nil && m.missIsError(okv, 0)
				if good {
					s.OK(ruleArg, key, m.InstrPos(ta), "the miss edge of args[%s].(%s) returns (nil, error)", valueDesc(ia.Index), typeStr(ta.AssertedType))
				} else {
					s.Violation(ruleArg, key, m.InstrPos(ta), "%s: when args[%s] is not a %s the function does not return an error (the wrong-kind argument is ignored or a default is used silently)", fnKey(fn), valueDesc(ia.Index), typeStr(ta.AssertedType))
				}
			}
		}
	}
	// ... and the check is made whenever the argument was passed: no path to a successful return goes round the
	// assertion of args[i] unless the conditions on that path say that there are at most i arguments (an early return
	// placed before the kind check accepts an argument of the wrong kind silently)
	for _, fn := range fns {
		m.argCheckOrder(s, ruleArg, fn)
	}
	// UTF-8: no byte-offset cut or byte index of a string in the builtins
	nStr := 0
	for _, fn := range fns {
		for _, b := range fn.Blocks {
			for _, in := range b.Instrs {
				switch x := in.(type) {
				case *ssa.Slice:
					if !isStringT(x.X.Type()) || (x.Low == nil && x.High == nil) {
						continue
					}
					nStr++
					key := fmt.Sprintf("%s|no byte-offset cut of %s", fnKey(fn), valueDesc(x.X))
					if boundIsCharSafe(x.Low) && boundIsCharSafe(x.High) {
						s.OK(ruleUTF, key, m.InstrPos(x), "bounds come from strings.Index*/len: always on a character boundary")
					} else {
						s.Violation(ruleUTF, key, m.InstrPos(x), "%s slices the string %s at a byte offset that is not known to be a character boundary: a multi-byte character can be split and the result is invalid UTF-8; convert to []rune first", fnKey(fn), valueDesc(x.X))
					}
				case *ssa.Index:
					if isStringT(x.X.Type()) {
						nStr++
						key := fmt.Sprintf("%s|no byte index of %s", fnKey(fn), valueDesc(x.X))
						s.Violation(ruleUTF, key, m.InstrPos(x), "%s indexes the string %s by byte: characters are not bytes", fnKey(fn), valueDesc(x.X))
					}
				}
			}
		}
	}
	s.OK(ruleUTF, "builtins|strings are cut only on character boundaries", "-", "%d string slice/index expressions in %d builtin functions and helpers examined", nStr, len(fns))
	// character-level builtins work on []rune
	for _, be := range f.Builtins {
		if be.Kind != "STRING" {
			continue
		}
		switch be.Name {
		case "len", "reverse", "at", "truncate", "capitalize":
			key := fmt.Sprintf("%s|STRING.%s works on characters", fnKey(be.Fn), be.Name)
			if usesRunes(m, be.Fn, 0) {
				s.OK(ruleUTF, key, m.Pos(be.Fn.Pos()), "converts the receiver to []rune")
			} else {
				s.Violation(ruleUTF, key, m.Pos(be.Fn.Pos()), "the builtin %s does not convert its receiver to []rune: it counts or cuts bytes, not characters", be.Name)
			}
		}
	}
	// siblings: error messages quote the registered name and kind
	for _, be := range f.Builtins {
		m.checkBuiltinMessages(s, ruleSib, be)
	}
	// first/last delegate to at with 0 / -1
	byName := map[string]*ssa.Function{}
	for _, be := range f.Builtins {
		if be.Kind == "STRING" {
			byName[be.Name] = be.Fn
		}
	}
	for name, want := range map[string]int64{"first": 0, "last": -1} {
		fn := byName[name]
		key := "STRING." + name + "|is at(" + fmt.Sprint(want) + ")"
		if fn == nil || byName["at"] == nil {
			s.Undecided(ruleSib, key, "-", "builtin not found")
			continue
		}
		ok := false
		for _, c := range callsToFn(fn, byName["at"]) {
			for _, e := range variadicElems(c.Call.Args[len(c.Call.Args)-1]) {
				if al, isAl := stripIface(e).(*ssa.Alloc); isAl {
					for _, r := range *al.Referrers() {
						if fa, isFa := r.(*ssa.FieldAddr); isFa {
							for _, rr := range *fa.Referrers() {
								if st, isSt := rr.(*ssa.Store); isSt {
									if k, isK := st.Val.(*ssa.Const); isK && k.Int64() == want {
										ok = true
									}
								}
							}
						}
					}
				}
			}
		}
		if !ok {
			// or both are thin wrappers of one core H: first/last passes the constant where at passes its index argument
			atFn := byName["at"]
			for _, b := range fn.Blocks {
				for _, in := range b.Instrs {
					c, isC := in.(*ssa.Call)
					if !isC || c.Call.StaticCallee() == nil || !inPkg(c.Call.StaticCallee(), "evaluator") {
						continue
					}
					h := c.Call.StaticCallee()
					for i, a := range c.Call.Args {
						k, isK := a.(*ssa.Const)
						if !isK || k.Value == nil || k.Value.Kind() != constant.Int || k.Int64() != want {
							continue
						}
						for _, ac := range callsToFn(atFn, h) {
							if i >= len(ac.Call.Args) {
								continue
							}
							v := ac.Call.Args[i]
							if cv, isCv := v.(*ssa.Convert); isCv {
								v = cv.X
							}
							if strings.HasSuffix(fieldPathOf(v), ".Value") {
								ok = true // at's own index argument goes to the same parameter
							}
						}
					}
				}
			}
		}
		if ok {
			s.OK(ruleSib, key, m.Pos(fn.Pos()), "delegates to at (or to the core at itself delegates to) with the constant %d", want)
		} else {
			s.Violation(ruleSib, key, m.Pos(fn.Pos()), "%s() does not delegate to at(%d)", name, want)
		}
	}
	// table shape
	kinds := map[string]int{}
	for _, be := range f.Builtins {
		kinds[be.Kind]++
	}
	if len(f.Builtins) < 39 || len(kinds) != 5 {
		s.Undecided(ruleSib, "builtin table size", "-", "expected at least 39 builtins over 5 receiver kinds, found %d over %d", len(f.Builtins), len(kinds))
	} else {
		s.OKTrivial(ruleSib, "builtin table size", "-", "%d builtins over %d receiver kinds", len(f.Builtins), len(kinds))
	}
	// signature / receiver kind agreement: each function registered under kind K asserts its receiver to GoType(K) only
	for _, be := range f.Builtins {
		want := f.TypeOfKind[be.Kind]
		for _, b := range be.Fn.Blocks {
			for _, in := range b.Instrs {
				ta, ok := in.(*ssa.TypeAssert)
				if !ok || ta.CommaOk || len(be.Fn.Params) < 2 || ta.X != ssa.Value(be.Fn.Params[1]) {
					continue
				}
				key := fmt.Sprintf("%s|receiver of %s.%s is a %s", fnKey(be.Fn), be.Kind, be.Name, typeStr(want))
				if want != nil && types.Identical(ta.AssertedType, want) {
					s.OK(ruleSib, key, m.InstrPos(ta), "asserted type matches the kind the function is registered under")
				} else {
					s.Violation(ruleSib, key, m.InstrPos(ta), "%s is registered for receivers of kind %s but asserts its receiver to %s: every call panics", fnKey(be.Fn), be.Kind, typeStr(ta.AssertedType))
				}
			}
		}
	}
}

func boundIsCharSafe(v ssa.Value) bool {
	if v == nil {
		return true
	}
	switch x := v.(type) {
	case *ssa.Const:
		return x.Int64() == 0
	case *ssa.Call:
		if b, ok := x.Call.Value.(*ssa.Builtin); ok && b.Name() == "len" {
			return true
		}
		if sc := x.Call.StaticCallee(); sc != nil {
			n := fnFullName(sc)
			return strings.HasPrefix(n, "strings.Index") || strings.HasPrefix(n, "strings.LastIndex")
		}
	}
	return false
}

func usesRunes(m *Model, fn *ssa.Function, d int) bool {
	if d > 2 || fn.Blocks == nil {
		return false
	}
	for _, b := range fn.Blocks {
		for _, in := range b.Instrs {
			switch x := in.(type) {
			case *ssa.Convert:
				if isStringT(x.X.Type()) && isRuneSlice(x.Type()) {
					return true
				}
			case *ssa.Call:
				if sc := x.Call.StaticCallee(); sc != nil && inPkg(sc, "evaluator") && sc != fn && usesRunes(m, sc, d+1) {
					return true
				}
			}
		}
	}
	return false
}

// checkBuiltinMessages: fmt.Sprintf(fail.ErrFunc..., name, kind, ...) quotes the registered name and kind.
func (m *Model) checkBuiltinMessages(s *Sink, rule string, be BuiltinEntry) {
	var visit func(fn *ssa.Function, kindParam *ssa.Parameter, bind map[*ssa.Parameter]string, d int)
	seen := map[*ssa.Function]bool{}
	n := 0
	visit = func(fn *ssa.Function, kindParam *ssa.Parameter, bind map[*ssa.Parameter]string, d int) {
		strOf := func(v ssa.Value) (string, bool) {
			if k, ok := constOfValue(v); ok {
				return k, true
			}
			if p, isP := v.(*ssa.Parameter); isP {
				k, ok := bind[p]
				return k, ok
			}
			return "", false
		}
		if seen[fn] || d > 2 || fn.Blocks == nil {
			return
		}
		seen[fn] = true
		for _, b := range fn.Blocks {
			for _, in := range b.Instrs {
				c, ok := in.(*ssa.Call)
				if !ok || c.Call.StaticCallee() == nil {
					continue
				}
				sc := c.Call.StaticCallee()
				if inPkg(sc, "evaluator") && sc.Signature.Recv() == nil && sc != fn {
					// helper: a constant kind argument selects what the helper prints
					var kp *ssa.Parameter
					nb := map[*ssa.Parameter]string{} // constant string arguments of this call: what the helper's parameters stand for
					for i, a := range c.Call.Args {
						if k, okc := strOf(stripIface(a)); okc && i < len(sc.Params) {
							nb[sc.Params[i]] = k
							if k == be.Kind {
								kp = sc.Params[i]
							}
						}
					}
					if _, registered := m.Facts().BuiltinOf[sc]; !registered {
						visit(sc, kp, nb, d+1)
					}
					continue
				}
				if fnFullName(sc) != "fmt.Sprintf" {
					continue
				}
				format, okf := constOfValue(c.Call.Args[0])
				if !okf || !(strings.Contains(format, "function '%s'")) {
					continue
				}
				elems := variadicElems(c.Call.Args[1])
				if len(elems) < 2 {
					continue
				}
				n++
				key := fmt.Sprintf("%s|%s.%s names itself in its error #%d", fnKey(be.Fn), be.Kind, be.Name, n)
				name, okn := strOf(stripIface(elems[0]))
				kind, okk := strOf(stripIface(elems[1]))
				if !okk && kindParam != nil && stripIface(elems[1]) == ssa.Value(kindParam) {
					kind, okk = be.Kind, true
				}
				if okn && okk && name == be.Name && kind == be.Kind {
					s.OK(rule, key, m.InstrPos(c), "the message quotes %q and %q", name, kind)
				} else if _, literal := constOfValue(stripIface(elems[0])); d > 0 && literal && okn && okk && kind == be.Kind {
					// shared helper registered under several names (decimal): the helper's constant name must be one it is reachable from
					s.OK(rule, key, m.InstrPos(c), "shared helper quotes %q and %q", name, kind)
				} else {
					s.Violation(rule, key, m.InstrPos(c), "the builtin registered as %s.%s reports errors naming function %q on type %q: the user is pointed at the wrong function", be.Kind, be.Name, name, kind)
				}
			}
		}
	}
	visit(be.Fn, nil, nil, 0)
}

// missIsError: the false outcome of the ok value leads to a return that carries a non-nil error — in this function,
// or, when the function hands ok back to its callers as its verdict, at every call site (recursively).
func (m *Model) missIsError(okv ssa.Value, depth int) bool {
	if depth > 3 || okv.Referrers() == nil {
		return false
	}
	errRet := func(b *ssa.BasicBlock) bool {
		ret, isRet := b.Instrs[len(b.Instrs)-1].(*ssa.Return)
		if !isRet {
			return false
		}
		res := b.Parent().Signature.Results()
		for i := range ret.Results {
			if isErrorLike(res.At(i).Type()) && !isNilConst(retSource(ret, i)) {
				return true
			}
		}
		return false
	}
	for _, fb := range failureTargets(okv) {
		if errRet(fb) {
			return true
		}
	}
	// returned as the verdict of the enclosing function
	fn := okv.(ssa.Instruction).Parent()
	vi := verdictIndex(fn)
	returned := false
	for _, r := range *okv.Referrers() {
		if ret, isRet := r.(*ssa.Return); isRet && vi >= 0 && vi < len(ret.Results) && ret.Results[vi] == okv {
			returned = true
		}
	}
	if !returned && vi >= 0 {
		// `if !ok { return zero, false }`: the miss edge hands the verdict false to the callers
		fts := failureTargets(okv)
		all := len(fts) > 0
		for _, fb := range fts {
			ret, isRet := fb.Instrs[len(fb.Instrs)-1].(*ssa.Return)
			if !isRet || vi >= len(ret.Results) {
				all = false
				continue
			}
			k, isK := ret.Results[vi].(*ssa.Const)
			if !isK || k.Value == nil || k.Value.Kind() != constant.Bool || constant.BoolVal(k.Value) {
				all = false
			}
		}
		returned = all
	}
	if !returned {
		return false
	}
	node := m.CG.Nodes[fn]
	if node == nil {
		return false
	}
	n := 0
	for _, e := range node.In {
		call, isCall := e.Site.(*ssa.Call)
		if !isCall || call.Call.StaticCallee() != fn {
			return false
		}
		n++
		var verdict ssa.Value
		for _, r := range *call.Referrers() {
			if ex, isEx := r.(*ssa.Extract); isEx && ex.Index == vi {
				verdict = ex
			}
		}
		if verdict == nil || !m.missIsError(verdict, depth+1) {
			return false
		}
	}
	return n > 0
}

// argCheckOrder: see RunBuiltinRules. fn has a parameter that is the argument list ([]object.Object); for every
// comma-ok assertion of args[i] with a constant i (in fn itself, or in a helper that is handed the list and a constant
// position) every path from the entry to a return with a nil error passes the assertion, or carries conditions from
// which len(args) <= i follows.
func (m *Model) argCheckOrder(s *Sink, rule string, fn *ssa.Function) {
	var argsPar *ssa.Parameter
	for _, p := range fn.Params {
		if sl, ok := p.Type().Underlying().(*types.Slice); ok && strings.HasSuffix(sl.Elem().String(), "object.Object") {
			argsPar = p
		}
	}
	if argsPar == nil || fn.Blocks == nil {
		return
	}
	res := fn.Signature.Results()
	errIdx := -1
	for i := 0; i < res.Len(); i++ {
		if isErrorLike(res.At(i).Type()) {
			errIdx = i
		}
	}
	if errIdx < 0 {
		return
	}
	type site struct {
		idx   int64
		block *ssa.BasicBlock
		pos   string
	}
	var sites []site
	for _, b := range fn.Blocks {
		for _, in := range b.Instrs {
			switch x := in.(type) {
			case *ssa.TypeAssert:
				if !x.CommaOk {
					continue
				}
				if ld, ok := x.X.(*ssa.UnOp); ok {
					if ia, ok := ld.X.(*ssa.IndexAddr); ok && ia.X == ssa.Value(argsPar) {
						if k, isK := ia.Index.(*ssa.Const); isK && k.Value != nil {
							sites = append(sites, site{k.Int64(), b, m.InstrPos(x)})
						}
					}
				}
			case *ssa.Call:
				// a helper handed the list and a constant position that asserts args[pos]
				sc := x.Call.StaticCallee()
				if sc == nil || !m.InModule(sc) || sc.Blocks == nil {
					continue
				}
				listAt, posAt := -1, -1
				for ai, a := range x.Call.Args {
					if a == ssa.Value(argsPar) {
						listAt = ai
					}
				}
				if listAt < 0 || listAt >= len(sc.Params) {
					continue
				}
				for _, hb := range sc.Blocks {
					for _, hin := range hb.Instrs {
						ta, ok := hin.(*ssa.TypeAssert)
						if !ok || !ta.CommaOk {
							continue
						}
						if ld, ok := ta.X.(*ssa.UnOp); ok {
							if ia, ok := ld.X.(*ssa.IndexAddr); ok && ia.X == ssa.Value(sc.Params[listAt]) {
								if pp, isP := ia.Index.(*ssa.Parameter); isP {
									for pi, q := range sc.Params {
										if q == pp {
											posAt = pi
										}
									}
								}
							}
						}
					}
				}
				if posAt >= 0 && posAt < len(x.Call.Args) {
					if k, isK := x.Call.Args[posAt].(*ssa.Const); isK && k.Value != nil {
						sites = append(sites, site{k.Int64(), b, m.InstrPos(x)})
					}
				}
			}
		}
	}
	if len(sites) == 0 {
		return
	}
	a := m.NewArith(fn)
	lenForm := a.lenLin(argsPar, 0)
	for _, st := range sites {
		key := fmt.Sprintf("%s|argument %d is checked on every path that returns a value", fnKey(fn), st.idx)
		bad := ""
		nPaths := 0
		var walk func(b *ssa.BasicBlock, onPath map[*ssa.BasicBlock]bool, facts []Fact)
		walk = func(b *ssa.BasicBlock, onPath map[*ssa.BasicBlock]bool, facts []Fact) {
			if bad != "" || nPaths > 4000 || b == st.block || onPath[b] {
				return
			}
			if ret, isRet := b.Instrs[len(b.Instrs)-1].(*ssa.Return); isRet {
				nPaths++
				if errIdx < len(ret.Results) && isNilConst(retSource(ret, errIdx)) {
					// a value is returned: the argument must be absent on this path
					ef := expandFacts(facts)
					ineqs := a.ineqsFrom(ef)
					if !a.proveLE(lenForm, st.idx, ineqs, 3) && !lenPathInfeasible(a, lenForm, ef) {
						bad = m.InstrPos(ret)
					}
				}
				return
			}
			onPath[b] = true
			for _, sb := range b.Succs {
				walk(sb, onPath, append(append([]Fact{}, facts...), edgeFact(b, sb)...))
			}
			delete(onPath, b)
		}
		walk(fn.Blocks[0], map[*ssa.BasicBlock]bool{}, nil)
		switch {
		case nPaths > 4000:
			s.Undecided(rule, key, st.pos, "too many paths in %s", fnKey(fn))
		case bad != "":
			s.Violation(rule, key, st.pos, "%s can return a value (at %s) without having checked the kind of argument %d although that argument may have been passed: the return comes before the check at %s, so an argument of the wrong kind is accepted silently for some receivers", fnKey(fn), bad, st.idx, st.pos)
		default:
			s.OK(rule, key, st.pos, "every path to a return with a nil error passes the check, or implies len(args) <= %d", st.idx)
		}
	}
}

// RunNameCuts — R-UTF8 (names): the evaluator cuts a property name only on a character boundary. A name is cut when
// the first letter of a field name is upper-cased for the fallback lookup (`user.name` finds the Go field `Name`);
// cut after one byte, a name whose first letter is not ASCII (`élan` for the field `Élan`) is never found. Every slice
// of a string in the evaluator's own functions (the built-ins are judged by the same rule in C11) has bounds that come
// from a search, a length, a rune decoding or are 0.
func (m *Model) RunNameCuts(s *Sink, rule string) {
	builtin := map[*ssa.Function]bool{}
	bfns, _ := m.builtinClosure()
	for _, f := range bfns {
		builtin[f] = true
	}
	charSafe := func(v ssa.Value) bool {
		if boundIsCharSafe(v) {
			return true
		}
		// the size utf8.DecodeRuneInString / DecodeLastRuneInString report
		if ex, ok := v.(*ssa.Extract); ok && ex.Index == 1 {
			if c, isC := ex.Tuple.(*ssa.Call); isC && c.Call.StaticCallee() != nil && strings.HasPrefix(fnFullName(c.Call.StaticCallee()), "unicode/utf8.Decode") {
				return true
			}
		}
		if c, ok := v.(*ssa.Call); ok && c.Call.StaticCallee() != nil && strings.HasPrefix(fnFullName(c.Call.StaticCallee()), "unicode/utf8.RuneLen") {
			return true
		}
		return false
	}
	n := 0
	for _, fn := range m.reachableFns(m.Roots().Render) {
		if fn.Blocks == nil || shortPkg(fnPkgPath(fn)) != "evaluator" || builtin[fn] {
			continue
		}
		cnt := 0
		for _, b := range fn.Blocks {
			for _, in := range b.Instrs {
				x, ok := in.(*ssa.Slice)
				if !ok || !isStringT(x.X.Type()) || (x.Low == nil && x.High == nil) {
					continue
				}
				n++
				cnt++
				key := fmt.Sprintf("%s|no byte-offset cut of %s", fnKey(fn), valueDesc(x.X))
				if cnt > 1 {
					key = fmt.Sprintf("%s #%d", key, cnt)
				}
				if charSafe(x.Low) && charSafe(x.High) {
					s.OK(rule, key, m.InstrPos(x), "the bounds lie on character boundaries")
				} else {
					s.Violation(rule, key, m.InstrPos(x), "%s slices the string %s at a byte offset that is not known to be a character boundary: a name that starts with a multi-byte letter is cut inside that letter (an index with the name élan never finds the field Élan, although name finds Name)", fnKey(fn), valueDesc(x.X))
				}
			}
		}
	}
	if n == 0 {
		s.OK(rule, "evaluator|no string is cut by byte offsets", "-", "no string slice expression in the evaluator's own functions")
	}
}

// lenPathInfeasible: the comparisons of len(args) with constants collected along a path contradict each other
// (`case 1, 2:` entered through `len == 2` and then the false side of a second `len == 2`).
func lenPathInfeasible(a *Arith, lenForm Lin, facts []Fact) bool {
	lo, hi := int64(0), int64(1<<40)
	excluded := map[int64]bool{}
	isLen := func(v ssa.Value) bool {
		l := a.lin(v)
		return l.C == 0 && l.String() == lenForm.String()
	}
	for _, f := range facts {
		bo, ok := f.Cond.(*ssa.BinOp)
		if !ok {
			continue
		}
		op := bo.Op
		var k *ssa.Const
		switch {
		case isLen(bo.X):
			k, _ = bo.Y.(*ssa.Const)
		case isLen(bo.Y):
			k, _ = bo.X.(*ssa.Const)
			op = map[token.Token]token.Token{token.LSS: token.GTR, token.GTR: token.LSS, token.LEQ: token.GEQ, token.GEQ: token.LEQ, token.EQL: token.EQL, token.NEQ: token.NEQ}[op]
		}
		if k == nil || k.Value == nil || k.Value.Kind() != constant.Int {
			continue
		}
		c := k.Int64()
		if !f.Holds {
			op = map[token.Token]token.Token{token.LSS: token.GEQ, token.GEQ: token.LSS, token.LEQ: token.GTR, token.GTR: token.LEQ, token.EQL: token.NEQ, token.NEQ: token.EQL}[op]
		}
		switch op {
		case token.EQL:
			if c > lo {
				lo = c
			}
			if c < hi {
				hi = c
			}
		case token.NEQ:
			excluded[c] = true
		case token.LSS:
			if c-1 < hi {
				hi = c - 1
			}
		case token.LEQ:
			if c < hi {
				hi = c
			}
		case token.GTR:
			if c+1 > lo {
				lo = c + 1
			}
		case token.GEQ:
			if c > lo {
				lo = c
			}
		}
	}
	for lo <= hi && excluded[lo] {
		lo++
	}
	for hi >= lo && excluded[hi] {
		hi--
	}
	return lo > hi
}
