package main

// rule_ifcases.go — R-BRANCH decided by case evaluation: Eval is run on an abstract @if statement
// (@if c0 / @elseif c1 / @elseif c2 / optional @else) whose condition evaluations yield a truthy value, a falsy value
// or an error object, in every combination. What is observed: which children are evaluated, in which order and in
// which scope, and what the statement returns. The organisation of the evaluator's code (one function, selection
// helpers, scope helpers, named results) does not matter.

import (
	"fmt"
	"go/constant"
	"go/types"
	"strings"

	"golang.org/x/tools/go/ssa"
)

type ifCaseResult struct {
	decided   bool   // every case could be evaluated
	why       string // first case that could not
	bad       []string
	badScope  []string
	cases     int
	evalPos   string
	scopeSeen bool
}

// ifCases evaluates the cases; see the file comment.
func (m *Model) ifCases() *ifCaseResult {
	if m.ifCaseRes != nil {
		return m.ifCaseRes
	}
	r := &ifCaseResult{}
	m.ifCaseRes = r
	ev := m.Method("evaluator", "Evaluator", "Eval")
	ifT, elifT, blockT := m.namedType("ast", "IfStmt"), m.namedType("ast", "ElseIfStmt"), m.namedType("ast", "BlockStmt")
	envT := m.namedType("object", "Env")
	boolT, errT, htmlT, nilT := m.namedType("object", "Bool"), m.namedType("object", "Error"), m.namedType("object", "HTML"), m.namedType("object", "Nil")
	if ev == nil || ifT == nil || elifT == nil || blockT == nil || envT == nil || boolT == nil || errT == nil || htmlT == nil || nilT == nil {
		r.why = "Eval, ast.IfStmt, ast.ElseIfStmt, ast.BlockStmt, object.Env or the object types were not found"
		return r
	}
	r.evalPos = m.Pos(ev.Pos())
	fieldIdx := func(t *types.Named, name string) int {
		st := t.Underlying().(*types.Struct)
		for i := 0; i < st.NumFields(); i++ {
			if canonFieldName(t, i, st.Field(i).Name()) == name {
				return i
			}
		}
		return -1
	}
	fCond, fCons, fAlt, fAlts := fieldIdx(ifT, "Condition"), fieldIdx(ifT, "Consequence"), fieldIdx(ifT, "Alternative"), fieldIdx(ifT, "Alternatives")
	eCond, eCons := fieldIdx(elifT, "Condition"), fieldIdx(elifT, "Consequence")
	fOuter := fieldIdx(envT, "outer")
	bVal := fieldIdx(boolT, "Value")
	if fCond < 0 || fCons < 0 || fAlt < 0 || fAlts < 0 || eCond < 0 || eCons < 0 || fOuter < 0 || bVal < 0 {
		r.why = "fields of ast.IfStmt / ast.ElseIfStmt / object.Env / object.Bool not found"
		return r
	}
	outcomes := []string{"truthy", "falsy", "error"}
	for _, o0 := range outcomes {
		for _, o1 := range outcomes {
			for _, o2 := range outcomes {
				for _, hasElse := range []bool{true, false} {
					r.cases++
					outs := []string{o0, o1, o2}
					name := fmt.Sprintf("@if %s, @elseif %s, @elseif %s, %s", o0, o1, o2, map[bool]string{true: "with @else", false: "no @else"}[hasElse])
					conds := []any{iObj{"cond0"}, iObj{"cond1"}, iObj{"cond2"}}
					blocks := make([]*iStruct, 4)
					for i := range blocks {
						blocks[i] = &iStruct{typ: blockT, fields: map[int]any{}}
					}
					condRes := make([]*iStruct, 3)
					for i, o := range outs {
						switch o {
						case "truthy":
							condRes[i] = &iStruct{typ: boolT, fields: map[int]any{bVal: constant.MakeBool(true)}}
						case "falsy":
							condRes[i] = &iStruct{typ: boolT, fields: map[int]any{bVal: constant.MakeBool(false)}}
						default:
							condRes[i] = &iStruct{typ: errT, fields: map[int]any{}}
						}
					}
					blockRes := make([]*iStruct, 4)
					for i := range blockRes {
						blockRes[i] = &iStruct{typ: htmlT, fields: map[int]any{}}
					}
					el1 := &iStruct{typ: elifT, fields: map[int]any{eCond: conds[1], eCons: blocks[1]}}
					el2 := &iStruct{typ: elifT, fields: map[int]any{eCond: conds[2], eCons: blocks[2]}}
					node := &iStruct{typ: ifT, fields: map[int]any{fCond: conds[0], fCons: blocks[0],
						fAlts: iSlice{&iArr{elems: []any{el1, el2}}, 0, 2}}}
					if hasElse {
						node.fields[fAlt] = blocks[3]
					} else {
						node.fields[fAlt] = iNil{}
					}
					envIn := &iStruct{typ: envT, fields: map[int]any{}}
					type event struct {
						kind string
						idx  int
						env  any
					}
					var events []event
					ip := &Interp{m: m, useGlobals: true}
					started := false
					ip.call = func(c *ssa.Call, args []any) (any, bool) {
						sc := c.Call.StaticCallee()
						if sc != ev || len(args) < 3 {
							return nil, false
						}
						if args[1] == any(node) && !started {
							started = true
							return nil, false
						}
						for i, cd := range conds {
							if args[1] == cd {
								events = append(events, event{"cond", i, args[2]})
								return condRes[i], true
							}
						}
						for i, b := range blocks {
							if args[1] == any(b) {
								events = append(events, event{"block", i, args[2]})
								return blockRes[i], true
							}
						}
						events = append(events, event{"other", -1, nil})
						return nil, true
					}
					started = true // the outermost call is made by Run, not seen by the hook
					res, known := ip.Run(ev, []any{iObj{"evaluator"}, node, envIn})
					if ip.stuck != "" || len(ip.lost) > 0 {
						why := ip.stuck
						for _, l := range ip.lost {
							why += " (" + fnKey(l) + " could not be evaluated)"
						}
						if r.why == "" {
							r.why = name + ": " + why
						}
						continue
					}
					// expected
					var want []string
					var wantRes any
					chosen := -1
					for i, o := range outs {
						want = append(want, fmt.Sprintf("cond%d", i))
						if o == "error" {
							wantRes = condRes[i]
							chosen = -2
							break
						}
						if o == "truthy" {
							chosen = i
							break
						}
					}
					if chosen == -1 && hasElse {
						chosen = 3
					}
					if chosen >= 0 {
						want = append(want, fmt.Sprintf("block%d", chosen))
						wantRes = blockRes[chosen]
					}
					var got []string
					for _, e := range events {
						got = append(got, fmt.Sprintf("%s%d", e.kind, e.idx))
					}
					if strings.Join(got, " ") != strings.Join(want, " ") {
						r.bad = append(r.bad, fmt.Sprintf("%s: evaluates [%s], expected [%s]", name, describeIfEvents(got), describeIfEvents(want)))
						continue
					}
					switch {
					case wantRes != nil:
						if !known || res != wantRes {
							what := "the result of the chosen block"
							if chosen == -2 {
								what = "the error of the failing condition"
							}
							r.bad = append(r.bad, fmt.Sprintf("%s: the statement does not return %s unchanged", name, what))
							continue
						}
					default:
						o, isO := res.(*iStruct)
						if !known || !isO || o.typ != nilT {
							r.bad = append(r.bad, fmt.Sprintf("%s: the statement does not yield the nil object when no branch is taken", name))
							continue
						}
					}
					// scopes: conditions in the statement's own scope, the chosen block in a fresh scope enclosed by it
					for _, e := range events {
						switch e.kind {
						case "cond":
							if e.env != any(envIn) {
								r.badScope = append(r.badScope, fmt.Sprintf("%s: condition #%d is not evaluated in the scope of the @if statement itself", name, e.idx))
							}
						case "block":
							r.scopeSeen = true
							es, isS := e.env.(*iStruct)
							if !isS || es == envIn || es.typ != envT || es.fields[fOuter] != any(envIn) {
								r.badScope = append(r.badScope, fmt.Sprintf("%s: block #%d is not evaluated in a fresh scope enclosed by the scope of the @if statement", name, e.idx))
							}
						}
					}
				}
			}
		}
	}
	r.decided = r.why == ""
	return r
}

func describeIfEvents(ev []string) string {
	names := map[string]string{"cond0": "@if condition", "cond1": "1st @elseif condition", "cond2": "2nd @elseif condition",
		"block0": "@if block", "block1": "1st @elseif block", "block2": "2nd @elseif block", "block3": "@else block", "other-1": "another node"}
	var out []string
	for _, e := range ev {
		if n, ok := names[e]; ok {
			out = append(out, n)
		} else {
			out = append(out, e)
		}
	}
	return strings.Join(out, ", ")
}

// truthValues: condition values covering the rows of C02's truthiness table, each a separately allocated object (never
// one of the TRUE/FALSE/NIL singletons), so that a construct which compares with a singleton, or applies a predicate of
// its own, is told apart from one that asks isTruthy.
func (m *Model) truthValues() (truthy, falsy []*iStruct, ok bool) {
	mk := func(name string, val any) *iStruct {
		nt := m.namedType("object", name)
		if nt == nil {
			return nil
		}
		o := &iStruct{typ: nt, fields: map[int]any{}}
		st := nt.Underlying().(*types.Struct)
		for i := 0; i < st.NumFields(); i++ {
			if st.Field(i).Name() == "Value" && val != nil {
				o.fields[i] = val
			}
			if st.Field(i).Name() == "Elements" {
				o.fields[i] = iSlice{&iArr{}, 0, 0}
			}
			if st.Field(i).Name() == "Pairs" {
				o.fields[i] = &iMap{vals: map[string]any{}, kval: map[string]constant.Value{}}
			}
		}
		return o
	}
	truthy = []*iStruct{mk("Bool", constant.MakeBool(true)), mk("Int", constant.MakeInt64(1)), mk("Int", constant.MakeInt64(-3)), mk("Str", constant.MakeString("x")),
		mk("Float", constant.MakeFloat64(0.5)), mk("Array", nil), mk("Obj", nil)}
	falsy = []*iStruct{mk("Bool", constant.MakeBool(false)), mk("Nil", nil), mk("Int", constant.MakeInt64(0)), mk("Float", constant.MakeFloat64(0)), mk("Str", constant.MakeString(""))}
	for _, o := range append(append([]*iStruct{}, truthy...), falsy...) {
		if o == nil {
			return nil, nil, false
		}
	}
	return truthy, falsy, true
}

// controlIfCases: @breakIf(c) / @continueIf(c) yield the break / continue marker exactly when c is truthy, nothing
// (the nil object) when it is falsy, and the error when c fails — for every row of the truthiness table.
func (m *Model) controlIfCases(stmtType, markerType string) (bad string, decided bool, why string) {
	ev := m.Method("evaluator", "Evaluator", "Eval")
	nt := m.namedType("ast", stmtType)
	mt, nilT, errT := m.namedType("object", markerType), m.namedType("object", "Nil"), m.namedType("object", "Error")
	truthy, falsy, ok := m.truthValues()
	if ev == nil || nt == nil || mt == nil || nilT == nil || errT == nil || !ok {
		return "", false, "Eval / ast." + stmtType + " / object types not found"
	}
	fCond := -1
	st := nt.Underlying().(*types.Struct)
	for i := 0; i < st.NumFields(); i++ {
		if canonFieldName(nt, i, st.Field(i).Name()) == "Condition" {
			fCond = i
		}
	}
	if fCond < 0 {
		return "", false, "ast." + stmtType + ".Condition not found"
	}
	type tc struct {
		val  *iStruct
		want string
	}
	var cases []tc
	for _, v := range truthy {
		cases = append(cases, tc{v, "marker"})
	}
	for _, v := range falsy {
		cases = append(cases, tc{v, "nil"})
	}
	cases = append(cases, tc{&iStruct{typ: errT, fields: map[int]any{}}, "error"})
	for _, c := range cases {
		cnode := iObj{"condition"}
		node := &iStruct{typ: nt, fields: map[int]any{fCond: cnode}}
		ip := &Interp{m: m, useGlobals: true}
		nEval := 0
		ip.call = func(cl *ssa.Call, args []any) (any, bool) {
			if cl.Call.StaticCallee() == ev && len(args) >= 2 && args[1] == any(cnode) {
				nEval++
				return c.val, true
			}
			return nil, false
		}
		res, known := ip.Run(ev, []any{iObj{"evaluator"}, node, iObj{"env"}})
		if ip.stuck != "" || len(ip.lost) > 0 {
			return "", false, "condition " + describeObj(c.val) + ": " + ip.stuck
		}
		o, isO := res.(*iStruct)
		got := "something else"
		switch {
		case known && isO && o.typ == mt:
			got = "marker"
		case known && isO && o.typ == nilT:
			got = "nil"
		case known && isO && o == c.val && o.typ == errT:
			got = "error"
		}
		if nEval != 1 {
			return fmt.Sprintf("the condition is evaluated %d times", nEval), true, ""
		}
		if got != c.want {
			words := map[string]string{"marker": "the " + strings.ToLower(markerType) + " marker", "nil": "nothing (the nil object)", "error": "the condition's error", "something else": "something else"}
			return fmt.Sprintf("with the condition %s it yields %s, expected %s", describeObj(c.val), words[got], words[c.want]), true, ""
		}
	}
	return "", true, ""
}

func describeObj(o *iStruct) string {
	if o == nil || o.typ == nil {
		return "?"
	}
	for _, v := range o.fields {
		if c, ok := v.(constant.Value); ok {
			return fmt.Sprintf("%s %s (a value of its own, not a singleton)", o.typ.Obj().Name(), c.ExactString())
		}
	}
	return "a " + o.typ.Obj().Name() + " object"
}

// ifTruthCases: `@if(c) body @end` renders its body exactly when c is truthy — for every row of the truthiness table
// (13 condition values, none a singleton) — and nothing when it is falsy; a failing c is the result.
func (m *Model) ifTruthCases() (bad string, decided bool, why string) {
	ev := m.Method("evaluator", "Evaluator", "Eval")
	nt := m.namedType("ast", "IfStmt")
	htmlT, nilT, errT := m.namedType("object", "HTML"), m.namedType("object", "Nil"), m.namedType("object", "Error")
	truthy, falsy, ok := m.truthValues()
	if ev == nil || nt == nil || htmlT == nil || nilT == nil || errT == nil || !ok {
		return "", false, "Eval / ast.IfStmt / object types not found"
	}
	fCond, fCons, fAlts, fAlt := -1, -1, -1, -1
	st := nt.Underlying().(*types.Struct)
	for i := 0; i < st.NumFields(); i++ {
		switch canonFieldName(nt, i, st.Field(i).Name()) {
		case "Condition":
			fCond = i
		case "Consequence":
			fCons = i
		case "Alternatives":
			fAlts = i
		case "Alternative":
			fAlt = i
		}
	}
	blockT := m.namedType("ast", "BlockStmt")
	if fCond < 0 || fCons < 0 || fAlts < 0 || fAlt < 0 || blockT == nil {
		return "", false, "fields of ast.IfStmt not found"
	}
	type tc struct {
		val  *iStruct
		want string
	}
	var cases []tc
	for _, v := range truthy {
		cases = append(cases, tc{v, "body"})
	}
	for _, v := range falsy {
		cases = append(cases, tc{v, "nil"})
	}
	cases = append(cases, tc{&iStruct{typ: errT, fields: map[int]any{}}, "error"})
	for _, c := range cases {
		cnode := iObj{"condition"}
		body := &iStruct{typ: blockT, fields: map[int]any{}}
		bodyRes := &iStruct{typ: htmlT, fields: map[int]any{}}
		node := &iStruct{typ: nt, fields: map[int]any{fCond: cnode, fCons: body, fAlts: iSlice{&iArr{}, 0, 0}, fAlt: iNil{}}}
		ip := &Interp{m: m, useGlobals: true}
		nCond, nBody := 0, 0
		ip.call = func(cl *ssa.Call, args []any) (any, bool) {
			if cl.Call.StaticCallee() == ev && len(args) >= 2 {
				switch args[1] {
				case any(cnode):
					nCond++
					return c.val, true
				case any(body):
					nBody++
					return bodyRes, true
				}
			}
			return nil, false
		}
		res, known := ip.Run(ev, []any{iObj{"evaluator"}, node, &iStruct{typ: m.namedType("object", "Env"), fields: map[int]any{}}})
		if ip.stuck != "" || len(ip.lost) > 0 {
			return "", false, "condition " + describeObj(c.val) + ": " + ip.stuck
		}
		got := "something else"
		o, isO := res.(*iStruct)
		switch {
		case known && isO && o == bodyRes:
			got = "body"
		case known && isO && o.typ == nilT:
			got = "nil"
		case known && isO && o == c.val && o.typ == errT:
			got = "error"
		}
		if nCond != 1 {
			return fmt.Sprintf("the condition is evaluated %d times", nCond), true, ""
		}
		if got != c.want || (c.want == "body") != (nBody == 1) {
			words := map[string]string{"body": "its body", "nil": "nothing (the nil object)", "error": "the condition's error", "something else": "something else"}
			return fmt.Sprintf("with the condition %s it yields %s, expected %s", describeObj(c.val), words[got], words[c.want]), true, ""
		}
	}
	return "", true, ""
}

// ternaryCases: `c ? a : b` evaluates c once, then exactly one arm — a for every truthy row of the truthiness table,
// b for every falsy one — and yields that arm's result unchanged (an error object included); a failing c yields its
// error and evaluates no arm.
func (m *Model) ternaryCases() (bad string, decided bool, why string) {
	if m.ternDone {
		return m.ternBad, m.ternDecided, m.ternWhy
	}
	m.ternDone = true
	set := func(b string, d bool, w string) (string, bool, string) {
		m.ternBad, m.ternDecided, m.ternWhy = b, d, w
		return b, d, w
	}
	ev := m.Method("evaluator", "Evaluator", "Eval")
	nt := m.namedType("ast", "TernaryExp")
	htmlT, errT, envT := m.namedType("object", "HTML"), m.namedType("object", "Error"), m.namedType("object", "Env")
	truthy, falsy, ok := m.truthValues()
	if ev == nil || nt == nil || htmlT == nil || errT == nil || envT == nil || !ok {
		return set("", false, "Eval / ast.TernaryExp / object types not found")
	}
	fCond, fCons, fAlt := -1, -1, -1
	st := nt.Underlying().(*types.Struct)
	for i := 0; i < st.NumFields(); i++ {
		switch canonFieldName(nt, i, st.Field(i).Name()) {
		case "Condition":
			fCond = i
		case "Consequence":
			fCons = i
		case "Alternative":
			fAlt = i
		}
	}
	if fCond < 0 || fCons < 0 || fAlt < 0 {
		return set("", false, "fields of ast.TernaryExp not found")
	}
	type tc struct {
		val  *iStruct
		want string
	}
	var cases []tc
	for _, v := range truthy {
		cases = append(cases, tc{v, "then"})
	}
	for _, v := range falsy {
		cases = append(cases, tc{v, "else"})
	}
	cases = append(cases, tc{&iStruct{typ: errT, fields: map[int]any{}}, "error"})
	for _, c := range cases {
		for _, armFails := range []bool{false, true} {
			cnode, anode, bnode := iObj{"condition"}, iObj{"then"}, iObj{"else"}
			armT := htmlT
			if armFails {
				armT = errT
			}
			aRes, bRes := &iStruct{typ: armT, fields: map[int]any{}}, &iStruct{typ: armT, fields: map[int]any{}}
			node := &iStruct{typ: nt, fields: map[int]any{fCond: cnode, fCons: anode, fAlt: bnode}}
			envIn := &iStruct{typ: envT, fields: map[int]any{}}
			ip := &Interp{m: m, useGlobals: true}
			var events []string
			sameEnv := true
			ip.call = func(cl *ssa.Call, args []any) (any, bool) {
				if cl.Call.StaticCallee() == ev && len(args) >= 3 {
					switch args[1] {
					case any(cnode):
						events = append(events, "condition")
						sameEnv = sameEnv && args[2] == any(envIn)
						return c.val, true
					case any(anode):
						events = append(events, "then")
						sameEnv = sameEnv && args[2] == any(envIn)
						return aRes, true
					case any(bnode):
						events = append(events, "else")
						sameEnv = sameEnv && args[2] == any(envIn)
						return bRes, true
					}
				}
				return nil, false
			}
			res, known := ip.Run(ev, []any{iObj{"evaluator"}, node, envIn})
			if ip.stuck != "" || len(ip.lost) > 0 {
				return set("", false, "condition "+describeObj(c.val)+": "+ip.stuck)
			}
			want := []string{"condition"}
			var wantRes *iStruct
			switch c.want {
			case "then":
				want, wantRes = append(want, "then"), aRes
			case "else":
				want, wantRes = append(want, "else"), bRes
			default:
				wantRes = c.val
			}
			if strings.Join(events, " ") != strings.Join(want, " ") {
				return set(fmt.Sprintf("with the condition %s it evaluates [%s], expected [%s]", describeObj(c.val), strings.Join(events, ", "), strings.Join(want, ", ")), true, "")
			}
			if o, isO := res.(*iStruct); !known || !isO || o != wantRes {
				return set(fmt.Sprintf("with the condition %s it does not yield the result of its %s part unchanged", describeObj(c.val), map[string]string{"then": "then", "else": "else", "error": "condition (the error)"}[c.want]), true, "")
			}
			if !sameEnv {
				return set(fmt.Sprintf("with the condition %s a part is not evaluated in the scope of the expression", describeObj(c.val)), true, "")
			}
		}
	}
	return set("", true, "")
}
