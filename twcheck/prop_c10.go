package main

func init() {
	register(&PropInfo{
		ID:    "C10",
		Title: "String literals are HTML-escaped on output; raw() is the exact opt-out",
		Rules: []string{
			"R-LOOP: loops by cases — the output of every pass is in the result",
			"R-OWN: each use of a component gets its own parsed program; slot bodies go into the program of their own use",
			"R-OUTPUT: EvaluateString and Template.String return the String() of the evaluated object unchanged",
			"R-LAYOUT (alias): ~ is expanded only in the name of @use / @component, to layouts/ and components/",
			"R-SCOPE / R-PATHAPI (file content): a literal stored in a variable stays that variable's value (Env.Get / Env.Set by cases); EvaluateFile hands the file's bytes to EvaluateString unchanged",
			"R-FORMAT: every printf-like call (fmt family, and the module functions that hand a parameter on as a format: fail.New, newError, ...) gets a constant format, or the caller's own format parameter",
			"R-CUTSET: no strings.Trim/TrimLeft/TrimRight with a constant set of several different characters on the output path (a set, not a suffix: it eats characters of the value)",
			"R-PURE: no builtin (raw() in particular) writes through its receiver: the escaped value stays escaped in the variable it came from",
			"R-ESCAPE: the Eval case for *ast.StringLiteral builds its Str.Value from html.EscapeString(node.Value) with exactly the two quote entities restored; html.EscapeString is called only there and html.UnescapeString only in the builtin registered as raw, which returns exactly UnescapeString(receiver); no other evaluator code turns literal text into an output value; readString removes only backslash-quote",
		},
		Decided:     "TODO",
		NotDecided:  "TODO",
		Assumptions: trustedBase,
		Run: func(m *Model, s *Sink) {
			m.RunLoop(s, "R-LOOP")                                       // what each pass of a loop prints reaches the output, nested loops included
			m.RunOwn(s, "R-OWN")                                         // a literal in the slot body of one use is printed by that use: each use has its own parsed program
			m.RunOutputUnchanged(s, "R-OUTPUT")                          // the finished text is returned as it was printed (no pass over it changes a literal's bytes)
			m.RunLayout(s, "R-LAYOUT")                                   // the ~ shortcut applies to the names of @use and @component only: an ordinary literal that starts with ~ keeps its text
			m.RunScope(s, "R-SCOPE")                                     // a literal stored in a variable is what the variable prints: an inner binding does not overwrite an outer one
			m.RunEvalFile(s, "R-PATHAPI")                                // a literal in a file reaches the lexer with the bytes the file has
			m.RunObjString(s, "R-ESCAPE")                                // printing an object does not rewrite its text
			m.RunFormat(s, "R-FORMAT", m.reachableFns(m.Roots().Render)) // no text of a template, a path or an error is used as a printf format
			m.RunCutset(s, "R-CUTSET")
			m.RunEscape(s, "R-ESCAPE")
			// raw() and the other string builtins must not modify the (escaped) value they receive: it is shared with the variable
			m.RunBuiltinPurity(s, "R-PURE")
			s.RequireMin("R-ESCAPE", 6, "dispatch, literal store, 2 who-may-call sites, raw, readString")
		},
	})
}
