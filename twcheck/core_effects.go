package main

// core_effects.go — provenance ("whose memory does this pointer point into")
// and write-effect summaries, used by R-SHARED (C15/C16), builtin purity
// (C11), no-mutation of caller data (C12), who-may-write rules and the purity
// premise of R-MAPORDER.
//
// Origins of a pointer-like SSA value inside function F:
//   fresh(site)  memory allocated by this activation of F (Alloc, make, call returning fresh memory)
//   param(i)     memory reachable from F's i-th parameter (receiver is 0)
//   free(i)      memory reachable from F's i-th free variable (closures)
//   global(g)    the package-level variable g or memory reachable from it
// A fresh object may *contain* pointers of other origins (contents), which is
// what a load from it yields.

import (
	"fmt"
	"go/token"
	"go/types"
	"sort"
	"strings"

	"golang.org/x/tools/go/ssa"
)

type origKind int

const (
	oFresh origKind = iota
	oParam
	oFree
	oGlobal
)

type origin struct {
	kind origKind
	idx  int             // param / free index
	g    *ssa.Global     // global
	site ssa.Instruction // fresh allocation site (nil in summaries)
}

func (o origin) String() string {
	switch o.kind {
	case oFresh:
		return "fresh"
	case oParam:
		return fmt.Sprintf("param#%d", o.idx)
	case oFree:
		return fmt.Sprintf("free#%d", o.idx)
	}
	return "global " + o.g.Pkg.Pkg.Name() + "." + o.g.Name()
}

type origSet map[origin]bool

func (s origSet) add(o origin) { s[o] = true }
func (s origSet) addAll(t origSet) {
	for o := range t {
		s[o] = true
	}
}

// writeEffect: one place where memory of a given (non-fresh) origin is written.
type writeEffect struct {
	o         origin
	what      string // "store to field X", "map update", ...
	pos       string
	fn        *ssa.Function   // function containing the write instruction
	via       []*ssa.Function // call chain from the summarised function down to fn
	kind      string          // "store" | "mapupdate" | "append-in-place" | "call:<ext>"
	keyParam1 int             // a map update made by the summarised function itself whose key is its parameter number keyParam1-1 (0: none)
}

type fnSummary struct {
	writes    []writeEffect // origins are param/free/global only
	retOwn    origSet       // origins of returned pointer-like values (fresh = callee-fresh, site nil)
	retCont   origSet       // what fresh returned objects contain
	retOwnAt  []origSet     // the same per result index (functions with several results)
	retContAt []origSet
	extCalls  map[string]bool
	globReads map[*ssa.Global]bool // package-level variables read (directly)
}

type effectAnalysis struct {
	m    *Model
	sums map[*ssa.Function]*fnSummary
	fns  []*ssa.Function
}

func (m *Model) Effects() *effectAnalysis {
	if m.effects != nil {
		return m.effects
	}
	ea := &effectAnalysis{m: m, sums: map[*ssa.Function]*fnSummary{}}
	m.effects = ea
	for fn := range m.AllFns {
		if fn.Blocks == nil {
			continue
		}
		if m.InModule(fn) || isSynthetic(fn) {
			ea.fns = append(ea.fns, fn)
			ea.sums[fn] = &fnSummary{retOwn: origSet{}, retCont: origSet{}, extCalls: map[string]bool{}, globReads: map[*ssa.Global]bool{}}
		}
	}
	sort.Slice(ea.fns, func(i, j int) bool { return fnKey(ea.fns[i])+ea.fns[i].String() < fnKey(ea.fns[j])+ea.fns[j].String() })
	for iter := 0; iter < 12; iter++ {
		changed := false
		for _, fn := range ea.fns {
			if ea.analyse(fn) {
				changed = true
			}
		}
		if !changed {
			break
		}
	}
	return ea
}

// fnState: per-function provenance computation.
type fnState struct {
	ea       *effectAnalysis
	fn       *ssa.Function
	own      map[ssa.Value]origSet
	busy     map[ssa.Value]bool
	contents map[ssa.Instruction]origSet // fresh site -> origins of pointers stored into it
}

func pointerLike(t types.Type) bool {
	switch u := t.Underlying().(type) {
	case *types.Pointer, *types.Slice, *types.Map, *types.Chan, *types.Signature, *types.Interface:
		return true
	case *types.Struct:
		for i := 0; i < u.NumFields(); i++ {
			if pointerLike(u.Field(i).Type()) {
				return true
			}
		}
	case *types.Array:
		return pointerLike(u.Elem())
	case *types.Tuple:
		for i := 0; i < u.Len(); i++ {
			if pointerLike(u.At(i).Type()) {
				return true
			}
		}
	}
	return false
}

func (st *fnState) paramIndex(p *ssa.Parameter) int {
	for i, q := range st.fn.Params {
		if q == p {
			return i
		}
	}
	return -1
}

// ownOf: origins of the memory v points into (v pointer-like), or that v's address expression denotes.
func (st *fnState) ownOf(v ssa.Value) origSet {
	if s, ok := st.own[v]; ok {
		return s
	}
	if st.busy[v] {
		return origSet{}
	}
	st.busy[v] = true
	defer delete(st.busy, v)
	res := origSet{}
	switch x := v.(type) {
	case *ssa.Parameter:
		res.add(origin{kind: oParam, idx: st.paramIndex(x)})
	case *ssa.FreeVar:
		for i, fv := range st.fn.FreeVars {
			if fv == x {
				res.add(origin{kind: oFree, idx: i})
			}
		}
	case *ssa.Global:
		res.add(origin{kind: oGlobal, g: x})
	case *ssa.Alloc:
		res.add(origin{kind: oFresh, site: x})
	case *ssa.MakeMap:
		res.add(origin{kind: oFresh, site: x})
	case *ssa.MakeSlice:
		res.add(origin{kind: oFresh, site: x})
	case *ssa.MakeChan:
		res.add(origin{kind: oFresh, site: x})
	case *ssa.MakeClosure:
		res.add(origin{kind: oFresh, site: x})
		for _, b := range x.Bindings {
			st.addContents(x, st.ownOf(b))
		}
	case *ssa.Const, *ssa.Function, *ssa.Builtin:
	case *ssa.FieldAddr:
		res.addAll(st.ownOf(x.X))
	case *ssa.IndexAddr:
		res.addAll(st.ownOf(x.X))
	case *ssa.Field:
		res.addAll(st.ownOf(x.X))
	case *ssa.Index:
		res.addAll(st.loadFrom(st.ownOf(x.X)))
	case *ssa.Slice:
		res.addAll(st.ownOf(x.X))
	case *ssa.Lookup:
		res.addAll(st.loadFrom(st.ownOf(x.X)))
	case *ssa.TypeAssert:
		res.addAll(st.ownOf(x.X))
	case *ssa.ChangeType:
		res.addAll(st.ownOf(x.X))
	case *ssa.ChangeInterface:
		res.addAll(st.ownOf(x.X))
	case *ssa.Convert:
		if pointerLike(x.X.Type()) && pointerLike(x.Type()) {
			res.addAll(st.ownOf(x.X))
		} else if pointerLike(x.Type()) {
			res.add(origin{kind: oFresh, site: x}) // []rune(s), []byte(s)
		}
	case *ssa.SliceToArrayPointer:
		res.addAll(st.ownOf(x.X))
	case *ssa.MakeInterface:
		if pointerLike(x.X.Type()) {
			res.addAll(st.ownOf(x.X))
		}
	case *ssa.Extract:
		if c, isCall := x.Tuple.(*ssa.Call); isCall {
			if r, ok := st.callResultAt(c, x); ok {
				res.addAll(r)
				break
			}
		}
		res.addAll(st.ownOf(x.Tuple))
	case *ssa.Phi:
		for _, e := range x.Edges {
			res.addAll(st.ownOf(e))
		}
	case *ssa.UnOp:
		if x.Op == token.MUL {
			res.addAll(st.loadFrom(st.ownOf(x.X)))
		} else if x.Op == token.ARROW {
			res.addAll(st.loadFrom(st.ownOf(x.X)))
		}
	case *ssa.Next:
		res.addAll(st.loadFrom(st.ownOf(x.Iter)))
	case *ssa.Range:
		res.addAll(st.ownOf(x.X))
	case *ssa.BinOp:
		// string concatenation etc.: not pointer-like for our purposes
	case *ssa.Call:
		res.addAll(st.callResult(x))
	}
	if !pointerLike(v.Type()) {
		// addresses (FieldAddr etc.) are pointer-typed and so kept; plain scalars carry no provenance.
		// A map/string iterator (Range) is opaque but stands for the container it walks: keep its provenance, or the
		// values obtained with Next lose theirs (a store through `for _, v := range m { v.f = x }` would go unseen).
		_, isRange := v.(*ssa.Range)
		if _, isPtr := v.Type().Underlying().(*types.Pointer); !isPtr && !isRange {
			res = origSet{}
		}
	}
	st.own[v] = res
	return res
}

// isSyncFieldLoad: the load reads a mutex / atomic held in a struct (not state of the program's own).
func isSyncFieldLoad(x *ssa.UnOp) bool {
	ts := types.TypeString(x.Type(), nil)
	return strings.HasPrefix(ts, "sync.") || strings.HasPrefix(ts, "sync/atomic.")
}

func (st *fnState) addContents(site ssa.Instruction, os origSet) {
	if st.contents[site] == nil {
		st.contents[site] = origSet{}
	}
	st.contents[site].addAll(os)
}

// loadFrom: origins of a pointer-like value loaded from memory of the given origins.
func (st *fnState) loadFrom(base origSet) origSet {
	res := origSet{}
	for o := range base {
		switch o.kind {
		case oFresh:
			res.addAll(st.contents[o.site])
		default:
			res.add(o) // reachable from the same root
		}
	}
	return res
}

// callResult: origins of the value(s) returned by a call.
func (st *fnState) callResult(c *ssa.Call) origSet {
	res := origSet{}
	com := &c.Call
	if b, ok := com.Value.(*ssa.Builtin); ok {
		switch b.Name() {
		case "append":
			res.addAll(st.ownOf(com.Args[0]))
			res.add(origin{kind: oFresh, site: c})
			// appended elements become contents of the (possibly fresh) result
			if len(com.Args) > 1 {
				st.addContents(c, st.loadFromSlice(com.Args[1]))
			}
			st.addContents(c, st.loadFrom(st.ownOf(com.Args[0])))
		case "min", "max", "len", "cap", "copy", "delete", "print", "println", "recover", "real", "imag", "complex", "clear":
		default:
			res.add(origin{kind: oFresh, site: c})
		}
		return res
	}
	callees := st.ea.m.calleesOf(c)
	known := false
	for _, cal := range callees {
		sum := st.ea.sums[cal]
		if sum == nil {
			continue
		}
		known = true
		args := st.argsFor(c, cal)
		for o := range sum.retOwn {
			if o.kind == oFresh {
				res.add(origin{kind: oFresh, site: c})
			} else {
				res.addAll(st.mapOrigin(o, args, c))
			}
		}
		for o := range sum.retCont {
			if o.kind == oFresh {
				continue
			}
			st.addContents(c, st.mapOrigin(o, args, c))
		}
	}
	if !known {
		res.addAll(st.externalResult(c))
	}
	return res
}

// callResultAt: origins of one result of a call of module functions with several results (each result has its own
// provenance: the scope returned next to an error object does not inherit what the error object may alias). The
// fresh object a result may be is identified with the Extract instruction that takes it out of the tuple.
func (st *fnState) callResultAt(c *ssa.Call, x *ssa.Extract) (origSet, bool) {
	if _, isB := c.Call.Value.(*ssa.Builtin); isB {
		return nil, false
	}
	callees := st.ea.m.calleesOf(c)
	if len(callees) == 0 {
		return nil, false
	}
	for _, cal := range callees {
		sum := st.ea.sums[cal]
		if sum == nil || cal.Blocks == nil {
			return nil, false
		}
	}
	res := origSet{}
	for _, cal := range callees {
		sum := st.ea.sums[cal]
		if x.Index >= len(sum.retOwnAt) {
			continue // not analysed yet (first round of the fixpoint) or no return
		}
		args := st.argsFor(c, cal)
		for o := range sum.retOwnAt[x.Index] {
			if o.kind == oFresh {
				res.add(origin{kind: oFresh, site: x})
			} else {
				res.addAll(st.mapOrigin(o, args, c))
			}
		}
		for o := range sum.retContAt[x.Index] {
			if o.kind == oFresh {
				continue
			}
			st.addContents(x, st.mapOrigin(o, args, c))
		}
	}
	return res, true
}

func (st *fnState) loadFromSlice(v ssa.Value) origSet {
	// elements of a (variadic) slice: what was stored into it
	return st.loadFrom(st.ownOf(v))
}

// argsFor: argument values aligned with the callee's Params (receiver first).
func (st *fnState) argsFor(site ssa.CallInstruction, callee *ssa.Function) []ssa.Value {
	com := site.Common()
	if com.IsInvoke() {
		return append([]ssa.Value{com.Value}, com.Args...)
	}
	return com.Args
}

func (st *fnState) mapOrigin(o origin, args []ssa.Value, site ssa.CallInstruction) origSet {
	res := origSet{}
	switch o.kind {
	case oGlobal:
		res.add(o)
	case oParam:
		if o.idx >= 0 && o.idx < len(args) {
			own := st.ownOf(args[o.idx])
			res.addAll(own)
			// "memory reachable from the parameter": for an object allocated here that is also what it holds — a
			// fresh parser whose table field was given a package-level map writes that map when it registers
			// (only what the fresh object holds directly, and only package-level maps and slices: updating such a
			// container through the object is a write to the variable; objects merely pointed to from deeper inside —
			// the singletons stored in an environment a closure captured — are not what the callee's write reaches)
			for fo := range own {
				if fo.kind == oFresh && fo.site != nil {
					for co := range st.contents[fo.site] {
						if co.kind != oGlobal || co.g == nil {
							continue
						}
						gt := co.g.Type()
						if pt, isP := gt.Underlying().(*types.Pointer); isP {
							gt = pt.Elem()
						}
						switch gt.Underlying().(type) {
						case *types.Map, *types.Slice:
							res.add(co)
						}
					}
				}
			}
		}
	case oFree:
		// free variables of a closure called here: bindings of the closure value
		if mc, ok := site.Common().Value.(*ssa.MakeClosure); ok && o.idx < len(mc.Bindings) {
			res.addAll(st.ownOf(mc.Bindings[o.idx]))
		} else {
			res.addAll(st.loadFrom(st.ownOf(site.Common().Value)))
		}
	}
	return res
}

// externalResult: provenance of results of calls outside the module.
func (st *fnState) externalResult(c *ssa.Call) origSet {
	res := origSet{}
	sc := c.Call.StaticCallee()
	name := ""
	if sc != nil {
		name = fnFullName(sc)
	} else if c.Call.IsInvoke() {
		name = "invoke:" + c.Call.Method.Name()
	}
	switch name {
	case "reflect.ValueOf", "(reflect.Value).Elem", "(reflect.Value).Field", "(reflect.Value).Index", "(reflect.Value).MapIndex", "(reflect.Value).Interface", "(reflect.Value).MapKeys", "(reflect.Value).Addr", "reflect.Indirect":
		// views into the reflected value
		if len(c.Call.Args) > 0 {
			res.addAll(st.ownOf(c.Call.Args[0]))
		}
		return res
	}
	if pointerLike(c.Type()) {
		res.add(origin{kind: oFresh, site: c})
	}
	return res
}

// extWrites: external functions that write through an argument: name -> arg index.
var extWrites = map[string]int{
	"(*bytes.Buffer).Write": 0, "(*bytes.Buffer).WriteString": 0, "(*bytes.Buffer).WriteByte": 0, "(*bytes.Buffer).WriteRune": 0,
	"(*bytes.Buffer).Truncate": 0, "(*bytes.Buffer).Reset": 0, "(*bytes.Buffer).Grow": 0, "(*bytes.Buffer).ReadFrom": 0,
	"(*strings.Builder).Write": 0, "(*strings.Builder).WriteString": 0, "(*strings.Builder).WriteByte": 0, "(*strings.Builder).WriteRune": 0, "(*strings.Builder).Reset": 0, "(*strings.Builder).Grow": 0,
	"fmt.Fprint": 0, "fmt.Fprintf": 0, "fmt.Fprintln": 0, "io.WriteString": 0,
	"sort.Strings": 0, "sort.Ints": 0, "sort.Float64s": 0, "sort.Slice": 0, "sort.SliceStable": 0, "sort.Sort": 0, "sort.Stable": 0,
	"slices.Sort": 0, "slices.SortFunc": 0, "slices.SortStableFunc": 0, "slices.Reverse": 0,
	"math/rand.Shuffle": 1,
	// append-style library functions write into the spare capacity of their destination (a package-level scratch array
	// sliced [:0] is shared memory)
	"strconv.AppendFloat": 0, "strconv.AppendInt": 0, "strconv.AppendUint": 0, "strconv.AppendBool": 0, "strconv.AppendQuote": 0, "strconv.AppendQuoteRune": 0, "strconv.AppendQuoteToASCII": 0,
	"fmt.Append": 0, "fmt.Appendf": 0, "fmt.Appendln": 0, "unicode/utf8.AppendRune": 0, "encoding/hex.AppendEncode": 0, "encoding/base64.(*Encoding).AppendEncode": 1,
	"time.(Time).AppendFormat": 1, "(time.Time).AppendFormat": 1,
	"(*sync.Map).Store": 0, "(*sync.Map).LoadOrStore": 0, "(*sync.Map).Delete": 0, "(*sync.Map).Swap": 0, "(*sync.Map).CompareAndSwap": 0, "(*sync.Map).LoadAndDelete": 0, "(*sync.Map).Clear": 0,
	"(*sync/atomic.Bool).Store": 0, "(*sync/atomic.Int64).Store": 0, "(*sync/atomic.Int64).Add": 0, "(*sync/atomic.Int32).Store": 0, "(*sync/atomic.Int32).Add": 0, "(*sync/atomic.Value).Store": 0, "(*sync/atomic.Pointer).Store": 0,
	"(*sync.Mutex).Lock": -1, "(*sync.Mutex).Unlock": -1, "(*sync.RWMutex).Lock": -1, "(*sync.RWMutex).Unlock": -1, "(*sync.RWMutex).RLock": -1, "(*sync.RWMutex).RUnlock": -1,
}

// extReadOnly: library methods with a pointer receiver that are documented not to change it (or to be safe for
// concurrent use and free of observable state).
func extReadOnly(name string) bool {
	switch {
	case strings.HasPrefix(name, "(*sync.Map).Load"), name == "(*sync.Map).Range":
		return true
	case strings.HasPrefix(name, "(*sync/atomic.") && strings.HasSuffix(name, ").Load"):
		return true
	case strings.HasPrefix(name, "(*regexp.Regexp)."):
		return true // "A Regexp is safe for concurrent use by multiple goroutines"
	case strings.HasPrefix(name, "(*bytes.Buffer).") && (strings.HasSuffix(name, ").String") || strings.HasSuffix(name, ").Len") || strings.HasSuffix(name, ").Bytes") || strings.HasSuffix(name, ").Cap")):
		return true
	case strings.HasPrefix(name, "(*strings.Builder).") && (strings.HasSuffix(name, ").String") || strings.HasSuffix(name, ").Len") || strings.HasSuffix(name, ").Cap")):
		return true
	case strings.HasPrefix(name, "(*os.File).") && (strings.HasSuffix(name, ").Name") || strings.HasSuffix(name, ").Stat")):
		return true
	case strings.HasPrefix(name, "(*errors.") || strings.HasSuffix(name, ").Error") || strings.HasSuffix(name, ").Unwrap"):
		return true
	case strings.HasPrefix(name, "(*reflect.rtype)."), strings.HasPrefix(name, "(*reflect.ValueError)."):
		return true
	case strings.HasPrefix(name, "(*github.com/textwire/textwire/v2/"):
		return true // module code is summarised, not tabled
	}
	return false
}

func isReflectSetter(name string) bool {
	if !strings.HasPrefix(name, "(reflect.Value).") {
		return false
	}
	mname := strings.TrimPrefix(name, "(reflect.Value).")
	return strings.HasPrefix(mname, "Set") || mname == "Clear" || mname == "Grow"
}

// stateFor: provenance state of fn with the contents of its fresh objects computed
// (stores into them), iterated to a local fixpoint, against the current summaries.
func (ea *effectAnalysis) stateFor(fn *ssa.Function) *fnState {
	st := &fnState{ea: ea, fn: fn, own: map[ssa.Value]origSet{}, busy: map[ssa.Value]bool{}, contents: map[ssa.Instruction]origSet{}}
	for pass := 0; pass < 4; pass++ {
		st.own = map[ssa.Value]origSet{}
		before := contentsSize(st.contents)
		for _, b := range fn.Blocks {
			for _, in := range b.Instrs {
				switch x := in.(type) {
				case *ssa.Store:
					if !pointerLike(x.Val.Type()) {
						continue
					}
					vo := st.ownOf(x.Val)
					for o := range st.ownOf(x.Addr) {
						if o.kind == oFresh {
							st.addContents(o.site, vo)
						}
					}
				case *ssa.MapUpdate:
					vo := origSet{}
					if pointerLike(x.Value.Type()) {
						vo.addAll(st.ownOf(x.Value))
					}
					for o := range st.ownOf(x.Map) {
						if o.kind == oFresh {
							st.addContents(o.site, vo)
						}
					}
				case *ssa.Call:
					st.ownOf(x)
				}
			}
		}
		if contentsSize(st.contents) == before && pass > 0 {
			break
		}
	}
	return st
}

// analyse recomputes fn's summary; reports whether it changed.
func (ea *effectAnalysis) analyse(fn *ssa.Function) bool {
	m := ea.m
	st := ea.stateFor(fn)
	sum := &fnSummary{retOwn: origSet{}, retCont: origSet{}, extCalls: map[string]bool{}, globReads: map[*ssa.Global]bool{}}
	addWrite := func(os origSet, what, kind string, in ssa.Instruction, via []*ssa.Function, at *ssa.Function, pos string) {
		for o := range os {
			if o.kind == oFresh {
				continue
			}
			o.site = nil
			sum.writes = append(sum.writes, writeEffect{o: o, what: what, pos: pos, fn: at, via: via, kind: kind})
		}
	}
	for _, b := range fn.Blocks {
		for _, in := range b.Instrs {
			switch x := in.(type) {
			case *ssa.Store:
				addWrite(st.ownOf(x.Addr), "store to "+valueDesc(x.Addr), "store", in, nil, fn, m.InstrPos(in))
			case *ssa.MapUpdate:
				n0 := len(sum.writes)
				addWrite(st.ownOf(x.Map), "map update "+valueDesc(x.Map)+"[...]", "mapupdate", in, nil, fn, m.InstrPos(in))
				kv := x.Key
				if cv, isCv := kv.(*ssa.Convert); isCv {
					kv = cv.X
				}
				if kp, isPar := kv.(*ssa.Parameter); isPar {
					for pi, q := range fn.Params {
						if q == kp {
							for i := n0; i < len(sum.writes); i++ {
								sum.writes[i].keyParam1 = pi + 1
							}
						}
					}
				}
			case *ssa.UnOp:
				if x.Op == token.MUL {
					if g, ok := x.X.(*ssa.Global); ok {
						sum.globReads[g] = true
					}
					// a field or an element of a package-level struct / array value (`cache.env`, `table[i]`)
					addr := x.X
					for d := 0; d < 4; d++ {
						switch a := addr.(type) {
						case *ssa.FieldAddr:
							addr = a.X
							continue
						case *ssa.IndexAddr:
							addr = a.X
							continue
						}
						break
					}
					if g, ok := addr.(*ssa.Global); ok && addr != x.X {
						if !isSyncFieldLoad(x) {
							sum.globReads[g] = true
						}
					}
				}
			case ssa.CallInstruction:
				com := x.Common()
				if bi, ok := com.Value.(*ssa.Builtin); ok {
					switch bi.Name() {
					case "append":
						// may write into the spare capacity of a non-fresh backing array
						addWrite(st.ownOf(com.Args[0]), "append to "+valueDesc(com.Args[0])+" (may write the shared backing array in place)", "append-in-place", in, nil, fn, m.InstrPos(in))
					case "copy":
						addWrite(st.ownOf(com.Args[0]), "copy into "+valueDesc(com.Args[0]), "store", in, nil, fn, m.InstrPos(in))
					case "delete":
						addWrite(st.ownOf(com.Args[0]), "delete from "+valueDesc(com.Args[0]), "mapupdate", in, nil, fn, m.InstrPos(in))
					case "clear":
						addWrite(st.ownOf(com.Args[0]), "clear "+valueDesc(com.Args[0]), "store", in, nil, fn, m.InstrPos(in))
					}
					continue
				}
				callees := m.calleesOf(x)
				known := false
				for _, cal := range callees {
					cs := ea.sums[cal]
					if cs == nil {
						continue
					}
					known = true
					args := st.argsFor(x, cal)
					for _, w := range cs.writes {
						mapped := st.mapOrigin(w.o, args, x)
						via := append([]*ssa.Function{cal}, w.via...)
						if len(via) > 8 {
							via = via[:8]
						}
						addWrite(mapped, w.what, w.kind, in, via, w.fn, w.pos)
					}
				}
				if known {
					continue
				}
				name := ""
				if sc := com.StaticCallee(); sc != nil {
					name = fnFullName(sc)
				} else if com.IsInvoke() {
					name = "invoke " + types.TypeString(com.Value.Type(), nil) + "." + com.Method.Name()
				} else {
					name = "dynamic call"
				}
				sum.extCalls[name] = true
				if strings.HasPrefix(name, "(*sync.Map).Load") || name == "(*sync.Map).Range" || (strings.HasPrefix(name, "(*sync/atomic.") && strings.HasSuffix(name, ").Load")) {
					if len(com.Args) > 0 {
						if g, ok := com.Args[0].(*ssa.Global); ok {
							sum.globReads[g] = true
						}
					}
				}
				// any other library method called on a package-level variable (a sync.Pool, a cache type, ...) also reads
				// it: what it hands out may come from an earlier call. Pure stores and lock operations read nothing.
				if sc := com.StaticCallee(); sc != nil && sc.Signature.Recv() != nil && len(com.Args) > 0 {
					if idx, listed := extWrites[name]; !(listed && idx < 0) && !strings.HasSuffix(name, ").Store") {
						base := com.Args[0]
						for {
							if fa, ok := base.(*ssa.FieldAddr); ok {
								base = fa.X
								continue
							}
							break
						}
						if g, ok := base.(*ssa.Global); ok {
							sum.globReads[g] = true
						}
					}
				}
				if idx, ok := extWrites[name]; ok && idx >= 0 && idx < len(com.Args) {
					addWrite(st.ownOf(com.Args[idx]), name+" writes through "+valueDesc(com.Args[idx]), "call:"+name, in, nil, fn, m.InstrPos(in))
				}
				if _, listed := extWrites[name]; !listed && !extReadOnly(name) {
					// sound default: a method of a library type with a pointer receiver may change its receiver
					if sc := com.StaticCallee(); sc != nil && sc.Signature.Recv() != nil && len(com.Args) > 0 {
						if _, isPtr := sc.Signature.Recv().Type().Underlying().(*types.Pointer); isPtr {
							addWrite(st.ownOf(com.Args[0]), name+" may change its receiver "+valueDesc(com.Args[0]), "call:"+name, in, nil, fn, m.InstrPos(in))
						}
					}
				}
				if isReflectSetter(name) && len(com.Args) > 0 {
					addWrite(st.ownOf(com.Args[0]), name+" mutates the reflected value", "call:"+name, in, nil, fn, m.InstrPos(in))
				}
				if com.IsInvoke() && !strings.HasPrefix(pkgOfType(com.Value.Type()), modPath) {
					// method call on an out-of-module interface (io.Writer, http.ResponseWriter): may write through it
					if strings.HasPrefix(com.Method.Name(), "Write") || com.Method.Name() == "WriteHeader" {
						addWrite(st.ownOf(com.Value), "invoke "+com.Method.Name()+" on "+valueDesc(com.Value), "call:"+name, in, nil, fn, m.InstrPos(in))
					}
				}
			}
		}
	}
	// returns
	for _, b := range fn.Blocks {
		r, ok := b.Instrs[len(b.Instrs)-1].(*ssa.Return)
		if !ok {
			continue
		}
		for len(sum.retOwnAt) < len(r.Results) {
			sum.retOwnAt = append(sum.retOwnAt, origSet{})
			sum.retContAt = append(sum.retContAt, origSet{})
		}
		for i, v := range r.Results {
			if !pointerLike(v.Type()) {
				continue
			}
			for o := range st.ownOf(v) {
				if o.kind == oFresh {
					sum.retOwn.add(origin{kind: oFresh})
					sum.retOwnAt[i].add(origin{kind: oFresh})
					for c := range st.flatContents(o.site, map[ssa.Instruction]bool{}) {
						if c.kind != oFresh {
							sum.retCont.add(c)
							sum.retContAt[i].add(c)
						}
					}
				} else {
					sum.retOwn.add(o)
					sum.retOwnAt[i].add(o)
				}
			}
		}
	}
	sum.writes = dedupWrites(sum.writes)
	old := ea.sums[fn]
	ea.sums[fn] = sum
	return old == nil || !sameSummary(old, sum)
}

func (st *fnState) flatContents(site ssa.Instruction, seen map[ssa.Instruction]bool) origSet {
	res := origSet{}
	if seen[site] {
		return res
	}
	seen[site] = true
	for o := range st.contents[site] {
		if o.kind == oFresh {
			res.addAll(st.flatContents(o.site, seen))
		} else {
			res.add(o)
		}
	}
	return res
}

func contentsSize(c map[ssa.Instruction]origSet) int {
	n := 0
	for _, s := range c {
		n += len(s)
	}
	return n
}

func dedupWrites(ws []writeEffect) []writeEffect {
	seen := map[string]bool{}
	var out []writeEffect
	for _, w := range ws {
		k := w.o.String() + "|" + w.pos + "|" + w.what
		if seen[k] {
			continue
		}
		seen[k] = true
		out = append(out, w)
	}
	sort.Slice(out, func(i, j int) bool {
		if out[i].o.String() != out[j].o.String() {
			return out[i].o.String() < out[j].o.String()
		}
		return out[i].pos+out[i].what < out[j].pos+out[j].what
	})
	return out
}

func sameSummary(a, b *fnSummary) bool {
	if len(a.writes) != len(b.writes) || len(a.retOwn) != len(b.retOwn) || len(a.retCont) != len(b.retCont) {
		return false
	}
	for i := range a.writes {
		if a.writes[i].o.String() != b.writes[i].o.String() || a.writes[i].pos != b.writes[i].pos || a.writes[i].what != b.writes[i].what {
			return false
		}
	}
	for o := range a.retOwn {
		if !b.retOwn[o] {
			return false
		}
	}
	for o := range a.retCont {
		if !b.retCont[o] {
			return false
		}
	}
	if len(a.retOwnAt) != len(b.retOwnAt) {
		return false
	}
	for i := range a.retOwnAt {
		if len(a.retOwnAt[i]) != len(b.retOwnAt[i]) || len(a.retContAt[i]) != len(b.retContAt[i]) {
			return false
		}
		for o := range a.retOwnAt[i] {
			if !b.retOwnAt[i][o] {
				return false
			}
		}
		for o := range a.retContAt[i] {
			if !b.retContAt[i][o] {
				return false
			}
		}
	}
	return true
}

func (w writeEffect) chain() string {
	var s []string
	for _, f := range w.via {
		if !isSynthetic(f) {
			s = append(s, fnKey(f))
		}
	}
	if len(s) == 0 {
		return fnKey(w.fn)
	}
	if s[len(s)-1] != fnKey(w.fn) {
		s = append(s, fnKey(w.fn))
	}
	return strings.Join(s, " -> ")
}

// Pure: fn (transitively) writes no memory that is not fresh to its own activation.
func (ea *effectAnalysis) Pure(fn *ssa.Function) bool {
	s := ea.sums[fn]
	return s != nil && len(s.writes) == 0
}
