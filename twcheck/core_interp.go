package main

// A small constant-propagating interpreter over SSA (partial evaluation with unknowns).
// It is used to evaluate the repository's own pure helpers (token predicates, precedence lookups,
// table wrappers) for each member of a finite input domain (token types), so that rules do not
// depend on the syntactic shape of those helpers: extracting, inlining, inverting or re-ordering
// them leaves the computed tables unchanged.
//
// Values: constant.Value | *iArr (array/slice of values) | iTuple | iAddr (element / cell address) | nil (unknown).
// Anything the interpreter cannot compute is "unknown"; a branch on an unknown condition, or a
// needed-but-unknown result, makes the whole evaluation unknown (never a guess).

import (
	"fmt"
	"go/constant"
	"go/token"
	"go/types"
	"os"
	"sort"
	"strings"
	"unicode"
	"unicode/utf8"

	"golang.org/x/tools/go/ssa"
)

type iArr struct{ elems []any }
type iTuple []any
type iAddr struct {
	arr *iArr
	idx int
}
type iSlice struct {
	arr      *iArr
	lo, high int
}

// iMap is a map built during the evaluation (constant keys only).
type iMap struct {
	keys []string // insertion order
	vals map[string]any
	kval map[string]constant.Value
}

// iStruct is an abstract heap object of a named struct type (always used through its pointer).
type iStruct struct {
	typ    *types.Named
	fields map[int]any
	anon   *types.Struct // a struct type without a name (typ is nil then)
	val    bool          // a struct value (a copy), not an addressable object
	zeroed bool          // created by an allocation seen by the interpreter: a field not in fields holds its zero value
}

func (st *iStruct) structType() *types.Struct {
	if st.typ != nil {
		s, _ := st.typ.Underlying().(*types.Struct)
		return s
	}
	return st.anon
}

// field: the value of field i (its zero value when the object was allocated under the interpreter's eyes and the
// field never written).
func (st *iStruct) field(i int) (any, bool) {
	if v, ok := st.fields[i]; ok && v != nil {
		return v, true
	}
	if _, written := st.fields[i]; !written && st.zeroed {
		if stt := st.structType(); stt != nil && i >= 0 && i < stt.NumFields() {
			if z := zeroOf(stt.Field(i).Type(), false); z != nil {
				return z, true
			}
			switch stt.Field(i).Type().Underlying().(type) {
			case *types.Pointer, *types.Interface, *types.Slice, *types.Map, *types.Signature, *types.Chan:
				return iNil{}, true
			}
		}
	}
	return nil, false
}

// copyVal: the struct value read from (or written into) an object: nested struct values are copied with it.
func (st *iStruct) copyVal() *iStruct {
	c := &iStruct{typ: st.typ, anon: st.anon, val: true, zeroed: st.zeroed, fields: make(map[int]any, len(st.fields))}
	for k, v := range st.fields {
		if in, ok := v.(*iStruct); ok && in.val {
			v = in.copyVal()
		}
		c.fields[k] = v
	}
	return c
}

// iSym is a value that is not known but has a name: a leaf ("L", "R": the payloads of two operands) or an operation
// on such values. Operations on them build expressions instead of becoming unknown, so that what a piece of code
// computes from its inputs can be read off its result.
type iSym struct {
	name string      // leaf
	op   token.Token // operation (x op y, or op x when y is nil)
	x, y any
}

func (s iSym) String() string {
	str := func(v any) string {
		switch t := v.(type) {
		case iSym:
			return t.String()
		case constant.Value:
			return t.ExactString()
		}
		return "?"
	}
	switch {
	case s.name != "":
		return s.name
	case s.y == nil:
		return s.op.String() + str(s.x)
	}
	return "(" + str(s.x) + " " + s.op.String() + " " + str(s.y) + ")"
}

type iFieldAddr struct {
	st    *iStruct
	field int
}

// iClosure is a function value with its captured variables.
type iClosure struct {
	fn    *ssa.Function
	binds []any
}

type iIter struct {
	mp    *iMap
	keys  []string
	pos   int
	str   string // a range over a constant string
	isStr bool
}

func mapKey(k any) (string, constant.Value, bool) {
	c, ok := k.(constant.Value)
	if !ok {
		return "", nil, false
	}
	return c.ExactString(), c, true
}

type Interp struct {
	m *Model
	// load resolves a load the interpreter cannot model (a field of an object it does not own).
	// dirty reports that a possibly state-changing operation was executed before this load.
	load func(v *ssa.UnOp, dirty bool) (any, bool)
	// call may resolve a call itself (handled=true) — args are the evaluated arguments (nil = unknown).
	call func(c *ssa.Call, args []any) (res any, handled bool)
	// lookup resolves a map lookup on a map the interpreter does not own.
	lookup func(l *ssa.Lookup, key any) (val any, present bool, ok bool)
	// event is invoked for every call executed (in order), with the interpreter depth; return true to stop
	// the evaluation (Run then reports stopped=true).
	event func(c ssa.CallInstruction, depth int) bool

	// instr is invoked for every instruction executed (observation only).
	instr func(in ssa.Instruction, depth int)

	globals map[*ssa.Global]any // package-level variables written during the evaluation (package initialisers)
	// useGlobals: loads of module package-level variables that are never written after initialisation yield the
	// value the package initialiser builds (evalGlobals)
	useGlobals bool

	// branch decides a branch on a named unknown (iSym) condition; without it such a branch ends the evaluation
	branch func(cond iSym, at *ssa.If) (taken bool, ok bool)

	// forgetObjects: an abstract object handed to code that is not evaluated loses what is known about its fields
	forgetObjects bool

	effReads []ssa.Instruction // where values read through a local copy were really read (set by load hooks)

	dirty   bool
	stopped bool
	lost    []*ssa.Function // callees whose evaluation got stuck (their effects were not all observed)
	stuck   string          // why the evaluation could not continue (branch on an unknown value, step limit, ...)
	steps   int
}

// iObj is an abstract non-nil object whose Type()/kind is known by name.
type iObj struct{ kind string }

const interpMaxSteps = 4000
const interpMaxDepth = 10

// Run interprets fn on args (nil entries are unknown). ok=false: unknown.
func (ip *Interp) Run(fn *ssa.Function, args []any) (any, bool) {
	ip.steps = 0
	ip.dirty = false
	ip.stopped = false
	ip.stuck = ""
	ip.lost = nil
	return ip.run(fn, args, 0)
}

// zeroOf: the zero value of a lookup's element type when it is a basic type (nil otherwise).
func zeroOf(t types.Type, commaOk bool) any {
	if commaOk {
		if tup, ok := t.(*types.Tuple); ok && tup.Len() > 0 {
			t = tup.At(0).Type()
		}
	}
	if b, ok := t.Underlying().(*types.Basic); ok {
		switch {
		case b.Info()&types.IsBoolean != 0:
			return constant.MakeBool(false)
		case b.Info()&types.IsInteger != 0:
			return constant.MakeInt64(0)
		case b.Info()&types.IsString != 0:
			return constant.MakeString("")
		}
	}
	switch t.Underlying().(type) {
	case *types.Pointer, *types.Signature, *types.Map, *types.Slice, *types.Interface, *types.Chan:
		return iNil{}
	}
	return nil
}

func (ip *Interp) run(fn *ssa.Function, args []any, depth int) (any, bool) {
	return ip.runClosure(fn, args, nil, depth)
}

func (ip *Interp) runClosure(fn *ssa.Function, args []any, binds []any, depth int) (any, bool) {
	if fn == nil || fn.Blocks == nil || len(fn.Params) != len(args) || depth > interpMaxDepth {
		ip.dirty = true
		return nil, false
	}
	defer func() {
		// a callee that got stuck only makes its result unknown; the caller is stuck only if it needs that result
		if depth > 0 && ip.stuck != "" {
			if os.Getenv("TWDEBUG") != "" {
				fmt.Fprintf(os.Stderr, "interp: lost %s: %s\n", fnKey(fn), ip.stuck)
			}
			ip.lost = append(ip.lost, fn)
			ip.stuck = ""
		}
	}()
	env := map[ssa.Value]any{}
	for i, p := range fn.Params {
		if args[i] != nil {
			env[p] = args[i]
		}
	}
	for i, fv := range fn.FreeVars {
		if i < len(binds) && binds[i] != nil {
			env[fv] = binds[i]
		}
	}
	get := func(v ssa.Value) (any, bool) {
		if c, ok := v.(*ssa.Const); ok {
			if c.Value != nil {
				return c.Value, true
			}
			if c.IsNil() {
				if _, isB := c.Type().Underlying().(*types.Basic); !isB {
					return iNil{}, true
				}
			}
			if b, isB := c.Type().Underlying().(*types.Basic); isB {
				switch {
				case b.Info()&types.IsBoolean != 0:
					return constant.MakeBool(false), true
				case b.Info()&types.IsInteger != 0:
					return constant.MakeInt64(0), true
				case b.Info()&types.IsString != 0:
					return constant.MakeString(""), true
				}
			}
			return nil, false
		}
		if f, ok := v.(*ssa.Function); ok {
			return &iClosure{fn: f}, true
		}
		if g, ok := v.(*ssa.Global); ok && ip.globals != nil {
			// the address of a package-level variable: arrays are element-addressable, everything else is one cell
			cell, have := ip.globals[g].(*iArr)
			if !have {
				n := 1
				if at, isArr := g.Type().Underlying().(*types.Pointer).Elem().Underlying().(*types.Array); isArr && at.Len() <= 1024 {
					n = int(at.Len())
				}
				cell = &iArr{elems: make([]any, n)}
				// a package-level variable starts as the zero value of its type
				et := g.Type().Underlying().(*types.Pointer).Elem()
				if at, isArr := et.Underlying().(*types.Array); isArr {
					et = at.Elem()
				}
				if z := zeroOf(et, false); z != nil {
					for i := range cell.elems {
						cell.elems[i] = z
					}
				}
				ip.globals[g] = cell
			}
			return iAddr{cell, -1}, true
		}
		x, ok := env[v]
		return x, ok && x != nil
	}
	cells := map[*ssa.Alloc]*iArr{} // local allocations: scalars are 1-element arrays
	type deferred struct {
		fn    *ssa.Function
		args  []any
		binds []any
	}
	var defers []deferred
	b := fn.Blocks[0]
	var prev *ssa.BasicBlock
	for {
		for _, in := range b.Instrs {
			ip.steps++
			if ip.steps > interpMaxSteps {
				ip.dirty = true
				ip.stuck = "step limit"
				return nil, false
			}
			if ip.instr != nil {
				ip.instr(in, depth)
			}
			switch x := in.(type) {
			case *ssa.Phi:
				for i, p := range b.Preds {
					if p == prev {
						if v, ok := get(x.Edges[i]); ok {
							env[x] = v
						} else {
							delete(env, x)
						}
					}
				}
			case *ssa.BinOp:
				l, ok1 := get(x.X)
				r, ok2 := get(x.Y)
				if ok1 && ok2 {
					if v, ok := foldAny(x.Op, l, r); ok {
						env[x] = v
						continue
					}
				}
				delete(env, x)
			case *ssa.UnOp:
				switch x.Op {
				case token.NOT:
					if v, ok := get(x.X); ok {
						if c, isC := v.(constant.Value); isC && c.Kind() == constant.Bool {
							env[x] = constant.MakeBool(!constant.BoolVal(c))
							continue
						}
						if sym, isSym := v.(iSym); isSym {
							env[x] = iSym{op: token.NOT, x: sym}
							continue
						}
					}
					delete(env, x)
				case token.SUB:
					if v, ok := get(x.X); ok {
						if c, isC := v.(constant.Value); isC {
							env[x] = constant.UnaryOp(token.SUB, c, 0)
							continue
						}
						if sym, isSym := v.(iSym); isSym {
							env[x] = iSym{op: token.SUB, x: sym}
							continue
						}
					}
					delete(env, x)
				case token.MUL:
					// a load
					if a, ok := get(x.X); ok {
						if st, isSt := a.(*iStruct); isSt && !st.val {
							env[x] = st.copyVal() // the struct value held by the object
							continue
						}
						if fa, isFA := a.(iFieldAddr); isFA {
							if fv, have := fa.st.field(fa.field); have {
								if in, isIn := fv.(*iStruct); isIn && in.val {
									fv = in.copyVal()
								}
								env[x] = fv
								continue
							}
							// unknown field of an abstract object: the hook may know (e.g. a spilled value receiver)
						}
						if ad, isA := a.(iAddr); isA {
							i := ad.idx
							if i == -1 && len(ad.arr.elems) == 1 {
								i = 0 // the address of a scalar local
							}
							if i >= 0 && i < len(ad.arr.elems) && ad.arr.elems[i] != nil {
								env[x] = ad.arr.elems[i]
								continue
							}
						}
					}
					if al, isAl := x.X.(*ssa.Alloc); isAl {
						if c := cells[al]; c != nil && len(c.elems) == 1 && c.elems[0] != nil {
							env[x] = c.elems[0]
							continue
						}
					}
					if ip.load != nil {
						if v, ok := ip.load(x, ip.dirty); ok {
							env[x] = v
							continue
						}
					}
					if g, isG := x.X.(*ssa.Global); isG && ip.useGlobals && ip.globals == nil && g.Pkg != nil && strings.HasPrefix(g.Pkg.Pkg.Path(), modPath) {
						sp := shortPkg(g.Pkg.Pkg.Path())
						if ip.m.globalMapWritten(sp, canonGlobalName(g)) == "" {
							if v, ok := ip.m.evalGlobals(sp)[canonGlobalName(g)]; ok && v != nil {
								env[x] = v
								continue
							}
						}
					}
					if os.Getenv("TWDEBUG") != "" {
						av, aok := get(x.X)
						fmt.Fprintf(os.Stderr, "interp: unresolved load %s in %s: addr=%#v ok=%v\n", x.String(), fnKey(fn), av, aok)
					}
					delete(env, x)
				default:
					delete(env, x)
				}
			case *ssa.Alloc:
				if nt, isNamed := x.Type().Underlying().(*types.Pointer).Elem().(*types.Named); isNamed {
					if _, isSt := nt.Underlying().(*types.Struct); isSt {
						env[x] = &iStruct{typ: nt, fields: map[int]any{}, zeroed: true}
						continue
					}
				}
				if ast, isSt := x.Type().Underlying().(*types.Pointer).Elem().(*types.Struct); isSt {
					env[x] = &iStruct{anon: ast, fields: map[int]any{}, zeroed: true}
					continue
				}
				n := 1
				if at, isArr := x.Type().Underlying().(*types.Pointer).Elem().Underlying().(*types.Array); isArr {
					n = int(at.Len())
					if n > 256 {
						n = 0
					}
				}
				cells[x] = &iArr{elems: make([]any, n)}
				// a fresh variable holds the zero value of its type
				elemT := x.Type().Underlying().(*types.Pointer).Elem()
				if at, isArr := elemT.Underlying().(*types.Array); isArr {
					elemT = at.Elem()
				}
				if z := zeroOf(elemT, false); z != nil {
					for i := range cells[x].elems {
						cells[x].elems[i] = z
					}
				}
				env[x] = iAddr{cells[x], -1} // whole-object address
			case *ssa.IndexAddr:
				base, ok := get(x.X)
				if g, isG := x.X.(*ssa.Global); isG && !ok && ip.useGlobals && ip.globals == nil && g.Pkg != nil && strings.HasPrefix(g.Pkg.Pkg.Path(), modPath) {
					// an element of a package-level array that is never written after initialisation
					sp := shortPkg(g.Pkg.Pkg.Path())
					if ip.m.globalMapWritten(sp, canonGlobalName(g)) == "" {
						if arr, isArr := ip.m.evalGlobals(sp)[canonGlobalName(g)].(*iArr); isArr {
							base, ok = iAddr{arr, -1}, true
						}
					}
				}
				idx, ok2 := get(x.Index)
				ic, isC := idx.(constant.Value)
				if ok && ok2 && isC {
					i64, _ := constant.Int64Val(ic)
					switch bb := base.(type) {
					case iAddr:
						if bb.idx == -1 && int(i64) < len(bb.arr.elems) && i64 >= 0 {
							env[x] = iAddr{bb.arr, int(i64)}
							continue
						}
					case iSlice:
						if i64 >= 0 && bb.lo+int(i64) < bb.high {
							env[x] = iAddr{bb.arr, bb.lo + int(i64)}
							continue
						}
					}
				}
				delete(env, x)
			case *ssa.Slice:
				base, ok := get(x.X)
				if g, isG := x.X.(*ssa.Global); isG && !ok && ip.useGlobals && ip.globals == nil && g.Pkg != nil && strings.HasPrefix(g.Pkg.Pkg.Path(), modPath) {
					// a package-level array that is never written after initialisation, sliced
					sp := shortPkg(g.Pkg.Pkg.Path())
					if ip.m.globalMapWritten(sp, canonGlobalName(g)) == "" {
						if arr, isArr := ip.m.evalGlobals(sp)[canonGlobalName(g)].(*iArr); isArr {
							base, ok = iAddr{arr, -1}, true
						}
					}
				}
				// s[lo:hi] on a known string with known bounds
				if sc, isC := base.(constant.Value); ok && isC && sc.Kind() == constant.String && x.Max == nil {
					str := constant.StringVal(sc)
					lo, hi, known := int64(0), int64(len(str)), true
					if x.Low != nil {
						lv, lok := get(x.Low)
						lc, isK := lv.(constant.Value)
						if !lok || !isK || lc.Kind() != constant.Int {
							known = false
						} else {
							lo, _ = constant.Int64Val(lc)
						}
					}
					if x.High != nil {
						hv, hok := get(x.High)
						hc, isK := hv.(constant.Value)
						if !hok || !isK || hc.Kind() != constant.Int {
							known = false
						} else {
							hi, _ = constant.Int64Val(hc)
						}
					}
					if known {
						if lo < 0 || hi > int64(len(str)) || lo > hi {
							ip.dirty = true
							if ip.stuck == "" {
								ip.stuck = "string slice bounds out of range at " + ip.m.InstrPos(x)
							}
							return nil, false
						}
						env[x] = constant.MakeString(str[lo:hi])
						continue
					}
					delete(env, x)
					continue
				}
				// an array sliced with constant bounds (make([]T, 1) is `new [1]T` sliced [:1])
				if ad, isA := base.(iAddr); ok && isA && ad.idx == -1 && (x.Low != nil || x.High != nil) {
					lo, hi, known := 0, len(ad.arr.elems), true
					for _, bd := range []struct {
						v   ssa.Value
						dst *int
					}{{x.Low, &lo}, {x.High, &hi}} {
						if bd.v == nil {
							continue
						}
						bv, bok := get(bd.v)
						bc, isK := bv.(constant.Value)
						if !bok || !isK || bc.Kind() != constant.Int {
							known = false
							continue
						}
						n, _ := constant.Int64Val(bc)
						*bd.dst = int(n)
					}
					if known && lo >= 0 && lo <= hi && hi <= len(ad.arr.elems) {
						env[x] = iSlice{ad.arr, lo, hi}
						continue
					}
				}
				if ok && x.Low == nil && x.High == nil && x.Max == nil {
					if ad, isA := base.(iAddr); isA && ad.idx == -1 {
						env[x] = iSlice{ad.arr, 0, len(ad.arr.elems)}
						continue
					}
					if sl, isS := base.(iSlice); isS {
						env[x] = sl
						continue
					}
				}
				delete(env, x)
			case *ssa.Store:
				if a, ok := get(x.Addr); ok {
					if dst, isSt := a.(*iStruct); isSt && !dst.val {
						if v, vok := get(x.Val); vok {
							if src, isSrc := v.(*iStruct); isSrc && src.val {
								dst.fields, dst.zeroed = src.copyVal().fields, src.zeroed
								continue
							}
						}
						dst.fields, dst.zeroed = map[int]any{}, false // an unknown value: nothing is known about the fields any more
						continue
					}
					if fa, isFA := a.(iFieldAddr); isFA {
						v, _ := get(x.Val)
						if src, isSrc := v.(*iStruct); isSrc && src.val {
							v = src.copyVal()
						}
						fa.st.fields[fa.field] = v
						continue
					}
					if ad, isA := a.(iAddr); isA {
						v, _ := get(x.Val)
						if ad.idx >= 0 && ad.idx < len(ad.arr.elems) {
							ad.arr.elems[ad.idx] = v
							continue
						}
						if ad.idx == -1 && len(ad.arr.elems) == 1 {
							ad.arr.elems[0] = v
							continue
						}
					}
				}
				if al, isAl := x.Addr.(*ssa.Alloc); isAl && cells[al] != nil && len(cells[al].elems) == 1 {
					v, _ := get(x.Val)
					cells[al].elems[0] = v
					continue
				}
				ip.dirty = true
			case *ssa.MakeMap:
				env[x] = &iMap{vals: map[string]any{}, kval: map[string]constant.Value{}}
			case *ssa.MapUpdate:
				if mv, ok := get(x.Map); ok {
					if mp, isM := mv.(*iMap); isM {
						k, _ := get(x.Key)
						if ks, kc, okk := mapKey(k); okk {
							if _, had := mp.vals[ks]; !had {
								mp.keys = append(mp.keys, ks)
							}
							v, _ := get(x.Value)
							mp.vals[ks] = v
							mp.kval[ks] = kc
							continue
						}
						mp.vals = nil // a non-constant key: contents unknown from here on
						continue
					}
				}
				ip.dirty = true
			case *ssa.Range:
				if mv, ok := get(x.X); ok {
					// a constant string: iterated rune by rune, with Go's decoding (an invalid byte yields U+FFFD, width 1)
					if sc, isC := mv.(constant.Value); isC && sc.Kind() == constant.String {
						env[x] = &iIter{str: constant.StringVal(sc), isStr: true}
						continue
					}
					if mp, isM := mv.(*iMap); isM && mp.vals != nil {
						ks := append([]string{}, mp.keys...)
						sort.Strings(ks)
						env[x] = &iIter{mp: mp, keys: ks}
						continue
					}
				}
				delete(env, x)
			case *ssa.Next:
				if iv, ok := get(x.Iter); ok {
					if it, isI := iv.(*iIter); isI && it.isStr {
						if it.pos < len(it.str) {
							r, w := utf8.DecodeRuneInString(it.str[it.pos:])
							env[x] = iTuple{constant.MakeBool(true), constant.MakeInt64(int64(it.pos)), constant.MakeInt64(int64(r))}
							it.pos += w
						} else {
							env[x] = iTuple{constant.MakeBool(false), nil, nil}
						}
						continue
					}
					if it, isI := iv.(*iIter); isI {
						if it.pos < len(it.keys) {
							k := it.keys[it.pos]
							it.pos++
							env[x] = iTuple{constant.MakeBool(true), it.mp.kval[k], it.mp.vals[k]}
						} else {
							env[x] = iTuple{constant.MakeBool(false), nil, nil}
						}
						continue
					}
				}
				delete(env, x)
			case *ssa.Defer:
				// a deferred call of a module function or closure is run at RunDefers (named results live in cells it can reach)
				var dfn *ssa.Function
				var dbinds []any
				if fv, ok := get(x.Call.Value); ok && !x.Call.IsInvoke() {
					if cl, isCl := fv.(*iClosure); isCl {
						dfn, dbinds = cl.fn, cl.binds // (StaticCallee also answers for closures, but without their bindings)
					}
				}
				if dfn == nil {
					dfn = x.Call.StaticCallee()
				}
				if dfn == nil || dfn.Blocks == nil || !ip.m.InModule(dfn) {
					// a library call (file.Close(), mu.Unlock()): no effect on what is being evaluated
					if dfn == nil {
						ip.dirty = true
					}
					continue
				}
				dargs := make([]any, len(x.Call.Args))
				for i, a := range x.Call.Args {
					dargs[i], _ = get(a)
				}
				defers = append(defers, deferred{dfn, dargs, dbinds})
			case *ssa.RunDefers:
				for i := len(defers) - 1; i >= 0; i-- {
					d := defers[i]
					ip.runClosure(d.fn, d.args, d.binds, depth+1)
					if ip.stopped {
						return nil, false
					}
				}
				defers = nil
			case *ssa.Send, *ssa.Go, *ssa.Panic:
				ip.dirty = true
				if _, isP := x.(*ssa.Panic); isP {
					return nil, false
				}
			case *ssa.MakeInterface:
				if v, ok := get(x.X); ok {
					if _, isNil := v.(iNil); !isNil {
						env[x] = v
						continue
					}
				}
				delete(env, x)
			case *ssa.ChangeInterface:
				if v, ok := get(x.X); ok {
					env[x] = v
				} else {
					delete(env, x)
				}
			case *ssa.FieldAddr:
				if b, ok := get(x.X); ok {
					if st, isSt := b.(*iStruct); isSt {
						env[x] = iFieldAddr{st, x.Field}
						continue
					}
					// a field of a struct-valued array element (`&table[i].name`): the element is an abstract object
					if ea, isEA := b.(iAddr); isEA && ea.idx >= 0 && ea.idx < len(ea.arr.elems) {
						inner, have := ea.arr.elems[ea.idx].(*iStruct)
						if !have && ea.arr.elems[ea.idx] == nil {
							if nt, isNamed := x.X.Type().Underlying().(*types.Pointer).Elem().(*types.Named); isNamed {
								if _, isSt := nt.Underlying().(*types.Struct); isSt {
									inner = &iStruct{typ: nt, fields: map[int]any{}, val: true, zeroed: ip.globals != nil} // zero only in a package initialiser; an unknown element otherwise
									ea.arr.elems[ea.idx] = inner
									have = true
								}
							}
						}
						if have {
							env[x] = iFieldAddr{inner, x.Field}
							continue
						}
					}
					// a field of a struct-valued field (node.Token.Literal): the inner struct is an abstract object of its own
					if fa, isFA := b.(iFieldAddr); isFA {
						inner, have := fa.st.fields[fa.field].(*iStruct)
						if !have {
							if nt, isNamed := x.X.Type().Underlying().(*types.Pointer).Elem().(*types.Named); isNamed {
								if _, isSt := nt.Underlying().(*types.Struct); isSt {
									if _, occupied := fa.st.fields[fa.field]; !occupied {
										inner = &iStruct{typ: nt, fields: map[int]any{}, val: true, zeroed: fa.st.zeroed} // part of a zeroed allocation: zeroed itself
										fa.st.fields[fa.field] = inner
										have = true
									}
								}
							}
						}
						if have {
							env[x] = iFieldAddr{inner, x.Field}
							continue
						}
					}
				}
				delete(env, x)
			case *ssa.MakeClosure:
				if cf, isFn := x.Fn.(*ssa.Function); isFn {
					cl := &iClosure{fn: cf, binds: make([]any, len(x.Bindings))}
					for i, bnd := range x.Bindings {
						cl.binds[i], _ = get(bnd)
					}
					env[x] = cl
					continue
				}
				delete(env, x)
			case *ssa.MakeSlice:
				if lv, ok := get(x.Len); ok {
					if lc, isC := lv.(constant.Value); isC {
						if n, exact := constant.Int64Val(lc); exact && n >= 0 && n <= 1024 {
							arr := &iArr{elems: make([]any, n)}
							zero := zeroOf(x.Type().Underlying().(*types.Slice).Elem(), false)
							if zero == nil {
								zero = iNil{}
							}
							for i := range arr.elems {
								arr.elems[i] = zero
							}
							env[x] = iSlice{arr, 0, int(n)}
							continue
						}
					}
				}
				delete(env, x)
			case *ssa.TypeAssert:
				v, ok := get(x.X)
				if !ok {
					delete(env, x)
					continue
				}
				holds, known := false, false
				switch vv := v.(type) {
				case *iStruct:
					if vv.typ == nil {
						break
					}
					known = true
					var pt types.Type = types.NewPointer(vv.typ)
					if vv.val {
						pt = vv.typ
					}
					if types.IsInterface(x.AssertedType) {
						holds = types.Implements(pt, x.AssertedType.Underlying().(*types.Interface))
					} else {
						holds = types.Identical(pt, x.AssertedType)
					}
				case iNil:
					known, holds = true, false
				}
				if !known {
					delete(env, x)
					continue
				}
				if x.CommaOk {
					if holds {
						env[x] = iTuple{v, constant.MakeBool(true)}
					} else {
						env[x] = iTuple{iNil{}, constant.MakeBool(false)}
					}
					continue
				}
				if !holds {
					ip.stuck = "failing type assertion at " + ip.m.InstrPos(x)
					return nil, false
				}
				env[x] = v
			case *ssa.Field:
				if v, ok := get(x.X); ok {
					if st, isSt := v.(*iStruct); isSt {
						if fv, have := st.field(x.Field); have {
							env[x] = fv
							continue
						}
					}
				}
				delete(env, x)
			case *ssa.SliceToArrayPointer, *ssa.MakeChan, *ssa.Select:
				delete(env, x.(ssa.Value))
			case *ssa.DebugRef:
			case *ssa.Convert:
				if v, ok := get(x.X); ok {
					if sym, isSym := v.(iSym); isSym {
						if types.Identical(x.X.Type().Underlying(), x.Type().Underlying()) {
							env[x] = sym
						} else {
							env[x] = iSym{op: token.TYPE, x: sym, y: constant.MakeString(x.Type().String())}
						}
						continue
					}
					if c, isC := v.(constant.Value); isC {
						if bt, isB := x.Type().Underlying().(*types.Basic); isB && c.Kind() == constant.Int && bt.Info()&types.IsInteger != 0 {
							env[x] = c
							continue
						}
						if bt, isB := x.Type().Underlying().(*types.Basic); isB && c.Kind() == constant.String && bt.Info()&types.IsString != 0 {
							env[x] = c
							continue
						}
						// string(b) of a byte or a rune
						if bt, isB := x.Type().Underlying().(*types.Basic); isB && c.Kind() == constant.Int && bt.Info()&types.IsString != 0 {
							if st, isSB := x.X.Type().Underlying().(*types.Basic); isSB && st.Info()&types.IsInteger != 0 {
								if iv, exact := constant.Int64Val(c); exact {
									env[x] = constant.MakeString(string(rune(iv)))
									continue
								}
							}
						}
					}
				}
				delete(env, x)
			case *ssa.ChangeType:
				if v, ok := get(x.X); ok {
					env[x] = v
				} else {
					delete(env, x)
				}
			case *ssa.Index:
				// s[i] on a known string
				if sv, ok := get(x.X); ok {
					if sc, isC := sv.(constant.Value); isC && sc.Kind() == constant.String {
						if kv, kok := get(x.Index); kok {
							if kc, isK := kv.(constant.Value); isK && kc.Kind() == constant.Int {
								str := constant.StringVal(sc)
								if i, exact := constant.Int64Val(kc); exact && i >= 0 && int(i) < len(str) {
									env[x] = constant.MakeInt64(int64(str[i]))
									continue
								}
								ip.dirty = true
								if ip.stuck == "" {
									ip.stuck = "string index out of range at " + ip.m.InstrPos(x)
								}
								return nil, false
							}
						}
					}
				}
				delete(env, x)
			case *ssa.Lookup:
				key, kok := get(x.Index)
				done := false
				// s[i] on a known string
				if sv, ok := get(x.X); ok && kok && !x.CommaOk {
					if sc, isC := sv.(constant.Value); isC && sc.Kind() == constant.String {
						if kc, isK := key.(constant.Value); isK && kc.Kind() == constant.Int {
							str := constant.StringVal(sc)
							if i, exact := constant.Int64Val(kc); exact && i >= 0 && int(i) < len(str) {
								env[x] = constant.MakeInt64(int64(str[i]))
								continue
							}
							ip.dirty = true
							if ip.stuck == "" {
								ip.stuck = "string index out of range at " + ip.m.InstrPos(x)
							}
							return nil, false
						}
					}
				}
				if mv, ok := get(x.X); ok && kok {
					if mp, isM := mv.(*iMap); isM && mp.vals != nil {
						if ks, _, okk := mapKey(key); okk {
							val, present := mp.vals[ks]
							if !present {
								val = zeroOf(x.Type(), x.CommaOk)
							}
							if x.CommaOk {
								env[x] = iTuple{val, constant.MakeBool(present)}
							} else if val != nil {
								env[x] = val
							} else {
								delete(env, x)
							}
							done = true
						}
					}
				}
				if done {
					continue
				}
				if kok && ip.lookup != nil {
					if val, present, ok := ip.lookup(x, key); ok {
						if x.CommaOk {
							env[x] = iTuple{val, constant.MakeBool(present)}
						} else {
							env[x] = val
						}
						done = true
					}
				}
				if !done {
					delete(env, x)
				}
			case *ssa.Extract:
				if t, ok := get(x.Tuple); ok {
					if tt, isT := t.(iTuple); isT && x.Index < len(tt) && tt[x.Index] != nil {
						env[x] = tt[x.Index]
						continue
					}
				}
				delete(env, x)
			case *ssa.Call:
				if ip.event != nil && ip.event(x, depth) {
					ip.stopped = true
					return nil, false
				}
				args := make([]any, 0, len(x.Call.Args)+1)
				if x.Call.IsInvoke() { // interface method call: the receiver comes first
					rv, _ := get(x.Call.Value)
					args = append(args, rv)
				}
				for _, a := range x.Call.Args {
					v, _ := get(a)
					args = append(args, v)
				}
				if ip.call != nil {
					if res, handled := ip.call(x, args); handled {
						if res != nil {
							env[x] = res
						} else {
							delete(env, x)
						}
						continue
					}
				}
				if sc0 := x.Call.StaticCallee(); sc0 != nil && len(args) > 0 {
					if st, isSt := args[0].(*iStruct); isSt && st.typ != nil && isTextBuffer(st.typ) {
						// bytes.Buffer / strings.Builder: the text written so far (unknown once something unknown is written)
						mname := sc0.Name()
						cur, have := st.fields[-1].(constant.Value)
						if _, touched := st.fields[-2]; !touched {
							cur, have = constant.MakeString(""), true
						}
						switch mname {
						case "WriteString":
							st.fields[-2] = true
							if a, isC := args[1].(constant.Value); have && len(args) == 2 && isC && a.Kind() == constant.String {
								st.fields[-1] = constant.MakeString(constant.StringVal(cur) + constant.StringVal(a))
							} else {
								st.fields[-1] = nil
							}
							delete(env, x)
							continue
						case "WriteByte", "WriteRune":
							st.fields[-2] = true
							if a, isC := args[1].(constant.Value); have && len(args) == 2 && isC && a.Kind() == constant.Int {
								if r, exact := constant.Int64Val(a); exact {
									st.fields[-1] = constant.MakeString(constant.StringVal(cur) + string(rune(r)))
									delete(env, x)
									continue
								}
							}
							st.fields[-1] = nil
							delete(env, x)
							continue
						case "String":
							if have {
								env[x] = cur
							} else {
								delete(env, x)
							}
							continue
						case "Len":
							if have {
								env[x] = constant.MakeInt64(int64(len(constant.StringVal(cur))))
							} else {
								delete(env, x)
							}
							continue
						case "Reset":
							st.fields[-2] = true
							st.fields[-1] = constant.MakeString("")
							continue
						case "Truncate":
							st.fields[-2] = true
							if a, isC := args[1].(constant.Value); have && len(args) == 2 && isC {
								if n, exact := constant.Int64Val(a); exact && n >= 0 && int(n) <= len(constant.StringVal(cur)) {
									st.fields[-1] = constant.MakeString(constant.StringVal(cur)[:n])
									continue
								}
							}
							st.fields[-1] = nil
							continue
						default:
							st.fields[-2] = true
							st.fields[-1] = nil // anything else may write
						}
					}
				}
				if bi, isB := x.Call.Value.(*ssa.Builtin); isB {
					if bi.Name() == "append" && len(args) == 2 {
						var base, more []any
						okA := true
						switch a := args[0].(type) {
						case iSlice:
							base = a.arr.elems[a.lo:a.high]
						case iNil:
						default:
							okA = false
						}
						switch a := args[1].(type) {
						case iSlice:
							more = a.arr.elems[a.lo:a.high]
						case iNil:
						default:
							okA = false
						}
						if okA {
							arr := &iArr{elems: append(append([]any{}, base...), more...)}
							env[x] = iSlice{arr, 0, len(arr.elems)}
							continue
						}
						delete(env, x)
						continue
					}
					if bi.Name() == "len" && len(args) == 1 {
						if _, isNil := args[0].(iNil); isNil {
							env[x] = constant.MakeInt64(0)
							continue
						}
						switch a := args[0].(type) {
						case iSlice:
							env[x] = constant.MakeInt64(int64(a.high - a.lo))
							continue
						case *iMap:
							if a.vals != nil {
								env[x] = constant.MakeInt64(int64(len(a.vals)))
								continue
							}
						case constant.Value:
							if a.Kind() == constant.String {
								env[x] = constant.MakeInt64(int64(len(constant.StringVal(a))))
								continue
							}
						}
					}
					delete(env, x)
					continue
				}
				// memory handed to code that is not (fully) evaluated may be changed by it: forget its contents
				forget := func() {
					for _, a := range args {
						switch av := a.(type) {
						case iAddr:
							for i := range av.arr.elems {
								av.arr.elems[i] = nil
							}
						case iSlice:
							if !isVariadicArgs(x, av) {
								for i := range av.arr.elems {
									av.arr.elems[i] = nil
								}
							}
						case *iMap:
							av.vals = nil
						case *iStruct:
							if !av.val && ip.forgetObjects {
								av.fields, av.zeroed = map[int]any{}, false
							}
						case iFieldAddr:
							av.st.fields[av.field] = nil
						}
					}
				}
				sc := x.Call.StaticCallee()
				var clBinds []any
				if sc == nil && x.Call.IsInvoke() && len(args) > 0 {
					// interface method call on an abstract object: the concrete method
					if st, isSt := args[0].(*iStruct); isSt && st.typ != nil {
						if sel := ip.m.Prog.MethodSets.MethodSet(types.NewPointer(st.typ)).Lookup(x.Call.Method.Pkg(), x.Call.Method.Name()); sel != nil {
							sc = ip.m.Prog.MethodValue(sel)
						}
					}
				}
				if !x.Call.IsInvoke() {
					if fv, ok := get(x.Call.Value); ok {
						if cl, isCl := fv.(*iClosure); isCl && (sc == nil || sc == cl.fn) {
							sc, clBinds = cl.fn, cl.binds
						}
					}
				}
				if sc != nil && sc.Blocks != nil && ip.m.InModule(sc) {
					nLost := len(ip.lost)
					res, ok := ip.runClosure(sc, args, clBinds, depth+1)
					if ip.stopped {
						return nil, false
					}
					if len(ip.lost) > nLost {
						forget()
					}
					if ok {
						env[x] = res
					} else {
						delete(env, x)
					}
					continue
				}
				if sc != nil {
					// slices.ContainsFunc / IndexFunc on a known slice with a module function value: the predicate is
					// evaluated element by element
					if name := fnFullName(sc); (name == "slices.ContainsFunc" || name == "slices.IndexFunc") && len(args) == 2 {
						if sl, isSl := args[0].(iSlice); isSl {
							var pf *ssa.Function
							var pbinds []any
							switch fv := args[1].(type) {
							case *iClosure:
								pf, pbinds = fv.fn, fv.binds
							case iFn:
								pf = fv.fn
							}
							if pf != nil && pf.Blocks != nil {
								found, known := -1, true
								for i, e := range sl.arr.elems[sl.lo:sl.high] {
									r, ok := ip.runClosure(pf, []any{e}, pbinds, depth+1)
									rc, isC := r.(constant.Value)
									if ip.stopped {
										return nil, false
									}
									if !ok || !isC || rc.Kind() != constant.Bool {
										known = false
										break
									}
									if constant.BoolVal(rc) {
										found = i
										break
									}
								}
								if known {
									if name == "slices.ContainsFunc" {
										env[x] = constant.MakeBool(found >= 0)
									} else {
										env[x] = constant.MakeInt64(int64(found))
									}
									continue
								}
							}
						}
						if args[0] == nil {
							// an unknown slice: the result is unknown, nothing is written
							delete(env, x)
							continue
						}
					}
					// slices.BinarySearchFunc on a known slice: the comparison is evaluated as the library does (the
					// smallest index whose comparison is not negative; found when it is zero there)
					if name := fnFullName(sc); name == "slices.BinarySearchFunc" && len(args) == 3 {
						if sl, isSl := args[0].(iSlice); isSl {
							var pf *ssa.Function
							var pbinds []any
							switch fv := args[2].(type) {
							case *iClosure:
								pf, pbinds = fv.fn, fv.binds
							case iFn:
								pf = fv.fn
							}
							if pf != nil && pf.Blocks != nil {
								known := true
								cmpAt := func(i int) int64 {
									r, ok := ip.runClosure(pf, []any{sl.arr.elems[sl.lo+i], args[1]}, pbinds, depth+1)
									rc, isC := r.(constant.Value)
									if !ok || !isC || rc.Kind() != constant.Int {
										known = false
										return 0
									}
									v, _ := constant.Int64Val(rc)
									return v
								}
								n := sl.high - sl.lo
								i, j := 0, n
								for i < j && known && !ip.stopped {
									h := int(uint(i+j) >> 1)
									if cmpAt(h) < 0 {
										i = h + 1
									} else {
										j = h
									}
								}
								if ip.stopped {
									return nil, false
								}
								if known {
									found := i < n && cmpAt(i) == 0
									if known {
										env[x] = iTuple{constant.MakeInt64(int64(i)), constant.MakeBool(found)}
										continue
									}
								}
							}
						}
					}
					if res, ok := libModel(fnFullName(sc), args); ok {
						env[x] = res
						continue
					}
				}
				ip.dirty = true
				forget()
				delete(env, x)
			case *ssa.If:
				c, ok := get(x.Cond)
				cc, isC := c.(constant.Value)
				if sym, isSym := c.(iSym); ok && isSym && ip.branch != nil {
					if taken, decided := ip.branch(sym, x); decided {
						cc, isC = constant.MakeBool(taken), true
					}
				}
				if !ok || !isC || cc.Kind() != constant.Bool {
					ip.dirty = true
					if ip.stuck == "" {
						ip.stuck = "branch on an unknown condition at " + ip.m.InstrPos(x)
					}
					return nil, false
				}
				prev = b
				if constant.BoolVal(cc) {
					b = b.Succs[0]
				} else {
					b = b.Succs[1]
				}
			case *ssa.Jump:
				prev = b
				b = b.Succs[0]
			case *ssa.Return:
				switch len(x.Results) {
				case 0:
					return nil, false
				case 1:
					return get(x.Results[0])
				default:
					t := make(iTuple, len(x.Results))
					for i, r := range x.Results {
						t[i], _ = get(r)
					}
					return t, true
				}
			default:
				ip.dirty = true
				if v, isV := in.(ssa.Value); isV {
					delete(env, v)
				}
			}
		}
	}
}

type iNil struct{}

// iFn is a function value of known identity (or just "some non-nil function" when fn is nil).
type iFn struct{ fn *ssa.Function }

// EvalValue evaluates one SSA value on demand in the context of its own function (no control flow:
// phis are unknown). Calls are interpreted with Run semantics.
func (ip *Interp) EvalValue(v ssa.Value, depth int) (any, bool) {
	if depth > 12 {
		return nil, false
	}
	switch x := v.(type) {
	case *ssa.Const:
		if x.Value != nil {
			return x.Value, true
		}
		if x.IsNil() {
			return iNil{}, true
		}
		return nil, false
	case *ssa.BinOp:
		l, ok1 := ip.EvalValue(x.X, depth+1)
		r, ok2 := ip.EvalValue(x.Y, depth+1)
		if !ok1 || !ok2 {
			return nil, false
		}
		return foldAny(x.Op, l, r)
	case *ssa.UnOp:
		switch x.Op {
		case token.NOT:
			if c, ok := ip.EvalValue(x.X, depth+1); ok {
				if cc, isC := c.(constant.Value); isC && cc.Kind() == constant.Bool {
					return constant.MakeBool(!constant.BoolVal(cc)), true
				}
			}
		case token.MUL:
			if ip.load != nil {
				return ip.load(x, false)
			}
		}
		return nil, false
	case *ssa.Convert:
		return ip.EvalValue(x.X, depth+1)
	case *ssa.ChangeType:
		return ip.EvalValue(x.X, depth+1)
	case *ssa.Extract:
		if t, ok := ip.EvalValue(x.Tuple, depth+1); ok {
			if tt, isT := t.(iTuple); isT && x.Index < len(tt) && tt[x.Index] != nil {
				return tt[x.Index], true
			}
		}
		return nil, false
	case *ssa.Lookup:
		key, ok := ip.EvalValue(x.Index, depth+1)
		if !ok || ip.lookup == nil {
			return nil, false
		}
		val, present, ok := ip.lookup(x, key)
		if !ok {
			return nil, false
		}
		if x.CommaOk {
			return iTuple{val, constant.MakeBool(present)}, true
		}
		return val, val != nil
	case *ssa.Call:
		args := make([]any, len(x.Call.Args))
		for i, a := range x.Call.Args {
			if av, ok := ip.evalArg(a, depth+1); ok {
				args[i] = av
			}
		}
		if ip.call != nil {
			if res, handled := ip.call(x, args); handled {
				return res, res != nil
			}
		}
		sc := x.Call.StaticCallee()
		if sc == nil || sc.Blocks == nil || !ip.m.InModule(sc) {
			return nil, false
		}
		save := ip.dirty
		ip.dirty = false
		ip.steps = 0
		res, ok := ip.run(sc, args, 1)
		ip.dirty = save
		return res, ok
	}
	return nil, false
}

// evalArg: like EvalValue but also understands the variadic-slice idiom (new [n]T; stores of constants; slice).
func (ip *Interp) evalArg(a ssa.Value, depth int) (any, bool) {
	if sl, ok := a.(*ssa.Slice); ok {
		if elems := variadicElems(sl); len(elems) > 0 {
			arr := &iArr{elems: make([]any, len(elems))}
			for i, e := range elems {
				v, ok := ip.EvalValue(e, depth+1)
				if !ok {
					return nil, false
				}
				arr.elems[i] = v
			}
			return iSlice{arr, 0, len(elems)}, true
		}
	}
	return ip.EvalValue(a, depth)
}

func foldAny(op token.Token, l, r any) (any, bool) {
	lc, isL := l.(constant.Value)
	rc, isR := r.(constant.Value)
	if isL && isR {
		v, ok := foldBinOp(op, lc, rc)
		return v, ok
	}
	// operations on named unknowns build expressions
	_, symL := l.(iSym)
	_, symR := r.(iSym)
	if (symL && (symR || isR)) || (symR && isL) {
		return iSym{op: op, x: l, y: r}, true
	}
	if op != token.EQL && op != token.NEQ {
		return nil, false
	}
	// two struct values: equal when all their fields are (known constants, or struct values in turn)
	if lo, isLO := l.(*iStruct); isLO && lo.val {
		if ro, isRO := r.(*iStruct); isRO && ro.val && lo.structType() != nil && lo.structType() == ro.structType() {
			st := lo.structType()
			eq := true
			for i := 0; i < st.NumFields(); i++ {
				a, okA := lo.field(i)
				b, okB := ro.field(i)
				if !okA || !okB {
					return nil, false
				}
				v, ok := foldAny(token.EQL, a, b)
				c, isC := v.(constant.Value)
				if !ok || !isC || c.Kind() != constant.Bool {
					return nil, false
				}
				if !constant.BoolVal(c) {
					eq = false
				}
			}
			return constant.MakeBool(eq == (op == token.EQL)), true
		}
	}
	// two abstract heap objects: identity
	if lo, isLO := l.(*iStruct); isLO && !lo.val {
		if ro, isRO := r.(*iStruct); isRO && !ro.val {
			return constant.MakeBool((lo == ro) == (op == token.EQL)), true
		}
	}
	nilness := func(x any) (bool, bool) { // (isNil, known)
		switch x.(type) {
		case iNil:
			return true, true
		case iFn, iObj, *iStruct, *iClosure, iSlice, *iMap:
			return false, true
		}
		return false, false
	}
	ln, lk := nilness(l)
	rn, rk := nilness(r)
	if !lk || !rk || (!ln && !rn) {
		return nil, false // two non-nil functions: identity is not comparable in Go anyway
	}
	eq := ln == rn
	if op == token.NEQ {
		eq = !eq
	}
	return constant.MakeBool(eq), true
}

// evalGlobals evaluates the initialiser of a module package (its synthetic init function) and returns the
// package-level variables it builds from constants: map literals, array literals, tables derived from other
// tables by a helper function. Results are cached. ok=false for a variable means "not computable".
func (m *Model) evalGlobals(pkgShort string) map[string]any {
	if m.globalTabs == nil {
		m.globalTabs = map[string]map[string]any{}
	}
	if r, ok := m.globalTabs[pkgShort]; ok {
		return r
	}
	out := map[string]any{}
	m.globalTabs[pkgShort] = out
	sp := m.SSA[fullPkg(pkgShort)]
	if sp == nil {
		return out
	}
	initFn := sp.Func("init")
	if initFn == nil {
		return out
	}
	ip := &Interp{m: m, globals: map[*ssa.Global]any{}}
	ip.load = func(v *ssa.UnOp, dirty bool) (any, bool) {
		if g, ok := v.X.(*ssa.Global); ok && g.Name() == "init$guard" {
			return constant.MakeBool(false), true
		}
		return nil, false
	}
	ip.call = func(c *ssa.Call, args []any) (any, bool) {
		if sc := c.Call.StaticCallee(); sc != nil && sc.Name() == "init" && sc != initFn {
			return nil, true // initialisers of imported packages
		}
		return nil, false
	}
	ip.Run(initFn, nil)
	for g, v := range ip.globals {
		if g.Pkg != sp {
			continue
		}
		cell, ok := v.(*iArr)
		if !ok {
			continue
		}
		if _, isArr := g.Type().Underlying().(*types.Pointer).Elem().Underlying().(*types.Array); isArr {
			out[canonGlobalName(g)] = cell
		} else if len(cell.elems) == 1 && cell.elems[0] != nil {
			out[canonGlobalName(g)] = cell.elems[0]
		}
	}
	return out
}

// globalStringIntMap: a package-level map[string]<integer type> evaluated from the initialiser.
func (m *Model) globalStringIntMap(pkgShort, name string) (map[string]int64, bool) {
	v, ok := m.evalGlobals(pkgShort)[name]
	mp, isM := v.(*iMap)
	if !ok || !isM || mp.vals == nil {
		return nil, false
	}
	out := map[string]int64{}
	for ks, val := range mp.vals {
		kc := mp.kval[ks]
		vc, isC := val.(constant.Value)
		if kc == nil || kc.Kind() != constant.String || !isC || vc.Kind() != constant.Int {
			return nil, false
		}
		i, _ := constant.Int64Val(vc)
		out[constant.StringVal(kc)] = i
	}
	return out, true
}

// isVariadicArgs: the slice is the freshly built argument array of this variadic call (the callee may read it, and a
// library function like fmt.Sprintf does not keep or change it — and nothing else can see it afterwards anyway).
func isVariadicArgs(c *ssa.Call, sl iSlice) bool {
	if !c.Call.Signature().Variadic() || len(c.Call.Args) == 0 {
		return false
	}
	_, ok := c.Call.Args[len(c.Call.Args)-1].(*ssa.Slice)
	return ok
}

// isTextBuffer: bytes.Buffer or strings.Builder.
func isTextBuffer(t *types.Named) bool {
	if t.Obj().Pkg() == nil {
		return false
	}
	n := t.Obj().Pkg().Path() + "." + t.Obj().Name()
	return n == "bytes.Buffer" || n == "strings.Builder"
}

// evalOnNode evaluates the evaluator's Eval on an abstract AST node of the given type (fields as given, by name) and
// returns the result and the evaluator methods that were called with the node (in order): the dispatch as it happens,
// however the type switch is organised. Calls back into Eval for children are not followed (unknown results).
func (m *Model) evalOnNode(typeName string, fields map[string]any) (res any, handlers []*ssa.Function, stuck string) {
	ev := m.Method("evaluator", "Evaluator", "Eval")
	nt := m.namedType("ast", typeName)
	if ev == nil || nt == nil {
		return nil, nil, "Eval or ast." + typeName + " not found"
	}
	node := &iStruct{typ: nt, fields: map[int]any{}}
	st := nt.Underlying().(*types.Struct)
	var fill func(o *iStruct, stt *types.Struct, prefix string)
	fill = func(o *iStruct, stt *types.Struct, prefix string) {
		for i := 0; i < stt.NumFields(); i++ {
			name := prefix + stt.Field(i).Name()
			if v, ok := fields[name]; ok {
				o.fields[i] = v
				continue
			}
			if inner, isNamed := stt.Field(i).Type().(*types.Named); isNamed {
				if ist, isSt := inner.Underlying().(*types.Struct); isSt {
					for k := range fields {
						if strings.HasPrefix(k, name+".") {
							io := &iStruct{typ: inner, fields: map[int]any{}}
							o.fields[i] = io
							fill(io, ist, name+".")
							break
						}
					}
				}
			}
		}
	}
	fill(node, st, "")
	ip := &Interp{m: m}
	depthOfFirst := -1
	ip.call = func(c *ssa.Call, args []any) (any, bool) {
		sc := c.Call.StaticCallee()
		if sc == nil {
			return nil, false
		}
		if sc == ev && depthOfFirst >= 0 {
			return nil, true // a child evaluation
		}
		for _, a := range args {
			if a == any(node) && sc != ev && inPkg(sc, "evaluator") { // a method of the evaluator, or a plain function of the package
				// only functions that take this concrete node type are handlers (wrappers taking ast.Node are dispatch plumbing)
				for i := 0; i < sc.Signature.Params().Len(); i++ {
					if types.Identical(sc.Signature.Params().At(i).Type(), types.NewPointer(nt)) {
						handlers = append(handlers, sc)
						depthOfFirst = 1
					}
				}
			}
		}
		return nil, false
	}
	r, known := ip.Run(ev, []any{iObj{"evaluator"}, node, iObj{"env"}})
	if !known {
		r = nil
	}
	return r, handlers, ip.stuck
}

// libModel: pure standard-library functions on known arguments (no effect on memory).
func libModel(name string, args []any) (any, bool) {
	str := func(i int) (string, bool) {
		if i < len(args) {
			if c, ok := args[i].(constant.Value); ok && c.Kind() == constant.String {
				return constant.StringVal(c), true
			}
		}
		return "", false
	}
	switch name {
	case "sort.Strings", "slices.Sort[[]string string]", "slices.Sort":
		// a slice of known strings is sorted in place
		if len(args) != 1 {
			return nil, false
		}
		sl, ok := args[0].(iSlice)
		if !ok || sl.arr == nil {
			return nil, false
		}
		var ks []string
		for _, e := range sl.arr.elems[sl.lo:sl.high] {
			c, isC := e.(constant.Value)
			if !isC || c.Kind() != constant.String {
				return nil, false
			}
			ks = append(ks, constant.StringVal(c))
		}
		sort.Strings(ks)
		for i, k := range ks {
			sl.arr.elems[sl.lo+i] = constant.MakeString(k)
		}
		return iObj{kind: "nothing"}, true
	case "errors.New", "fmt.Errorf":
		return iObj{kind: "error"}, true // a non-nil error, whatever it says
	case "slices.Contains":
		if len(args) != 2 {
			return nil, false
		}
		sl, ok := args[0].(iSlice)
		if !ok {
			return nil, false
		}
		var res any = constant.MakeBool(false)
		for _, e := range sl.arr.elems[sl.lo:sl.high] {
			eq, ok := foldAny(token.EQL, e, args[1])
			if !ok {
				return nil, false
			}
			if c, isC := eq.(constant.Value); isC {
				if constant.BoolVal(c) {
					return constant.MakeBool(true), true
				}
				continue
			}
			if rc, isC := res.(constant.Value); isC && !constant.BoolVal(rc) {
				res = eq
			} else {
				res = iSym{op: token.LOR, x: res, y: eq}
			}
		}
		return res, true
	case "strings.HasPrefix", "strings.HasSuffix", "strings.Contains", "strings.EqualFold":
		a, ok1 := str(0)
		b, ok2 := str(1)
		if !ok1 || !ok2 {
			return nil, false
		}
		switch name {
		case "strings.HasPrefix":
			return constant.MakeBool(strings.HasPrefix(a, b)), true
		case "strings.HasSuffix":
			return constant.MakeBool(strings.HasSuffix(a, b)), true
		case "strings.Contains":
			return constant.MakeBool(strings.Contains(a, b)), true
		}
		return constant.MakeBool(strings.EqualFold(a, b)), true
	case "strings.Index":
		a, ok1 := str(0)
		b, ok2 := str(1)
		if ok1 && ok2 {
			return constant.MakeInt64(int64(strings.Index(a, b))), true
		}
	case "strings.Compare", "cmp.Compare":
		a, ok1 := str(0)
		b, ok2 := str(1)
		if ok1 && ok2 {
			return constant.MakeInt64(int64(strings.Compare(a, b))), true
		}
		return nil, false
	case "unicode.ToUpper", "unicode.ToLower", "unicode.ToTitle":
		if len(args) == 1 {
			if c, ok := args[0].(constant.Value); ok && c.Kind() == constant.Int {
				if iv, exact := constant.Int64Val(c); exact {
					switch name {
					case "unicode.ToUpper":
						return constant.MakeInt64(int64(unicode.ToUpper(rune(iv)))), true
					case "unicode.ToLower":
						return constant.MakeInt64(int64(unicode.ToLower(rune(iv)))), true
					}
					return constant.MakeInt64(int64(unicode.ToTitle(rune(iv)))), true
				}
			}
		}
		return nil, false
	case "unicode/utf8.DecodeRuneInString", "unicode/utf8.DecodeLastRuneInString":
		if a, ok := str(0); ok {
			var r rune
			var n int
			if name == "unicode/utf8.DecodeRuneInString" {
				r, n = utf8.DecodeRuneInString(a)
			} else {
				r, n = utf8.DecodeLastRuneInString(a)
			}
			return iTuple{constant.MakeInt64(int64(r)), constant.MakeInt64(int64(n))}, true
		}
		return nil, false
	case "unicode/utf8.RuneCountInString":
		if a, ok := str(0); ok {
			return constant.MakeInt64(int64(utf8.RuneCountInString(a))), true
		}
		return nil, false
	case "strings.TrimSpace", "strings.ToLower", "strings.ToUpper":
		a, ok := str(0)
		if !ok {
			return nil, false
		}
		switch name {
		case "strings.TrimSpace":
			return constant.MakeString(strings.TrimSpace(a)), true
		case "strings.ToLower":
			return constant.MakeString(strings.ToLower(a)), true
		}
		return constant.MakeString(strings.ToUpper(a)), true
	case "strings.TrimPrefix", "strings.TrimSuffix", "strings.Trim", "strings.TrimLeft", "strings.TrimRight":
		a, ok1 := str(0)
		b, ok2 := str(1)
		if !ok1 || !ok2 {
			return nil, false
		}
		switch name {
		case "strings.TrimPrefix":
			return constant.MakeString(strings.TrimPrefix(a, b)), true
		case "strings.TrimSuffix":
			return constant.MakeString(strings.TrimSuffix(a, b)), true
		case "strings.Trim":
			return constant.MakeString(strings.Trim(a, b)), true
		case "strings.TrimLeft":
			return constant.MakeString(strings.TrimLeft(a, b)), true
		}
		return constant.MakeString(strings.TrimRight(a, b)), true
	}
	return nil, false
}
