package main

// props_text.go — what each property's check decides and what it does not (goes into every evidence file).

var propText = map[string][2]string{
	"C01": {
		"grouping of every operator sequence of <= 3 operators by the extracted Pratt model equals the precedence order and associativity of C01 (exhaustive over about 5,000 expressions); the Pratt loop comparison is strict; every complete-expression position (assignment value, conditions, index inner, arguments, object values, ternary else) is parsed at the lowest level; every operator of C01 is registered with a handler of the expected shape; integer / and % have a dominating non-zero test.",
		"printed values (strconv/fmt formatting), the per-type operator tables of the evaluator (that case \"+\" is Go's +), that redundant parentheses never change a value, literal conversion ranges.",
	},
	"C02": {
		"the truthiness table extracted from isTruthy equals the table of C02 row by row; @if/@elseif/ternary/@breakIf/@continueIf/@for branch on isTruthy of their evaluated condition and on nothing else; each branch evaluation is control-dependent on the truthiness of its own condition after the error check; @elseif branches are an ascending range; a chosen branch is returned at once so no later condition is evaluated; @else only after every condition was falsy; the @else/@elseif keyword pair is told apart (constant evaluation of the lexer predicate); statement results are concatenated in order without filtering. Every result of e.Eval is returned or tested with isError before any other use (R-EVALERR). In parseBlockStmt the step to the next statement is never taken when the next token is @else/@elseif/@end (case evaluation of the peek tests made after the statement was parsed).",
		"output equality over all nestings; that the parser attaches each body to the right branch beyond appending alternatives in source order.",
	},
	"C03": {
		"in evalEachStmt/evalForStmt the break test follows the body evaluation on every path to the next pass, its true edge leaves the loop and the pass's output is written before it; @each is an ascending range over the evaluated array's elements, binds the element through Env.Set, and builds the loop object exactly as {index: i, iter: i+1, first: i==0, last: i==n-1} (linear normal forms); @else only for an empty array / a condition false at entry; @for evaluates condition, body, post in that order and leaves on a falsy condition; loop evaluators return rendered text while @else bodies return the evaluated block; evalBlockStmt stops after the first break/continue object and hasControlStmt looks inside nested blocks; optional @for clauses are nil-tested and operands type-tested; loop bodies run in a fresh scope on which the loop object is bound. evalBlockStmt is case-evaluated on abstract blocks of three statements (the marker itself / inside a block / inside a nested block, produced by every statement type): the third statement is not evaluated and the first two results are kept. Every Eval result is returned or error-tested before use (R-EVALERR).",
		"the rendered text for all lengths and positions (values); the semantics of assigning the post clause's value to the init variable.",
	},
	"C04": {
		"every nested block (@if branches, loop bodies and @else bodies, component block) is evaluated in NewEnclosedEnv of the incoming scope; only NewEnv, Set and SetLoopVar write a scope's store and only the receiver's own; Set's store is dominated by the reserved-name test and by the type test, which consults the whole chain through Get; Get falls back to the enclosing scope exactly when the name is absent; the loop object is bound on the loop's own scope; data is bound through Set; no error result of Set (or any other error-typed result in evaluator/object code on the render path) is discarded. Env.Get and Env.Set are case-evaluated on abstract chains of three scopes: the innermost binding wins, bindings two scopes out are visible, the name loop is refused, a visible variable of another type (at any distance) is refused, absent/nil/same-typed variables are bound in the innermost scope only.",
		"the for-all over assignment/read interleavings themselves (values); insert and slot bodies, which C04 does not list as blocks.",
	},
	"C05": {
		"every call in NextToken that can build a code-alphabet token is dominated by !isHTML; the text scanner writes each byte before consuming it, removes exactly one byte and only under the escape flags, and the escape test reads input[pos-1]; the text literal flows unchanged through NextToken, parseHTMLStmt, HTMLStmt.String, object.HTML and evalProgram; a comment is terminated only at the constant --}} and an unterminated one is an error; keyword prefix pairs are disambiguated; index/slice/Truncate operands in the lexer are in range. directiveToken is case-evaluated for every directive and next character '(' / other: the lexer enters code mode exactly for directives that take arguments (bare: @else @end @break @continue; optional: @slot). Block.String, evalProgram and evalBlockStmt are case-evaluated on three abstract elements: the output is their texts in order.",
		"byte-for-byte equality over all strings: the interaction of the mode counters (countCurlyBraces, countDirectiveParentheses) with arbitrary input is a runtime quantity; this is the property with the smallest decided share.",
	},
	"C06": {
		"the undefined-insert check precedes linking and its error is returned; each reserve is linked to the insert looked up under the reserve's own name; every insert registration is dominated by the duplicate check, which records an error; ApplyLayout replaces the page's statements by the single use statement; the layout is marked and linked before being applied and linking errors are returned; a layout that uses a layout is rejected; insert blocks/expressions are evaluated with the call's environment; an unfilled reserve yields NIL; reserves are registered by name wherever they nest; ~ expands to layouts/ (components/) only as first character; load errors are not dropped. No package-level state other than the configuration and the mode flag is written by NewTemplate and read by a later load (effect summaries, history mode).",
		"output equality of layout plus inserts over all trees; distinctness of reserve names (a precondition).",
	},
	"C07": {
		"a parsed component program is attached to exactly one use per call (a loop-invariant program stored into loop-varying uses must leave the loop), the loader parses a fresh program per use, ApplyComponent serves the first use without a program; arguments are evaluated in the caller's scope and bound through Set (error returned) in a fresh scope in which the block is evaluated; Block, Argument and slot Body are nil-tested; a missing component file is reported with the component's name; @component(...) and slot bodies must be closed.",
		"rendering equality; slots nested inside blocks of the component file; nested components.",
	},
	"C08": {
		"every lexer and parser loop consumes input on each pass and leaves in the end-of-input state and on every sticky token (abstract evaluation with curToken = peekToken = EOF / ILLEGAL, resp. l.char = 0); every recursion cycle contains a consuming call; nextToken pulls exactly one token; every \"(\", block, {{, [, {, ?, string and comment opener is followed on all paths to a successful return by a point that requires its closer, so truncated templates end in a recorded error; unterminated strings/comments become ILLEGAL tokens. A nil parse result always means an error was recorded (greatest fixpoint over the parser functions, through helpers and (value, ok) results). The token for an unknown character is built without consuming it (the parser's only ILLEGAL check is at statement starts).",
		"stack exhaustion on pathologically deep nesting; total running time; stickiness of tokens whose constructor may consume zero bytes is only decided for constructors that call nothing consuming.",
	},
	"C09": {
		"over all functions reachable from the render entry points: every unchecked type assertion is justified (dominating kind test, dispatch-table invariant, AST-field stored-type invariant, caller-established); every use of a nilable AST field is nil-tested; integer / and % are guarded; every index, slice, make, strings.Repeat and Buffer.Truncate operand is proven in range by a linear-arithmetic entailment from dominating comparisons (trusted sub-obligations are listed individually); nil Object producers are checked by every consumer; reflect Elem().Interface() and Field(i).Interface() are guarded; no panic/log.Fatal/os.Exit is reachable. reflect.Value methods whose panics depend on the shape of the data (FieldByIndex, FieldByName, Call, Convert, Slice, ...) are not used on data.",
		"panics outside these classes (out of memory from a huge repeat), stack overflow, panics inside user-supplied custom functions; integer overflow is not modelled.",
	},
	"C10": {
		"the Eval case for string literals builds the value from html.EscapeString(node.Value) with exactly the quote entities &#34; and &#39; restored; html.EscapeString is called nowhere else and html.UnescapeString only in the builtin registered as raw, which returns exactly UnescapeString(receiver); no other evaluator code turns literal text into an output value; readString removes only backslash-quote.",
		"the inverse law unescape(escape(s)) == s of the standard library (trusted); contents over all alphabets.",
	},
	"C11": {
		"purity: no builtin writes memory derived from its receiver, its arguments or package-level state (including in-place append, copy, sort); argument discipline: every comma-ok assertion on args[i] returns an error on its miss edge, args[k] only under a len guard, unchecked assertions only on the receiver under the table invariant; UTF-8: no byte-offset cut or byte index of a string, character-level builtins convert to []rune; siblings: messages quote the registered name and kind, first/last are at(0)/at(-1), receiver type matches the kind; built-in lookup precedes custom functions.",
		"the value contracts (what round, decimal, contains, slice clamping, join return for each argument tuple): numerical/structural results over runtime values are out of reach for this family and are not claimed.",
	},
	"C12": {
		"NativeToObject has a case for each of the 14 scalar Go types and nil, producing the object kind C12 names with the value as payload; reflect kinds Struct, Slice, Map, Pointer are handled and every other kind yields nil, which every caller checks at every nesting level; nil pointers are tested before Elem(); map keys are used only after the String-kind test; struct fields only under IsExported; no reflect setter anywhere in the library and no write reaches the caller's data map; property lookup tries the exact key, then the upper-cased first letter, then errors. No reflect address accessor (Pointer, UnsafePointer, UnsafeAddr, Addr) is reachable from NativeToObject: conversion is by value.",
		"that printed numbers equal the Go literal (formatting); shapes for all run-time constructed types; values outside the int64 range.",
	},
	"C13": {
		"all 34 ast.Node.Line() methods return ErrorLine() of their own token and ErrorLine is EndLine+1; every AST node the parser builds takes its Token from the parser's current token; every parser.newError call passes ErrorLine() of a token; parser errors carry the parsed file's absolute path, evaluator errors node.Line() and the template's absolute path; loader errors about components and inserts carry that construct's line; the line counters are written in one place and every token takes its end from the last consumed byte. The function that computes a loaded template's path reads no package-level state but the configuration (not the mode flag the string API resets).",
		"that the counters equal the true line for all inputs (CRLF, multi-line tokens): per-character arithmetic over runtime input.",
	},
	"C14": {
		"every iteration over a Go map (range, reflect MapKeys) reachable from render, load and registry roots either has an order-insensitive body (per-key updates, commutative reductions, exits whose result does not depend on the entry visited) or iterates keys that were collected and sorted; random/time/process sources, go statements and multi-way selects occur only inside shuffle()/rand().",
		"nondeterminism of the Go runtime itself or of user-supplied functions.",
	},
	"C15": {
		"no store, map update, in-place append or mutating library call whose target derives from a package-level variable, the *Template receiver, the parsed programs, the configuration or the caller's data is reachable from String, Response, EvaluateString or EvaluateFile (including the error-page path); atomics are accepted as synchronisation. With per-call env/ctx/evaluator objects this is a sufficient condition for freedom from data races on the library's own state.",
		"schedules are not explored; races inside user-supplied custom functions or the caller's ResponseWriter; provenance is intra-procedural with summaries (aliasing through containers deeper than the tracked contents is approximated).",
	},
	"C16": {
		"no package-level variable is both written and read on paths from the render entry points (no channel from one call to a later one), and no write reaches the loaded Template, its parsed programs, the configuration, the registry or the caller's data.",
		"equality of results along concrete histories.",
	},
	"C17": {
		"the ResponseWriter flows only to Fprint-style calls in Response and its helper and never to the renderer; each write is dominated by the nil-error edge of the render whose result it writes; no write can follow another; nil is returned exactly on the success path and a value non-nil by construction on every failure path; the custom page is chosen exactly under ErrorPagePath != \"\" && !DebugMode and rendered with nil data; the built-in page receives debugMode from the configuration and its embedded template mentions message, path and line only inside the true branch of @if(debugMode). Response is case-evaluated on all 32 combinations of {render ok, ErrorPagePath set, DebugMode, custom page ok, built-in page ok}: body and result are exactly as specified, at most one body, nil data for the custom page. Every Eval result is returned or error-tested before use, so a failing sub-expression fails the render instead of being printed. Response leaves no package-level state that a later Response reads.",
		"that a user-written custom error page leaks nothing; HTTP status codes.",
	},
	"C18": {
		"the extension is only tested/removed as a suffix and the directory only joined, walked, normalised or relativised; a file is registered only under HasSuffix(path, ext) and !IsDir; names are filepath.Rel + TrimSuffix; NewTemplate pairs every error with a nil Template; layouts are not registered; unknown names end in template-not-found; EvaluateFile passes the unmodified content to EvaluateString; loader errors are propagated; the lexer/parser/loader code reached while loading satisfies the termination, delimiter, bounds, assertion and panic rules. In the loader functions every path entered under a non-nil error ends in a return carrying an error (no continue, no fall-through).",
		"the file-system fault enumeration (deleted/truncated/symlink): behaviour of os/filepath under faults is runtime; only propagation of every returned error is decided.",
	},
	"C19": {
		"Position.Contains only compares its inputs and, evaluated over assignments realising every weak ordering, equals inclusive lexicographic containment (decided for all inputs); the position counters are written only by readChar and the start fields only by tokenBegins; tokens are built only by newToken with start from tokenBegins and end from the last consumed byte (current position for EOF); every newToken call is preceded by tokenBegins on all paths and no constructor reads input before taking the start.",
		"that tokens tile the source and that columns are byte columns for all inputs: arithmetic in readChar over runtime bytes is not claimed.",
	},
	"C20": {
		"each Register*Func stores into its own table only on the miss edge of a lookup of the same map and key and returns a non-nil error on the hit edge; no other code writes, replaces or clears a table (so operation sequences cannot lose a registration); custom functions are consulted only after the builtin lookup missed; hasCustomFunc and evalCallExp use the table of the receiver's kind for all five kinds; arguments go through Val() (payload for scalars, recursive for containers), results through NativeToObject with a nil check; the fall-through error names function and type. Container Val() methods are case-evaluated (three elements give exactly their three Val() results) and write nothing that outlives the call; on every path from a custom-function call to a return its result goes through NativeToObject or into a fresh object.",
		"value round-trips for all nested arguments; behaviour of the user's function itself.",
	},
}

func init() {
	for id, t := range propText {
		id, t := id, t
		defer func() {
			if p := props[id]; p != nil {
				p.Decided, p.NotDecided = t[0], t[1]
			}
		}()
	}
}
