package main

// rule_loaderr.go — R-LOADERR: a failure while loading fails the load.
//
// In the loader functions, once an error value is known to be non-nil (err != nil, errors.Is(err, X)) every path ends
// in a return that carries a non-nil error: no `continue`, no fall-through to the success return. Otherwise a template
// that could not be read or parsed is silently missing from the loaded tree (or half-linked).

import (
	"fmt"
	"go/constant"
	"go/token"
	"strings"

	"golang.org/x/tools/go/ssa"
)

func (m *Model) RunLoadErr(s *Sink, rule string) {
	r := m.Roots()
	var fns []*ssa.Function
	for fn := range m.Reach(r.Load) {
		if fn.Blocks != nil && m.InModule(fn) && shortPkg(fnPkgPath(fn)) == "textwire" {
			fns = append(fns, fn)
		}
	}
	sortFns(fns)
	n := 0
	for _, fn := range fns {
		loops := naturalLoops(fn)
		// error values: error-like results of calls
		type ev struct {
			v    ssa.Value
			call *ssa.Call
		}
		var evs []ev
		for _, b := range fn.Blocks {
			for _, in := range b.Instrs {
				c, ok := in.(*ssa.Call)
				if !ok || c.Call.Signature() == nil {
					continue
				}
				res := c.Call.Signature().Results()
				for i := 0; i < res.Len(); i++ {
					if !isErrorLike(res.At(i).Type()) {
						continue
					}
					if res.Len() == 1 {
						evs = append(evs, ev{c, c})
						continue
					}
					for _, rr := range *c.Referrers() {
						if ex, isEx := rr.(*ssa.Extract); isEx && ex.Index == i {
							evs = append(evs, ev{ex, c})
						}
					}
				}
			}
		}
		cnt := 0
		for _, e := range evs {
			// blocks entered under "e is non-nil"
			type edge struct{ from, to *ssa.BasicBlock }
			var entries []edge
			for _, p := range fn.Blocks {
				for _, b := range p.Succs {
					for _, f := range expandFacts(edgeFact(p, b)) {
						if nonNilFact(f, e.v) {
							entries = append(entries, edge{p, b})
						}
					}
				}
			}
			if len(entries) == 0 {
				continue
			}
			cnt++
			n++
			key := fmt.Sprintf("%s|a failure of %s #%d ends the load with an error", fnKey(fn), calleeName(&e.call.Call), cnt)
			bad := ""
			for _, ent := range entries {
				entry := ent.from
				seen := map[*ssa.BasicBlock]bool{}
				var walk func(b, pred *ssa.BasicBlock)
				walk = func(b, pred *ssa.BasicBlock) {
					if bad != "" || seen[b] {
						return
					}
					seen[b] = true
					for _, li := range loops {
						if b == li.header && li.body[entry] {
							bad = fmt.Sprintf("the loop continues with the next item at %s (entered at block %d -> %d)", m.InstrPos(b.Instrs[0]), ent.from.Index, ent.to.Index)
							return
						}
					}
					if ret, isRet := b.Instrs[len(b.Instrs)-1].(*ssa.Return); isRet {
						hasErr, nonNil := false, false
						for i := range ret.Results {
							if !isErrorLike(fn.Signature.Results().At(i).Type()) {
								continue
							}
							hasErr = true
							if !isNilConst(retSource(ret, i)) {
								nonNil = true
							}
						}
						if hasErr && !nonNil {
							bad = "the function returns without an error at " + m.InstrPos(ret)
						}
						return
					}
					// a short-circuit condition (`a == nil && b == nil`) arrives as a phi: coming from the edge on which its
					// value is a constant, only one successor is possible
					only := -1
					if iff, isIf := b.Instrs[len(b.Instrs)-1].(*ssa.If); isIf && pred != nil {
						if phi, isPhi := iff.Cond.(*ssa.Phi); isPhi && phi.Block() == b {
							for i, p := range b.Preds {
								if p == pred {
									if k, isK := phi.Edges[i].(*ssa.Const); isK && k.Value != nil && k.Value.Kind() == constant.Bool {
										if constant.BoolVal(k.Value) {
											only = 0
										} else {
											only = 1
										}
									}
								}
							}
						}
					}
					// `err` re-used for a second call made only when the first succeeded (`if err == nil { …, err = g() }; if err
					// != nil { return … }`): arriving from the edge on which the merged value is this very error, it is non-nil
					if iff, isIf := b.Instrs[len(b.Instrs)-1].(*ssa.If); isIf && pred != nil && only < 0 {
						if bo, isBo := iff.Cond.(*ssa.BinOp); isBo && (bo.Op == token.EQL || bo.Op == token.NEQ) {
							for _, pr := range [][2]ssa.Value{{bo.X, bo.Y}, {bo.Y, bo.X}} {
								phi, isPhi := pr[0].(*ssa.Phi)
								if !isPhi || phi.Block() != b || !isNilConst(pr[1]) {
									continue
								}
								for i, p := range b.Preds {
									if p == pred && i < len(phi.Edges) && phi.Edges[i] == e.v {
										if bo.Op == token.NEQ {
											only = 0
										} else {
											only = 1
										}
									}
								}
							}
						}
					}
					for si, sc := range b.Succs {
						if only >= 0 && si != only {
							continue
						}
						// an edge on which the error is identified as the sentinel that means "fine" (err == io.EOF) is not a failure path
						sentinel := false
						for _, f := range expandFacts(edgeFact(b, sc)) {
							if bo, ok := f.Cond.(*ssa.BinOp); ok && (bo.Op == token.EQL || bo.Op == token.NEQ) && (bo.Op == token.EQL) == f.Holds && (bo.X == e.v || bo.Y == e.v) {
								other := bo.Y
								if bo.Y == e.v {
									other = bo.X
								}
								if ld, isLd := other.(*ssa.UnOp); isLd {
									if g, isG := ld.X.(*ssa.Global); isG && g.Name() == "EOF" {
										sentinel = true
									}
								}
							}
						}
						if !sentinel {
							walk(sc, b)
						}
					}
				}
				walk(ent.to, ent.from)
			}
			if bad == "" {
				s.OK(rule, key, m.InstrPos(e.call), "every path entered under a non-nil error ends in a return carrying an error")
			} else {
				s.Violation(rule, key, m.InstrPos(e.call), "in %s, after %s has failed, %s: a template that cannot be read or parsed is silently left out of the loaded tree", fnKey(fn), calleeName(&e.call.Call), bad)
			}
		}
	}
	if n < 8 {
		s.Undecided(rule, "loader|error tests", "-", "expected at least 8 tested error results in the loader functions, found %d", n)
	}
}

// nonNilFact: the fact establishes that the error value v is non-nil.
func nonNilFact(f Fact, v ssa.Value) bool {
	switch c := f.Cond.(type) {
	case *ssa.BinOp:
		if (c.Op == token.NEQ) == f.Holds && (c.Op == token.NEQ || c.Op == token.EQL) {
			if (c.X == v && isNilConst(c.Y)) || (c.Y == v && isNilConst(c.X)) {
				return true
			}
		}
	case *ssa.Call:
		if sc := c.Call.StaticCallee(); sc != nil && f.Holds {
			n := fnFullName(sc)
			if (n == "errors.Is" || n == "errors.As") && len(c.Call.Args) > 0 && stripIface(c.Call.Args[0]) == v {
				return true
			}
		}
	}
	return false
}

func sortFns(fns []*ssa.Function) {
	for i := 1; i < len(fns); i++ {
		for j := i; j > 0 && fnKey(fns[j]) < fnKey(fns[j-1]); j-- {
			fns[j], fns[j-1] = fns[j-1], fns[j]
		}
	}
}

// RunLoadRecursion — R-LOADREC (C08, C18): loading terminates. The loader functions of the root package call each other in a
// fixed order (walk, parse, link layout, link components); none of them is recursive, so the work is bounded by the number
// of files and of uses in them. A cycle among them (a component file loading the components it names by calling the
// loader again) is unbounded for files that name each other: NewTemplate never returns.
func (m *Model) RunLoadRecursion(s *Sink, rule string) {
	var fns []*ssa.Function
	in := map[*ssa.Function]bool{}
	for fn := range m.Reach(m.Roots().Load) {
		if fn.Blocks != nil && m.InModule(fn) && shortPkg(fnPkgPath(fn)) == "textwire" {
			fns = append(fns, fn)
			in[fn] = true
		}
	}
	sortFns(fns)
	// callees within the set (closures belong to their parents' work: a call of a function literal is followed too)
	edges := map[*ssa.Function][]*ssa.Function{}
	for _, fn := range fns {
		if node := m.CG.Nodes[fn]; node != nil {
			for _, e := range node.Out {
				if in[e.Callee.Func] {
					edges[fn] = append(edges[fn], e.Callee.Func)
				}
			}
		}
	}
	state := map[*ssa.Function]int{}
	var stack []*ssa.Function
	cycle := ""
	var dfs func(f *ssa.Function)
	dfs = func(f *ssa.Function) {
		if cycle != "" {
			return
		}
		state[f] = 1
		stack = append(stack, f)
		for _, g := range edges[f] {
			if state[g] == 1 {
				var names []string
				on := false
				for _, x := range stack {
					if x == g {
						on = true
					}
					if on {
						names = append(names, fnKey(x))
					}
				}
				cycle = strings.Join(append(names, fnKey(g)), " -> ")
				return
			}
			if state[g] == 0 {
				dfs(g)
			}
		}
		stack = stack[:len(stack)-1]
		state[f] = 2
	}
	for _, f := range fns {
		if state[f] == 0 {
			dfs(f)
		}
	}
	key := "textwire|the loader functions do not call each other in a cycle"
	switch {
	case len(fns) < 4:
		s.Undecided(rule, key, "-", "expected the loader functions of the root package on the path from NewTemplate, found %d", len(fns))
	case cycle != "":
		s.Violation(rule, key, "-", "the loader is recursive (%s): for template files that name each other (a component that uses itself, two components using each other) loading never ends", cycle)
	default:
		s.OK(rule, key, "-", "the call graph among the %d loader functions reachable from NewTemplate is acyclic", len(fns))
	}
}

// RunCauseKept: fail.FromError turns a native error (a file that cannot be read) into the error the load reports; its
// message is the text of that very error — `err.Error()` of the parameter, not of something unwrapped from it (the
// text of an *fs.PathError is what names the file that is missing).
func (m *Model) RunCauseKept(s *Sink, rule string) {
	fe := m.PkgFunc("fail", "FromError")
	if fe == nil || len(fe.Params) == 0 {
		s.Undecided(rule, "fail.FromError", "-", "not found")
		return
	}
	key := fnKey(fe) + "|the message is the text of the error it was given"
	n, bad := 0, ""
	for _, h := range m.helpersOf(fe) {
		for _, b := range h.Blocks {
			for _, in := range b.Instrs {
				c, ok := in.(*ssa.Call)
				if !ok || !c.Call.IsInvoke() || c.Call.Method.Name() != "Error" {
					continue
				}
				n++
				for _, r := range m.resolveUp(c.Call.Value, fe, 0) {
					if r != ssa.Value(fe.Params[0]) && bad == "" {
						bad = fmt.Sprintf("%s at %s", valueDesc(r), m.InstrPos(c))
					}
				}
			}
		}
	}
	switch {
	case n == 0:
		s.Undecided(rule, key, m.Pos(fe.Pos()), "no call of Error() found in FromError")
	case bad != "":
		s.Violation(rule, key, m.Pos(fe.Pos()), "FromError takes the text of %s instead of the error it was given: what an unwrapped cause says (\"no such file or directory\") no longer names the file, so a missing layout or component is reported without its path or name", bad)
	default:
		s.OK(rule, key, m.Pos(fe.Pos()), "Error() is called on the parameter itself")
	}
}
