package main

// rule_pathapi.go — R-PATHAPI and loader contract clauses (C18).

import (
	"fmt"
	"go/constant"
	"go/token"
	"go/types"
	"strings"

	"golang.org/x/tools/go/ssa"
)

// derivesFromField: v is (a concatenation containing) a load of a field whose path ends in suffix.
func derivesFromField(v ssa.Value, suffix string, d int) bool {
	if d > 4 {
		return false
	}
	if strings.HasSuffix(fieldPathOf(v), suffix) {
		return true
	}
	if bo, ok := v.(*ssa.BinOp); ok && bo.Op == token.ADD {
		return derivesFromField(bo.X, suffix, d+1) || derivesFromField(bo.Y, suffix, d+1)
	}
	return false
}

// derivesFrom: like derivesFromField, and the value may have travelled: through parameters (every call site hands in
// a value that derives from the field) and through a field of a module struct that only ever receives such values
// (a collector object built from the configuration).
func (m *Model) derivesFrom(v ssa.Value, suffix string, d int) bool {
	if d > 5 {
		return false
	}
	if derivesFromField(v, suffix, d) {
		return true
	}
	switch x := v.(type) {
	case *ssa.BinOp:
		if x.Op == token.ADD {
			return m.derivesFrom(x.X, suffix, d+1) || m.derivesFrom(x.Y, suffix, d+1)
		}
	case *ssa.Parameter:
		rs := m.resolveUp(x, nil, 0)
		if len(rs) == 0 || (len(rs) == 1 && rs[0] == v) {
			return false
		}
		for _, r := range rs {
			if !m.derivesFrom(r, suffix, d+1) {
				return false
			}
		}
		return true
	case *ssa.UnOp:
		fa, ok := x.X.(*ssa.FieldAddr)
		if !ok || x.Op != token.MUL {
			return false
		}
		tn := derefTypeString(fa.X.Type())
		if !strings.HasPrefix(tn, modPath) || strings.HasSuffix(tn, "config.Config") {
			return false
		}
		n := 0
		for _, f := range m.ModFns {
			if f.Blocks == nil {
				continue
			}
			for _, b := range f.Blocks {
				for _, in := range b.Instrs {
					st, isSt := in.(*ssa.Store)
					if !isSt {
						continue
					}
					fa2, isFA := st.Addr.(*ssa.FieldAddr)
					if !isFA || fa2.Field != fa.Field || derefTypeString(fa2.X.Type()) != tn {
						continue
					}
					n++
					if !m.derivesFrom(st.Val, suffix, d+1) {
						return false
					}
				}
			}
		}
		return n > 0
	}
	return false
}

var extAllowed = map[string]int{"strings.HasSuffix": 1, "strings.TrimSuffix": 1, "strings.CutSuffix": 1}
var dirAllowed = map[string]int{"path/filepath.Rel": 0, "path/filepath.Walk": 0, "path/filepath.WalkDir": 0, "path/filepath.Join": -1, "path/filepath.Clean": 0, "path/filepath.Abs": 0,
	"strings.Trim": 0, "strings.TrimRight": 0, "strings.TrimLeft": 0, "strings.TrimSuffix": 0, "os.ReadDir": 0, "os.Stat": 0}

func (m *Model) RunPathAPI(s *Sink, rule string) {
	r := m.Roots()
	fns := m.reachableFns(r.Load, r.Render)
	nExt, nDir := 0, 0
	for _, fn := range fns {
		if shortPkg(fnPkgPath(fn)) != "textwire" {
			continue
		}
		for _, b := range fn.Blocks {
			for _, in := range b.Instrs {
				c, ok := in.(*ssa.Call)
				if !ok || c.Call.StaticCallee() == nil {
					continue
				}
				sc := c.Call.StaticCallee()
				name := fnFullName(sc)
				for ai, a := range c.Call.Args {
					// variadic string args
					vals := []ssa.Value{a}
					if sl, ok := a.(*ssa.Slice); ok {
						vals = variadicElems(sl)
					}
					for _, av := range vals {
						if av == nil {
							continue
						}
						if m.derivesFrom(av, ".TemplateExt", 0) {
							nExt++
							key := fmt.Sprintf("%s|extension passed to %s", fnKey(fn), name)
							if m.InModule(sc) {
								s.OKTrivial(rule, key, m.InstrPos(c), "passed on to a library function (checked there)")
							} else if !strings.HasPrefix(name, "strings.") && !strings.HasPrefix(name, "regexp.") && !strings.HasPrefix(name, "bytes.") {
								s.OKTrivial(rule, key, m.InstrPos(c), "part of a path handed to %s (not a pattern argument)", name)
							} else if idx, ok := extAllowed[name]; ok && idx == ai {
								s.OK(rule, key, m.InstrPos(c), "%s tests or removes the extension as a suffix", name)
							} else {
								s.Violation(rule, key, m.InstrPos(c), "%s uses the template extension with %s (argument %d): the extension must be tested with strings.HasSuffix and removed with strings.TrimSuffix; substring functions accept or rewrite occurrences that are not at the end of the name (e.g. notes.tw.bak, a.tw.d/x.tw)", fnKey(fn), name, ai)
							}
						}
						if m.derivesFrom(av, ".TemplateDir", 0) {
							nDir++
							key := fmt.Sprintf("%s|template directory passed to %s", fnKey(fn), name)
							if m.InModule(sc) {
								s.OKTrivial(rule, key, m.InstrPos(c), "passed on to a library function (checked there)")
							} else if !strings.HasPrefix(name, "strings.") && !strings.HasPrefix(name, "regexp.") && !strings.HasPrefix(name, "bytes.") && dirAllowed[name] == 0 && name != "path/filepath.Rel" {
								s.OKTrivial(rule, key, m.InstrPos(c), "part of a path handed to %s (not a pattern argument)", name)
							} else if idx, ok := dirAllowed[name]; ok && (idx == ai || idx == -1) {
								s.OK(rule, key, m.InstrPos(c), "%s joins, walks, normalises or relativises by the directory", name)
							} else {
								s.Violation(rule, key, m.InstrPos(c), "%s uses the template directory with %s (argument %d): names must be derived with filepath.Rel (or a prefix operation on equally cleaned paths); substring replacement fails for directory spellings such as ./t or t/../t, which filepath.Walk reports cleaned", fnKey(fn), name, ai)
							}
						}
					}
				}
			}
		}
	}
	if nExt < 2 || nDir < 2 {
		s.Undecided(rule, "path-api sites", "-", "expected at least two uses each of TemplateExt and TemplateDir in path functions (filter, name derivation, walk, join); found %d and %d", nExt, nDir)
	}
	// the walk callback registers a file only if its path ends in the extension and it is not a directory
	ftf := m.PkgFuncOr("textwire", "findTextwireFiles", func(f *ssa.Function) bool {
		return callsNamed(f, "Walk", "path/filepath") || callsNamed(f, "WalkDir", "path/filepath")
	})
	if ftf == nil {
		s.Undecided(rule, "findTextwireFiles", "-", "not found")
	} else {
		found := false
		// the callbacks: function literals of the walker, and whatever function or method value is handed to Walk / WalkDir
		callbacks := append([]*ssa.Function{}, ftf.AnonFuncs...)
		for _, b := range ftf.Blocks {
			for _, in := range b.Instrs {
				c, ok := in.(*ssa.Call)
				if !ok || c.Call.StaticCallee() == nil || len(c.Call.Args) < 2 {
					continue
				}
				if n := fnFullName(c.Call.StaticCallee()); n != "path/filepath.Walk" && n != "path/filepath.WalkDir" {
					continue
				}
				cands := m.funcValues(c.Call.Args[1], 0) // also what a constructor of the callback returns
				if f := boundMethod(m, c.Call.Args[1]); f != nil {
					cands = append(cands, f)
				}
				for _, f := range cands {
					if f == nil || f.Blocks == nil || f.Synthetic != "" {
						continue
					}
					dup := false
					for _, x := range callbacks {
						if x == f {
							dup = true
						}
					}
					if !dup {
						callbacks = append(callbacks, f)
					}
				}
			}
		}
		for _, cl := range callbacks {
			for _, b := range cl.Blocks {
				for _, in := range b.Instrs {
					mu, ok := in.(*ssa.MapUpdate)
					if !ok {
						continue
					}
					found = true
					suffixOK, notDir := false, false
					for _, f := range expandFacts(factsAt(b)) {
						c, ok := f.Cond.(*ssa.Call)
						if !ok {
							continue
						}
						if sc := c.Call.StaticCallee(); sc != nil && fnFullName(sc) == "strings.HasSuffix" && f.Holds && m.derivesFrom(c.Call.Args[1], ".TemplateExt", 0) {
							suffixOK = true
						}
						if c.Call.IsInvoke() && c.Call.Method.Name() == "IsDir" && !f.Holds {
							notDir = true
						}
					}
					key := fnKey(cl) + "|registers exactly the files ending in the extension"
					if suffixOK && notDir {
						s.OK(rule, key, m.InstrPos(mu), "the registration is dominated by HasSuffix(path, ext) and !info.IsDir()")
					} else {
						s.Violation(rule, key, m.InstrPos(mu), "a file is registered as a template without a dominating strings.HasSuffix(path, TemplateExt) test (and a not-a-directory test)")
					}
					// the key is derived (in the callback or a helper it calls) with filepath.Rel by the directory and a suffix removal of the extension
					hasRel, hasTrim := false, false
					m.walkInlined(cl, 2, func(nin ssa.Instruction, _ func(ssa.Value) ssa.Value, _ int) {
						if c, ok := nin.(*ssa.Call); ok && c.Call.StaticCallee() != nil {
							switch fnFullName(c.Call.StaticCallee()) {
							case "path/filepath.Rel":
								hasRel = hasRel || m.derivesFrom(c.Call.Args[0], ".TemplateDir", 0)
							case "strings.TrimSuffix", "strings.CutSuffix":
								hasTrim = hasTrim || m.derivesFrom(c.Call.Args[1], ".TemplateExt", 0)
							}
						}
					})
					nameOf := cl
					if kc, ok := mu.Key.(*ssa.Call); ok && kc.Call.StaticCallee() != nil && m.InModule(kc.Call.StaticCallee()) {
						nameOf = kc.Call.StaticCallee()
					}
					k2 := fnKey(nameOf) + "|name is the path relative to the directory minus the extension"
					if hasRel && hasTrim {
						s.OK(rule, k2, m.Pos(nameOf.Pos()), "filepath.Rel(TemplateDir, path) and a suffix removal of TemplateExt")
					} else {
						s.Violation(rule, k2, m.Pos(nameOf.Pos()), "%s does not derive the template name with filepath.Rel(TemplateDir, path) and strings.TrimSuffix/CutSuffix(name, TemplateExt)", fnKey(nameOf))
					}
				}
			}
		}
		if !found {
			s.Undecided(rule, fnKey(ftf)+"|registration", m.Pos(ftf.Pos()), "no map registration inside the directory walk callback")
		}
	}
	// the file of a template name: <dir>/<name><ext>, the extension appended unconditionally
	if tfp := m.PkgFuncOr("textwire", "templateFullPath", func(f *ssa.Function) bool {
		return callsNamed(f, "Abs", "path/filepath") && !readsGlobal(f, "usesTemplates") && len(f.Params) == 1
	}); tfp != nil {
		ok := false
		for _, b := range tfp.Blocks {
			for _, in := range b.Instrs {
				c, isC := in.(*ssa.Call)
				if !isC || c.Call.StaticCallee() == nil || fnFullName(c.Call.StaticCallee()) != "path/filepath.Abs" {
					continue
				}
				// the argument as a concatenation (helpers that just concatenate are looked through): it starts with the
				// directory, contains the name, ends with the extension, and no part is conditional
				parts := m.concatParts(c.Call.Args[0], nil, 0)
				if len(parts) >= 3 {
					first, last := parts[0], parts[len(parts)-1]
					hasName, cond := false, false
					for _, p := range parts {
						if strings.Contains(p, "param:"+tfp.Params[0].Name()) {
							hasName = true
						}
						if strings.Contains(p, "?") {
							cond = true
						}
					}
					if strings.Contains(first, ".TemplateDir") && last == ".TemplateExt" && hasName && !cond {
						ok = true
					}
				}
			}
		}
		if ok {
			s.OK(rule, fnKey(tfp)+"|file of a name is dir/name+ext", m.Pos(tfp.Pos()), "filepath.Abs(join(TemplateDir, name) + TemplateExt) on every path")
		} else {
			s.Violation(rule, fnKey(tfp)+"|file of a name is dir/name+ext", m.Pos(tfp.Pos()), "the file of a template, layout or component name is not always <TemplateDir>/<name><TemplateExt> (e.g. the extension is appended conditionally): names containing a dot resolve to a file that does not exist")
		}
	}
	// NewTemplate: error <=> nil template
	nt := m.PkgFunc("textwire", "NewTemplate")
	if nt != nil {
		for _, b := range nt.Blocks {
			ret, ok := b.Instrs[len(b.Instrs)-1].(*ssa.Return)
			if !ok || len(ret.Results) != 2 {
				continue
			}
			tNil := isNilConst(ret.Results[0])
			eNil := isNilConst(ret.Results[1])
			key := fmt.Sprintf("%s|return (%s, %s)", fnKey(nt), valueDesc(ret.Results[0]), valueDesc(ret.Results[1]))
			switch {
			case eNil && !tNil:
				s.OK(rule, key, m.InstrPos(ret), "success: a Template and a nil error")
			case !eNil && tNil:
				s.OK(rule, key, m.InstrPos(ret), "failure: nil Template with the error")
			default:
				s.Violation(rule, key, m.InstrPos(ret), "NewTemplate returns a Template together with an error (or neither): loading must be all-or-nothing")
			}
		}
	}
	// layouts are not directly renderable
	pp := m.PkgFuncOr("textwire", "parsePrograms", func(f *ssa.Function) bool { return callsNamed(f, "HasReserveStmt", "ast.Program") })
	if pp != nil {
		// every store of a parsed program into a table of the root package sits where the program declares no reserves —
		// in its own function, or at every call site of the helper that makes the store
		progT := m.namedType("ast", "Program")
		noReserves := func(b *ssa.BasicBlock) bool {
			for _, f := range expandFacts(factsAt(b)) {
				if c, isC := f.Cond.(*ssa.Call); isC && !f.Holds && c.Call.StaticCallee() != nil && canonFnName(c.Call.StaticCallee()) == "HasReserveStmt" {
					return true
				}
			}
			return false
		}
		n, bad, pos := 0, "", ""
		for _, fn := range m.ModFns {
			if fn.Blocks == nil || shortPkg(fnPkgPath(fn)) != "textwire" {
				continue
			}
			for _, b := range fn.Blocks {
				for _, in := range b.Instrs {
					mu, isMu := in.(*ssa.MapUpdate)
					if !isMu || progT == nil {
						continue
					}
					if pn := ptrNamed(mu.Value.Type()); pn == nil || pn != progT {
						continue
					}
					n++
					pos = m.InstrPos(mu)
					if ok, at := m.guardedLifting(mu, noReserves, 0); !ok && bad == "" {
						bad = at
					}
				}
			}
		}
		if n > 0 && bad == "" {
			s.OK(rule, fnKey(pp)+"|layouts are not registered", pos, "a program is registered only when it declares no reserves")
		} else {
			s.Violation(rule, fnKey(pp)+"|layouts are not registered", m.Pos(pp.Pos()), "files that declare reserves (layouts) are registered as renderable templates (%s)", bad)
		}
	}
	m.RunTemplateLookup(s, rule)
	// the configured directory is the caller's spelling, normalised only by removing slashes at its end (or by a path
	// cleaner): whatever is stored into a configuration's TemplateDir is the given directory passed through such calls only
	var dirValue func(v ssa.Value, d int) string // "" = fine, else what is wrong
	dirValue = func(v ssa.Value, d int) string {
		if d > 8 {
			return "is computed in too many steps to follow"
		}
		switch x := v.(type) {
		case *ssa.Const:
			return "" // a default
		case *ssa.Parameter:
			rs := m.resolveUp(x, nil, 0)
			if len(rs) == 1 && rs[0] == v {
				return "" // the value handed in (a normaliser's own argument, or the option itself)
			}
			for _, r := range rs {
				if w := dirValue(r, d+1); w != "" {
					return w
				}
			}
			return ""
		case *ssa.Phi:
			for _, e := range x.Edges {
				if w := dirValue(e, d+1); w != "" {
					return w
				}
			}
			return ""
		case *ssa.UnOp:
			if strings.HasSuffix(fieldPathOf(v), ".TemplateDir") {
				return "" // the caller's option (or the value already configured)
			}
			if al, ok := x.X.(*ssa.Alloc); ok {
				for _, r := range *al.Referrers() {
					if st, isSt := r.(*ssa.Store); isSt && st.Addr == ssa.Value(al) {
						if w := dirValue(st.Val, d+1); w != "" {
							return w
						}
					}
				}
				return ""
			}
		case *ssa.Call:
			sc := x.Call.StaticCallee()
			if sc == nil || len(x.Call.Args) == 0 {
				// a normaliser handed in as a function value: every function it can be
				if p, isP := x.Call.Value.(*ssa.Parameter); isP && len(x.Call.Args) == 1 {
					for _, fv := range m.resolveUp(p, nil, 0) {
						f, _ := fv.(*ssa.Function)
						if f == nil || f.Blocks == nil {
							return "is passed through a function value that cannot be resolved"
						}
						for _, r := range m.returnedAt(f, 0) {
							if w := dirValue(r, d+1); w != "" {
								return w
							}
						}
					}
					return dirValue(x.Call.Args[0], d+1)
				}
				return "is computed by " + valueDesc(v)
			}
			name := fnFullName(sc)
			switch name {
			case "strings.Trim", "strings.TrimRight", "strings.TrimLeft", "strings.TrimSuffix", "strings.TrimPrefix":
				k, isK := x.Call.Args[1].(*ssa.Const)
				cut := ""
				if isK && k.Value != nil && k.Value.Kind() == constant.String {
					cut = constant.StringVal(k.Value)
				}
				if !isK || cut == "" || strings.Trim(cut, "/") != "" {
					return fmt.Sprintf("is passed through %s with %s: only slashes may be removed (a cutset is a set of characters: \"./\" also eats the dots of \"../x\" and \".hidden\")", name, valueDesc(x.Call.Args[1]))
				}
				if name == "strings.Trim" || name == "strings.TrimLeft" || name == "strings.TrimPrefix" {
					return fmt.Sprintf("is passed through %s with %s, which removes the slash an absolute directory starts with: \"/srv/app/templates\" becomes \"srv/app/templates\", a directory relative to the working directory, and loading fails (or loads another tree)", name, valueDesc(x.Call.Args[1]))
				}
				return dirValue(x.Call.Args[0], d+1)
			case "path/filepath.Clean", "path.Clean", "path/filepath.ToSlash", "path/filepath.FromSlash":
				return dirValue(x.Call.Args[0], d+1)
			}
			if m.InModule(sc) && sc.Blocks != nil && len(x.Call.Args) >= 1 {
				// a module helper: what it returns, in terms of its arguments
				for _, r := range m.returnedAt(sc, 0) {
					if w := dirValue(r, d+1); w != "" {
						return w
					}
				}
				for _, a := range x.Call.Args {
					if _, isStr := a.Type().Underlying().(*types.Basic); isStr {
						if w := dirValue(a, d+1); w != "" {
							return w
						}
					}
				}
				return ""
			}
			return "is passed through " + name
		}
		return "is computed by " + valueDesc(v)
	}
	nDirStores := 0
	report := func(fn *ssa.Function, at ssa.Instruction, bad string) {
		nDirStores++
		key := fmt.Sprintf("%s|the template directory is kept as given, less the slashes at its end", fnKey(fn))
		if bad == "" {
			s.OK(rule, key, m.InstrPos(at), "the stored value is the option itself passed only through slash trimming / path cleaning")
		} else {
			s.Violation(rule, key, m.InstrPos(at), "%s stores a template directory that %s: two spellings of different directories can become the same one, or the directory the caller named is not the one that is loaded", fnKey(fn), bad)
		}
	}
	for _, fn := range m.ModFns {
		if fn.Blocks == nil || isUserPkg(fnPkgPath(fn)) {
			continue
		}
		for _, b := range fn.Blocks {
			for _, in := range b.Instrs {
				switch x := in.(type) {
				case *ssa.Store:
					fa, isFA := x.Addr.(*ssa.FieldAddr)
					if !isFA || fieldName(fa.X.Type(), fa.Field) != "TemplateDir" || !strings.HasSuffix(derefTypeString(fa.X.Type()), "config.Config") {
						continue
					}
					report(fn, x, dirValue(x.Val, 0))
				case *ssa.Call:
					// the address of the setting handed to a helper that fills it from its other arguments
					sc := x.Call.StaticCallee()
					if sc == nil || !m.InModule(sc) {
						continue
					}
					for _, a := range x.Call.Args {
						fa, isFA := a.(*ssa.FieldAddr)
						if !isFA || fieldName(fa.X.Type(), fa.Field) != "TemplateDir" || !strings.HasSuffix(derefTypeString(fa.X.Type()), "config.Config") {
							continue
						}
						bad := ""
						for _, o := range x.Call.Args {
							if o == a || bad != "" {
								continue
							}
							switch ov := o.(type) {
							case *ssa.Function:
								for _, r := range m.returnedAt(ov, 0) {
									if w := dirValue(r, 0); w != "" {
										bad = w
									}
								}
							case *ssa.MakeClosure:
								if f, ok := ov.Fn.(*ssa.Function); ok {
									for _, r := range m.returnedAt(f, 0) {
										if w := dirValue(r, 0); w != "" {
											bad = w
										}
									}
								}
							default:
								if bt, isB := o.Type().Underlying().(*types.Basic); isB && bt.Info()&types.IsString != 0 {
									bad = dirValue(o, 0)
								}
							}
						}
						report(fn, x, bad)
					}
				}
			}
		}
	}
	if nDirStores == 0 {
		s.Undecided(rule, "textwire|stores of the template directory", "-", "no store into a configuration's TemplateDir found")
	}
	// what the walk found is what is loaded: between the walk and the table of programs no entry is taken out again (a
	// filter on names applied afterwards — hidden files, backups — drops templates whose name merely looks special, and
	// a broken file under such a name no longer fails the load)
	{
		nDel := 0
		for _, fn := range fns {
			if shortPkg(fnPkgPath(fn)) != "textwire" {
				continue
			}
			for _, b := range fn.Blocks {
				for _, in := range b.Instrs {
					c, ok := in.(*ssa.Call)
					if !ok {
						continue
					}
					if bi, isB := c.Call.Value.(*ssa.Builtin); isB && bi.Name() == "delete" && len(c.Call.Args) == 2 {
						if mp, isM := c.Call.Args[0].Type().Underlying().(*types.Map); isM {
							if bt, isS := mp.Key().Underlying().(*types.Basic); isS && bt.Info()&types.IsString != 0 {
								nDel++
								s.Violation(rule, fmt.Sprintf("%s|no found file is dropped again", fnKey(fn)), m.InstrPos(c), "%s deletes an entry of a table keyed by name (%s) on the load path: a template file that was found is not loaded (and not checked) after all", fnKey(fn), valueDesc(c.Call.Args[0]))
							}
						}
					}
				}
			}
		}
		if nDel == 0 {
			s.OK(rule, "textwire|no found file is dropped again", "-", "no delete on a table keyed by name in the load and render functions of the root package")
		}
	}
	m.RunEvalFile(s, rule)
}

// RunEvalFile — R-PATHAPI (file content): EvaluateFile == EvaluateString(content of the file at the given path).
func (m *Model) RunEvalFile(s *Sink, rule string) {
	ef := m.PkgFunc("textwire", "EvaluateFile")
	es := m.PkgFunc("textwire", "EvaluateString")
	fc := m.PkgFuncOr("textwire", "fileContent", func(f *ssa.Function) bool { return callsNamed(f, "ReadFile", "os.") || callsNamed(f, "Open", "os.") })
	if ef != nil && es != nil && fc != nil {
		ok := false
		for _, b := range ef.Blocks {
			for _, in := range b.Instrs {
				c, isC := in.(*ssa.Call)
				if !isC || c.Call.StaticCallee() != es {
					continue
				}
				if ex, isEx := c.Call.Args[0].(*ssa.Extract); isEx && ex.Index == 0 {
					// ... of the file at exactly the path the caller gave (not a path re-resolved against the template
					// directory or anything else that depends on earlier calls)
					if src, isCall := ex.Tuple.(*ssa.Call); isCall && src.Call.StaticCallee() == fc && c.Call.Args[1] == ssa.Value(ef.Params[1]) && len(src.Call.Args) > 0 && src.Call.Args[0] == ssa.Value(ef.Params[0]) {
						ok = true
					}
				}
			}
		}
		// fileContent returns the bytes unmodified
		okFC := false
		for _, b := range fc.Blocks {
			if ret, isRet := b.Instrs[len(b.Instrs)-1].(*ssa.Return); isRet && len(ret.Results) == 2 {
				if cv, isCv := retSource(ret, 0).(*ssa.Convert); isCv {
					if ex, isEx := cv.X.(*ssa.Extract); isEx {
						if src, isCall := ex.Tuple.(*ssa.Call); isCall && src.Call.StaticCallee() != nil {
							switch fnFullName(src.Call.StaticCallee()) {
							case "os.ReadFile", "io/ioutil.ReadFile":
								okFC = src.Call.Args[0] == ssa.Value(fc.Params[0])
							case "io.ReadAll", "io/ioutil.ReadAll":
								// the whole content of the file opened from the path
								if fx, isFx := stripIface(src.Call.Args[0]).(*ssa.Extract); isFx && fx.Index == 0 {
									if op, isOp := fx.Tuple.(*ssa.Call); isOp && op.Call.StaticCallee() != nil && fnFullName(op.Call.StaticCallee()) == "os.Open" && op.Call.Args[0] == ssa.Value(fc.Params[0]) {
										okFC = true
									}
								}
							}
						}
					}
				}
			}
		}
		if ok && okFC {
			s.OK(rule, fnKey(ef)+"|evaluates the file's content as a string", m.Pos(ef.Pos()), "string(os.ReadFile(path)) flows unchanged into EvaluateString together with the caller's data")
		} else {
			s.Violation(rule, fnKey(ef)+"|evaluates the file's content as a string", m.Pos(ef.Pos()), "EvaluateFile does not pass the unmodified content of the file at the given path, and the caller's data, to EvaluateString (the path is transformed first, or the content is)")
		}
	}
}

func isNilConst(v ssa.Value) bool {
	c, ok := v.(*ssa.Const)
	return ok && c.IsNil()
}

// concatParts flattens a string expression into the parts it concatenates: constants, field paths (".TemplateDir"),
// parameters ("param:name"), library calls on such parts ("strings.TrimRight(.TemplateDir,/)"); module helpers that
// return one expression are looked through with their parameters bound; anything conditional or unknown is "?".
func (m *Model) concatParts(v ssa.Value, bind map[*ssa.Parameter][]string, d int) []string {
	if d > 6 {
		return []string{"?"}
	}
	switch x := v.(type) {
	case *ssa.Const:
		if s, ok := constOfValue(x); ok {
			return []string{s}
		}
	case *ssa.BinOp:
		if x.Op == token.ADD && isStringT(x.Type()) {
			return append(m.concatParts(x.X, bind, d+1), m.concatParts(x.Y, bind, d+1)...)
		}
	case *ssa.Parameter:
		if b, ok := bind[x]; ok {
			return b
		}
		return []string{"param:" + x.Name()}
	case *ssa.UnOp:
		if p := fieldPathOf(x); p != "" {
			if i := strings.LastIndex(p, "."); i >= 0 {
				return []string{p[i:]}
			}
		}
	case *ssa.Call:
		sc := x.Call.StaticCallee()
		if sc == nil {
			break
		}
		if m.InModule(sc) && sc.Blocks != nil && len(sc.Blocks) == 1 && len(sc.Params) == len(x.Call.Args) {
			if ret, ok := sc.Blocks[0].Instrs[len(sc.Blocks[0].Instrs)-1].(*ssa.Return); ok && len(ret.Results) == 1 {
				nb := map[*ssa.Parameter][]string{}
				for i, a := range x.Call.Args {
					nb[sc.Params[i]] = m.concatParts(a, bind, d+1)
				}
				return m.concatParts(ret.Results[0], nb, d+1)
			}
		}
		if !m.InModule(sc) {
			var as []string
			for _, a := range x.Call.Args {
				as = append(as, strings.Join(m.concatParts(a, bind, d+1), "+"))
			}
			return []string{fnFullName(sc) + "(" + strings.Join(as, ",") + ")"}
		}
	}
	return []string{"?"}
}

// retSource: result i of a return; when the function has deferred calls the results are spilled to locals
// (`*r = v; rundefers; return *r`) — then the value last stored to that local in the returning block.
func retSource(ret *ssa.Return, i int) ssa.Value {
	v := ret.Results[i]
	ld, ok := v.(*ssa.UnOp)
	if !ok || ld.Op != token.MUL {
		return v
	}
	al, ok := ld.X.(*ssa.Alloc)
	if !ok {
		return v
	}
	var last ssa.Value
	for _, in := range ret.Block().Instrs {
		if st, isSt := in.(*ssa.Store); isSt && st.Addr == ssa.Value(al) {
			last = st.Val
		}
		if in == ssa.Instruction(ld) {
			break
		}
	}
	if last != nil {
		return last
	}
	return v
}

// RunTemplateLookup — R-PATHAPI (lookup): a template is looked up by the name as given; an unknown name is reported as
// not found, with the path of the file the name stands for.
func (m *Model) RunTemplateLookup(s *Sink, rule string) {
	// unknown name -> template not found
	st := m.Method("textwire", "Template", "String")
	if st != nil {
		ok, keyOK, nLk := false, true, 0
		nNF, nfPathOK := 0, 0
		// the program lookup (in String or a helper it delegates to): keyed by the name exactly as given, and its miss edge
		// builds the template-not-found error
		m.walkInlined(st, 2, func(in ssa.Instruction, resolve func(ssa.Value) ssa.Value, _ int) {
			lk, isLk := in.(*ssa.Lookup)
			if !isLk || !lk.CommaOk || !strings.HasSuffix(fieldPathOf(lk.X), ".programs") {
				return
			}
			nLk++
			if len(st.Params) < 2 || resolve(lk.Index) != ssa.Value(st.Params[1]) {
				keyOK = false
			}
			for _, rr := range *lk.Referrers() {
				ex, isEx := rr.(*ssa.Extract)
				if !isEx || ex.Index != 1 {
					continue
				}
				for _, fb := range failureTargets(ex) {
					// blocks reached on the miss edge before anything else decides: the target and the blocks it dominates
					for _, db := range fb.Parent().Blocks {
						if !fb.Dominates(db) {
							continue
						}
						for _, fin := range db.Instrs {
							if c, isC := fin.(*ssa.Call); isC && c.Call.StaticCallee() != nil && canonFnName(c.Call.StaticCallee()) == "New" && len(c.Call.Args) >= 4 {
								if msg, okm := constOfValue(c.Call.Args[3]); okm && msg == "template not found" {
									ok = true
									// ... and names the file the name stands for: the path argument is what templateFullPath returned
									nNF++
									pv := resolve(c.Call.Args[1])
									if ex, isEx := pv.(*ssa.Extract); isEx && ex.Index == 0 {
										if pc, isPC := ex.Tuple.(*ssa.Call); isPC && pc.Call.StaticCallee() != nil && callsNamed(pc.Call.StaticCallee(), "Abs", "path/filepath") {
											nfPathOK++
										}
									}
								}
							}
						}
					}
				}
			}
		})
		if nLk > 0 && !keyOK {
			s.Violation(rule, fnKey(st)+"|templates are looked up by the name as given", m.Pos(st.Pos()), "Template.String does not look the program up under the name it was given (the name is rewritten first): another template can be rendered in place of the requested one, and unknown names are not reported")
		} else if nLk > 0 {
			s.OK(rule, fnKey(st)+"|templates are looked up by the name as given", m.Pos(st.Pos()), "the key of the program lookup is the filename parameter itself")
		}
		if nNF > 0 && nfPathOK == nNF {
			s.OK(rule, fnKey(st)+"|the not-found error names the file the name stands for", m.Pos(st.Pos()), "the path of the template-not-found error is the absolute path computed from the name")
		} else if nNF > 0 {
			s.Violation(rule, fnKey(st)+"|the not-found error names the file the name stands for", m.Pos(st.Pos()), "the template-not-found error is built with something other than the absolute path computed from the name (the bare name, an empty path): the debug page and the error text show no file path for a template that does not exist")
		}
		if ok {
			s.OK(rule, fnKey(st)+"|unknown name is reported as not found", m.Pos(st.Pos()), "the miss edge of the program lookup returns ErrTemplateNotFound")
		} else {
			s.Violation(rule, fnKey(st)+"|unknown name is reported as not found", m.Pos(st.Pos()), "an unknown template name does not take the miss edge to the template-not-found error")
		}
	}
}
