package main

// rule_assert.go — R-ASSERT: no unchecked type assertion without a justification.

import (
	"fmt"
	"go/constant"
	"go/token"
	"go/types"
	"sort"
	"strings"

	"golang.org/x/tools/go/ssa"
)

// kindKnowledge is what the dominating facts say about object kinds.
type kindKnowledge struct {
	kind     map[string]string    // canonKey(value) -> kind
	notKind  map[string][]string  // canonKey(value) -> kinds excluded
	eq       [][2]string          // kinds of the two values are equal
	valConst map[ssa.Value]string // value == string constant
	valNot   map[ssa.Value][]string
}

// typeCallRecv: if v is `x.Type()` (invoke or static method call named Type), return x.
func typeCallRecv(v ssa.Value) ssa.Value {
	c, ok := v.(*ssa.Call)
	if !ok {
		return nil
	}
	if c.Call.IsInvoke() {
		if c.Call.Method.Name() == "Type" && len(c.Call.Args) == 0 {
			return c.Call.Value
		}
		return nil
	}
	if sc := c.Call.StaticCallee(); sc != nil && canonFnName(sc) == "Type" && sc.Signature.Recv() != nil && len(c.Call.Args) == 1 {
		return c.Call.Args[0]
	}
	return nil
}

// kindPredicate: fn(x Object) bool { return x.Is(K) } -> (param index, K).
func (m *Model) kindPredicate(fn *ssa.Function) (int, string, bool) {
	if fn == nil || len(fn.Blocks) != 1 || !m.InModule(fn) {
		return 0, "", false
	}
	var ret *ssa.Return
	for _, in := range fn.Blocks[0].Instrs {
		if r, ok := in.(*ssa.Return); ok {
			ret = r
		}
	}
	if ret == nil || len(ret.Results) != 1 {
		return 0, "", false
	}
	c, ok := ret.Results[0].(*ssa.Call)
	if !ok || !c.Call.IsInvoke() || c.Call.Method.Name() != "Is" || len(c.Call.Args) != 1 {
		return 0, "", false
	}
	k, ok := constOfValue(c.Call.Args[0])
	if !ok {
		return 0, "", false
	}
	for i, p := range fn.Params {
		if c.Call.Value == p {
			return i, k, true
		}
	}
	return 0, "", false
}

func (m *Model) kindFacts(a *Arith, facts []Fact) *kindKnowledge {
	kk := &kindKnowledge{kind: map[string]string{}, notKind: map[string][]string{}, valConst: map[ssa.Value]string{}, valNot: map[ssa.Value][]string{}}
	for _, f := range facts {
		switch c := f.Cond.(type) {
		case *ssa.Call:
			if c.Call.IsInvoke() && c.Call.Method.Name() == "Is" && len(c.Call.Args) == 1 {
				if k, ok := constOfValue(c.Call.Args[0]); ok {
					if f.Holds {
						kk.kind[a.canonKey(c.Call.Value)] = k
					} else {
						kk.notKind[a.canonKey(c.Call.Value)] = append(kk.notKind[a.canonKey(c.Call.Value)], k)
					}
				}
				continue
			}
			if sc := c.Call.StaticCallee(); sc != nil {
				if i, k, ok := m.kindPredicate(sc); ok && i < len(c.Call.Args) {
					key := a.canonKey(c.Call.Args[i])
					if f.Holds {
						kk.kind[key] = k
					} else {
						kk.notKind[key] = append(kk.notKind[key], k)
					}
				}
			}
		case *ssa.Extract:
			// `_, ok := x.(*object.T)`: ok tells the kind of x just as x.Is(T_OBJ) does
			if ta, isTA := c.Tuple.(*ssa.TypeAssert); isTA && ta.CommaOk && c.Index == 1 {
				if k, known := m.Facts().KindOfType[typeStr(ta.AssertedType)]; known {
					key := a.canonKey(ta.X)
					if f.Holds {
						kk.kind[key] = k
					} else {
						kk.notKind[key] = append(kk.notKind[key], k)
					}
				}
			}
		case *ssa.BinOp:
			if c.Op != token.EQL && c.Op != token.NEQ {
				continue
			}
			equal := (c.Op == token.EQL) == f.Holds
			x, y := c.X, c.Y
			rx, ry := typeCallRecv(x), typeCallRecv(y)
			kx, okx := constOfValue(x)
			ky, oky := constOfValue(y)
			switch {
			case rx != nil && oky:
				if equal {
					kk.kind[a.canonKey(rx)] = ky
				} else {
					kk.notKind[a.canonKey(rx)] = append(kk.notKind[a.canonKey(rx)], ky)
				}
			case ry != nil && okx:
				if equal {
					kk.kind[a.canonKey(ry)] = kx
				} else {
					kk.notKind[a.canonKey(ry)] = append(kk.notKind[a.canonKey(ry)], kx)
				}
			case rx != nil && ry != nil:
				if equal {
					kk.eq = append(kk.eq, [2]string{a.canonKey(rx), a.canonKey(ry)})
				}
			case oky:
				if equal {
					kk.valConst[x] = ky
				} else {
					kk.valNot[x] = append(kk.valNot[x], ky)
				}
			case okx:
				if equal {
					kk.valConst[y] = kx
				} else {
					kk.valNot[y] = append(kk.valNot[y], kx)
				}
			}
		}
	}
	// a value holding the result of x.Type() compared with a constant: also covers `t := x.Type(); switch t`
	for v, k := range kk.valConst {
		if r := typeCallRecv(v); r != nil {
			kk.kind[a.canonKey(r)] = k
		}
	}
	// propagate equalities
	for changed := true; changed; {
		changed = false
		for _, p := range kk.eq {
			if k, ok := kk.kind[p[0]]; ok && kk.kind[p[1]] == "" {
				kk.kind[p[1]] = k
				changed = true
			}
			if k, ok := kk.kind[p[1]]; ok && kk.kind[p[0]] == "" {
				kk.kind[p[0]] = k
				changed = true
			}
		}
	}
	return kk
}

// staticDyn: the concrete type carried by an interface value when it is statically evident.
func staticDyn(v ssa.Value) types.Type {
	switch x := v.(type) {
	case *ssa.MakeInterface:
		return x.X.Type()
	case *ssa.ChangeInterface:
		return staticDyn(x.X)
	}
	return nil
}

type assertChecker struct {
	m     *Model
	f     *RepoFacts
	s     *Sink
	arith map[*ssa.Function]*Arith
	// dispatch: call sites verified as "functions[R.Type()][name].Fn(ctx, R, args...)"
	dispatchSites map[ssa.CallInstruction]ssa.Value // site -> R
	fieldTypes    map[fieldID]map[string]bool       // AST field -> concrete types stored ("⊤" if unknown)
	lastFieldSet  string
}

func (m *Model) newAssertChecker(s *Sink) *assertChecker {
	ac := &assertChecker{m: m, f: m.Facts(), s: s, arith: map[*ssa.Function]*Arith{}, dispatchSites: map[ssa.CallInstruction]ssa.Value{}}
	ac.findDispatchSites()
	return ac
}

func (ac *assertChecker) ar(fn *ssa.Function) *Arith {
	if a, ok := ac.arith[fn]; ok {
		return a
	}
	a := ac.m.NewArith(fn)
	ac.arith[fn] = a
	return a
}

// findDispatchSites locates dynamic calls through Builtin.Fn whose Builtin came from
// functions[R.Type()][...] and whose receiver argument is R.
func (ac *assertChecker) findDispatchSites() {
	m := ac.m
	for _, fn := range m.ModFns {
		for _, b := range fn.Blocks {
			for _, in := range b.Instrs {
				call, ok := in.(*ssa.Call)
				if !ok || call.Call.IsInvoke() || call.Call.StaticCallee() != nil {
					continue
				}
				// the function comes out of a lookup helper (`fn, known := lookupBuiltin(R.Type(), name)`): every function it
				// returns is the Fn of functions[t][...] for its parameter t, and the call site passes R.Type() for t
				{
					var hc *ssa.Call
					idx := 0
					switch x := call.Call.Value.(type) {
					case *ssa.Call:
						hc = x
					case *ssa.Extract:
						hc, _ = x.Tuple.(*ssa.Call)
						idx = x.Index
					}
					if hc != nil && hc.Call.StaticCallee() != nil && m.InModule(hc.Call.StaticCallee()) && hc.Call.StaticCallee().Blocks != nil && len(call.Call.Args) >= 2 {
						h := hc.Call.StaticCallee()
						pi, okAll, nRet := -1, true, 0
						for _, rv := range m.returnedAt(h, idx) {
							nRet++
							ld, isLd := rv.(*ssa.UnOp)
							if !isLd {
								okAll = false
								break
							}
							fa, isFA := ld.X.(*ssa.FieldAddr)
							if !isFA || !strings.HasSuffix(derefTypeString(fa.X.Type()), "object.Builtin") {
								okAll = false
								break
							}
							inner := lookupOf(fa.X)
							if inner == nil {
								okAll = false
								break
							}
							outer := lookupOf(inner.X)
							if outer == nil {
								okAll = false
								break
							}
							g, isG := derefGlobal(outer.X)
							par, isPar := outer.Index.(*ssa.Parameter)
							if !isG || canonGlobalName(g) != "functions" || !isPar {
								okAll = false
								break
							}
							for i, q := range h.Params {
								if q == par {
									if pi >= 0 && pi != i {
										okAll = false
									}
									pi = i
								}
							}
						}
						if okAll && nRet > 0 && pi >= 0 && pi < len(hc.Call.Args) {
							if r := typeCallRecv(hc.Call.Args[pi]); r != nil && call.Call.Args[1] == r {
								ac.dispatchSites[call] = r
							}
						}
						continue
					}
				}
				// callee value: *(&b.Fn)
				ld, ok := call.Call.Value.(*ssa.UnOp)
				if !ok {
					continue
				}
				fa, ok := ld.X.(*ssa.FieldAddr)
				if !ok || !strings.HasSuffix(derefTypeString(fa.X.Type()), "object.Builtin") {
					continue
				}
				// b = extract(lookup(typeFuncs, name)) ; typeFuncs = extract(lookup(*functions, key))
				inner := lookupOf(fa.X)
				if inner == nil {
					continue
				}
				// the table and the receiver may reach this call through a helper's parameters: resolved at its call site(s)
				one := func(v ssa.Value) ssa.Value {
					rs := m.resolveUp(v, nil, 0)
					for _, r := range rs[1:] {
						if r != rs[0] {
							return v
						}
					}
					return rs[0]
				}
				outer := lookupOf(one(inner.X))
				if outer == nil {
					continue
				}
				g, ok := derefGlobal(outer.X)
				if !ok || canonGlobalName(g) != "functions" {
					continue
				}
				r := typeCallRecv(outer.Index)
				if r == nil || len(call.Call.Args) < 2 {
					continue
				}
				if call.Call.Args[1] == r {
					ac.dispatchSites[call] = r
				} else if one(call.Call.Args[1]) == r {
					ac.dispatchSites[call] = call.Call.Args[1]
				}
			}
		}
	}
}

func lookupOf(v ssa.Value) *ssa.Lookup {
	for i := 0; i < 4; i++ {
		switch x := v.(type) {
		case *ssa.Lookup:
			return x
		case *ssa.Extract:
			v = x.Tuple
		default:
			return nil
		}
	}
	return nil
}

func derefGlobal(v ssa.Value) (*ssa.Global, bool) {
	if u, ok := v.(*ssa.UnOp); ok && u.Op == token.MUL {
		g, ok := u.X.(*ssa.Global)
		return g, ok
	}
	return nil, false
}

// justify: is interface value v known to hold asserted type T at instruction `at`?
// Returns a reason or "".
func (ac *assertChecker) justify(v ssa.Value, T types.Type, at ssa.Instruction, facts []Fact, depth int) string {
	m := ac.m
	fn := at.Parent()
	a := ac.ar(fn)
	if dt := staticDyn(v); dt != nil && types.Identical(dt, T) {
		return "operand is built from a value of the asserted type"
	}
	wantKind, hasKind := ac.f.KindOfType[typeStr(T)]
	kk := m.kindFacts(a, facts)
	if hasKind {
		if k := kk.kind[a.canonKey(v)]; k == wantKind {
			return fmt.Sprintf("dominated by a kind test establishing %s", wantKind)
		} else if k != "" {
			return "" // dominating test establishes a different kind
		}
	}
	// phi: all edges justified
	if phi, ok := v.(*ssa.Phi); ok && depth < 3 {
		all := true
		for i, e := range phi.Edges {
			ef := expandFacts(factsOnEdge(phi.Block().Preds[i], phi.Block()))
			if ac.justify(e, T, phi.Block().Preds[i].Instrs[len(phi.Block().Preds[i].Instrs)-1], ef, depth+1) == "" {
				all = false
			}
		}
		if all {
			return "all incoming values justified"
		}
	}
	// AST field invariant
	if ld, ok := v.(*ssa.UnOp); ok && ld.Op == token.MUL {
		if fa, ok := ld.X.(*ssa.FieldAddr); ok && strings.HasPrefix(derefTypeString(fa.X.Type()), modPath+"/ast.") {
			id := fieldID{derefTypeString(fa.X.Type()), fa.Field}
			set := ac.storedTypes(id)
			var names []string
			for k := range set {
				names = append(names, k)
			}
			sort.Strings(names)
			if len(set) == 1 && set[typeStr(T)] {
				return fmt.Sprintf("AST field invariant: every store to %s.%s stores a %s", shortTypeName(id.typ), fieldName(fa.X.Type(), fa.Field), typeStr(T))
			}
			ac.lastFieldSet = fmt.Sprintf("stores to %s.%s carry %v", shortTypeName(id.typ), fieldName(fa.X.Type(), fa.Field), names)
			return ""
		}
	}
	// parameter: every caller establishes it
	if p, ok := v.(*ssa.Parameter); ok && depth < 3 && hasKind {
		return ac.justifyParam(fn, p, T, wantKind, kk, depth)
	}
	// index-of-type summary: slice[idx] where idx = G(slice, ...) and idx != -1
	if r := ac.indexOfTypeSummary(v, T, facts, a); r != "" {
		return r
	}
	return ""
}

func shortTypeName(s string) string { return strings.TrimPrefix(s, modPath+"/") }

func (ac *assertChecker) justifyParam(fn *ssa.Function, p *ssa.Parameter, T types.Type, wantKind string, kk *kindKnowledge, depth int) string {
	m := ac.m
	pi := -1
	for i, q := range fn.Params {
		if q == p {
			pi = i
		}
	}
	node := m.CG.Nodes[fn]
	if pi < 0 || node == nil {
		return ""
	}
	// guard constants on other parameters at the assert site
	guards := map[int]string{}
	for v, k := range kk.valConst {
		for i, q := range fn.Params {
			if v == ssa.Value(q) {
				guards[i] = k
			}
		}
	}
	n := 0
	var reasons []string
	seenSite := map[ssa.CallInstruction]bool{}
	for _, e := range node.In {
		site := e.Site
		if site == nil || seenSite[site] {
			continue
		}
		seenSite[site] = true
		caller := e.Caller.Func
		if isSynthetic(caller) {
			// bound-method/thunk wrappers forward parameters: not expected for these functions
			return ""
		}
		if !m.InModule(caller) {
			return ""
		}
		args := site.Common().Args
		if site.Common().IsInvoke() {
			return ""
		}
		if pi >= len(args) {
			return ""
		}
		// irrelevant site: a guard parameter receives a different constant
		skip := false
		for gi, gk := range guards {
			if gi < len(args) {
				if c, ok := constOfValue(args[gi]); ok && c != gk {
					skip = true
				}
			}
		}
		if skip {
			continue
		}
		n++
		if r, ok := ac.dispatchSites[site]; ok && pi == 1 && args[1] == r {
			// table invariant: fn must be registered only under wantKind
			ents := ac.f.BuiltinOf[fn]
			okAll := len(ents) > 0
			for _, be := range ents {
				if be.Kind != wantKind {
					okAll = false
				}
			}
			// the dispatch site may also reach fn only if registered: VTA edge is by type, so check table
			if okAll {
				reasons = append(reasons, "dispatch table invariant (registered only under "+wantKind+")")
				continue
			}
			if len(ents) == 0 {
				// not in the table: this VTA edge is a type-based over-approximation; the table never yields fn
				n--
				continue
			}
			return ""
		}
		sf := expandFacts(factsAt(site.Block()))
		r := ac.justify(args[pi], T, site, sf, depth+1)
		if r == "" {
			return ""
		}
		reasons = append(reasons, fnKey(caller)+": "+r)
	}
	if n == 0 {
		return ""
	}
	return fmt.Sprintf("caller-established at all %d call sites [%s]", n, strings.Join(dedup(reasons), "; "))
}

func dedup(xs []string) []string {
	seen := map[string]bool{}
	var out []string
	for _, x := range xs {
		if !seen[x] {
			seen[x] = true
			out = append(out, x)
		}
	}
	return out
}

// storedTypes: the set of concrete types ever stored into an interface-typed AST field.
func (ac *assertChecker) storedTypes(id fieldID) map[string]bool {
	if ac.fieldTypes == nil {
		ac.fieldTypes = map[fieldID]map[string]bool{}
	}
	if s, ok := ac.fieldTypes[id]; ok {
		return s
	}
	set := map[string]bool{}
	ac.fieldTypes[id] = set
	for _, fn := range ac.m.ModFns {
		if isUserPkg(fnPkgPath(fn)) {
			continue
		}
		for _, b := range fn.Blocks {
			for _, in := range b.Instrs {
				st, ok := in.(*ssa.Store)
				if !ok {
					continue
				}
				fa, ok := st.Addr.(*ssa.FieldAddr)
				if !ok || derefTypeString(fa.X.Type()) != id.typ || fa.Field != id.field {
					continue
				}
				ac.concreteTypes(st.Val, set, map[ssa.Value]bool{}, 0)
			}
		}
	}
	return set
}

func (ac *assertChecker) concreteTypes(v ssa.Value, set map[string]bool, seen map[ssa.Value]bool, d int) {
	if seen[v] {
		return
	}
	seen[v] = true
	if d > 8 {
		set["⊤"] = true
		return
	}
	switch x := v.(type) {
	case *ssa.MakeInterface:
		set[typeStr(x.X.Type())] = true
	case *ssa.ChangeInterface:
		ac.concreteTypes(x.X, set, seen, d+1)
	case *ssa.Const:
		// nil: no dynamic type (nil-ness is R-NILFIELD's business)
	case *ssa.Phi:
		for _, e := range x.Edges {
			ac.concreteTypes(e, set, seen, d+1)
		}
	case *ssa.Call:
		sc := x.Call.StaticCallee()
		if sc == nil || !ac.m.InModule(sc) || sc.Blocks == nil {
			set["⊤"] = true
			return
		}
		for _, b := range sc.Blocks {
			for _, in := range b.Instrs {
				if r, ok := in.(*ssa.Return); ok && len(r.Results) >= 1 {
					ac.concreteTypes(r.Results[0], set, seen, d+1)
				}
			}
		}
	case *ssa.Extract:
		if ta, ok := x.Tuple.(*ssa.TypeAssert); ok && x.Index == 0 && !types.IsInterface(ta.AssertedType) {
			set[typeStr(ta.AssertedType)] = true
			return
		}
		set["⊤"] = true
	case *ssa.TypeAssert:
		if !types.IsInterface(x.AssertedType) {
			set[typeStr(x.AssertedType)] = true
			return
		}
		ac.concreteTypes(x.X, set, seen, d+1)
	default:
		if !types.IsInterface(v.Type()) {
			set[typeStr(v.Type())] = true
			return
		}
		set["⊤"] = true
	}
}

// indexOfTypeSummary: v = slice[idx] with idx = G(slice', ...) where slice' has the
// same access path, fact idx != -1 holds, and G returns only -1 or an index i
// for which slice[i].(T) succeeded.
func (ac *assertChecker) indexOfTypeSummary(v ssa.Value, T types.Type, facts []Fact, a *Arith) string {
	ld, ok := v.(*ssa.UnOp)
	if !ok || ld.Op != token.MUL {
		return ""
	}
	ia, ok := ld.X.(*ssa.IndexAddr)
	if !ok {
		return ""
	}
	call, ok := ia.Index.(*ssa.Call)
	if !ok {
		return ""
	}
	g := call.Call.StaticCallee()
	if g == nil || !ac.m.InModule(g) || len(call.Call.Args) == 0 || len(g.Params) == 0 {
		return ""
	}
	if a.canonKey(call.Call.Args[0]) != a.canonKey(ia.X) {
		return ""
	}
	// fact idx != -1
	okNe := false
	for _, q := range a.ineqsFrom(facts) {
		_ = q
	}
	for _, f := range facts {
		b, ok := f.Cond.(*ssa.BinOp)
		if !ok || (b.Op != token.EQL && b.Op != token.NEQ) {
			continue
		}
		if b.X == ssa.Value(call) {
			if c, ok := b.Y.(*ssa.Const); ok && c.Value != nil && c.Int64() == -1 && (b.Op == token.NEQ) == f.Holds {
				okNe = true
			}
		}
	}
	if !okNe {
		// any arithmetic form of the same exclusion (idx >= 0, idx > -1, -1 < idx, ...)
		okNe = a.ProveValLE(a.lin(call).scale(-1), 0, pointOf(ld))
	}
	if !okNe {
		return ""
	}
	// summary of G
	slice := g.Params[0]
	for _, b := range g.Blocks {
		for _, in := range b.Instrs {
			r, ok := in.(*ssa.Return)
			if !ok || len(r.Results) != 1 {
				continue
			}
			if c, ok := r.Results[0].(*ssa.Const); ok {
				if c.Value == nil || c.Int64() != -1 {
					return ""
				}
				continue
			}
			// `return slices.IndexFunc(slice, pred)`: -1 or an index at which pred holds; pred holds only for elements of type T
			if lc, isLC := r.Results[0].(*ssa.Call); isLC && lc.Call.StaticCallee() != nil && strings.HasPrefix(fnFullName(lc.Call.StaticCallee()), "slices.IndexFunc") && len(lc.Call.Args) == 2 && lc.Call.Args[0] == ssa.Value(slice) {
				if pf := boundMethod(ac.m, lc.Call.Args[1]); pf != nil && predImpliesType(pf, 0, T, 0) {
					continue
				}
				return ""
			}
			// returned index i: need dominating fact "slice[i].(T) ok"
			good := false
			for _, f := range expandFacts(factsAt(b)) {
				ex, ok := f.Cond.(*ssa.Extract)
				if !ok || !f.Holds || ex.Index != 1 {
					continue
				}
				ta, ok := ex.Tuple.(*ssa.TypeAssert)
				if !ok || !types.Identical(ta.AssertedType, T) {
					continue
				}
				l2, ok := ta.X.(*ssa.UnOp)
				if !ok {
					continue
				}
				ia2, ok := l2.X.(*ssa.IndexAddr)
				if ok && ia2.X == ssa.Value(slice) && ia2.Index == r.Results[0] {
					good = true
				}
			}
			if !good {
				return ""
			}
		}
	}
	return fmt.Sprintf("index-of-type summary: %s returns -1 or an index whose element passed .(%s); -1 excluded by a dominating test", fnKey(g), typeStr(T))
}

// predImpliesType: the predicate p holds (returns something that may be true) only for an argument number pi whose
// comma-ok assertion to T succeeded: every return of a value other than the constant false is made under that fact,
// hands the question on to another such predicate with the same argument, or is a short-circuit `ok && …` whose
// non-false side is entered under the fact.
func predImpliesType(p *ssa.Function, pi int, T types.Type, depth int) bool {
	if p == nil || p.Blocks == nil || depth > 3 || pi >= len(p.Params) {
		return false
	}
	x := ssa.Value(p.Params[pi])
	// a closure's parameters come after nothing: free variables are separate, so Params[pi] is the element
	factHolds := func(b *ssa.BasicBlock) bool {
		for _, f := range expandFacts(factsAt(b)) {
			ex, ok := f.Cond.(*ssa.Extract)
			if !ok || !f.Holds || ex.Index != 1 {
				continue
			}
			ta, ok := ex.Tuple.(*ssa.TypeAssert)
			if ok && ta.CommaOk && types.Identical(ta.AssertedType, T) && stripIface(ta.X) == x {
				return true
			}
		}
		return false
	}
	var okVal func(v ssa.Value, at *ssa.BasicBlock, d int) bool
	okVal = func(v ssa.Value, at *ssa.BasicBlock, d int) bool {
		if d > 3 {
			return false
		}
		if k, isK := v.(*ssa.Const); isK && k.Value != nil && k.Value.String() == "false" {
			return true
		}
		if factHolds(at) {
			return true
		}
		switch y := v.(type) {
		case *ssa.Phi:
			for i, e := range y.Edges {
				if !okVal(e, y.Block().Preds[i], d+1) {
					return false
				}
			}
			return len(y.Edges) > 0
		case *ssa.Call:
			q := y.Call.StaticCallee()
			if q == nil {
				return false
			}
			for ai, a := range y.Call.Args {
				if stripIface(a) == x {
					return predImpliesType(q, ai, T, depth+1)
				}
			}
		}
		return false
	}
	n := 0
	for _, b := range p.Blocks {
		ret, isRet := b.Instrs[len(b.Instrs)-1].(*ssa.Return)
		if !isRet || len(ret.Results) != 1 {
			continue
		}
		n++
		if !okVal(ret.Results[0], b, 0) {
			return false
		}
	}
	return n > 0
}

// RunAssert checks every non-comma-ok TypeAssert in the given functions.
func (ac *assertChecker) Run(rule string, fns []*ssa.Function) {
	m := ac.m
	for _, fn := range fns {
		n := 0
		for _, b := range fn.Blocks {
			for _, in := range b.Instrs {
				ta, ok := in.(*ssa.TypeAssert)
				if !ok || ta.CommaOk {
					continue
				}
				// x.(I) with I the interface type x already has: the nil check a method value `x.M` compiles to — it
				// fails exactly when calling x.M() would, which is the nil-receiver class (R-NILOBJ / R-NILFIELD), not a
				// type confusion
				if _, isIface := ta.AssertedType.Underlying().(*types.Interface); isIface && types.Identical(ta.X.Type(), ta.AssertedType) {
					continue
				}
				n++
				key := fmt.Sprintf("%s|assert %s.(%s)", fnKey(fn), valueDesc(ta.X), typeStr(ta.AssertedType))
				ac.lastFieldSet = ""
				facts := expandFacts(factsAt(b))
				if r := ac.justify(ta.X, ta.AssertedType, ta, facts, 0); r != "" {
					ac.s.OK(rule, key, m.InstrPos(ta), "%s", r)
					continue
				}
				extra := ""
				if ac.lastFieldSet != "" {
					extra = " (" + ac.lastFieldSet + ")"
				}
				ac.s.Violation(rule, key, m.InstrPos(ta),
					"unchecked type assertion %s.(%s) in %s: no dominating kind test on the operand, no dispatch-table or AST-field invariant, and not established by all callers%s; a value of another type panics here",
					valueDesc(ta.X), typeStr(ta.AssertedType), fnKey(fn), extra)
			}
		}
	}
}

// valueDesc: a stable, human-readable description of an SSA value (no register numbers).
func valueDesc(v ssa.Value) string {
	switch x := v.(type) {
	case *ssa.Parameter:
		return x.Name()
	case *ssa.UnOp:
		if x.Op == token.MUL {
			if r, p, ok := pathOf(v); ok {
				return valueDesc(r) + p
			}
		}
	case *ssa.Call:
		if x.Call.IsInvoke() {
			return valueDesc(x.Call.Value) + "." + x.Call.Method.Name() + "()"
		}
		if b, ok := x.Call.Value.(*ssa.Builtin); ok {
			var as []string
			for _, a := range x.Call.Args {
				as = append(as, valueDesc(a))
			}
			return b.Name() + "(" + strings.Join(as, ",") + ")"
		}
		if sc := x.Call.StaticCallee(); sc != nil {
			var as []string
			for _, a := range x.Call.Args {
				as = append(as, valueDesc(a))
			}
			return canonFnName(sc) + "(" + strings.Join(as, ",") + ")"
		}
		return "dyncall"
	case *ssa.Extract:
		return valueDesc(x.Tuple) + fmt.Sprintf("#%d", x.Index)
	case *ssa.Const:
		if n, ok := x.Type().(*types.Named); ok && n.Obj().Name() == "TokenType" && x.Value != nil {
			if name, ok := tokenConstNames[x.Int64()]; ok {
				return name
			}
		}
		if x.Value != nil && x.Value.Kind() == constant.String {
			return x.Value.ExactString()
		}
		if x.Value != nil {
			return x.Value.String()
		}
		return x.String()
	case *ssa.Global:
		return canonGlobalName(x) // the name rules and keys know the variable by (stable under a rename)
	case *ssa.Phi:
		if x.Comment != "" {
			return x.Comment
		}
		return "phi"
	case *ssa.MakeInterface:
		return valueDesc(x.X)
	case *ssa.ChangeInterface:
		return valueDesc(x.X)
	case *ssa.TypeAssert:
		return valueDesc(x.X) + ".(" + typeStr(x.AssertedType) + ")"
	case *ssa.FieldAddr:
		if r, p, ok := pathOf(v); ok {
			return "&" + valueDesc(r) + p
		}
	case *ssa.IndexAddr:
		return valueDesc(x.X) + "[" + valueDesc(x.Index) + "]"
	case *ssa.Lookup:
		return valueDesc(x.X) + "[" + valueDesc(x.Index) + "]"
	case *ssa.Alloc:
		if x.Comment != "" {
			return x.Comment
		}
		return "alloc"
	case *ssa.Convert:
		return valueDesc(x.X)
	case *ssa.ChangeType:
		return valueDesc(x.X)
	case *ssa.BinOp:
		return "(" + valueDesc(x.X) + x.Op.String() + valueDesc(x.Y) + ")"
	case *ssa.Slice:
		return valueDesc(x.X) + "[:]"
	case *ssa.Function:
		return x.Name()
	case *ssa.MakeSlice:
		return "make"
	}
	return strings.TrimLeft(v.Name(), "t0123456789") + "val"
}

// tokenConstNames: TokenType value -> constant name, filled when a model is loaded (used for stable keys).
var tokenConstNames = map[int64]string{}
