package main

func init() {
	register(&PropInfo{
		ID:    "C13",
		Title: "Errors name the line (and file) of the offending construct",
		Rules: []string{
			"R-ERRLINE: every ast.Node's Line() is ErrorLine() of its own Token; every AST node the parser builds takes its Token from the parser's current token; every parser.newError call passes ErrorLine() of a token; parser errors carry p.filepath (set to the parsed file's absolute path), evaluator errors node.Line() and ctx.AbsPath (the template's absolute path); loader errors about a component or insert carry that construct's Line()",
			"R-TOKPOS: ErrorLine = Pos.EndLine + 1; line counters are advanced in one place; every token takes its end from the last consumed byte",
		},
		Decided:     "TODO",
		NotDecided:  "TODO",
		Assumptions: trustedBase,
		Run: func(m *Model, s *Sink) {
			m.RunErrLine(s, "R-ERRLINE")
			m.RunTokPos(s, "R-TOKPOS")
			s.RequireMin("R-ERRLINE", 80, "34 Line() methods, ~40 AST constructions, ~25 parser error sites, path clauses")
		},
	})
}
