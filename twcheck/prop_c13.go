package main

func init() {
	register(&PropInfo{
		ID:    "C13",
		Title: "Errors name the line (and file) of the offending construct",
		Rules: []string{
			"R-SHARED (load history): nothing a load writes is read by a later load, except the configuration",
			"R-ERRLINE (first error kept): every store into the parser's error list is an append to that list",
			"R-EVALERR (same object): on the isError side of every recursive Eval the error object itself is returned, not a new error built at another node",
			"R-LOOP (evaluator state): no field of an existing Evaluator is written while evaluating (a remembered \"current node\" is overwritten by nested evaluations)",
			"R-ERRLINE (pairing): a program parsed from the file z is handed, together with a path, to a function that reports errors with that program's lines and that path only when the path is z",
			"R-ERRLINE (same file): an error built while a component's program is linked into a page carries the page's path and a line of the page (the use, the slot), not a line of the component file",
			"R-ERRLINE (who writes tokens): no store into a field of an existing token outside the lexer",
			"R-FORMAT: every printf-like call (fmt family, and the module functions that hand a parameter on as a format: fail.New, newError, ...) gets a constant format, or the caller's own format parameter",
			"R-ERRNODE: the node every evaluator error is built from, followed back through parameters and interface conversions, is the construct under evaluation and not one of its operands (InfixExp.Left ...)",
			"R-EVALORDER: no composite literal of the parser reads the current/next token in one element and calls a token-consuming parser method in another (unspecified evaluation order)",
			"R-LEXINPUT: lexer.New stores its argument as the input unchanged and every caller hands it the text it was given (a parameter handed through, or a file's content as read)",
			"R-PATHAPI: a file's content is read and passed on unmodified (no trimming: reported lines are lines of the file)",
			"R-ERRLINE: every ast.Node's Line() is ErrorLine() of its own Token; every AST node the parser builds takes its Token from the parser's current token; every parser.newError call passes ErrorLine() of a token; parser errors carry p.filepath (set to the parsed file's absolute path), evaluator errors node.Line() and ctx.AbsPath (the template's absolute path); loader errors about a component or insert carry that construct's Line()",
			"R-TOKPOS: ErrorLine = Pos.EndLine + 1; line counters are advanced in one place; every token takes its end from the last consumed byte",
		},
		Decided:     "TODO",
		NotDecided:  "TODO",
		Assumptions: trustedBase,
		Run: func(m *Model, s *Sink) {
			m.RunSharedWrites(s, "R-SHARED", m.Roots().Load, "history", map[string]string{
				"textwire.userConfig":    "NewTemplate/Configure install the caller's configuration (documented, sticky by design)",
				"textwire.usesTemplates": "NewTemplate switches the package to template mode",
			}) // lines are counted in the file as it is when it is loaded: no text kept from an earlier load
			m.errPassStrict = true
			m.RunEvalErr(s, "R-EVALERR") // the error of a failing sub-evaluation is handed up as it is: it keeps the line of the construct that failed
			m.errPassStrict = false
			m.RunEvalState(s, "R-LOOP")        // the node an error is built from is the one being evaluated: no evaluator field carries a node across the recursion
			m.RunProgPathPairs(s, "R-ERRLINE") // a program parsed from a file is handed on with that file's path
			m.RunErrKeep(s, "R-ERRLINE")       // the first error the parser met stays the first of its list
			m.RunErrSameFile(s, "R-ERRLINE")   // a slot error of a component use carries a line of the file whose path it carries
			m.RunNoReadPastEnd(s, "R-TOKPOS")  // an unterminated string or comment does not push the position past the input
			m.RunIllegalSticky(s, "R-ILLEGAL")
			m.RunTokenWriters(s, "R-ERRLINE")                                                                // tokens are written by the lexer only
			m.RunFreshNodes(s, "R-ERRLINE")                                                                  // a node is built for each use: no interning of nodes by name
			m.RunFormat(s, "R-FORMAT", m.reachableFns(m.Roots().Load, m.Roots().Render, m.Roots().LexParse)) // no text of a template, a path or an error is used as a printf format
			m.RunEvalOrder(s, "R-EVALORDER")
			m.RunErrNode(s, "R-ERRNODE")
			m.RunLexInput(s, "R-LEXINPUT")
			m.RunPathAPI(s, "R-PATHAPI") // the text of a template file reaches the lexer unmodified: lines are counted in the file's own text
			m.RunErrLine(s, "R-ERRLINE")
			m.RunTokPos(s, "R-TOKPOS")
			s.RequireMin("R-ERRLINE", 80, "34 Line() methods, ~40 AST constructions, ~25 parser error sites, path clauses")
		},
	})
}
