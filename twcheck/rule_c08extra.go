package main

// rule_c08extra.go — R-NILPARSE (results of parse functions may be nil after an error: no dereference without a
// nil test) and R-EOFTOKEN (at end of input the lexer can only produce EOF or ILLEGAL).

import (
	"fmt"
	"go/constant"
	"go/token"
	"go/types"
	"os"
	"sort"
	"strings"

	"golang.org/x/tools/go/ssa"
)

func isASTInterface(t types.Type) bool {
	n, ok := t.(*types.Named)
	if !ok || n.Obj().Pkg() == nil {
		return false
	}
	return n.Obj().Pkg().Path() == fullPkg("ast") && types.IsInterface(t)
}

func isASTPointer(t types.Type) bool {
	p, ok := t.Underlying().(*types.Pointer)
	if !ok {
		return false
	}
	n, ok := p.Elem().(*types.Named)
	return ok && n.Obj().Pkg() != nil && n.Obj().Pkg().Path() == fullPkg("ast")
}

// RunNilParse: in the parser, a value that is the result of a parse function, or an AST-interface parameter
// (the Pratt loop hands the possibly-nil result of the previous step to the next infix handler), is not
// dereferenced (method call, field access, unchecked assertion) without a dominating non-nil test.
func (m *Model) RunNilParse(s *Sink, rule string) {
	n := 0
	for _, fn := range m.ModFns {
		if fn.Blocks == nil || shortPkg(fnPkgPath(fn)) != "parser" {
			continue
		}
		a := m.NewArith(fn)
		maybeNil := func(v ssa.Value) bool {
			switch x := v.(type) {
			case *ssa.Parameter:
				return isASTInterface(x.Type())
			case *ssa.Call:
				sc := x.Call.StaticCallee()
				if sc != nil && inPkg(sc, "parser") && strings.HasPrefix(canonFnName(sc), "parse") {
					return m.canReturnNil(sc)
				}
				// dynamic call of a registered parse function
				if sc == nil && !x.Call.IsInvoke() && (isASTInterface(x.Type())) {
					return true
				}
			}
			return false
		}
		for _, b := range fn.Blocks {
			for _, in := range b.Instrs {
				var subject ssa.Value
				what := ""
				switch x := in.(type) {
				case *ssa.Call:
					if x.Call.IsInvoke() && isASTInterface(x.Call.Value.Type()) {
						subject, what = x.Call.Value, "method "+x.Call.Method.Name()+"() is called on"
					}
				case *ssa.FieldAddr:
					if isASTPointer(x.X.Type()) {
						subject, what = x.X, "a field is accessed through"
					}
				case *ssa.TypeAssert:
					if !x.CommaOk && isASTInterface(x.X.Type()) {
						subject, what = x.X, "an unchecked type assertion is applied to"
					}
				}
				if subject == nil {
					continue
				}
				// look through phis/extracts one level
				cands := []ssa.Value{subject}
				if phi, ok := subject.(*ssa.Phi); ok {
					cands = append(cands, phi.Edges...)
				}
				risky := false
				for _, c := range cands {
					if maybeNil(c) {
						risky = true
					}
				}
				if !risky {
					continue
				}
				n++
				key := fmt.Sprintf("%s|%s is nil-tested before use", fnKey(fn), valueDesc(subject))
				if nilGuarded(a, subject, expandFacts(factsAt(b))) {
					s.OK(rule, key, m.InstrPos(in), "dominated by a non-nil test")
				} else {
					s.Violation(rule, key, m.InstrPos(in), "in %s %s %s, which is nil after a parse error (parse functions return nil once an error is recorded, and the expression loop passes that result on): ill-formed input such as a doubled operator makes the parser panic instead of returning its error", fnKey(fn), what, valueDesc(subject))
				}
			}
		}
	}
	s.OK(rule, "parser|possibly-nil parse results are not dereferenced", "-", "%d dereferences of parse results / AST-interface parameters examined in the parser package", n)
}

func (m *Model) canReturnNil(fn *ssa.Function) bool {
	if fn.Blocks == nil {
		return true
	}
	for _, b := range fn.Blocks {
		if ret, ok := b.Instrs[len(b.Instrs)-1].(*ssa.Return); ok && len(ret.Results) > 0 {
			v := stripIface(ret.Results[0])
			if isNilConst(ret.Results[0]) || isNilConst(v) {
				return true
			}
			if c, ok := v.(*ssa.Call); ok {
				if sc := c.Call.StaticCallee(); sc != nil && sc != fn && inPkg(sc, "parser") && strings.HasPrefix(canonFnName(sc), "parse") {
					if m.canReturnNilDepth(sc, 0) {
						return true
					}
				}
			}
		}
	}
	return false
}

func (m *Model) canReturnNilDepth(fn *ssa.Function, d int) bool {
	if d > 3 {
		return true
	}
	return m.canReturnNil(fn)
}

// RunEOFToken: with l.char == 0 (what readChar yields at the end of the input and what every scanner loop
// stops at) NextToken, explored through its callees up to the first consuming call, can only build EOF or ILLEGAL.
func (m *Model) RunEOFToken(s *Sink, rule string) {
	nt := m.Method("lexer", "Lexer", "NextToken")
	newTok := m.Method("lexer", "Lexer", "newToken")
	readChar := m.Method("lexer", "Lexer", "readChar")
	if nt == nil || newTok == nil || readChar == nil {
		s.Undecided(rule, "NextToken", "-", "NextToken/newToken/readChar not found")
		return
	}
	pc := &progressCtx{m: m}
	ev := pc.lexEval(0)
	found := map[string]string{}
	var explore func(fn *ssa.Function, depth int, args map[*ssa.Parameter]ssa.Value) bool // returns: can return without consuming
	visiting := map[*ssa.Function]bool{}
	explore = func(fn *ssa.Function, depth int, args map[*ssa.Parameter]ssa.Value) bool {
		if depth > 6 || fn.Blocks == nil || visiting[fn] {
			return true
		}
		visiting[fn] = true
		defer delete(visiting, fn)
		canReturn := false
		seen := map[*ssa.BasicBlock]bool{}
		stack := []*ssa.BasicBlock{fn.Blocks[0]}
		for len(stack) > 0 {
			b := stack[len(stack)-1]
			stack = stack[:len(stack)-1]
			if seen[b] {
				continue
			}
			seen[b] = true
			consumed := false
			for _, in := range b.Instrs {
				c, ok := in.(*ssa.Call)
				if !ok || c.Call.StaticCallee() == nil || !inPkg(c.Call.StaticCallee(), "lexer") {
					continue
				}
				sc := c.Call.StaticCallee()
				if sc == readChar {
					consumed = true
					break
				}
				if sc == newTok {
					name := "?"
					switch k := c.Call.Args[1].(type) {
					case *ssa.Const:
						name = tokenConstNames[k.Int64()]
					case *ssa.Parameter:
						if av, ok := args[k]; ok {
							if kc, ok := av.(*ssa.Const); ok {
								name = tokenConstNames[kc.Int64()]
							}
						}
					default:
						name = "(computed token type)"
					}
					if _, dup := found[name]; !dup {
						found[name] = fnKey(fn) + " at " + m.InstrPos(c)
					}
					continue
				}
				if sc.Signature.Recv() == nil {
					continue // pure helpers
				}
				sub := map[*ssa.Parameter]ssa.Value{}
				for i, p := range sc.Params {
					if i < len(c.Call.Args) {
						sub[p] = c.Call.Args[i]
					}
				}
				if !explore(sc, depth+1, sub) {
					consumed = true // the callee always consumes before returning in this state
					break
				}
			}
			if consumed {
				continue
			}
			switch t := b.Instrs[len(b.Instrs)-1].(type) {
			case *ssa.Return:
				canReturn = true
			case *ssa.If:
				known, val := evalCond(t.Cond, ev, b)
				if known {
					if val {
						stack = append(stack, b.Succs[0])
					} else {
						stack = append(stack, b.Succs[1])
					}
				} else {
					stack = append(stack, b.Succs...)
				}
			default:
				stack = append(stack, b.Succs...)
			}
		}
		return canReturn
	}
	explore(nt, 0, nil)
	var names []string
	for n := range found {
		names = append(names, n)
	}
	sort.Strings(names)
	var bad []string
	for _, n := range names {
		if n != "EOF" && n != "ILLEGAL" {
			bad = append(bad, fmt.Sprintf("%s (%s)", n, found[n]))
		}
	}
	key := "lexer.(*Lexer).NextToken|at end of input only EOF or ILLEGAL is produced"
	switch {
	case found["EOF"] == "":
		s.Violation(rule, key, m.Pos(nt.Pos()), "with l.char == 0 NextToken does not reach newToken(EOF): the parser never sees the end of the input")
	case len(bad) > 0:
		s.Violation(rule, key, m.Pos(nt.Pos()), "with l.char == 0 (the value readChar yields at the end of the input, and at which every scanner loop stops) NextToken can build %s without consuming anything: that token is returned forever and parser loops only leave on EOF and ILLEGAL, so lexing/parsing does not terminate (e.g. a zero byte in text)", strings.Join(bad, ", "))
	default:
		s.OK(rule, key, m.Pos(nt.Pos()), "tokens that can be built at l.char == 0 before any input is consumed: %v", names)
	}
	_ = token.ADD
}

// RunNilErr: every `return nil` of a parse function is preceded, on all paths, by a recorded error
// (parser.newError, the failure edge of an expect-like call, or the nil result of a parse function
// that itself satisfies this rule). parseStr/parseProgram hand out a program only when no error was recorded.
func (m *Model) RunNilErr(s *Sink, rule string) {
	var parFns []*ssa.Function
	for _, fn := range m.ModFns {
		if fn.Blocks != nil && shortPkg(fnPkgPath(fn)) == "parser" {
			parFns = append(parFns, fn)
		}
	}
	newErr := m.parserNewError()
	if newErr == nil {
		s.Undecided(rule, "parser.newError", "-", "not found")
		return
	}
	els := m.findExpectLikes(parFns)
	// candidates: parser functions with a failure return (nil node, or a false verdict); reported: those that return AST nodes
	isFailRet := func(b *ssa.BasicBlock) bool {
		_, isRet := b.Instrs[len(b.Instrs)-1].(*ssa.Return)
		return isRet && !isSuccessReturn(b)
	}
	good := map[*ssa.Function]bool{}
	report := map[*ssa.Function]bool{}
	var cands []*ssa.Function
	parseStmt := m.Method("parser", "Parser", "parseStatement")
	for _, fn := range parFns {
		if fn.Signature.Recv() == nil || fn.Signature.Results().Len() == 0 || fn == parseStmt {
			continue // parseStatement's nil means "no statement starts here"; the caller skips the token
		}
		rt := fn.Signature.Results().At(0).Type()
		astNode := false
		switch rt.Underlying().(type) {
		case *types.Pointer, *types.Interface:
			astNode = strings.Contains(types.TypeString(rt, nil), modPath+"/ast.")
		}
		boolVerdict := verdictIndex(fn) >= 0 || (fn.Signature.Results().Len() == 1 && isBoolT(rt))
		if !astNode && !boolVerdict {
			continue // e.g. a nil slice is the empty list, not a failure signal
		}
		hasFail := false
		for _, b := range fn.Blocks {
			if isFailRet(b) {
				hasFail = true
			}
			if ret, isRet := b.Instrs[len(b.Instrs)-1].(*ssa.Return); isRet && len(ret.Results) > 0 {
				vi := verdictIndex(fn)
				if vi < 0 {
					vi = 0
				}
				if c, isC := ret.Results[vi].(*ssa.Call); isC && boolVerdict && c.Call.StaticCallee() != nil && shortPkg(fnPkgPath(c.Call.StaticCallee())) == "parser" {
					hasFail = true // forwards a callee's verdict
				}
				if bo, isBo := ret.Results[vi].(*ssa.BinOp); isBo && boolVerdict && bo.Op == token.NEQ && (isNilConst(bo.X) || isNilConst(bo.Y)) {
					hasFail = true // a computed verdict `x != nil`
				}
			}
		}
		if hasFail {
			cands = append(cands, fn)
			good[fn] = true // optimistic; greatest fixpoint
			if astNode {
				report[fn] = true
			}
		}
	}
	mk := func() *consumerInfo {
		ci := m.newPassInfo(
			func(c ssa.CallInstruction) bool { return c.Common().StaticCallee() == newErr },
			func(*ssa.Call) bool { return false }, parFns, nil)
		ci.failPoint = func(c *ssa.Call) bool {
			return ci.allCallees(c, func(f *ssa.Function) bool { return els[f] != nil || good[f] })
		}
		return ci
	}
	// forwarded verdict: `return p.expectPeek(X)` / `return p.parseY()` — the failure is the callee's
	forwarded := func(b *ssa.BasicBlock) *ssa.Call {
		ret, isRet := b.Instrs[len(b.Instrs)-1].(*ssa.Return)
		if !isRet || len(ret.Results) == 0 {
			return nil
		}
		vi := verdictIndex(b.Parent())
		if vi < 0 {
			vi = 0
		}
		v := ret.Results[vi]
		for i := 0; i < 3; i++ {
			switch x := v.(type) {
			case *ssa.MakeInterface:
				v = x.X
				continue
			case *ssa.ChangeInterface:
				v = x.X
				continue
			}
			break
		}
		c, _ := v.(*ssa.Call)
		return c
	}
	// a computed verdict `return x != nil` where x is what a parse function has just returned (directly, or stored into
	// a field of the node and read back in the same block): the failure is that callee's
	nilTested := func(b *ssa.BasicBlock) *ssa.Call {
		ret, isRet := b.Instrs[len(b.Instrs)-1].(*ssa.Return)
		if !isRet || len(ret.Results) == 0 {
			return nil
		}
		vi := verdictIndex(b.Parent())
		if vi < 0 {
			vi = 0
		}
		bo, isBo := ret.Results[vi].(*ssa.BinOp)
		if !isBo || bo.Op != token.NEQ {
			return nil
		}
		var x ssa.Value
		switch {
		case isNilConst(bo.Y):
			x = bo.X
		case isNilConst(bo.X):
			x = bo.Y
		default:
			return nil
		}
		for i := 0; i < 3; i++ {
			switch v := x.(type) {
			case *ssa.MakeInterface:
				x = v.X
				continue
			case *ssa.ChangeInterface:
				x = v.X
				continue
			}
			break
		}
		if c, isC := x.(*ssa.Call); isC {
			return c
		}
		if ld, isLd := x.(*ssa.UnOp); isLd && ld.Op == token.MUL && ld.Block() == b {
			// the last store to that address in this block, before the load
			var last *ssa.Store
			for _, in := range b.Instrs {
				if in == ssa.Instruction(ld) {
					break
				}
				if st, isSt := in.(*ssa.Store); isSt {
					if st.Addr == ld.X {
						last = st
					} else if fa1, ok1 := st.Addr.(*ssa.FieldAddr); ok1 {
						if fa2, ok2 := ld.X.(*ssa.FieldAddr); ok2 && fa1.X == fa2.X && fa1.Field == fa2.Field {
							last = st
						}
					}
				}
			}
			if last != nil {
				v := last.Val
				for i := 0; i < 3; i++ {
					switch w := v.(type) {
					case *ssa.MakeInterface:
						v = w.X
						continue
					case *ssa.ChangeInterface:
						v = w.X
						continue
					}
					break
				}
				if c, isC := v.(*ssa.Call); isC {
					return c
				}
			}
		}
		return nil
	}
	escapes := func(fn *ssa.Function, ci *consumerInfo) (bool, string) {
		for _, b := range fn.Blocks {
			if nc := nilTested(b); nc != nil && ci.failPoint(nc) {
				continue
			}
			if !isFailRet(b) {
				// a forwarded bool verdict: sound if the callee's own failures record an error (or one was recorded before)
				if fc := forwarded(b); fc != nil && isBoolT(fc.Type()) {
					if !ci.failPoint(fc) {
						target := b
						if ci.pathAvoiding(fn, fn.Blocks[0], 0, func(x *ssa.BasicBlock) bool { return x == target && !ci.blockConsumes(x, 0) }, nil) {
							return true, m.InstrPos(b.Instrs[len(b.Instrs)-1])
						}
					}
				}
				continue
			}
			// forwarding a good callee's failure verbatim: `return p.parseX()` is decided at the callee
			target := b
			if ci.pathAvoiding(fn, fn.Blocks[0], 0, func(x *ssa.BasicBlock) bool { return x == target && !ci.blockConsumes(x, 0) }, nil) {
				return true, m.InstrPos(b.Instrs[len(b.Instrs)-1])
			}
		}
		return false, ""
	}
	for changed := true; changed; {
		changed = false
		ci := mk()
		for _, fn := range cands {
			if !good[fn] {
				continue
			}
			if bad, at := escapes(fn, ci); bad {
				good[fn] = false
				changed = true
				if os.Getenv("TWDEBUG") != "" {
					fmt.Fprintf(os.Stderr, "nilerr: %s not good (%s)\n", fnKey(fn), at)
				}
			}
		}
	}
	ci := mk()
	sort.Slice(cands, func(i, j int) bool { return fnKey(cands[i]) < fnKey(cands[j]) })
	nRep := 0
	for _, fn := range cands {
		if !report[fn] {
			continue
		}
		nRep++
		key := fnKey(fn) + "|a nil result means an error was recorded"
		if good[fn] {
			s.OK(rule, key, m.Pos(fn.Pos()), "every path to a failure return passes newError (directly or in a helper that always records one), the failure edge of an expect function, or the failure result of a parser function with the same guarantee")
		} else {
			_, pos := escapes(fn, ci)
			s.Violation(rule, key, pos, "%s can return nil on a path that records no error: the caller treats nil as \"already reported\", so the input is accepted with a piece missing (or a nil node is evaluated later)", fnKey(fn))
		}
	}
	if nRep < 15 {
		s.Undecided(rule, "parse functions returning nil", "-", "expected at least 15 parse functions with a nil return, found %d", nRep)
	}
	// every caller of ParseProgram (parseStr, parseProgram today): a program is handed out only when no error was recorded
	pp := m.Method("parser", "Parser", "ParseProgram")
	var callers []*ssa.Function
	for _, fn := range m.ModFns {
		if fn.Blocks == nil || isUserPkg(fnPkgPath(fn)) || shortPkg(fnPkgPath(fn)) == "parser" {
			continue
		}
		for _, b := range fn.Blocks {
			for _, in := range b.Instrs {
				if c, ok := in.(*ssa.Call); ok && pp != nil && c.Call.StaticCallee() == pp {
					callers = append(callers, fn)
				}
			}
		}
	}
	if len(callers) < 1 {
		s.Undecided(rule, "callers of ParseProgram", "-", "no caller of ParseProgram outside the parser was found")
	}
	for _, fn := range callers {
		key := fnKey(fn) + "|program or errors, never both"
		ok := true
		n := 0
		for _, b := range fn.Blocks {
			ret, isRet := b.Instrs[len(b.Instrs)-1].(*ssa.Return)
			if !isRet {
				continue
			}
			if c, isC := ret.Results[0].(*ssa.Call); !isC || c.Call.StaticCallee() != pp {
				continue
			}
			n++
			// a program is returned: must be dominated by "no errors" (HasErrors() false, or len(Errors()) == 0)
			clean := false
			a := m.NewArith(fn)
			for _, f := range expandFacts(factsAt(b)) {
				if c, isC := f.Cond.(*ssa.Call); isC && !f.Holds && c.Call.StaticCallee() != nil && canonFnName(c.Call.StaticCallee()) == "HasErrors" {
					clean = true
				}
			}
			if !clean {
				for _, bb := range fn.Blocks {
					for _, in := range bb.Instrs {
						if c, isC := in.(*ssa.Call); isC && c.Call.StaticCallee() != nil && canonFnName(c.Call.StaticCallee()) == "Errors" {
							if a.ProveValLE(a.lenLin(c, 0), 0, pointOf(ret)) {
								clean = true
							}
						}
					}
				}
			}
			if !clean {
				ok = false
			}
		}
		if ok && n > 0 {
			s.OK(rule, key, m.Pos(fn.Pos()), "a program is returned only under \"the parser recorded no error\"")
		} else {
			s.Violation(rule, key, m.Pos(fn.Pos()), "%s can hand out a program although the parser recorded errors (or never hands one out)", fnKey(fn))
		}
	}
}

// RunIllegalSticky: the token for a character that starts no token is not consumed. The parser reports an ILLEGAL token
// only where a statement starts (ParseProgram) and takes names, loop variables and object keys from the current token
// without looking at its type; that is sound only because the lexer keeps returning the same ILLEGAL token until the
// statement loop sees it. (If the lexer consumed it, `@reserve(#)` or `{{ {#: 1} }}` would be accepted without an error.)
func (m *Model) RunIllegalSticky(s *Sink, rule string) {
	newTok := m.Method("lexer", "Lexer", "newToken")
	readChar := m.Method("lexer", "Lexer", "readChar")
	if newTok == nil || readChar == nil {
		s.Undecided(rule, "lexer.newToken", "-", "newToken/readChar not found")
		return
	}
	illegal := int64(-1)
	for v, n := range tokenConstNames {
		if n == "ILLEGAL" {
			illegal = v
		}
	}
	var lexFns []*ssa.Function
	for _, fn := range m.ModFns {
		if fn.Blocks != nil && shortPkg(fnPkgPath(fn)) == "lexer" {
			lexFns = append(lexFns, fn)
		}
	}
	ci := m.newPassInfo(func(c ssa.CallInstruction) bool { return c.Common().StaticCallee() == readChar }, func(*ssa.Call) bool { return false }, lexFns, nil)
	ci.may[readChar] = true
	n := 0
	for _, fn := range lexFns {
		for _, b := range fn.Blocks {
			for _, in := range b.Instrs {
				c, ok := in.(*ssa.Call)
				if !ok || c.Call.StaticCallee() != newTok || len(c.Call.Args) < 3 {
					continue
				}
				k, isK := c.Call.Args[1].(*ssa.Const)
				if !isK || k.Value == nil || k.Int64() != illegal {
					continue
				}
				// only the "unknown character" token: its literal is built from the current character
				lit := c.Call.Args[2]
				if cv, isCv := lit.(*ssa.Convert); isCv {
					lit = cv.X
				}
				if !strings.HasSuffix(fieldPathOf(lit), ".char") {
					if _, isConst := lit.(*ssa.Const); isConst {
						continue // "{{--", an unterminated string: the input is exhausted there
					}
					continue
				}
				n++
				key := fnKey(fn) + "|the unknown-character token is not consumed"
				consumes := false
				for _, bb := range fn.Blocks {
					for _, x := range bb.Instrs {
						if cc, isC := x.(ssa.CallInstruction); isC {
							if sc := cc.Common().StaticCallee(); sc != nil && ci.may[sc] {
								consumes = true
							}
						}
					}
				}
				if consumes {
					s.Violation(rule, key, m.InstrPos(c), "%s consumes input around building the ILLEGAL token for an unknown character: the parser checks for ILLEGAL only where a statement starts and takes names and keys from the current token unchecked, so a consumed ILLEGAL token in such a position is accepted without any error", fnKey(fn))
				} else {
					s.OK(rule, key, m.InstrPos(c), "no call in %s can reach readChar: the same ILLEGAL token is returned until the statement loop reports it", fnKey(fn))
				}
			}
		}
	}
	if n == 0 {
		s.Undecided(rule, "lexer|unknown-character token", "-", "no newToken(ILLEGAL, string(l.char)) site found")
	}
}

// RunIllegalTop — R-ILLEGAL (top level): a statement parser may stop ON the token that follows its statement (the slot
// list of a component use ends on whatever comes after the last @end). In ParseProgram that token is looked at before
// the parser steps on: every path from the statement parser's return to the next step passes the test "the current
// token is ILLEGAL". With the test made only before the statement is parsed, an ILLEGAL token that consumed input (an
// unterminated comment) is stepped over unseen and the truncated template is accepted.
func (m *Model) RunIllegalTop(s *Sink, rule string) {
	pp := m.Method("parser", "Parser", "ParseProgram")
	ps := m.Method("parser", "Parser", "parseStatement")
	nt := m.Method("parser", "Parser", "nextToken")
	illegal := int64(-1)
	for v, n := range tokenConstNames {
		if n == "ILLEGAL" {
			illegal = v
		}
	}
	if pp == nil || ps == nil || nt == nil || illegal < 0 {
		s.Undecided(rule, "parser.ParseProgram", "-", "ParseProgram / parseStatement / nextToken / token.ILLEGAL not found")
		return
	}
	isTest := func(c ssa.CallInstruction) bool {
		sc := c.Common().StaticCallee()
		if sc == nil || canonFnName(sc) != "curTokenIs" || len(c.Common().Args) < 2 {
			return false
		}
		k, ok := c.Common().Args[1].(*ssa.Const)
		return ok && k.Value != nil && k.Int64() == illegal
	}
	// the test, however spelled: curTokenIs(ILLEGAL), or a comparison of the current token's type with ILLEGAL
	isTestInstr := func(in ssa.Instruction) bool {
		switch x := in.(type) {
		case ssa.CallInstruction:
			return isTest(x)
		case *ssa.BinOp:
			if x.Op != token.EQL && x.Op != token.NEQ {
				return false
			}
			for _, pr := range [][2]ssa.Value{{x.X, x.Y}, {x.Y, x.X}} {
				k, isK := pr[1].(*ssa.Const)
				if !isK || k.Value == nil || k.Value.Kind() != constant.Int || k.Int64() != illegal {
					continue
				}
				if _, path, ok := pathOf(pr[0]); ok && strings.HasSuffix(path, ".curToken.Type") {
					return true
				}
			}
		}
		return false
	}
	key := fnKey(pp) + "|the token a statement ends on is tested for ILLEGAL before the parser steps on"
	nStmt, bad := 0, ""
	for _, b := range pp.Blocks {
		for i, in := range b.Instrs {
			c, ok := in.(*ssa.Call)
			if !ok || c.Call.StaticCallee() != ps {
				continue
			}
			nStmt++
			// a step reachable from here without the test
			type item struct {
				b    *ssa.BasicBlock
				from int
			}
			seen := map[*ssa.BasicBlock]bool{}
			stack := []item{{b, i + 1}}
			for len(stack) > 0 && bad == "" {
				it := stack[len(stack)-1]
				stack = stack[:len(stack)-1]
				stopped := false
				for k := it.from; k < len(it.b.Instrs) && !stopped; k++ {
					x := it.b.Instrs[k]
					if isTestInstr(x) {
						stopped = true
						break
					}
					if c2, isC := x.(*ssa.Call); isC {
						if c2.Call.StaticCallee() == nt {
							bad = m.InstrPos(c2)
							stopped = true
						} else if c2.Call.StaticCallee() == ps {
							stopped = true // the next statement: judged from its own call
						}
					}
				}
				if stopped {
					continue
				}
				for _, sb := range it.b.Succs {
					if !seen[sb] {
						seen[sb] = true
						stack = append(stack, item{sb, 0})
					}
				}
			}
		}
	}
	switch {
	case nStmt == 0:
		s.Undecided(rule, key, m.Pos(pp.Pos()), "no call of parseStatement in ParseProgram")
	case bad != "":
		s.Violation(rule, key, bad, "ParseProgram can step to the next token at %s after a statement was parsed without having tested the current token for ILLEGAL since: a statement parser may stop on the token after its statement, and an ILLEGAL token that has consumed input (an unterminated comment) is then skipped — the truncated template is accepted without an error", bad)
	default:
		s.OK(rule, key, m.Pos(pp.Pos()), "every path from parseStatement to the next nextToken passes curTokenIs(ILLEGAL)")
	}
}
