package main

// core_oblig.go — obligations, known findings, evidence and replay files.

import (
	"encoding/json"
	"fmt"
	"os"
	"path/filepath"
	"sort"
	"strconv"
	"strings"
	"time"
)

func strconvUnquote(s string) (string, error) { return strconv.Unquote(s) }

type Status int

const (
	Discharged Status = iota
	Violated
	Undecided
	Info // reported in evidence only (out of scope / latent); never fails a check
)

func (s Status) String() string {
	return [...]string{"discharged", "VIOLATED", "UNDECIDED", "info"}[s]
}

// Obligation is one instance of a rule on one construct. Key never contains a line number.
type Obligation struct {
	Rule       string `json:"rule"`
	Key        string `json:"key"`
	Pos        string `json:"pos"`
	Status     Status `json:"-"`
	StatusText string `json:"status"`
	Detail     string `json:"detail"`
	Nontrivial bool   `json:"nontrivial"` // needed a path / dominance / table argument
}

func (o Obligation) ID() string { return o.Rule + "|" + o.Key }

// Sink collects obligations for one property run.
type Sink struct {
	Obls []Obligation
	keys map[string]int
}

func NewSink() *Sink { return &Sink{keys: map[string]int{}} }

func (s *Sink) add(rule, key, pos string, st Status, nontrivial bool, format string, args ...any) {
	id := rule + "|" + key
	s.keys[id]++
	if n := s.keys[id]; n > 1 {
		key = fmt.Sprintf("%s #%d", key, n)
	}
	s.Obls = append(s.Obls, Obligation{Rule: rule, Key: key, Pos: pos, Status: st, StatusText: st.String(),
		Detail: fmt.Sprintf(format, args...), Nontrivial: nontrivial})
}

func (s *Sink) OK(rule, key, pos string, format string, args ...any) {
	s.add(rule, key, pos, Discharged, true, format, args...)
}
func (s *Sink) OKTrivial(rule, key, pos string, format string, args ...any) {
	s.add(rule, key, pos, Discharged, false, format, args...)
}
func (s *Sink) Violation(rule, key, pos string, format string, args ...any) {
	s.add(rule, key, pos, Violated, true, format, args...)
}
func (s *Sink) Undecided(rule, key, pos string, format string, args ...any) {
	s.add(rule, key, pos, Undecided, true, format, args...)
}
func (s *Sink) Note(rule, key, pos string, format string, args ...any) {
	s.add(rule, key, pos, Info, false, format, args...)
}

// Count returns how many obligations (any status but Info) a rule produced.
func (s *Sink) Count(rule string) int {
	n := 0
	for _, o := range s.Obls {
		if o.Rule == rule && o.Status != Info {
			n++
		}
	}
	return n
}

// RequireMin fails (Undecided) if a rule matched fewer instances than confirmed by hand.
func (s *Sink) RequireMin(rule string, min int, what string) {
	n := s.Count(rule)
	if n < min {
		s.Undecided(rule, "minimum-instances", "-", "rule matched %d instances, expected at least %d (%s): the code no longer has the shape this rule was confirmed on, so the rule would pass vacuously", n, min, what)
	} else {
		s.OKTrivial(rule, "minimum-instances", "-", "%d instances >= %d (%s)", n, min, what)
	}
}

// ---------------------------------------------------------------------------
// Known findings

type KnownFinding struct {
	Property string `json:"property"`
	Rule     string `json:"rule"`
	Key      string `json:"key"`
	What     string `json:"what"`  // what fails, with the concrete failing input
	Input    string `json:"input"` // failing input / history
}

type FixedFinding struct {
	Property string `json:"property"`
	Commit   string `json:"commit"`
	What     string `json:"what"`
	Line     string `json:"line"` // "fixed: property=<id> <commit> <what failed>"
}

type KnownFile struct {
	Comment string         `json:"_comment"`
	Open    []KnownFinding `json:"open"`
	Fixed   []FixedFinding `json:"fixed"`
}

func loadKnown(path string) (*KnownFile, error) {
	b, err := os.ReadFile(path)
	if err != nil {
		return nil, err
	}
	var k KnownFile
	if err := json.Unmarshal(b, &k); err != nil {
		return nil, err
	}
	return &k, nil
}

func (k *KnownFile) match(prop string, o Obligation) *KnownFinding {
	for i := range k.Open {
		f := &k.Open[i]
		if f.Property == prop && f.Rule == o.Rule && f.Key == o.Key {
			return f
		}
	}
	return nil
}

// ---------------------------------------------------------------------------
// Evidence

type PropInfo struct {
	ID          string
	Title       string
	Rules       []string // rule ids with one-line templates
	Decided     string   // what clauses are decided
	NotDecided  string   // what is not
	Assumptions []string
	Run         func(m *Model, s *Sink)
}

type runResult struct {
	prop       *PropInfo
	sink       *Sink
	violations []Obligation // not matched by known findings (violated or undecided)
	known      []string
	configs    []string
	stats      map[string]any
}

func writeEvidence(verif string, tier string, seed int, res *runResult, wall float64) error {
	obls := res.sink.Obls
	total, disch, nontriv := 0, 0, 0
	distinct := map[string]bool{}
	perRule := map[string]map[string]int{}
	for _, o := range obls {
		if perRule[o.Rule] == nil {
			perRule[o.Rule] = map[string]int{}
		}
		perRule[o.Rule][o.StatusText]++
		if o.Status == Info {
			continue
		}
		total++
		if o.Status == Discharged {
			disch++
		}
		if o.Nontrivial && !distinct[o.ID()] {
			distinct[o.ID()] = true
			nontriv++
		}
	}
	// samples: up to 3 per rule, violations first
	var samples []Obligation
	cnt := map[string]int{}
	sorted := append([]Obligation(nil), obls...)
	sort.SliceStable(sorted, func(i, j int) bool {
		ri := sorted[i].Status == Violated || sorted[i].Status == Undecided
		rj := sorted[j].Status == Violated || sorted[j].Status == Undecided
		return ri && !rj
	})
	for _, o := range sorted {
		if cnt[o.Rule] < 3 || o.Status == Violated || o.Status == Undecided {
			cnt[o.Rule]++
			samples = append(samples, o)
		}
		if len(samples) >= 60 {
			break
		}
	}
	p := res.prop
	cov := map[string]any{
		"explanation":            "Static decision of structural clauses of " + p.ID + " from /repo's current source (type-checked, SSA, VTA call graph); nothing in /repo is executed. DECIDED: " + p.Decided + " NOT DECIDED: " + p.NotDecided,
		"obligations":            total,
		"discharged":             disch,
		"evaluations":            total,
		"distinct_nontrivial":    nontriv,
		"rule":                   "one obligation per rule instance on a construct (function, call site, loop, table row), keyed rule|construct without line numbers; non-trivial = needed a dominance / path / table-equality / dataflow argument rather than mere existence; rules: " + strings.Join(p.Rules, " ;; "),
		"samples":                samples,
		"per_rule":               perRule,
		"build_configs":          res.configs,
		"known_findings_matched": res.known,
		"exhaustive":             false,
	}
	for k, v := range res.stats {
		cov[k] = v
	}
	ev := map[string]any{
		"property_id": p.ID,
		"tier":        tier,
		"seed":        seed,
		"level":       "other",
		"coverage":    cov,
		"assumptions": p.Assumptions,
		"wall_s":      wall,
		"violations":  len(res.violations),
		"generated":   time.Now().UTC().Format(time.RFC3339),
	}
	b, err := json.MarshalIndent(ev, "", " ")
	if err != nil {
		return err
	}
	dir := filepath.Join(verif, "evidence")
	if err := os.MkdirAll(dir, 0o755); err != nil {
		return err
	}
	return os.WriteFile(filepath.Join(dir, p.ID+".json"), b, 0o644)
}

func writeReplay(verif, prop string, n int, o Obligation, m *Model) (string, error) {
	dir := filepath.Join(verif, "evidence", "replay")
	if err := os.MkdirAll(dir, 0o755); err != nil {
		return "", err
	}
	name := fmt.Sprintf("%s-%s-%d.txt", prop, strings.ReplaceAll(o.Rule, "/", "_"), n)
	path := filepath.Join(dir, name)
	var sb strings.Builder
	fmt.Fprintf(&sb, "property: %s\nrule: %s\nkey: %s\nstatus: %s\nposition: %s\nconfig: %s\n\n%s\n", prop, o.Rule, o.Key, o.StatusText, o.Pos, m.Config, o.Detail)
	if o.Pos != "-" && o.Pos != "" {
		sb.WriteString("\nsource excerpt at analysis time:\n")
		sb.WriteString(excerpt(m.Repo, o.Pos))
	}
	fmt.Fprintf(&sb, "\nre-check: ./run.sh %s quick   (the obligation above must be reported again)\n", prop)
	return path, os.WriteFile(path, []byte(sb.String()), 0o644)
}

func excerpt(repo, pos string) string {
	i := strings.LastIndex(pos, ":")
	if i < 0 {
		return ""
	}
	line, err := strconv.Atoi(pos[i+1:])
	if err != nil {
		return ""
	}
	b, err := os.ReadFile(filepath.Join(repo, pos[:i]))
	if err != nil {
		return ""
	}
	lines := strings.Split(string(b), "\n")
	var sb strings.Builder
	for l := line - 3; l <= line+3; l++ {
		if l >= 1 && l <= len(lines) {
			mark := "  "
			if l == line {
				mark = "> "
			}
			fmt.Fprintf(&sb, "%s%4d  %s\n", mark, l, lines[l-1])
		}
	}
	return sb.String()
}
