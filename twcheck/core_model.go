package main

// core_model.go — loading /repo, SSA construction, call graph and the
// module-scoped reachability that every "reachable from root" premise uses.

import (
	"fmt"
	"go/ast"
	"go/constant"
	"go/token"
	"go/types"
	"os"
	"path/filepath"
	"sort"
	"strings"

	"golang.org/x/tools/go/callgraph"
	"golang.org/x/tools/go/callgraph/cha"
	"golang.org/x/tools/go/callgraph/vta"
	"golang.org/x/tools/go/packages"
	"golang.org/x/tools/go/ssa"
	"golang.org/x/tools/go/ssa/ssautil"
)

const modPath = "github.com/textwire/textwire/v2"

// Model is the type-checked, SSA-lowered program plus the facts extracted
// from it. It is rebuilt from /repo's working tree on every run.
type Model struct {
	cePred                map[*ssa.Function]bool
	ternDone, ternDecided bool
	ternBad, ternWhy      string
	resRange              map[any][2]bool // resultRange memo
	lookupTableAt         map[*ssa.Parameter]ssa.Value
	ifCaseRes             *ifCaseResult
	errNodes              map[string]bool
	eachCaseRes           *loopCaseResult
	forCaseRes            *loopCaseResult
	newTokenUnread        bool // newToken ends a token that has read nothing on the current character
	errPassStrict         bool // R-EVALERR for C13: an error coming out of Eval is handed up as the same object, not re-created
	tokposGeom            *tokposGeom
	lexModeDone           bool
	lexMode               *lexModePred
	lexFresh              *iStruct
	lexModeWhy            string
	opCaseRes             *opCaseResult
	evalWrappers          map[*ssa.Function]int
	lenSums               map[*ssa.Function]*lenSum
	lenSumBusy            map[*ssa.Function]bool
	globalTabs            map[string]map[string]any
	expectLikes           map[*ssa.Function]*expectLike
	Repo                  string
	Config                string // "default", "tags=verif", "GOARCH=386"
	Fset                  *token.FileSet
	Pkgs                  []*packages.Package          // module packages (non-test), sorted by path
	ByPath                map[string]*packages.Package // import path -> package
	Prog                  *ssa.Program
	SSA                   map[string]*ssa.Package // import path -> ssa package
	CG                    *callgraph.Graph
	AllFns                map[*ssa.Function]bool
	ModFns                []*ssa.Function // every function (incl. anonymous) whose package is in the module
	nEdges                int
	fnDecl                map[*ssa.Function]*ast.FuncDecl
	declFn                map[*ast.FuncDecl]*ssa.Function
	reachMu               map[string]map[*ssa.Function][]*ssa.Function // cache: root set key -> fn -> one call chain
	ctxs                  map[*ssa.Function]*FnCtx
	facts                 *RepoFacts
	inv                   *nonnegInv
	nilable               *nilableInfo
	nilRet                map[*ssa.Function]string
	effects               *effectAnalysis
	idxSum                map[*ssa.Function]int
	invDone               bool
	fwTrans               map[*ssa.Function]map[fieldID]bool
}

// LoadModel type-checks every package of the module under repo and lowers it.
func LoadModel(repo string, buildFlags []string, env []string, config string) (*Model, error) {
	cfg := &packages.Config{
		Mode:       packages.LoadAllSyntax,
		Dir:        repo,
		Tests:      false,
		BuildFlags: buildFlags,
		Env:        append(cleanEnv(), env...),
	}
	pkgs, err := packages.Load(cfg, "./...")
	if err != nil {
		return nil, fmt.Errorf("load: %w", err)
	}
	if len(pkgs) == 0 {
		return nil, fmt.Errorf("load: zero packages under %s", repo)
	}
	var errs []string
	packages.Visit(pkgs, nil, func(p *packages.Package) {
		for _, e := range p.Errors {
			errs = append(errs, e.Error())
		}
	})
	if len(errs) > 0 {
		return nil, fmt.Errorf("type-check errors:\n  %s", strings.Join(errs, "\n  "))
	}
	m := &Model{Repo: repo, Config: config, ByPath: map[string]*packages.Package{}, SSA: map[string]*ssa.Package{}}
	for _, p := range pkgs {
		if !strings.HasPrefix(p.PkgPath, modPath) {
			return nil, fmt.Errorf("unexpected package %s outside module %s", p.PkgPath, modPath)
		}
		m.Pkgs = append(m.Pkgs, p)
		m.ByPath[p.PkgPath] = p
	}
	sort.Slice(m.Pkgs, func(i, j int) bool { return m.Pkgs[i].PkgPath < m.Pkgs[j].PkgPath })
	m.Fset = pkgs[0].Fset

	prog, spkgs := ssautil.AllPackages(pkgs, ssa.InstantiateGenerics)
	prog.Build()
	m.Prog = prog
	for i, sp := range spkgs {
		if sp == nil {
			return nil, fmt.Errorf("no SSA for package %s", pkgs[i].PkgPath)
		}
		m.SSA[pkgs[i].PkgPath] = sp
	}
	m.AllFns = ssautil.AllFunctions(prog)
	m.CG = vta.CallGraph(m.AllFns, cha.CallGraph(prog))
	for fn := range m.AllFns {
		if m.InModule(fn) {
			m.ModFns = append(m.ModFns, fn)
		}
	}
	sort.Slice(m.ModFns, func(i, j int) bool { return fnKey(m.ModFns[i]) < fnKey(m.ModFns[j]) })
	for _, n := range m.CG.Nodes {
		m.nEdges += len(n.Out)
	}
	m.resolveNames()
	curModel = m
	m.fnDecl = map[*ssa.Function]*ast.FuncDecl{}
	m.declFn = map[*ast.FuncDecl]*ssa.Function{}
	for _, fn := range m.ModFns {
		if d, ok := fn.Syntax().(*ast.FuncDecl); ok {
			m.fnDecl[fn] = d
			m.declFn[d] = fn
		}
	}
	m.reachMu = map[string]map[*ssa.Function][]*ssa.Function{}
	if tp := m.ByPath[fullPkg("token")]; tp != nil {
		for _, n := range tp.Types.Scope().Names() {
			if c, ok := tp.Types.Scope().Lookup(n).(*types.Const); ok && strings.HasSuffix(c.Type().String(), "token.TokenType") {
				if v, ok := constant.Int64Val(c.Val()); ok {
					tokenConstNames[v] = n
				}
			}
		}
	}
	return m, nil
}

func cleanEnv() []string {
	var out []string
	for _, kv := range os.Environ() {
		if strings.HasPrefix(kv, "GOWORK=") || strings.HasPrefix(kv, "GOFLAGS=") {
			continue
		}
		out = append(out, kv)
	}
	return append(out, "GOWORK=off", "GOFLAGS=-mod=mod", "GOPROXY=off", "GOSUMDB=off", "GOTOOLCHAIN=local")
}

// InModule reports whether fn's code lives in the textwire module.
func (m *Model) InModule(fn *ssa.Function) bool {
	p := fnPkgPath(fn)
	return p != "" && strings.HasPrefix(p, modPath)
}

func fnPkgPath(fn *ssa.Function) string {
	for f := fn; f != nil; f = f.Parent() {
		if f.Pkg != nil {
			return f.Pkg.Pkg.Path()
		}
	}
	// synthetic wrapper / bound method: take the package of the wrapped object
	if o := fn.Object(); o != nil && o.Pkg() != nil {
		return o.Pkg().Path()
	}
	return ""
}

// isSynthetic: bound-method closures, thunks and promoted-method wrappers have
// no package of their own; they are traversed transparently.
func isSynthetic(fn *ssa.Function) bool {
	return fn.Synthetic != "" && fn.Pkg == nil && fn.Origin() == nil // instances of generic functions are real code
}

// shortPkg strips the module prefix: "github.com/textwire/textwire/v2/parser" -> "parser", root -> "textwire".
func shortPkg(path string) string {
	if path == modPath {
		return "textwire"
	}
	return strings.TrimPrefix(path, modPath+"/")
}

// fnKey is the stable, line-free name of a function: "parser.(*Parser).parseInfixExp",
// "textwire.findTextwireFiles$1".
func fnKey(fn *ssa.Function) string {
	if fn == nil {
		return "<nil>"
	}
	name := fn.Name()
	if fn.Parent() != nil {
		return fnKey(fn.Parent()) + "$" + strings.TrimPrefix(name, fn.Parent().Name()+"$")
	}
	pkg := shortPkg(fnPkgPath(fn))
	if recv := fn.Signature.Recv(); recv != nil {
		t := recv.Type()
		ptr := ""
		if p, ok := t.(*types.Pointer); ok {
			t = p.Elem()
			ptr = "*"
		}
		tn := t.String()
		if n, ok := t.(*types.Named); ok {
			tn = n.Obj().Name()
		}
		return fmt.Sprintf("%s.(%s%s).%s", pkg, ptr, tn, name)
	}
	return pkg + "." + name
}

// Func looks a function up by its key; nil if absent.
func (m *Model) Func(key string) *ssa.Function {
	for _, fn := range m.ModFns {
		if fnKey(fn) == key {
			return fn
		}
	}
	return nil
}

// PkgFunc returns package-level function name in short package pkg.
func (m *Model) PkgFunc(pkg, name string) *ssa.Function {
	sp := m.SSA[fullPkg(pkg)]
	if sp == nil {
		return nil
	}
	if fn := sp.Func(name); fn != nil {
		return fn
	}
	if fn := curAliases.fnByRefKey[pkg+"||"+name]; fn != nil { // renamed since the reference tree
		return fn
	}
	// a plain function may have become a method: unique method of that name on a type of the package
	var found *ssa.Function
	for _, mem := range sp.Members {
		if t, ok := mem.(*ssa.Type); ok {
			for _, T := range []types.Type{types.NewPointer(t.Type()), t.Type()} {
				ms := m.Prog.MethodSets.MethodSet(T)
				for i := 0; i < ms.Len(); i++ {
					if ms.At(i).Obj().Name() == name && ms.At(i).Obj().Pkg() == sp.Pkg {
						if fn := m.Prog.MethodValue(ms.At(i)); fn != nil && fn.Synthetic == "" && fn.Blocks != nil {
							if found != nil && found != fn {
								return nil
							}
							found = fn
						}
					}
				}
			}
		}
	}
	return found
}

func fullPkg(short string) string {
	if short == "textwire" {
		return modPath
	}
	return modPath + "/" + short
}

// Method returns the method name on named type typ (pointer receiver tried first) in short package pkg.
func (m *Model) Method(pkg, typ, name string) *ssa.Function {
	sp := m.SSA[fullPkg(pkg)]
	if sp == nil {
		return nil
	}
	t := sp.Type(typ)
	if t == nil {
		return nil
	}
	for _, T := range []types.Type{types.NewPointer(t.Type()), t.Type()} {
		ms := m.Prog.MethodSets.MethodSet(T)
		for i := 0; i < ms.Len(); i++ {
			if ms.At(i).Obj().Name() == name {
				if fn := m.Prog.MethodValue(ms.At(i)); fn != nil && fn.Synthetic == "" {
					return fn
				}
			}
		}
	}
	if fn := curAliases.fnByRefKey[pkg+"|"+typ+"|"+name]; fn != nil { // renamed since the reference tree
		return fn
	}
	// a method that does not use its receiver may have become a plain function of the same name (and the reverse:
	// PkgFunc looks among the methods): the rules address parameters by type or from the end, not by receiver position
	if fn := sp.Func(name); fn != nil && fn.Blocks != nil {
		return fn
	}
	return nil
}

// Pos renders a position relative to the repo root.
func (m *Model) Pos(p token.Pos) string {
	if !p.IsValid() {
		return "-"
	}
	pos := m.Fset.Position(p)
	rel, err := filepath.Rel(m.Repo, pos.Filename)
	if err != nil {
		rel = pos.Filename
	}
	return fmt.Sprintf("%s:%d", rel, pos.Line)
}

// InstrPos gives the best position for an instruction (falls back to enclosing function).
func (m *Model) InstrPos(in ssa.Instruction) string {
	if in.Pos().IsValid() {
		return m.Pos(in.Pos())
	}
	if v, ok := in.(ssa.Value); ok {
		for _, r := range *v.Referrers() {
			if r.Pos().IsValid() {
				return m.Pos(r.Pos())
			}
		}
	}
	return m.Pos(in.Parent().Pos())
}

// ---------------------------------------------------------------------------
// Module-scoped reachability

// callees returns the module-level callees of a call instruction, resolved by
// the VTA graph; synthetic wrappers are looked through.
func (m *Model) calleesOf(site ssa.CallInstruction) []*ssa.Function {
	node := m.CG.Nodes[site.Parent()]
	if node == nil {
		return nil
	}
	var out []*ssa.Function
	seen := map[*ssa.Function]bool{}
	for _, e := range node.Out {
		if e.Site == site && !seen[e.Callee.Func] {
			seen[e.Callee.Func] = true
			out = append(out, e.Callee.Func)
		}
	}
	sort.Slice(out, func(i, j int) bool { return fnKey(out[i]) < fnKey(out[j]) })
	return out
}

// Reach computes the module functions reachable from roots. Edges into
// packages outside the module are leaves, except that function values of the
// module passed as arguments at such a call are treated as called (callbacks),
// and printf-style calls add edges to String()/Error() of their operands.
// The returned map gives, for each reachable function, one call chain from a root.
func (m *Model) Reach(roots []*ssa.Function) map[*ssa.Function][]*ssa.Function {
	var ks []string
	for _, r := range roots {
		ks = append(ks, fnKey(r))
	}
	sort.Strings(ks)
	key := strings.Join(ks, ",")
	if c, ok := m.reachMu[key]; ok {
		return c
	}
	chain := map[*ssa.Function][]*ssa.Function{}
	var work []*ssa.Function
	add := func(fn *ssa.Function, from *ssa.Function) {
		if fn == nil {
			return
		}
		if _, ok := chain[fn]; ok {
			return
		}
		if isUserPkg(fnPkgPath(fn)) {
			return // LSP tooling, REPL, example program: user-level code, not library render/load path
		}
		var c []*ssa.Function
		if from != nil {
			c = append(c, chain[from]...)
		}
		chain[fn] = append(c, fn)
		work = append(work, fn)
	}
	for _, r := range roots {
		add(r, nil)
	}
	for len(work) > 0 {
		fn := work[0]
		work = work[1:]
		if fn.Blocks == nil {
			continue
		}
		for _, af := range fn.AnonFuncs {
			// closures are reachable when created only if called; handled via edges / callbacks below
			_ = af
		}
		node := m.CG.Nodes[fn]
		if node != nil {
			for _, e := range node.Out {
				cal := e.Callee.Func
				if m.InModule(cal) || isSynthetic(cal) && m.wrapsModule(cal) {
					add(cal, fn)
				}
			}
		}
		for _, b := range fn.Blocks {
			for _, in := range b.Instrs {
				site, ok := in.(ssa.CallInstruction)
				if !ok {
					continue
				}
				com := site.Common()
				ext := false
				if sc := com.StaticCallee(); sc != nil && !m.InModule(sc) && !isSynthetic(sc) {
					ext = true
				}
				if com.IsInvoke() && !strings.HasPrefix(pkgOfType(com.Value.Type()), modPath) {
					ext = true // e.g. io.Writer.Write
				}
				if !ext {
					continue
				}
				for _, a := range com.Args {
					for _, cb := range m.funcValues(a, 0) {
						add(cb, fn)
					}
				}
				for _, s := range m.printfStringers(com) {
					add(s, fn)
				}
			}
		}
	}
	m.reachMu[key] = chain
	return chain
}

func pkgOfType(t types.Type) string {
	switch t := t.(type) {
	case *types.Named:
		if t.Obj().Pkg() != nil {
			return t.Obj().Pkg().Path()
		}
	case *types.Pointer:
		return pkgOfType(t.Elem())
	}
	return ""
}

func (m *Model) wrapsModule(fn *ssa.Function) bool {
	if o := fn.Object(); o != nil && o.Pkg() != nil {
		return strings.HasPrefix(o.Pkg().Path(), modPath)
	}
	// thunks/bound wrappers without object: look at their callees
	if node := m.CG.Nodes[fn]; node != nil {
		for _, e := range node.Out {
			if m.InModule(e.Callee.Func) {
				return true
			}
		}
	}
	return false
}

// funcValues finds module functions that value v may denote (closure, function
// constant, bound method), looking through simple conversions.
func (m *Model) funcValues(v ssa.Value, depth int) []*ssa.Function {
	if depth > 4 {
		return nil
	}
	switch v := v.(type) {
	case *ssa.Function:
		if m.InModule(v) || isSynthetic(v) {
			return []*ssa.Function{v}
		}
	case *ssa.MakeClosure:
		if fn, ok := v.Fn.(*ssa.Function); ok && (m.InModule(fn) || isSynthetic(fn)) {
			return []*ssa.Function{fn}
		}
	case *ssa.ChangeType:
		return m.funcValues(v.X, depth+1)
	case *ssa.MakeInterface:
		return m.funcValues(v.X, depth+1)
	case *ssa.Phi:
		var out []*ssa.Function
		for _, e := range v.Edges {
			out = append(out, m.funcValues(e, depth+1)...)
		}
		return out
	case *ssa.Call:
		// a constructor of the callback: `filepath.Walk(dir, collect(dst))` — what the module function returns
		sc := v.Call.StaticCallee()
		if sc == nil || !m.InModule(sc) || sc.Blocks == nil || sc.Signature.Results().Len() != 1 {
			return nil
		}
		var out []*ssa.Function
		for _, b := range sc.Blocks {
			if ret, ok := b.Instrs[len(b.Instrs)-1].(*ssa.Return); ok && len(ret.Results) == 1 {
				out = append(out, m.funcValues(ret.Results[0], depth+1)...)
			}
		}
		return out
	}
	return nil
}

// printfStringers resolves, for a call to a printf-like function outside the
// module (fmt.*printf, fmt.Sprint*, fmt.Fprint*, errors.New is not one), the
// String()/Error() methods of module types that the call may invoke.
func (m *Model) printfStringers(com *ssa.CallCommon) []*ssa.Function {
	sc := com.StaticCallee()
	if sc == nil || sc.Pkg == nil {
		return nil
	}
	pk := sc.Pkg.Pkg.Path()
	if pk != "fmt" && pk != "log" {
		return nil
	}
	var out []*ssa.Function
	sig := sc.Signature
	if !sig.Variadic() {
		return nil
	}
	// locate format string (constant) if any
	nfix := sig.Params().Len() - 1
	var format *string
	if nfix >= 1 && strings.HasSuffix(canonFnName(sc), "f") {
		if c, ok := com.Args[nfix-1].(*ssa.Const); ok && c.Value != nil {
			s := constString(c)
			format = &s
		}
	}
	vals := variadicElems(com.Args[len(com.Args)-1])
	verbs := []byte{}
	if format != nil {
		verbs = formatVerbs(*format)
	}
	for i, a := range vals {
		verb := byte('v')
		if format != nil {
			if i < len(verbs) {
				verb = verbs[i]
			} else {
				continue
			}
		}
		if verb != 'v' && verb != 's' && verb != 'q' {
			continue
		}
		for _, t := range m.dynTypes(a) {
			for _, name := range []string{"Error", "String"} {
				if fn := m.methodOf(t, name); fn != nil && m.InModule(fn) {
					out = append(out, fn)
					break
				}
			}
		}
	}
	return out
}

func constString(c *ssa.Const) string {
	if c.Value == nil {
		return ""
	}
	s := c.Value.ExactString()
	if len(s) >= 2 && s[0] == '"' {
		if u, err := unquote(s); err == nil {
			return u
		}
	}
	return s
}

func formatVerbs(f string) []byte {
	var out []byte
	for i := 0; i < len(f); i++ {
		if f[i] != '%' {
			continue
		}
		i++
		for i < len(f) && strings.IndexByte("+-# 0123456789.*[]", f[i]) >= 0 {
			i++
		}
		if i < len(f) {
			if f[i] != '%' {
				out = append(out, f[i])
			}
		}
	}
	return out
}

// variadicElems returns the values stored into the implicit []any slice of a variadic call.
func variadicElems(v ssa.Value) []ssa.Value {
	sl, ok := v.(*ssa.Slice)
	if !ok {
		return nil
	}
	al, ok := sl.X.(*ssa.Alloc)
	if !ok {
		return nil
	}
	idx := map[int64]ssa.Value{}
	max := int64(-1)
	for _, r := range *al.Referrers() {
		ia, ok := r.(*ssa.IndexAddr)
		if !ok {
			continue
		}
		c, ok := ia.Index.(*ssa.Const)
		if !ok {
			continue
		}
		for _, rr := range *ia.Referrers() {
			if st, ok := rr.(*ssa.Store); ok && st.Addr == ia {
				idx[c.Int64()] = st.Val
				if c.Int64() > max {
					max = c.Int64()
				}
			}
		}
	}
	out := make([]ssa.Value, 0, max+1)
	for i := int64(0); i <= max; i++ {
		out = append(out, idx[i])
	}
	return out
}

// dynTypes: concrete types a value may carry when boxed into an interface.
func (m *Model) dynTypes(v ssa.Value) []types.Type {
	if v == nil {
		return nil
	}
	switch x := v.(type) {
	case *ssa.MakeInterface:
		return []types.Type{x.X.Type()}
	case *ssa.ChangeInterface:
		return m.dynTypes(x.X)
	}
	t := v.Type()
	if types.IsInterface(t) {
		// every module type implementing it
		var out []types.Type
		it, _ := t.Underlying().(*types.Interface)
		for _, T := range m.Prog.RuntimeTypes() {
			if strings.HasPrefix(pkgOfType(T), modPath) && it != nil && types.Implements(T, it) {
				out = append(out, T)
			}
		}
		return out
	}
	return []types.Type{t}
}

func (m *Model) methodOf(t types.Type, name string) *ssa.Function {
	ms := m.Prog.MethodSets.MethodSet(t)
	for i := 0; i < ms.Len(); i++ {
		if ms.At(i).Obj().Name() == name {
			return m.Prog.MethodValue(ms.At(i))
		}
	}
	return nil
}

func chainString(c []*ssa.Function) string {
	var s []string
	for _, f := range c {
		if isSynthetic(f) {
			continue
		}
		s = append(s, fnKey(f))
	}
	return strings.Join(s, " -> ")
}

// ---------------------------------------------------------------------------
// Roots

func (m *Model) must(fn *ssa.Function, what string, missing *[]string) *ssa.Function {
	if fn == nil {
		*missing = append(*missing, what)
	}
	return fn
}

type Roots struct {
	Render   []*ssa.Function
	Load     []*ssa.Function
	LexParse []*ssa.Function
	Registry []*ssa.Function
	Missing  []string
}

func (m *Model) Roots() *Roots {
	r := &Roots{}
	add := func(dst *[]*ssa.Function, fn *ssa.Function, what string) {
		if fn == nil {
			r.Missing = append(r.Missing, what)
			return
		}
		*dst = append(*dst, fn)
	}
	add(&r.Render, m.PkgFunc("textwire", "EvaluateString"), "textwire.EvaluateString")
	add(&r.Render, m.PkgFunc("textwire", "EvaluateFile"), "textwire.EvaluateFile")
	add(&r.Render, m.Method("textwire", "Template", "String"), "textwire.(*Template).String")
	add(&r.Render, m.Method("textwire", "Template", "Response"), "textwire.(*Template).Response")
	add(&r.Load, m.PkgFunc("textwire", "NewTemplate"), "textwire.NewTemplate")
	add(&r.Load, m.PkgFunc("textwire", "Configure"), "textwire.Configure")
	add(&r.LexParse, m.PkgFunc("lexer", "New"), "lexer.New")
	add(&r.LexParse, m.Method("lexer", "Lexer", "NextToken"), "lexer.(*Lexer).NextToken")
	add(&r.LexParse, m.PkgFunc("parser", "New"), "parser.New")
	add(&r.LexParse, m.Method("parser", "Parser", "ParseProgram"), "parser.(*Parser).ParseProgram")
	for _, n := range []string{"RegisterStrFunc", "RegisterArrFunc", "RegisterIntFunc", "RegisterFloatFunc", "RegisterBoolFunc"} {
		add(&r.Registry, m.PkgFunc("textwire", n), "textwire."+n)
	}
	return r
}

func unquote(s string) (string, error) {
	return strconvUnquote(s)
}

// helpersOf: fn together with its private helpers — module functions reached from fn by static calls
// all of whose call sites lie inside the set (so the helper is a piece of fn that was given a name).
// Anonymous functions defined inside members belong too.
func (m *Model) helpersOf(fn *ssa.Function) []*ssa.Function {
	return m.helpersOfSet([]*ssa.Function{fn})
}

// helpersOfSet: like helpersOf for several roots (a helper shared by the roots only is private to the set).
func (m *Model) helpersOfSet(roots []*ssa.Function) []*ssa.Function {
	set := map[*ssa.Function]bool{}
	var order []*ssa.Function
	for _, fn := range roots {
		if !set[fn] {
			set[fn] = true
			order = append(order, fn)
		}
	}
	for changed := true; changed; {
		changed = false
		for _, f := range append([]*ssa.Function{}, order...) {
			for _, an := range f.AnonFuncs {
				if !set[an] {
					set[an] = true
					order = append(order, an)
					changed = true
				}
			}
			node := m.CG.Nodes[f]
			if node == nil {
				continue
			}
			for _, e := range node.Out {
				h := e.Callee.Func
				if set[h] || h.Blocks == nil || !m.InModule(h) || e.Site == nil || e.Site.Common().StaticCallee() != h {
					continue
				}
				if h.Object() != nil && h.Object().Exported() {
					continue
				}
				private := true
				if hn := m.CG.Nodes[h]; hn != nil {
					for _, in := range hn.In {
						if !set[in.Caller.Func] || in.Site == nil || in.Site.Common().StaticCallee() != h {
							private = false
						}
					}
				}
				if private {
					set[h] = true
					order = append(order, h)
					changed = true
				}
			}
		}
	}
	return order
}

// resolveUp: the values a helper's parameter stands for at the call sites inside the helper set
// (the value itself when it is not a parameter of a private helper). anchor's own parameters stay.
func (m *Model) resolveUp(v ssa.Value, anchor *ssa.Function, depth int) []ssa.Value {
	p, ok := v.(*ssa.Parameter)
	if !ok || p.Parent() == anchor || depth > 4 {
		return []ssa.Value{v}
	}
	h := p.Parent()
	idx := -1
	for i, q := range h.Params {
		if q == p {
			idx = i
		}
	}
	node := m.CG.Nodes[h]
	if idx < 0 || node == nil {
		return []ssa.Value{v}
	}
	var out []ssa.Value
	for _, e := range node.In {
		if e.Site == nil || e.Site.Common().StaticCallee() != h || idx >= len(e.Site.Common().Args) {
			return []ssa.Value{v}
		}
		out = append(out, m.resolveUp(e.Site.Common().Args[idx], anchor, depth+1)...)
	}
	if len(out) == 0 {
		return []ssa.Value{v}
	}
	return out
}

// walkInlined visits the instructions of fn and, context-sensitively, of the module functions it calls
// statically (depth-bounded, each callee once per call site): resolve maps a callee's parameter to the value
// it stands for in fn at this call chain. Rules written against it see the same thing whether a piece of fn's
// body is inline or was moved into a (possibly shared) helper.
func (m *Model) walkInlined(fn *ssa.Function, maxDepth int, visit func(in ssa.Instruction, resolve func(ssa.Value) ssa.Value, depth int)) {
	var walk func(f *ssa.Function, bind map[*ssa.Parameter]ssa.Value, depth int, stack map[*ssa.Function]bool)
	walk = func(f *ssa.Function, bind map[*ssa.Parameter]ssa.Value, depth int, stack map[*ssa.Function]bool) {
		resolve := func(v ssa.Value) ssa.Value {
			for i := 0; i < 4; i++ {
				switch x := v.(type) {
				case *ssa.Parameter:
					if b, ok := bind[x]; ok {
						return b
					}
					return v
				case *ssa.MakeInterface:
					if p, isP := x.X.(*ssa.Parameter); isP {
						if b, ok := bind[p]; ok {
							return b
						}
					}
					return v
				case *ssa.ChangeType:
					v = x.X
					continue
				}
				break
			}
			return v
		}
		for _, b := range f.Blocks {
			for _, in := range b.Instrs {
				visit(in, resolve, depth)
				c, ok := in.(ssa.CallInstruction)
				if !ok || depth >= maxDepth {
					continue
				}
				sc := c.Common().StaticCallee()
				if sc == nil || sc.Blocks == nil || !m.InModule(sc) || stack[sc] || fnPkgPath(sc) != fnPkgPath(fn) {
					continue
				}
				if m.callsAnyOf(sc, stack) {
					continue // a callee that calls back into the chain (the recursive dispatcher): not a piece of fn's body
				}
				nb := map[*ssa.Parameter]ssa.Value{}
				for i, a := range c.Common().Args {
					if i < len(sc.Params) {
						nb[sc.Params[i]] = resolve(a)
					}
				}
				stack[sc] = true
				walk(sc, nb, depth+1, stack)
				delete(stack, sc)
			}
		}
	}
	walk(fn, map[*ssa.Parameter]ssa.Value{}, 0, map[*ssa.Function]bool{fn: true})
}

// callsAnyOf: does fn contain a static call to a member of set?
func (m *Model) callsAnyOf(fn *ssa.Function, set map[*ssa.Function]bool) bool {
	for _, b := range fn.Blocks {
		for _, in := range b.Instrs {
			if c, ok := in.(ssa.CallInstruction); ok {
				if sc := c.Common().StaticCallee(); sc != nil && set[sc] {
					return true
				}
			}
		}
	}
	return false
}

// namedType: the named type pkg.Name of the module (nil if absent).
func (m *Model) namedType(pkg, name string) *types.Named {
	p := m.ByPath[fullPkg(pkg)]
	if p == nil {
		return nil
	}
	tn, ok := p.Types.Scope().Lookup(name).(*types.TypeName)
	if !ok {
		return nil
	}
	nt, _ := tn.Type().(*types.Named)
	return nt
}

// parserNewError: the parser's error recorder — by name, or (if the method moved to an embedded helper type) the
// parser-package function that appends a *fail.Error to an error list field.
func (m *Model) parserNewError() *ssa.Function {
	if fn := m.Method("parser", "Parser", "newError"); fn != nil {
		return fn
	}
	var found *ssa.Function
	n := 0
	for _, fn := range m.ModFns {
		if fn.Blocks == nil || shortPkg(fnPkgPath(fn)) != "parser" || fn.Signature.Recv() == nil || fn.Signature.Results().Len() != 0 {
			continue
		}
		appends := false
		for _, b := range fn.Blocks {
			for _, in := range b.Instrs {
				if st, ok := in.(*ssa.Store); ok {
					if fa, isFA := st.Addr.(*ssa.FieldAddr); isFA && strings.Contains(types.TypeString(fa.Type(), nil), "[]*"+modPath+"/fail.Error") {
						if c, isC := st.Val.(*ssa.Call); isC {
							if bi, isB := c.Call.Value.(*ssa.Builtin); isB && bi.Name() == "append" {
								appends = true
							}
						}
					}
				}
			}
		}
		if appends {
			found = fn
			n++
		}
	}
	if n == 1 {
		return found
	}
	return nil
}

// PkgFuncOr: the package function by (reference) name, or — when it was renamed beyond recognition, turned into a
// method, or merged — the unique function of the package that does what identifies it (pred). nil if ambiguous.
func (m *Model) PkgFuncOr(pkg, name string, pred func(fn *ssa.Function) bool) *ssa.Function {
	if fn := m.PkgFunc(pkg, name); fn != nil {
		return fn
	}
	var found *ssa.Function
	n := 0
	for _, fn := range m.ModFns {
		if fn.Blocks == nil || shortPkg(fnPkgPath(fn)) != pkg || fn.Parent() != nil || isSynthetic(fn) {
			continue
		}
		if pred(fn) {
			found = fn
			n++
		}
	}
	if n == 1 {
		return found
	}
	return nil
}

// callsNamed: fn contains a static call to a function with this canonical name whose full name contains sub.
func callsNamed(fn *ssa.Function, name, sub string) bool {
	for _, b := range fn.Blocks {
		for _, in := range b.Instrs {
			if c, ok := in.(ssa.CallInstruction); ok {
				if sc := c.Common().StaticCallee(); sc != nil && (canonFnName(sc) == name || sc.Name() == name) && strings.Contains(fnFullName(sc), sub) {
					return true
				}
			}
		}
	}
	return false
}

// readsGlobal: fn loads the package-level variable with this (reference) name.
func readsGlobal(fn *ssa.Function, name string) bool {
	for _, b := range fn.Blocks {
		for _, in := range b.Instrs {
			if ld, ok := in.(*ssa.UnOp); ok {
				if g, isG := ld.X.(*ssa.Global); isG && canonGlobalName(g) == name {
					return true
				}
			}
		}
	}
	return false
}

// curModel: the model being analysed (one source tree per process; set by LoadModel). Used by fact helpers that have
// no model parameter.
var curModel *Model
