package main

import "golang.org/x/tools/go/ssa"

func init() {
	register(&PropInfo{
		ID:    "C06",
		Title: "A page using a layout renders the layout with reserves filled by its inserts",
		Rules: []string{
			"R-REGISTRY (context): every evaluation context built carries the custom functions and the configuration",
			"R-LOADALL: in the loader's loop a program is registered only after both linkers ran (must-pass-through), and a pass ends by registering, by failing or over the HasReserveStmt() edge",
			"R-SCOPE / R-BRANCH: every @if branch of the layout is evaluated in a fresh enclosed scope (an insert body that assigns does not leak into the layout)",
			"R-SHARED-RW: no package-level variable is both written and read on the render paths (state kept between calls: a shared environment for data-less renders, a cache of converted data or parsed programs)",
			"R-BODYENTRY: every caller of the block parser, evaluated by cases on an abstract parser (token types as named unknowns), enters it only on a token it has looked at and that is not END / ELSE / ELSE_IF — an empty body is an empty block, not the enclosing construct's closer",
			"R-LAYOUT: the undefined-insert check precedes linking and its error is returned; a reserve is linked to the insert looked up under its own name; every insert registration is dominated by the duplicate check; ApplyLayout replaces the page's statements by the single use statement; the layout is marked and linked before it is applied; a layout that uses a layout is an error; insert content is evaluated with the call's environment; an unfilled reserve yields NIL; reserves are registered by name at any depth; ~ expands to layouts/ resp. components/ only as the first character",
			"R-ERRDROP / R-NILFIELD on the layout path",
			"R-DELIM: @use(...), @reserve(...), @insert blocks must be closed",
		},
		Decided:     "TODO",
		NotDecided:  "TODO",
		Assumptions: trustedBase,
		Run: func(m *Model, s *Sink) {
			m.RunCtxComplete(s, "R-REGISTRY") // the layout is evaluated like the page: every evaluation context built carries the registry and the configuration
			m.RunLoadAll(s, "R-LOADALL")      // a page is registered only after its layout was linked
			m.RunBranch(s, "R-BRANCH")
			m.RunScope(s, "R-SCOPE")                                         // a reserve inside a branch evaluates its insert in that branch's own scope
			m.RunSharedWrites(s, "R-SHARED-RW", m.Roots().Render, "history") // what one render leaves behind must not reach the next (a shared environment for data-less calls, a cache of bound data, a memo of parsed strings)
			m.RunLayout(s, "R-LAYOUT")
			m.RunBodyEntry(s, "R-BODYENTRY") // an empty body (of a slot, an insert, a branch, a loop) does not take the enclosing closer
			m.RunPathAPI(s, "R-PATHAPI")
			var fns []*ssa.Function
			for _, n := range []string{"evalUseStmt", "evalReserveStmt"} {
				if fn := m.Method("evaluator", "Evaluator", n); fn != nil {
					fns = append(fns, fn)
				}
			}
			m.RunNilField(s, "R-NILFIELD", fns)
			if fn := m.PkgFunc("textwire", "applyLayoutToProgram"); fn != nil {
				fns = append(fns, fn)
			}
			m.RunErrDrop(s, "R-ERRDROP", fns)
			// what one tree's load leaves behind must not reach the next tree's load (a cache keyed by layout name, ...)
			m.RunSharedWrites(s, "R-SHARED", m.Roots().Load, "history", map[string]string{
				"textwire.userConfig":    "NewTemplate/Configure install the caller's configuration (documented, sticky by design: see C06's reset hook note)",
				"textwire.usesTemplates": "NewTemplate switches the package to template mode",
			})
			s.RequireMin("R-LAYOUT", 14, "linking, duplicates, ApplyLayout, ordering, layout-in-layout, reserve evaluation, registration, alias")
		},
	})
}
