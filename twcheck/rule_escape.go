package main

// rule_escape.go — R-ESCAPE (C10): string literals are HTML-escaped where they
// become values, only the two quote entities are restored, and raw() is the
// only unescaper.

import (
	"fmt"
	"go/constant"
	"go/types"
	"sort"
	"strings"

	"golang.org/x/tools/go/ssa"
)

// quote entities html.EscapeString emits and the characters they stand for
var quoteEntities = map[string]string{"&#34;": "\"", "&#39;": "'"}

func (m *Model) RunEscape(s *Sink, rule string) {
	f := m.Facts()
	// 1. dispatch: the Eval case for *ast.StringLiteral
	evalFn := m.Method("evaluator", "Evaluator", "Eval")
	if evalFn == nil {
		s.Undecided(rule, "Eval", "-", "Eval not found")
		return
	}
	// which evaluator function handles a string literal: Eval is evaluated on an abstract *ast.StringLiteral
	var litFn *ssa.Function
	if _, hs, _ := m.evalOnNode("StringLiteral", map[string]any{"Value": constant.MakeString("a<b")}); len(hs) > 0 {
		litFn = hs[len(hs)-1]
	}
	if litFn == nil {
		s.Undecided(rule, "Eval|case *ast.StringLiteral", m.Pos(evalFn.Pos()), "the Eval case for string literals does not call an evaluator function")
		return
	}
	s.OK(rule, "Eval|case *ast.StringLiteral", m.Pos(litFn.Pos()), "string literals are evaluated by %s", fnKey(litFn))
	// 2. every Str built in litFn takes its Value from ReplaceAll*(EscapeString(node.Value))
	nStores := 0
	for _, b := range litFn.Blocks {
		for _, in := range b.Instrs {
			st, ok := in.(*ssa.Store)
			if !ok {
				continue
			}
			fa, ok := st.Addr.(*ssa.FieldAddr)
			if !ok || !strings.HasSuffix(derefTypeString(fa.X.Type()), "object.Str") {
				continue
			}
			nStores++
			key := fmt.Sprintf("%s|literal value is escaped", fnKey(litFn))
			v := st.Val
			var restored []string
			ok2 := true
			why := ""
			for depth := 0; depth < 8; depth++ {
				c, isCall := v.(*ssa.Call)
				if !isCall || c.Call.StaticCallee() == nil {
					ok2, why = false, "the stored value is not the result of html.EscapeString (possibly followed by strings.ReplaceAll of quote entities): "+valueDesc(v)
					break
				}
				name := fnFullName(c.Call.StaticCallee())
				if name == "html.EscapeString" {
					if !strings.HasSuffix(fieldPathOf(c.Call.Args[0]), ".Value") {
						ok2, why = false, "html.EscapeString is not applied to the literal's Value"
					}
					break
				}
				if name == "strings.ReplaceAll" || name == "strings.Replace" {
					old, okO := constOfValue(c.Call.Args[1])
					nw, okN := constOfValue(c.Call.Args[2])
					if !okO || !okN || quoteEntities[old] != nw {
						ok2, why = false, fmt.Sprintf("after escaping, %q is replaced by %q: only the quote entities &#34; and &#39; may be turned back (C10: no raw '<' or '>', every '&' as an entity, quotes as written)", old, nw)
						break
					}
					if name == "strings.Replace" {
						if n, isC := c.Call.Args[3].(*ssa.Const); !isC || n.Int64() >= 0 {
							ok2, why = false, "strings.Replace with a count restores only some of the quotes"
							break
						}
					}
					restored = append(restored, old)
					v = c.Call.Args[0]
					continue
				}
				ok2, why = false, "unexpected transformer "+name+" between escaping and the value"
				break
			}
			sort.Strings(restored)
			if ok2 && strings.Join(restored, ",") != "&#34;,&#39;" {
				ok2, why = false, fmt.Sprintf("quote entities restored: %v; both &#34; and &#39; must be turned back so that quotes stay as written", restored)
			}
			if ok2 {
				s.OK(rule, key, m.InstrPos(st), "Str.Value = ReplaceAll(ReplaceAll(html.EscapeString(node.Value), quote entities...)) on every path")
			} else {
				s.Violation(rule, key, m.InstrPos(st), "%s: %s", fnKey(litFn), why)
			}
		}
	}
	if nStores == 0 {
		s.Undecided(rule, fnKey(litFn)+"|literal value is escaped", m.Pos(litFn.Pos()), "no object.Str is built in %s", fnKey(litFn))
	}
	// 3. who may call the escaper / unescaper
	var rawFn *ssa.Function
	for _, be := range f.Builtins {
		if be.Kind == "STRING" && be.Name == "raw" {
			rawFn = be.Fn
		}
	}
	if rawFn == nil {
		s.Violation(rule, "builtin raw", "-", "no builtin is registered as STRING.raw: there is no opt-out of escaping")
	}
	for _, fn := range m.ModFns {
		if isUserPkg(fnPkgPath(fn)) || fn.Blocks == nil {
			continue
		}
		for _, b := range fn.Blocks {
			for _, in := range b.Instrs {
				c, ok := in.(*ssa.Call)
				if !ok || c.Call.StaticCallee() == nil {
					continue
				}
				name := fnFullName(c.Call.StaticCallee())
				switch name {
				case "html.EscapeString", "html/template.HTMLEscapeString", "text/template.HTMLEscapeString":
					key := fmt.Sprintf("%s|calls %s", fnKey(fn), name)
					if fn == litFn {
						s.OKTrivial(rule, key, m.InstrPos(c), "the literal evaluator")
					} else {
						s.Violation(rule, key, m.InstrPos(c), "%s escapes a value outside the string-literal evaluator: a literal passing through it would be escaped twice (unescaping the output would no longer give back the literal)", fnKey(fn))
					}
				case "html.UnescapeString":
					key := fmt.Sprintf("%s|calls %s", fnKey(fn), name)
					if fn == rawFn {
						s.OKTrivial(rule, key, m.InstrPos(c), "the builtin registered as raw")
					} else {
						s.Violation(rule, key, m.InstrPos(c), "%s unescapes a value outside raw(): escaped literals would reach the output raw without the explicit opt-out", fnKey(fn))
					}
				}
			}
		}
	}
	// 4. raw returns exactly UnescapeString(receiver value)
	if rawFn != nil {
		key := fnKey(rawFn) + "|raw() is exactly html.UnescapeString of the receiver"
		okRaw := false
		for _, b := range rawFn.Blocks {
			for _, in := range b.Instrs {
				st, ok := in.(*ssa.Store)
				if !ok {
					continue
				}
				if fa, ok := st.Addr.(*ssa.FieldAddr); ok && strings.HasSuffix(derefTypeString(fa.X.Type()), "object.Str") {
					if c, ok := st.Val.(*ssa.Call); ok && c.Call.StaticCallee() != nil && fnFullName(c.Call.StaticCallee()) == "html.UnescapeString" && strings.HasSuffix(fieldPathOf(c.Call.Args[0]), ".Value") {
						okRaw = true
					} else {
						okRaw = false
					}
				}
			}
		}
		if okRaw {
			s.OK(rule, key, m.Pos(rawFn.Pos()), "the returned Str.Value is html.UnescapeString(receiver.Value) and nothing else")
		} else {
			s.Violation(rule, key, m.Pos(rawFn.Pos()), "raw() does not return exactly html.UnescapeString(receiver value): the opt-out no longer yields the literal's original text")
		}
	}
	// 5. string literal text reaches values only through the literal evaluator
	for _, fn := range m.ModFns {
		if shortPkg(fnPkgPath(fn)) != "evaluator" || fn.Blocks == nil || fn == litFn {
			continue
		}
		for _, b := range fn.Blocks {
			for _, in := range b.Instrs {
				ld, ok := in.(*ssa.UnOp)
				if !ok {
					continue
				}
				fa, ok := ld.X.(*ssa.FieldAddr)
				if !ok || !strings.HasSuffix(derefTypeString(fa.X.Type()), "ast.StringLiteral") || fieldName(fa.X.Type(), fa.Field) != "Value" {
					continue
				}
				// allowed: stored into Name/Path metadata fields; not into Str/HTML values or buffers
				for _, r := range *ld.Referrers() {
					st, ok := r.(*ssa.Store)
					if !ok {
						continue
					}
					if dfa, ok := st.Addr.(*ssa.FieldAddr); ok {
						tn := derefTypeString(dfa.X.Type())
						fname := fieldName(dfa.X.Type(), dfa.Field)
						key := fmt.Sprintf("%s|literal text stored into %s.%s", fnKey(fn), shortTypeName(tn), fname)
						if (strings.HasSuffix(tn, "object.Str") || strings.HasSuffix(tn, "object.HTML")) && fname == "Value" {
							s.Violation(rule, key, m.InstrPos(st), "%s builds an output value from the raw text of a string literal without escaping it", fnKey(fn))
						} else {
							s.OKTrivial(rule, key, m.InstrPos(st), "metadata (a name), not an output value")
						}
					}
				}
			}
		}
	}
	// 6. the lexer's string scanner only removes the backslash before the quote
	rs := m.Method("lexer", "Lexer", "readString")
	if rs != nil {
		key := fnKey(rs) + "|only backslash-quote is unescaped"
		okRS := true
		n := 0
		// the scanner and the string-to-string helpers of its package it hands the text to
		scan := []*ssa.Function{rs}
		seenScan := map[*ssa.Function]bool{rs: true}
		for i := 0; i < len(scan) && i < 8; i++ {
			for _, b := range scan[i].Blocks {
				for _, in := range b.Instrs {
					c, ok := in.(*ssa.Call)
					if !ok || c.Call.StaticCallee() == nil {
						continue
					}
					sc := c.Call.StaticCallee()
					if seenScan[sc] || sc.Blocks == nil || shortPkg(fnPkgPath(sc)) != "lexer" || sc.Signature.Recv() != nil {
						continue
					}
					res := sc.Signature.Results()
					if res.Len() == 1 && isStringT(res.At(0).Type()) {
						seenScan[sc] = true
						scan = append(scan, sc)
					}
				}
			}
		}
		for _, sf := range scan {
			for _, b := range sf.Blocks {
				for _, in := range b.Instrs {
					c, ok := in.(*ssa.Call)
					if !ok || c.Call.StaticCallee() == nil {
						continue
					}
					name := fnFullName(c.Call.StaticCallee())
					if strings.HasPrefix(name, "strings.Replace") {
						n++
						// old = "\\" + q; new = q (the quote character as a string)
						bo, ok := c.Call.Args[1].(*ssa.BinOp)
						if !ok || !isBackslashConst(bo.X) || !sameConverted(bo.Y, c.Call.Args[2]) {
							okRS = false
						}
					} else if strings.HasPrefix(name, "strings.") || strings.HasPrefix(name, "html.") {
						okRS = false
					}
				}
			}
		}
		if okRS && n == 1 {
			s.OK(rule, key, m.Pos(rs.Pos()), "the literal's text is input[pos:end] with backslash+quote replaced by the quote and no other transformation")
		} else {
			s.Violation(rule, key, m.Pos(rs.Pos()), "readString applies a transformation other than removing the backslash before the quote character: the literal's bytes no longer reach the evaluator unchanged")
		}
	}
}

// sameConverted: the same value, or two conversions of the same value to the same type (go/ssa does not share them).
func sameConverted(a, b ssa.Value) bool {
	if a == b {
		return true
	}
	ca, okA := a.(*ssa.Convert)
	cb, okB := b.(*ssa.Convert)
	return okA && okB && ca.X == cb.X && types.Identical(ca.Type(), cb.Type())
}

func isBackslashConst(v ssa.Value) bool {
	c, ok := v.(*ssa.Const)
	return ok && c.Value != nil && c.Value.Kind() == constant.String && constant.StringVal(c.Value) == "\\"
}

// RunCutset — R-CUTSET (C10): printed values come back byte for byte. strings.Trim / TrimLeft / TrimRight take a SET of
// characters, not a prefix or suffix: a constant cutset of two or more different non-blank characters applied on the
// output path (the String/Dump methods of the object types, the evaluator) removes characters that belong to the value
// — `TrimRight(s, ", ")` meant to drop a trailing separator also eats a trailing comma or blank of the last element.
func (m *Model) RunCutset(s *Sink, rule string) {
	n := 0
	for _, fn := range m.ModFns {
		if fn.Blocks == nil {
			continue
		}
		if sp := shortPkg(fnPkgPath(fn)); sp != "object" && sp != "evaluator" {
			continue
		}
		for _, b := range fn.Blocks {
			for _, in := range b.Instrs {
				c, ok := in.(*ssa.Call)
				if !ok || c.Call.StaticCallee() == nil || len(c.Call.Args) != 2 {
					continue
				}
				name := fnFullName(c.Call.StaticCallee())
				if name != "strings.Trim" && name != "strings.TrimLeft" && name != "strings.TrimRight" {
					continue
				}
				cut, isConst := constOfValue(c.Call.Args[1])
				if !isConst {
					continue // a cutset given by the template (trim built-ins): the set semantics is the documented one
				}
				distinct := map[rune]bool{}
				for _, r := range cut {
					if r != ' ' && r != '\t' && r != '\n' && r != '\r' {
						distinct[r] = true
					}
				}
				blanks := len(cut) > 0 && len(distinct) == 0
				if blanks || (len(distinct) == 1 && len([]rune(cut)) == 1) {
					continue
				}
				n++
				s.Violation(rule, fmt.Sprintf("%s|%s with the character set %q", fnKey(fn), name, cut), m.InstrPos(c),
					"%s calls %s with the constant cutset %q on the output path: every trailing/leading character of that SET is removed, not the separator string — characters that belong to the printed value (a trailing comma or blank of the last element) disappear", fnKey(fn), name, cut)
			}
		}
	}
	if n == 0 {
		s.OK(rule, "object, evaluator|no multi-character constant cutset on the output path", "-", "no call of strings.Trim/TrimLeft/TrimRight with a constant set of several different characters in the object and evaluator packages")
	}
}

// RunObjString — R-ESCAPE (printing): what an object prints is its payload. The String methods of the object package put
// values together (joins, separators, number formatting) and do not rewrite text: no trimming, replacing, case mapping
// or (un)escaping there — a literal that reached an object unchanged must leave it unchanged.
func (m *Model) RunObjString(s *Sink, rule string) {
	rewriting := func(name string) bool {
		for _, p := range []string{"strings.Trim", "strings.Replace", "strings.ToUpper", "strings.ToLower", "strings.ToTitle", "strings.Title", "strings.Map", "strings.Fields", "strings.ToValidUTF8", "bytes.ToValidUTF8", "strings.NewReplacer", "(*strings.Replacer).", "html.", "unicode.", "regexp.", "(*regexp.Regexp)."} {
			if strings.HasPrefix(name, p) {
				return true
			}
		}
		return false
	}
	n := 0
	for _, fn := range m.ModFns {
		if fn.Blocks == nil || shortPkg(fnPkgPath(fn)) != "object" || fn.Signature.Recv() == nil || canonFnName(fn) != "String" {
			continue
		}
		n++
		bad := ""
		for _, h := range m.helpersOf(fn) {
			for _, b := range h.Blocks {
				for _, in := range b.Instrs {
					if c, ok := in.(ssa.CallInstruction); ok {
						if sc := c.Common().StaticCallee(); sc != nil && rewriting(fnFullName(sc)) && bad == "" {
							bad = fnFullName(sc) + " at " + m.InstrPos(in)
						}
					}
				}
			}
		}
		key := fnKey(fn) + "|prints its payload without rewriting it"
		if bad != "" {
			s.Violation(rule, key, m.Pos(fn.Pos()), "%s rewrites text while printing (%s): a literal that reached this object byte for byte does not leave it that way (leading blanks trimmed, characters replaced, ...)", fnKey(fn), bad)
		} else {
			s.OK(rule, key, m.Pos(fn.Pos()), "no trimming, replacing, case mapping or escaping call in the method or its private helpers")
		}
	}
	if n < 8 {
		s.Undecided(rule, "object|String methods", "-", "only %d String methods found in package object", n)
	}
}
