package main

// rule_layout.go — R-LAYOUT (C06).

import (
	"fmt"
	"go/constant"
	"go/token"
	"go/types"
	"sort"
	"strings"

	"golang.org/x/tools/go/ssa"
)

func (m *Model) RunLayout(s *Sink, rule string) {
	check := func(key, pos string, ok bool, okMsg, badMsg string) {
		if ok {
			s.OK(rule, key, pos, "%s", okMsg)
		} else {
			s.Violation(rule, key, pos, "%s", badMsg)
		}
	}
	// ApplyInserts
	ai := m.Method("ast", "Program", "ApplyInserts")
	cui := m.Method("ast", "Program", "checkUndefinedInsert")
	// the search for an insert that names no reserve may also be a function that returns what it found and leaves the
	// error to ApplyInserts: the ast function ApplyInserts hands its inserts to
	verdictIdx := -1 // result of cui that says "found one" (a bool), when it does not return the error itself
	if ai != nil && cui == nil {
		for _, b := range ai.Blocks {
			for _, in := range b.Instrs {
				c, ok := in.(*ssa.Call)
				if !ok || c.Call.StaticCallee() == nil || !inPkg(c.Call.StaticCallee(), "ast") || c.Call.StaticCallee().Blocks == nil {
					continue
				}
				for _, a := range c.Call.Args {
					if a == ssa.Value(ai.Params[1]) { // the inserts
						res := c.Call.StaticCallee().Signature.Results()
						if res.Len() >= 1 && isBoolT(res.At(res.Len()-1).Type()) {
							cui, verdictIdx = c.Call.StaticCallee(), res.Len()-1
						}
					}
				}
			}
		}
	}
	casesDecided := false
	if ai != nil {
		if bad, decided := m.applyInsertsCases(ai); decided {
			casesDecided = true
			fk := fnKey(ai)
			if bad == "" {
				s.OK(rule, fk+"|an insert without a reserve is an error", m.Pos(ai.Pos()), "case evaluation of ApplyInserts on a layout with the reserves a, b and c: every subset of {a, b, c} as inserts links each reserve to the insert of its own name (the others stay empty) and returns no error; {a, zzz}, {c, zzz} and {zzz} return an error")
				s.OK(rule, fk+"|a reserve is filled by the insert of the same name", m.Pos(ai.Pos()), "case evaluation (see above)")
			} else {
				s.Violation(rule, fk+"|an insert without a reserve is an error", m.Pos(ai.Pos()), "%s", bad)
			}
		}
	}
	if casesDecided {
		// decided by cases; the structural reading below is the fallback
	} else if ai == nil || cui == nil {
		s.Undecided(rule, "ApplyInserts", "-", "ApplyInserts / checkUndefinedInsert not found")
	} else {
		fk := fnKey(ai)
		// the undefined-insert check comes first and its error is returned
		var chk *ssa.Call
		for _, c := range callsToFn(ai, cui) {
			chk = c
		}
		okChk := false
		if chk != nil {
			for _, b := range ai.Blocks {
				if ret, ok := b.Instrs[len(b.Instrs)-1].(*ssa.Return); ok && ret.Results[0] == ssa.Value(chk) {
					okChk = true
				}
				// the searching form: under "found one" an error is returned
				if ret, ok := b.Instrs[len(b.Instrs)-1].(*ssa.Return); ok && verdictIdx >= 0 && !isNilConst(ret.Results[0]) {
					for _, f := range expandFacts(factsAt(b)) {
						if ex, isEx := f.Cond.(*ssa.Extract); isEx && f.Holds && ex.Tuple == ssa.Value(chk) && ex.Index == verdictIdx {
							okChk = true
						}
					}
				}
			}
		}
		var link *ssa.Store
		for _, b := range ai.Blocks {
			for _, in := range b.Instrs {
				if st, ok := in.(*ssa.Store); ok {
					if fa, ok := st.Addr.(*ssa.FieldAddr); ok && fieldName(fa.X.Type(), fa.Field) == "Insert" {
						link = st
					}
				}
			}
		}
		check(fk+"|an insert without a reserve is an error", m.Pos(ai.Pos()), okChk && (link == nil || chk == nil || m.Ctx(ai).instrDominates(chk, link)),
			"checkUndefinedInsert runs before any linking and its error is returned",
			"ApplyInserts does not return the error of the undefined-insert check before linking: an insert that names no reserve is silently dropped")
		// same-name pairing
		okPair := false
		if link != nil {
			if ex, ok := link.Val.(*ssa.Extract); ok && ex.Index == 0 {
				if lk, ok := ex.Tuple.(*ssa.Lookup); ok && lk.CommaOk && strings.HasSuffix(fieldPathOf(lk.Index), ".Name.Value") {
					rk, _, _ := pathOf(stripIface(lk.Index))
					fa := link.Addr.(*ssa.FieldAddr)
					if rk == fa.X {
						// hit edge
						for _, f := range expandFacts(factsAt(link.Block())) {
							if e2, ok := f.Cond.(*ssa.Extract); ok && f.Holds && e2.Tuple == ssa.Value(lk) && e2.Index == 1 {
								okPair = true
							}
						}
					}
				}
			}
		}
		check(fk+"|a reserve is filled by the insert of the same name", m.Pos(ai.Pos()), okPair,
			"reserve.Insert = inserts[reserve.Name.Value] on the hit edge of that lookup",
			"reserves are not linked to the insert looked up under the reserve's own name (e.g. by position): a page's content would appear in the wrong place")
	}
	// every insert is checked: "no undefined insert" (nil) is returned only after the range over the inserts is exhausted
	if cui != nil {
		okAll, n := true, 0
		for _, b := range cui.Blocks {
			ret, isRet := b.Instrs[len(b.Instrs)-1].(*ssa.Return)
			if !isRet {
				continue
			}
			if verdictIdx >= 0 {
				// "found none": the verdict result is false
				k, isK := retSource(ret, verdictIdx).(*ssa.Const)
				if !isK || k.Value == nil || k.Value.Kind() != constant.Bool || constant.BoolVal(k.Value) {
					continue
				}
			} else if !isNilConst(ret.Results[0]) {
				continue
			}
			n++
			exhausted := allPathsEstablish(b, func(f Fact) bool {
				bo, ok := f.Cond.(*ssa.BinOp)
				if !ok || f.Holds || bo.Op != token.LSS {
					return false
				}
				// rangeindex+1 < len(keys)
				if add, ok := bo.X.(*ssa.BinOp); ok && add.Op == token.ADD {
					if phi, ok := add.X.(*ssa.Phi); ok && phi.Comment == "rangeindex" {
						return true
					}
				}
				return false
			}, 0)
			// a map range: exhaustion is the false edge of the iterator's ok
			if !exhausted {
				exhausted = allPathsEstablish(b, func(f Fact) bool {
					ex, ok := f.Cond.(*ssa.Extract)
					if !ok || f.Holds || ex.Index != 0 {
						return false
					}
					_, isNext := ex.Tuple.(*ssa.Next)
					return isNext
				}, 0)
			}
			if !exhausted {
				okAll = false
			}
		}
		check(fnKey(cui)+"|every insert is checked against the reserves", m.Pos(cui.Pos()), okAll && n > 0,
			"nil is returned only on the exhaustion edge of the range over the inserts",
			"checkUndefinedInsert can return \"no undefined insert\" before all inserts were examined (e.g. break instead of continue): an insert that names no reserve is silently dropped when another insert is valid")
	}
	// duplicate inserts are rejected before registration
	pis := m.Method("parser", "Parser", "parseInsertStmt")
	cdi := m.Method("parser", "Parser", "checkDuplicateInserts")
	if pis != nil && cdi != nil {
		// every write of the parser's insert table (wherever it lives: the statement parser or a helper it calls)
		// happens under "the duplicate test was negative": the false outcome of a call that looks the name up in
		// the table, or the miss outcome of a comma-ok lookup in it
		looksUp := func(fn *ssa.Function) bool {
			if fn == nil || fn.Blocks == nil {
				return false
			}
			for _, b := range fn.Blocks {
				for _, in := range b.Instrs {
					if lk, isLk := in.(*ssa.Lookup); isLk && strings.HasSuffix(fieldPathOf(lk.X), ".inserts") {
						return true
					}
				}
			}
			return false
		}
		guard := func(b *ssa.BasicBlock) bool {
			for _, f := range expandFacts(factsAt(b)) {
				if f.Holds {
					continue
				}
				if c, isC := f.Cond.(*ssa.Call); isC && (c.Call.StaticCallee() == cdi || looksUp(c.Call.StaticCallee())) {
					return true
				}
				if ex, isEx := f.Cond.(*ssa.Extract); isEx && ex.Index == 1 {
					if lk, isLk := ex.Tuple.(*ssa.Lookup); isLk && strings.HasSuffix(fieldPathOf(lk.X), ".inserts") {
						return true
					}
				}
			}
			return false
		}
		n, ok := 0, true
		for _, fn := range m.ModFns {
			if fn.Blocks == nil || shortPkg(fnPkgPath(fn)) != "parser" {
				continue
			}
			for _, b := range fn.Blocks {
				for _, in := range b.Instrs {
					mu, isMu := in.(*ssa.MapUpdate)
					if !isMu || !strings.HasSuffix(fieldPathOf(mu.Map), ".inserts") {
						continue
					}
					n++
					if g, _ := m.guardedLifting(mu, guard, 0); !g {
						ok = false
					}
				}
			}
		}
		// the test and the registration are not interrupted by something that can itself register an insert: a parse
		// function that is re-entered while the body of the insert is parsed registers the inner insert first, the
		// outer one then overwrites it — and neither test has seen the other
		{
			registers := map[*ssa.Function]bool{} // functions of the parser from which a write of the insert table is reachable
			for _, fn := range m.ModFns {
				if fn.Blocks == nil || shortPkg(fnPkgPath(fn)) != "parser" {
					continue
				}
				for _, b := range fn.Blocks {
					for _, in := range b.Instrs {
						if mu, isMu := in.(*ssa.MapUpdate); isMu && strings.HasSuffix(fieldPathOf(mu.Map), ".inserts") {
							registers[fn] = true
						}
					}
				}
			}
			for changed := true; changed; {
				changed = false
				for _, fn := range m.ModFns {
					if fn.Blocks == nil || shortPkg(fnPkgPath(fn)) != "parser" || registers[fn] {
						continue
					}
					if node := m.CG.Nodes[fn]; node != nil {
						for _, e := range node.Out {
							if registers[e.Callee.Func] {
								registers[fn] = true
								changed = true
								break
							}
						}
					}
				}
			}
			k := 0
			perFn := map[*ssa.Function]int{}
			nInt := map[*ssa.Function]int{}
			for _, fn := range m.ModFns {
				if fn.Blocks == nil || shortPkg(fnPkgPath(fn)) != "parser" {
					continue
				}
				ctx := m.Ctx(fn)
				for _, b := range fn.Blocks {
					for _, in := range b.Instrs {
						mu, isMu := in.(*ssa.MapUpdate)
						if !isMu || !strings.HasSuffix(fieldPathOf(mu.Map), ".inserts") {
							continue
						}
						k++
						// the duplicate tests of this function that dominate the registration
						interrupted, interruptedBy := "", ""
						cleanTest := false // some dominating test has nothing re-entrant between it and the registration
						for _, tb := range fn.Blocks {
							for _, ti := range tb.Instrs {
								tc, isC := ti.(*ssa.Call)
								if !isC || tc.Call.StaticCallee() == nil || !(tc.Call.StaticCallee() == cdi || looksUp(tc.Call.StaticCallee())) || !ctx.instrDominates(tc, mu) {
									continue
								}
								before := interrupted
								interrupted = ""
								for _, cb := range fn.Blocks {
									for _, ci := range cb.Instrs {
										cc, isCC := ci.(*ssa.Call)
										if !isCC || cc == tc {
											continue
										}
										if !ctx.instrDominates(tc, cc) {
											continue
										}
										// on a path to the registration (an `if hasBody` around the body keeps it from dominating)
										onPath := ctx.instrDominates(cc, mu)
										if !onPath && cc.Block() != mu.Block() {
											seenB := map[*ssa.BasicBlock]bool{}
											st := []*ssa.BasicBlock{cc.Block()}
											for len(st) > 0 && !onPath {
												x := st[len(st)-1]
												st = st[:len(st)-1]
												if seenB[x] {
													continue
												}
												seenB[x] = true
												for _, nx := range x.Succs {
													if nx == mu.Block() {
														onPath = true
													}
													st = append(st, nx)
												}
											}
										}
										if !onPath {
											continue
										}
										may := false
										if sc := cc.Call.StaticCallee(); sc != nil {
											may = registers[sc]
										} else if node := m.CG.Nodes[fn]; node != nil {
											for _, e := range node.Out {
												if e.Site == ssa.CallInstruction(cc) && registers[e.Callee.Func] {
													may = true
												}
											}
										}
										if may && interrupted == "" {
											interrupted = fmt.Sprintf("%s at %s", calleeName(&cc.Call), m.InstrPos(cc))
											interruptedBy = calleeName(&cc.Call)
											if sc := cc.Call.StaticCallee(); sc != nil {
												interruptedBy = canonFnName(sc)
											}
										}
									}
								}
								if interrupted == "" {
									cleanTest = true
								} else if before != "" {
									interrupted = before
								}
							}
						}
						if cleanTest {
							interrupted = ""
						}
						perFn[fn]++
						key := fmt.Sprintf("%s|nothing that can register an insert runs between the duplicate test and the registration #%d", fnKey(fn), perFn[fn])
						if interrupted != "" {
							_ = interruptedBy
							nInt[fn]++
							key = fmt.Sprintf("%s|nothing that can register an insert runs between the duplicate test and the registration (re-entered)", fnKey(fn))
							if nInt[fn] > 1 {
								key += fmt.Sprintf(" #%d", nInt[fn])
							}
						}
						if interrupted == "" {
							s.OK(rule, key, m.InstrPos(mu), "no call between the test and this registration reaches a write of the insert table")
						} else {
							s.Violation(rule, key, m.InstrPos(mu), "between the duplicate test and this registration %s calls %s, from which the registration of another insert is reachable (the body of an insert is parsed by the statement parser): an insert of the same name nested in the body registers first and is then overwritten — two inserts with one name, no error", fnKey(fn), interrupted)
						}
					}
				}
			}
		}
		check(fnKey(pis)+"|two inserts with one name are an error", m.Pos(pis.Pos()), ok && n > 0,
			"every registration of an insert is dominated by the false outcome of checkDuplicateInserts",
			"an insert can be registered without the duplicate check: the second insert of a name silently replaces the first")
		// checkDuplicateInserts records an error on the hit edge
		okErr := false
		for _, b := range cdi.Blocks {
			if ret, isRet := b.Instrs[len(b.Instrs)-1].(*ssa.Return); isRet {
				if k, isK := ret.Results[0].(*ssa.Const); isK && k.Value != nil && k.Value.String() == "true" {
					for _, in := range b.Instrs {
						if c, isC := in.(*ssa.Call); isC && c.Call.StaticCallee() != nil && m.recordsParserError(c.Call.StaticCallee()) {
							okErr = true
						}
					}
				}
			}
		}
		check(fnKey(cdi)+"|reports the duplicate", m.Pos(cdi.Pos()), okErr, "the duplicate outcome records a parser error", "a duplicate insert is detected but no error is recorded")
		// "not a duplicate" is answered only where the table has no insert of that name
		okMiss, nFalse := true, 0
		for _, b := range cdi.Blocks {
			ret, isRet := b.Instrs[len(b.Instrs)-1].(*ssa.Return)
			if !isRet || len(ret.Results) != 1 {
				continue
			}
			if k, isK := ret.Results[0].(*ssa.Const); !isK || k.Value == nil || k.Value.String() != "false" {
				continue
			}
			nFalse++
			miss := false
			for _, f := range expandFacts(factsAt(b)) {
				if ex, isEx := f.Cond.(*ssa.Extract); isEx && ex.Index == 1 && !f.Holds {
					if lk, isLk := ex.Tuple.(*ssa.Lookup); isLk && strings.HasSuffix(fieldPathOf(lk.X), ".inserts") {
						miss = true
					}
				}
				if bo, isBo := f.Cond.(*ssa.BinOp); isBo && (bo.Op == token.EQL || bo.Op == token.NEQ) && (bo.Op == token.EQL) == f.Holds {
					for _, pr := range [][2]ssa.Value{{bo.X, bo.Y}, {bo.Y, bo.X}} {
						if lk, isLk := pr[0].(*ssa.Lookup); isLk && isNilConst(pr[1]) && strings.HasSuffix(fieldPathOf(lk.X), ".inserts") {
							miss = true
						}
					}
				}
			}
			if !miss {
				okMiss = false
			}
		}
		if nFalse > 0 {
			check(fnKey(cdi)+"|answers \"no duplicate\" only when the name is free", m.Pos(cdi.Pos()), okMiss, "every `return false` lies on the miss edge of the lookup in the table of inserts", "the duplicate check can answer \"no duplicate\" without having looked the name up (an early return under another condition): two inserts with one name are accepted there and the later one silently replaces the earlier")
		}
	}
	// ApplyLayout replaces the page's statements by the use statement
	al := m.Method("ast", "Program", "ApplyLayout")
	if al != nil {
		okStmts, okProg := false, false
		for _, b := range al.Blocks {
			for _, in := range b.Instrs {
				st, isSt := in.(*ssa.Store)
				if !isSt {
					continue
				}
				fa, isFa := st.Addr.(*ssa.FieldAddr)
				if !isFa {
					continue
				}
				switch fieldName(fa.X.Type(), fa.Field) {
				case "Statements":
					// a fresh one-element slice holding p.UseStmt
					if sl, isSl := st.Val.(*ssa.Slice); isSl {
						if arr, isAl := sl.X.(*ssa.Alloc); isAl {
							elems := variadicElems(sl)
							_ = arr
							if len(elems) == 1 && strings.HasSuffix(fieldPathOf(elems[0]), ".UseStmt") {
								okStmts = true
							}
						}
					}
				case "Program":
					if st.Val == ssa.Value(al.Params[1]) {
						okProg = true
					}
				}
			}
		}
		// by cases (the structural reading above is the fallback): ApplyLayout run on a page with two statements and a
		// use statement: afterwards the page's statement list is exactly [the use statement], and it carries the layout
		if stmtsOK, progOK, decided := m.applyLayoutCase(al); decided {
			okStmts, okProg = stmtsOK, progOK
		}
		check(fnKey(al)+"|page text outside inserts is dropped", m.Pos(al.Pos()), okStmts,
			"the page's statements are replaced by the single use statement",
			"ApplyLayout does not replace the page's statements by exactly the use statement: page text outside inserts would be rendered")
		check(fnKey(al)+"|the use statement carries the layout", m.Pos(al.Pos()), okProg, "UseStmt.Program = layout program", "the layout program is not attached to the use statement")
	}
	// the layout flag is set before applying; a layout that uses a layout is rejected
	// anchored on what it does: the (unique) library function that calls ApplyLayout, whatever its name or package
	var alp *ssa.Function
	if al != nil {
		if node := m.CG.Nodes[al]; node != nil {
			for _, e := range node.In {
				if c := e.Caller.Func; m.InModule(c) && !isUserPkg(fnPkgPath(c)) && !isSynthetic(c) {
					if alp != nil && alp != c {
						alp = nil
						break
					}
					alp = c
				}
			}
		}
	}
	if alp == nil {
		alp = m.PkgFunc("textwire", "applyLayoutToProgram")
	}
	if alp != nil {
		var flag ssa.Instruction
		var apply ssa.Instruction
		var inserts ssa.Instruction
		for _, b := range alp.Blocks {
			for _, in := range b.Instrs {
				switch x := in.(type) {
				case *ssa.Store:
					if fa, ok := x.Addr.(*ssa.FieldAddr); ok && fieldName(fa.X.Type(), fa.Field) == "IsLayout" {
						if k, ok := x.Val.(*ssa.Const); ok && k.Value != nil && k.Value.String() == "true" {
							flag = in
						}
					}
				case *ssa.Call:
					if x.Call.StaticCallee() == al {
						apply = in
					}
					if x.Call.StaticCallee() == ai {
						inserts = in
					}
				}
			}
		}
		ctx := m.Ctx(alp)
		check(fnKey(alp)+"|layout is marked, linked, then applied", m.Pos(alp.Pos()), flag != nil && apply != nil && inserts != nil && ctx.instrDominates(flag, apply) && ctx.instrDominates(inserts, apply),
			"IsLayout = true and ApplyInserts both dominate ApplyLayout",
			"applyLayoutToProgram does not mark the layout and link the inserts before applying it to the page")
		// ApplyInserts error returned
		okRet := false
		if c, ok := inserts.(*ssa.Call); ok {
			for _, b := range alp.Blocks {
				if ret, isRet := b.Instrs[len(b.Instrs)-1].(*ssa.Return); isRet && ret.Results[0] == ssa.Value(c) {
					okRet = true
				}
			}
		}
		check(fnKey(alp)+"|linking errors fail the load", m.Pos(alp.Pos()), okRet, "the error of ApplyInserts is returned", "the error of ApplyInserts is not returned")
	}
	eu := m.Method("evaluator", "Evaluator", "evalUseStmt")
	if eu != nil {
		ok := false
		for _, b := range eu.Blocks {
			ret, isRet := b.Instrs[len(b.Instrs)-1].(*ssa.Return)
			if !isRet {
				continue
			}
			c, isC := stripIface(ret.Results[0]).(*ssa.Call)
			if !isC || c.Call.StaticCallee() == nil || canonFnName(c.Call.StaticCallee()) != "newError" {
				continue
			}
			msg, _ := constOfValue(c.Call.Args[2])
			if !strings.Contains(msg, "not allowed in a layout") {
				continue
			}
			isLayout, hasUse := false, false
			ok2 := allPathsEstablish(b, func(f Fact) bool { return f.Holds && strings.HasSuffix(fieldPathOf(f.Cond), ".IsLayout") }, 0)
			isLayout = ok2
			hasUse = allPathsEstablish(b, func(f Fact) bool {
				cc, okc := f.Cond.(*ssa.Call)
				return okc && f.Holds && cc.Call.StaticCallee() != nil && canonFnName(cc.Call.StaticCallee()) == "HasUseStmt"
			}, 0)
			ok = isLayout && hasUse
		}
		// by cases (the structural reading above is the fallback): Eval of a use statement whose program is / is not a
		// layout and has / has no @use of its own
		if bad, decided := m.nestedLayoutCases(); decided {
			if bad == "" {
				s.OK(rule, fnKey(eu)+"|a layout that uses a layout is an error", m.Pos(eu.Pos()), "case evaluation of Eval on a use statement for the four combinations of IsLayout and \"has a @use of its own\": an error object exactly when both hold, the layout's program evaluated otherwise")
			} else {
				s.Violation(rule, fnKey(eu)+"|a layout that uses a layout is an error", m.Pos(eu.Pos()), "%s", bad)
			}
		} else {
			check(fnKey(eu)+"|a layout that uses a layout is an error", m.Pos(eu.Pos()), ok,
				"the error is returned exactly under Program.IsLayout && Program.HasUseStmt()",
				"a layout that itself declares @use is not rejected")
		}
	}
	// the layout itself is evaluated with the data of the call: no extra scope, no extra variables
	if eu := m.Method("evaluator", "Evaluator", "evalUseStmt"); eu != nil {
		envParam := eu.Params[len(eu.Params)-1]
		calls := evalCallsOnInlined(m, eu, ".Program")
		okEnv := len(calls) > 0
		for _, c := range calls {
			arg := c.Call.Args[2]
			for _, r := range m.resolveUp(arg, eu, 0) {
				if r != ssa.Value(envParam) {
					okEnv = false
				}
			}
		}
		check(fnKey(eu)+"|the layout is evaluated with the data of the call", m.Pos(eu.Pos()), okEnv,
			"Eval(node.Program, env) receives the environment of the render call itself",
			"the layout is not evaluated in the environment of the render call (a scope with extra variables shadows the caller's data, e.g. a key named like the extra variable)")
	}
	// evalReserveStmt: nil insert -> NIL; block/argument evaluated with the call's environment
	er := m.Method("evaluator", "Evaluator", "evalReserveStmt")
	if er != nil {
		envParam := er.Params[len(er.Params)-1]
		blk := evalCallsOn(m, er, ".Insert.Block")
		arg := evalCallsOn(m, er, ".Insert.Argument")
		okEnv := len(blk) == 1 && len(arg) == 1 && blk[0].Call.Args[2] == ssa.Value(envParam) && arg[0].Call.Args[2] == ssa.Value(envParam)
		check(fnKey(er)+"|insert content is evaluated with the data of the call", m.Pos(er.Pos()), okEnv,
			"Eval(node.Insert.Block, env) and Eval(node.Insert.Argument, env) use the environment of the render call",
			"the insert's block or expression is not evaluated in the environment of the render call")
		// what fills the reserve is the value of that evaluation, nothing else (a literal taken over unevaluated
		// would skip the escaping every literal undergoes)
		okVal, nSt := true, 0
		for _, h := range m.helpersOf(er) {
			for _, b := range h.Blocks {
				for _, in := range b.Instrs {
					st, isSt := in.(*ssa.Store)
					if !isSt {
						continue
					}
					fa, isFA := st.Addr.(*ssa.FieldAddr)
					if !isFA || !strings.HasSuffix(derefTypeString(fa.X.Type()), "object.Reserve") {
						continue
					}
					fname := fieldName(fa.X.Type(), fa.Field)
					want := map[string]string{"Argument": ".Insert.Argument", "Content": ".Insert.Block"}[fname]
					if want == "" {
						continue
					}
					nSt++
					fromEval := false
					for _, r := range m.resolveUp(stripIface(st.Val), er, 0) {
						v := stripIface(r)
						if ex, isEx := v.(*ssa.Extract); isEx {
							v = ex.Tuple
						}
						if c, isC := v.(*ssa.Call); isC && isEvalCall(m, c) && strings.HasSuffix(fieldPathOf(stripIface(c.Call.Args[1])), want) {
							fromEval = true
						} else {
							fromEval = false
							break
						}
					}
					if !fromEval {
						okVal = false
					}
				}
			}
		}
		check(fnKey(er)+"|the reserve is filled with the value of the insert's expression or block", m.Pos(er.Pos()), okVal && nSt >= 2,
			"Reserve.Argument and Reserve.Content only ever receive the results of Eval(node.Insert.Argument) / Eval(node.Insert.Block)",
			"the reserve's Argument or Content is filled with something other than the evaluated insert (e.g. a literal taken over unevaluated, which skips its escaping)")
		okNil := false
		for _, b := range er.Blocks {
			if ret, isRet := b.Instrs[len(b.Instrs)-1].(*ssa.Return); isRet {
				if ld, isLd := stripIface(ret.Results[0]).(*ssa.UnOp); isLd {
					if g, isG := ld.X.(*ssa.Global); isG && canonGlobalName(g) == "NIL" {
						for _, f := range expandFacts(factsAt(b)) {
							if bo, isBo := f.Cond.(*ssa.BinOp); isBo && strings.HasSuffix(fieldPathOf(bo.X), ".Insert") && isNilConst(bo.Y) && (bo.Op == token.EQL) == f.Holds {
								okNil = true
							}
						}
					}
				}
			}
		}
		check(fnKey(er)+"|a reserve without an insert renders nothing", m.Pos(er.Pos()), okNil,
			"NIL is returned exactly when node.Insert == nil",
			"a reserve the page does not fill does not evaluate to the empty NIL object")
		m.reserveNilCase(s, rule)
	}
	// reserves are registered by the parser wherever they nest
	prs := m.Method("parser", "Parser", "parseReserveStmt")
	if prs != nil {
		ok := false
		for _, b := range prs.Blocks {
			for _, in := range b.Instrs {
				if mu, isMu := in.(*ssa.MapUpdate); isMu && strings.HasSuffix(fieldPathOf(mu.Map), ".reserves") && strings.HasSuffix(fieldPathOf(mu.Key), ".Name.Value") {
					ok = true
				}
				// ... or under the Value of the very name node that becomes the statement's Name
				if mu, isMu := in.(*ssa.MapUpdate); isMu && strings.HasSuffix(fieldPathOf(mu.Map), ".reserves") {
					if ld, isLd := mu.Key.(*ssa.UnOp); isLd {
						if fa, isFA := ld.X.(*ssa.FieldAddr); isFA && fieldName(fa.X.Type(), fa.Field) == "Value" {
							for _, b2 := range prs.Blocks {
								for _, in2 := range b2.Instrs {
									if st, isSt := in2.(*ssa.Store); isSt && st.Val == fa.X {
										if fa2, isFA2 := st.Addr.(*ssa.FieldAddr); isFA2 && fieldName(fa2.X.Type(), fa2.Field) == "Name" {
											ok = true
										}
									}
								}
							}
						}
					}
				}
			}
		}
		if !ok {
			// ... or in a helper the statement is handed to
			m.walkInlined(prs, 2, func(in ssa.Instruction, resolve func(ssa.Value) ssa.Value, depth int) {
				mu, isMu := in.(*ssa.MapUpdate)
				if !isMu || depth == 0 || !strings.HasSuffix(fieldPathOf(mu.Map), ".reserves") || !strings.HasSuffix(fieldPathOf(mu.Key), ".Name.Value") {
					return
				}
				if root, _, okP := pathOf(mu.Key); okP {
					if _, isAlloc := resolve(root).(*ssa.Alloc); isAlloc && resolve(mu.Value) == resolve(root) {
						ok = true // the statement built here, under its own name
					}
				}
			})
		}
		check(fnKey(prs)+"|reserves are registered by name at any nesting depth", m.Pos(prs.Pos()), ok,
			"parseReserveStmt (reached from parseStatement at any depth) stores the statement into the parser-level table under its name",
			"reserve statements are not registered in the parser-level table")
	}
	// alias: ~name means <dir>/name
	// the alias function is found by what it does: the parser function that tests the first byte of a name against '~'
	var pas *ssa.Function
	for _, fn := range m.ModFns {
		if fn.Blocks == nil || shortPkg(fnPkgPath(fn)) != "parser" {
			continue
		}
		for _, b := range fn.Blocks {
			for _, in := range b.Instrs {
				if bo, isBo := in.(*ssa.BinOp); isBo && (bo.Op == token.EQL || bo.Op == token.NEQ) {
					if ix, isIx := bo.X.(*ssa.Index); isIx {
						if k, isK := ix.Index.(*ssa.Const); isK && k.Value != nil && k.Int64() == 0 {
							if c, isC := bo.Y.(*ssa.Const); isC && c.Value != nil && c.Int64() == '~' {
								pas = fn
							}
						}
					}
				}
			}
		}
	}
	if pas == nil {
		s.Violation(rule, "parser|~ alias", "-", "no parser function tests the first character of a name against '~': the alias for the layouts/components directories is not expanded")
	} else {
		want := map[string]string{"parseUseStmt": "layouts", "parseComponentStmt": "components"}
		if node := m.CG.Nodes[pas]; node != nil {
			for _, e := range node.In {
				caller := e.Caller.Func
				w, known := want[canonFnName(caller)]
				if !known {
					continue
				}
				got := ""
				for _, a := range e.Site.Common().Args {
					if k, isK := constOfValue(a); isK {
						got = k
					}
				}
				check(fnKey(caller)+"|~ stands for "+w+"/", m.InstrPos(e.Site), got == w, "the alias function is called with \""+w+"\"", "the ~ alias is expanded to \""+got+"/\" instead of \""+w+"/\"")
			}
		}
		// only a leading ~ is rewritten
		okLead := false
		for _, b := range pas.Blocks {
			for _, in := range b.Instrs {
				if bo, isBo := in.(*ssa.BinOp); isBo && (bo.Op == token.EQL || bo.Op == token.NEQ) {
					if ix, isIx := bo.X.(*ssa.Index); isIx {
						if k, isK := ix.Index.(*ssa.Const); isK && k.Value != nil && k.Int64() == 0 {
							if c, isC := bo.Y.(*ssa.Const); isC && c.Value != nil && c.Int64() == '~' {
								okLead = true
							}
						}
					}
				}
			}
		}
		check(fnKey(pas)+"|only a leading ~ is an alias", m.Pos(pas.Pos()), okLead, "the rewrite is guarded by name[0] == '~'", "the alias rewrite is not guarded by a test of the first character")
	}
}

func callsToFn(fn, callee *ssa.Function) []*ssa.Call {
	var out []*ssa.Call
	for _, b := range fn.Blocks {
		for _, in := range b.Instrs {
			if c, ok := in.(*ssa.Call); ok && c.Call.StaticCallee() == callee {
				out = append(out, c)
			}
		}
	}
	return out
}

// reserveNilCase: Eval is run on a reserve statement whose Insert is nil, with an evaluator and a scope about which
// nothing is known: whatever the evaluator's settings are, the result is the nil object (or an empty text). A reserve
// that leaves a marker behind in some mode ("<!-- reserve 'x' is empty -->" in debug mode) is not "replaced by nothing".
func (m *Model) reserveNilCase(s *Sink, rule string) {
	ev := m.Method("evaluator", "Evaluator", "Eval")
	rt := m.namedType("ast", "ReserveStmt")
	nilT, htmlT, strT := m.namedType("object", "Nil"), m.namedType("object", "HTML"), m.namedType("object", "Str")
	key := "evaluator.Eval|a reserve without an insert evaluates to nothing, whatever the settings"
	if ev == nil || rt == nil || nilT == nil {
		s.Undecided(rule, key, "-", "Eval / ast.ReserveStmt / object.Nil not found")
		return
	}
	fIns := -1
	st := rt.Underlying().(*types.Struct)
	for i := 0; i < st.NumFields(); i++ {
		if canonFieldName(rt, i, st.Field(i).Name()) == "Insert" {
			fIns = i
		}
	}
	if fIns < 0 {
		s.Undecided(rule, key, "-", "ast.ReserveStmt.Insert not found")
		return
	}
	node := &iStruct{typ: rt, fields: map[int]any{fIns: iNil{}}}
	ip := &Interp{m: m, useGlobals: true}
	res, known := ip.Run(ev, []any{iObj{"evaluator"}, node, iObj{"env"}})
	if ip.stuck != "" || len(ip.lost) > 0 || !known {
		why := ip.stuck
		if why == "" && len(ip.lost) > 0 {
			why = fnKey(ip.lost[0]) + " could not be evaluated"
		}
		s.Undecided(rule, key, m.Pos(ev.Pos()), "what a reserve without an insert evaluates to depends on something other than the statement (%s): it is nothing only in some configurations", why)
		return
	}
	o, isO := res.(*iStruct)
	empty := isO && o.typ == nilT
	if isO && (o.typ == htmlT || o.typ == strT) {
		for _, v := range o.fields {
			if c, isC := v.(constant.Value); isC && c.Kind() == constant.String && constant.StringVal(c) == "" {
				empty = true
			}
		}
	}
	if empty {
		s.OK(rule, key, m.Pos(ev.Pos()), "case evaluation of Eval on a ReserveStmt with Insert == nil and an unknown evaluator: the nil object")
	} else {
		s.Violation(rule, key, m.Pos(ev.Pos()), "Eval of a reserve statement without an insert yields %s, not the nil object: the reserve is not replaced by nothing", describeAny(res))
	}
}

func describeAny(v any) string {
	switch x := v.(type) {
	case *iStruct:
		if x.typ != nil {
			return "a " + x.typ.Obj().Name() + " object"
		}
	case nil:
		return "an unknown value"
	}
	return fmt.Sprintf("%v", v)
}

// nestedLayoutCases: Eval on a use statement whose program is / is not marked as a layout and has / has not a use
// statement of its own. decided=false when the evaluation cannot be followed.
func (m *Model) nestedLayoutCases() (bad string, decided bool) {
	ev := m.Method("evaluator", "Evaluator", "Eval")
	useT, progT, errT := m.namedType("ast", "UseStmt"), m.namedType("ast", "Program"), m.namedType("object", "Error")
	if ev == nil || useT == nil || progT == nil || errT == nil {
		return "", false
	}
	fieldIdx := func(t *types.Named, name string) int {
		st := t.Underlying().(*types.Struct)
		for i := 0; i < st.NumFields(); i++ {
			if canonFieldName(t, i, st.Field(i).Name()) == name {
				return i
			}
		}
		return -1
	}
	fProg, fIsLayout, fUse := fieldIdx(useT, "Program"), fieldIdx(progT, "IsLayout"), fieldIdx(progT, "UseStmt")
	if fProg < 0 || fIsLayout < 0 || fUse < 0 {
		return "", false
	}
	for _, isLayout := range []bool{true, false} {
		for _, hasUse := range []bool{true, false} {
			var inner any = iNil{}
			if hasUse {
				inner = &iStruct{typ: useT, fields: map[int]any{}}
			}
			prog := &iStruct{typ: progT, fields: map[int]any{fIsLayout: constant.MakeBool(isLayout), fUse: inner}}
			node := &iStruct{typ: useT, fields: map[int]any{fProg: prog}}
			progRes := &iStruct{typ: m.namedType("object", "HTML"), fields: map[int]any{}}
			nProg := 0
			ip := &Interp{m: m, useGlobals: true}
			ip.call = func(c *ssa.Call, args []any) (any, bool) {
				sc := c.Call.StaticCallee()
				if sc == ev && len(args) >= 2 {
					if args[1] == any(prog) {
						nProg++
						return progRes, true
					}
					return nil, true
				}
				if sc != nil && m.InModule(sc) && sc.Signature.Results().Len() == 1 && types.Identical(sc.Signature.Results().At(0).Type(), types.NewPointer(errT)) {
					return &iStruct{typ: errT, fields: map[int]any{}}, true
				}
				return nil, false
			}
			res, known := ip.Run(ev, []any{iObj{"evaluator"}, node, iObj{"env"}})
			if ip.stuck != "" || len(ip.lost) > 0 {
				return "", false
			}
			o, isO := res.(*iStruct)
			isErr := known && isO && o.typ == errT
			switch {
			case isLayout && hasUse && (!isErr || nProg != 0):
				return "Eval of a use statement whose program is a layout with a @use of its own is not an error (or evaluates that layout): a layout that itself uses a layout is not rejected", true
			case !(isLayout && hasUse) && (isErr || nProg != 1):
				return fmt.Sprintf("Eval of a use statement whose program has IsLayout=%v and %s does not evaluate the layout's program exactly once (evaluated %d times, error: %v)", isLayout, map[bool]string{true: "a @use of its own", false: "no @use of its own"}[hasUse], nProg, isErr), true
			}
		}
	}
	return "", true
}

// applyLayoutCase runs ApplyLayout on an abstract page {UseStmt: u, Statements: [text, u]} and an abstract layout.
func (m *Model) applyLayoutCase(al *ssa.Function) (stmtsOK, progOK, decided bool) {
	progT, useT, htmlT := m.namedType("ast", "Program"), m.namedType("ast", "UseStmt"), m.namedType("ast", "HTMLStmt")
	if progT == nil || useT == nil || htmlT == nil || len(al.Params) != 2 {
		return false, false, false
	}
	fieldIdx := func(t *types.Named, name string) int {
		st := t.Underlying().(*types.Struct)
		for i := 0; i < st.NumFields(); i++ {
			if canonFieldName(t, i, st.Field(i).Name()) == name {
				return i
			}
		}
		return -1
	}
	fUse, fStmts, fProg := fieldIdx(progT, "UseStmt"), fieldIdx(progT, "Statements"), fieldIdx(useT, "Program")
	if fUse < 0 || fStmts < 0 || fProg < 0 {
		return false, false, false
	}
	use := &iStruct{typ: useT, fields: map[int]any{fProg: iNil{}}}
	text := &iStruct{typ: htmlT, fields: map[int]any{}}
	// a page with text, an assignment, an expression and an @if around its use statement: whatever the kinds of its
	// statements are, only the use statement stays
	elems := []any{}
	for _, tn := range []string{"AssignStmt", "HTMLStmt", "ExpressionStmt", "IfStmt"} {
		if nt := m.namedType("ast", tn); nt != nil {
			elems = append(elems, &iStruct{typ: nt, fields: map[int]any{}})
		}
	}
	elems = append(elems, use, text)
	page := &iStruct{typ: progT, fields: map[int]any{fUse: use, fStmts: iSlice{&iArr{elems: elems}, 0, len(elems)}}}
	layout := &iStruct{typ: progT, fields: map[int]any{}}
	ip := &Interp{m: m, useGlobals: true}
	ip.Run(al, []any{page, layout})
	if ip.stuck != "" || len(ip.lost) > 0 {
		return false, false, false
	}
	sl, isSl := page.fields[fStmts].(iSlice)
	if !isSl {
		return false, false, false
	}
	stmtsOK = sl.high-sl.lo == 1 && sl.arr != nil && sl.lo < len(sl.arr.elems) && sl.arr.elems[sl.lo] == any(use)
	progOK = use.fields[fProg] == any(layout)
	return stmtsOK, progOK, true
}

// applyInsertsCases runs ApplyInserts on an abstract layout whose table of reserves holds a and b, for five tables of
// inserts. decided=false when the evaluation cannot be followed.
func (m *Model) applyInsertsCases(ai *ssa.Function) (bad string, decided bool) {
	progT, resT, insT, litT := m.namedType("ast", "Program"), m.namedType("ast", "ReserveStmt"), m.namedType("ast", "InsertStmt"), m.namedType("ast", "StringLiteral")
	if progT == nil || resT == nil || insT == nil || litT == nil || len(ai.Params) != 3 {
		return "", false
	}
	fieldIdx := func(t *types.Named, name string) int {
		st := t.Underlying().(*types.Struct)
		for i := 0; i < st.NumFields(); i++ {
			if canonFieldName(t, i, st.Field(i).Name()) == name {
				return i
			}
		}
		return -1
	}
	fRes, fRName, fRIns, fIName, fLit := fieldIdx(progT, "Reserves"), fieldIdx(resT, "Name"), fieldIdx(resT, "Insert"), fieldIdx(insT, "Name"), fieldIdx(litT, "Value")
	if fRes < 0 || fRName < 0 || fRIns < 0 || fIName < 0 || fLit < 0 {
		return "", false
	}
	lit := func(n string) *iStruct {
		return &iStruct{typ: litT, fields: map[int]any{fLit: constant.MakeString(n)}}
	}
	mkMap := func(entries map[string]any) *iMap {
		mp := &iMap{vals: map[string]any{}, kval: map[string]constant.Value{}}
		var ks []string
		for k := range entries {
			ks = append(ks, k)
		}
		sort.Strings(ks)
		for _, k := range ks {
			kc := constant.MakeString(k)
			mp.keys = append(mp.keys, kc.ExactString())
			mp.vals[kc.ExactString()] = entries[k]
			mp.kval[kc.ExactString()] = kc
		}
		return mp
	}
	for _, names := range [][]string{{}, {"a"}, {"b"}, {"c"}, {"a", "c"}, {"b", "c"}, {"a", "b", "c"}, {"a", "zzz"}, {"zzz"}, {"c", "zzz"}} {
		reserves := map[string]*iStruct{}
		rEntries := map[string]any{}
		for _, n := range []string{"a", "b", "c"} {
			reserves[n] = &iStruct{typ: resT, fields: map[int]any{fRName: lit(n), fRIns: iNil{}}}
			rEntries[n] = reserves[n]
		}
		inserts := map[string]*iStruct{}
		iEntries := map[string]any{}
		wantErr := false
		for _, n := range names {
			inserts[n] = &iStruct{typ: insT, zeroed: true, fields: map[int]any{fIName: lit(n)}}
			iEntries[n] = inserts[n]
			if n != "a" && n != "b" && n != "c" {
				wantErr = true
			}
		}
		layout := &iStruct{typ: progT, fields: map[int]any{fRes: mkMap(rEntries)}}
		ip := &Interp{m: m, useGlobals: true}
		errT := m.namedType("fail", "Error")
		ip.call = func(c *ssa.Call, args []any) (any, bool) {
			sc := c.Call.StaticCallee()
			if sc != nil && shortPkg(fnPkgPath(sc)) == "fail" && errT != nil {
				return &iStruct{typ: errT, fields: map[int]any{}}, true
			}
			if c.Call.IsInvoke() && c.Call.Method.Name() == "Line" {
				return constant.MakeInt64(1), true
			}
			return nil, false
		}
		res, known := ip.Run(ai, []any{layout, mkMap(iEntries), constant.MakeString("/abs/layout.tw")})
		if ip.stuck != "" || len(ip.lost) > 0 || !known {
			return "", false
		}
		_, isNil := res.(iNil)
		what := fmt.Sprintf("inserts %v on a layout with the reserves a, b and c", names)
		if wantErr && isNil {
			return "ApplyInserts with " + what + " returns no error: an insert that names no reserve of the layout is silently dropped", true
		}
		if !wantErr && !isNil {
			return "ApplyInserts with " + what + " returns an error although every insert names a reserve", true
		}
		if !wantErr {
			for _, n := range []string{"a", "b", "c"} {
				got := reserves[n].fields[fRIns]
				if ins, have := inserts[n]; have {
					if got != any(ins) {
						return "ApplyInserts with " + what + " does not link the reserve " + n + " to the insert of the same name: a page's content appears in the wrong place, or nowhere", true
					}
				} else if _, stillNil := got.(iNil); !stillNil {
					return "ApplyInserts with " + what + " links the reserve " + n + " although the page has no insert of that name", true
				}
			}
		}
	}
	return "", true
}

// RunSlotNilCase — R-EMIT (empty slot by cases): a placeholder for which the caller passed no body is "replaced by
// nothing": Eval on a slot statement whose Body is nil — named and default — with an evaluator and a scope about which
// nothing is known yields the nil object (not a variable that happens to have the slot's name).
func (m *Model) RunSlotNilCase(s *Sink, rule string) {
	ev := m.Method("evaluator", "Evaluator", "Eval")
	st, litT := m.namedType("ast", "SlotStmt"), m.namedType("ast", "StringLiteral")
	nilT, htmlT, strT := m.namedType("object", "Nil"), m.namedType("object", "HTML"), m.namedType("object", "Str")
	key := "evaluator.Eval|a placeholder without a passed body evaluates to nothing"
	if ev == nil || st == nil || litT == nil || nilT == nil {
		s.Undecided(rule, key, "-", "Eval / ast.SlotStmt / object.Nil not found")
		return
	}
	fieldIdx := func(t *types.Named, name string) int {
		stt := t.Underlying().(*types.Struct)
		for i := 0; i < stt.NumFields(); i++ {
			if canonFieldName(t, i, stt.Field(i).Name()) == name {
				return i
			}
		}
		return -1
	}
	fBody, fName, fVal := fieldIdx(st, "Body"), fieldIdx(st, "Name"), fieldIdx(litT, "Value")
	if fBody < 0 || fName < 0 || fVal < 0 {
		s.Undecided(rule, key, "-", "fields of ast.SlotStmt not found")
		return
	}
	for _, name := range []string{"footer", ""} {
		node := &iStruct{typ: st, fields: map[int]any{fBody: iNil{}, fName: &iStruct{typ: litT, fields: map[int]any{fVal: constant.MakeString(name)}}}}
		ip := &Interp{m: m, useGlobals: true}
		res, known := ip.Run(ev, []any{iObj{"evaluator"}, node, iObj{"env"}})
		if ip.stuck != "" || len(ip.lost) > 0 || !known {
			why := ip.stuck
			if why == "" && len(ip.lost) > 0 {
				why = fnKey(ip.lost[0]) + " could not be evaluated"
			}
			s.Undecided(rule, key, m.Pos(ev.Pos()), "what a placeholder %q without a passed body evaluates to depends on something other than the statement — the scope, the settings — (%s): it is nothing only sometimes", name, why)
			return
		}
		var isEmpty func(v any, d int) bool
		isEmpty = func(v any, d int) bool {
			if _, isNil := v.(iNil); isNil {
				return true
			}
			o, isO := v.(*iStruct)
			if !isO || d > 2 {
				return false
			}
			if o.typ == nilT {
				return true
			}
			if o.typ == htmlT || o.typ == strT {
				for _, f := range o.fields {
					if c, isC := f.(constant.Value); isC && c.Kind() == constant.String && constant.StringVal(c) == "" {
						return true
					}
				}
				return false
			}
			// a wrapper object (object.Slot) whose content is nothing
			if slotT := m.namedType("object", "Slot"); slotT != nil && o.typ == slotT {
				ci := fieldIdx(slotT, "Content")
				if ci < 0 {
					return false
				}
				c, have := o.fields[ci]
				return have && isEmpty(c, d+1)
			}
			return false
		}
		if !isEmpty(res, 0) {
			s.Violation(rule, key, m.Pos(ev.Pos()), "Eval of a placeholder %q without a passed body yields %s, not nothing (the nil object, or a slot object whose content is the nil object)", name, describeAny(res))
			return
		}
	}
	s.OK(rule, key, m.Pos(ev.Pos()), "case evaluation of Eval on a named and on the default placeholder with Body == nil, evaluator and scope unknown: the nil object")
}

// recordsParserError: the parser's error recorder, or a function of the parser whose entry block calls it (a wrapper
// that takes the offending token: `errorAt(tok, msg, args...)`).
func (m *Model) recordsParserError(fn *ssa.Function) bool {
	ne := m.parserNewError()
	if fn == ne || canonFnName(fn) == "newError" {
		return true
	}
	if ne == nil || fn.Blocks == nil || shortPkg(fnPkgPath(fn)) != "parser" {
		return false
	}
	for _, in := range fn.Blocks[0].Instrs {
		if c, ok := in.(*ssa.Call); ok && c.Call.StaticCallee() == ne {
			return true
		}
	}
	return false
}
