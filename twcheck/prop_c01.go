package main

import "golang.org/x/tools/go/ssa"

func init() {
	register(&PropInfo{
		ID:    "C01",
		Title: "Expressions follow the precedence table, left associativity and typed arithmetic",
		Rules: []string{
			"R-ERRLAYER: no fault message of the evaluator (a fail constant referenced from package evaluator) is raised by the parser",
			"R-LITERAL: literal text is converted with ParseInt(text, 10, 64) / ParseFloat(text, 64); the number reader takes only digits and dots (its loop is evaluated for every other byte)",
			"R-EVALERR: the result of every recursive Eval is returned or tested with isError before use, and on the error side the error is what is returned (itself, wrapped, or as the single element of a result list)",
			"R-PRATT: the operator model extracted from parser.go (precedences, registrations, binding powers per parse method, loop comparison) groups every operator sequence of <= 3 operators exactly as the specification grammar of C01",
			"R-OPTABLE: the typed infix evaluators are dispatched under the equal-types test and the kind test; following the operands from evalInfixExp through the (possibly reordered) parameters, every case \"op\" computes left.Value <Go op> right.Value for the 11 integer, 10 float and 3 string operators; unary minus negates the payload; postfix ++/-- add/subtract 1 (float -- through the digit-preserving helper with its error consumed)",
			"R-DIVGUARD: every integer / and % on the render path has a divisor that is a non-zero constant or is dominated by the non-zero edge of a comparison with 0",
			"R-BOUNDS (index expressions): every index and slice expression in the typed evaluators Eval reaches by static calls is proven in range (an index outside an array yields nil, it does not panic)",
			"R-PRATT-SITES: every parseExpression call that is not an operator's open operand passes the lowest level (complete-expression positions)",
		},
		Decided:     "TODO",
		NotDecided:  "TODO",
		Assumptions: trustedBase,
		Run: func(m *Model, s *Sink) {
			m.RunErrLayer(s, "R-ERRLAYER") // evaluation faults are raised by evaluation, not while parsing
			m.RunLiteral(s, "R-LITERAL")
			m.RunEvalErr(s, "R-EVALERR") // a failing sub-expression fails the render: its error is returned, not replaced or left among the results
			m.RunPratt(s, "R-PRATT")
			m.RunCompleteExprSites(s, "R-PRATT-SITES")
			// integer / and % in the typed evaluators are guarded
			var evalFns []*ssa.Function
			for _, fn := range m.reachableFns(m.Roots().Render) {
				if shortPkg(fnPkgPath(fn)) == "evaluator" {
					evalFns = append(evalFns, fn)
				}
			}
			bc := m.newBoundsChecker(NewSink())
			bc.s = s
			bc.RunDivOnly("R-DIVGUARD", evalFns)
			// indexing is an operator of the language: the index and slice expressions of the functions Eval reaches by
			// static calls (the typed evaluators; the builtins are called through the function table and belong to C11)
			if ev := m.Method("evaluator", "Evaluator", "Eval"); ev != nil {
				var direct []*ssa.Function
				for _, fn := range m.helpersOf(ev) {
					if shortPkg(fnPkgPath(fn)) == "evaluator" && fn != ev {
						direct = append(direct, fn)
					}
				}
				bc.RunIndexOnly("R-BOUNDS", direct)
			}
			m.RunOpTable(s, "R-OPTABLE")
			s.RequireMin("R-OPTABLE", 30, "3 dispatches, 24 operator cases, unary minus, 4 postfix cases")
		},
	})
}
