package main

func init() {
	register(&PropInfo{
		ID:    "C01",
		Title: "Expressions follow the precedence table, left associativity and typed arithmetic",
		Rules: []string{
			"R-PRATT: the operator model extracted from parser.go (precedences, registrations, binding powers per parse method, loop comparison) groups every operator sequence of <= 3 operators exactly as the specification grammar of C01",
			"R-PRATT-SITES: every parseExpression call that is not an operator's open operand passes the lowest level (complete-expression positions)",
		},
		Decided:     "TODO",
		NotDecided:  "TODO",
		Assumptions: trustedBase,
		Run: func(m *Model, s *Sink) {
			m.RunPratt(s, "R-PRATT")
			m.RunCompleteExprSites(s, "R-PRATT-SITES")
		},
	})
}
