package main

// rule_kw.go — R-PREFIXKW (directive keywords that are proper prefixes of
// others are disambiguated by the lexer) and R-EMIT (statement results are
// concatenated in order with no filtering).

import (
	"fmt"
	"go/ast"
	"go/constant"
	"go/token"
	"sort"
	"strings"

	"golang.org/x/tools/go/ssa"
)

// directiveTable reads token.directives: keyword -> token constant value.
func (m *Model) directiveTable() (map[string]int64, string) {
	// the table as the package initialiser builds it (literal, or derived from other tables by a function)
	if tab, ok := m.globalStringIntMap("token", "directives"); ok && len(tab) > 0 {
		if w := m.globalMapWritten("token", "directives"); w == "" {
			return tab, ""
		}
	}
	tp := m.ByPath[fullPkg("token")]
	if tp == nil {
		return nil, "package token not found"
	}
	out := map[string]int64{}
	found := false
	for _, f := range tp.Syntax {
		ast.Inspect(f, func(n ast.Node) bool {
			vs, ok := n.(*ast.ValueSpec)
			if !ok {
				return true
			}
			for i, name := range vs.Names {
				if canonVarName("token", name.Name) != "directives" || i >= len(vs.Values) {
					continue
				}
				cl, ok := vs.Values[i].(*ast.CompositeLit)
				if !ok {
					continue
				}
				found = true
				for _, e := range cl.Elts {
					kv, ok := e.(*ast.KeyValueExpr)
					if !ok {
						continue
					}
					k := constStr(tp.TypesInfo, kv.Key)
					v, ok2 := intConst(tp.TypesInfo, kv.Value)
					if k != "" && ok2 {
						out[k] = v
					}
				}
			}
			return true
		})
	}
	if !found {
		return nil, "token.directives composite literal not found"
	}
	return out, ""
}

func (m *Model) RunPrefixKW(s *Sink, rule string) {
	dirs, prob := m.directiveTable()
	if prob != "" {
		s.Undecided(rule, "directives", "-", "%s", prob)
		return
	}
	fn := m.Method("lexer", "Lexer", "isPotentiallyLong")
	if fn == nil || len(fn.Params) != 2 {
		s.Undecided(rule, "isPotentiallyLong", "-", "the lexer predicate that decides whether a directive keyword may continue was not found")
		return
	}
	var kws []string
	for k := range dirs {
		kws = append(kws, k)
	}
	sort.Strings(kws)
	type pair struct{ a, b string }
	var pairs []pair
	for _, a := range kws {
		for _, b := range kws {
			if a != b && strings.HasPrefix(b, a) {
				pairs = append(pairs, pair{a, b})
			}
		}
	}
	eval := func(tok int64, c1, c2 byte) (bool, bool) {
		res, ok := m.evalPureHook(fn, []constant.Value{constant.MakeInt64(0), constant.MakeInt64(tok)}, func(v ssa.Value) (constant.Value, bool) {
			switch x := v.(type) {
			case *ssa.UnOp:
				if x.Op == token.MUL {
					if _, p, ok := pathOf(x); ok && p == ".char" {
						return constant.MakeInt64(int64(c1)), true
					}
				}
			case *ssa.Call:
				if sc := x.Call.StaticCallee(); sc != nil && canonFnName(sc) == "peekChar" {
					return constant.MakeInt64(int64(c2)), true
				}
			}
			return nil, false
		})
		if !ok || res.Kind() != constant.Bool {
			return false, false
		}
		return constant.BoolVal(res), true
	}
	// required: each pair continues
	for _, p := range pairs {
		key := fmt.Sprintf("lexer.(*Lexer).isPotentiallyLong|%s may continue to %s", p.a, p.b)
		if len(p.b) < len(p.a)+1 {
			continue
		}
		c1 := p.b[len(p.a)]
		var c2 byte
		if len(p.b) > len(p.a)+1 {
			c2 = p.b[len(p.a)+1]
		}
		got, ok := eval(dirs[p.a], c1, c2)
		switch {
		case !ok:
			s.Undecided(rule, key, m.Pos(fn.Pos()), "isPotentiallyLong could not be evaluated for token %s with next bytes %q %q (it is expected to depend only on the token, l.char and l.peekChar())", p.a, c1, c2)
		case got:
			s.OK(rule, key, m.Pos(fn.Pos()), "after %s with next bytes %q%q the lexer keeps reading", p.a, c1, c2)
		default:
			s.Violation(rule, key, m.Pos(fn.Pos()), "directive %s is a proper prefix of %s, but after reading %s with next bytes %q%q the lexer stops: %s can never be recognised (it lexes as %s followed by text)", p.a, p.b, p.a, c1, c2, p.b, p.a)
		}
	}
	// no spurious continuation: for every directive token and every pair of letters, continue only if some longer keyword matches
	letters := map[byte]bool{}
	for _, k := range kws {
		for i := 0; i < len(k); i++ {
			letters[k[i]] = true
		}
	}
	letters['x'], letters[' '], letters['('], letters[0] = true, true, true, true
	var ls []byte
	for c := range letters {
		ls = append(ls, c)
	}
	sort.Slice(ls, func(i, j int) bool { return ls[i] < ls[j] })
	spurious := ""
	n := 0
	for _, a := range kws {
		for _, c1 := range ls {
			for _, c2 := range ls {
				got, ok := eval(dirs[a], c1, c2)
				n++
				if !ok || !got {
					continue
				}
				want := false
				for _, b := range kws {
					if b != a && strings.HasPrefix(b, a) && len(b) > len(a) && b[len(a)] == c1 && (len(b) == len(a)+1 || b[len(a)+1] == c2) {
						want = true
					}
				}
				if !want && spurious == "" {
					spurious = fmt.Sprintf("after %s with next bytes %q%q", a, c1, c2)
				}
			}
		}
	}
	if spurious != "" {
		s.Violation(rule, "lexer.(*Lexer).isPotentiallyLong|no spurious continuation", m.Pos(fn.Pos()), "the lexer keeps reading %s although no directive keyword continues that way: a complete directive followed by such text is not recognised", spurious)
	} else {
		s.OK(rule, "lexer.(*Lexer).isPotentiallyLong|no spurious continuation", m.Pos(fn.Pos()), "%d (token, byte, byte) combinations evaluated: the lexer continues only towards a longer keyword", n)
	}
	// readDirective uses the predicate to decide when to stop
	rd := m.Method("lexer", "Lexer", "readDirective")
	used := false
	if rd != nil {
		for _, b := range rd.Blocks {
			for _, in := range b.Instrs {
				if c, ok := in.(*ssa.Call); ok && c.Call.StaticCallee() == fn {
					used = true
				}
			}
		}
	}
	if used {
		s.OK(rule, "lexer.(*Lexer).readDirective|consults isPotentiallyLong", m.Pos(rd.Pos()), "the keyword reader stops only when the predicate is false")
	} else {
		s.Undecided(rule, "lexer.(*Lexer).readDirective|consults isPotentiallyLong", "-", "readDirective does not call isPotentiallyLong")
	}
}

// RunEmit: in each listed function the loop over the statements/elements
// emits (writes or appends) the result of every element on every pass that
// does not return.
func (m *Model) RunEmit(s *Sink, rule string) {
	type site struct {
		pkg, typ, name string
		emit           func(c ssa.CallInstruction) bool
	}
	isWrite := func(c ssa.CallInstruction) bool {
		sc := c.Common().StaticCallee()
		return sc != nil && (fnFullName(sc) == "(*bytes.Buffer).WriteString" || fnFullName(sc) == "(*strings.Builder).WriteString")
	}
	isAppend := func(c ssa.CallInstruction) bool {
		b, ok := c.Common().Value.(*ssa.Builtin)
		return ok && b.Name() == "append"
	}
	for _, st := range []site{
		{"evaluator", "Evaluator", "evalProgram", isWrite},
		{"evaluator", "Evaluator", "evalBlockStmt", isAppend},
		{"object", "Block", "String", isWrite},
	} {
		fn := m.Method(st.pkg, st.typ, st.name)
		key := fmt.Sprintf("%s.(*%s).%s|every element is emitted in order", st.pkg, st.typ, st.name)
		if fn == nil {
			s.Undecided(rule, key, "-", "function not found")
			continue
		}
		loops := naturalLoops(fn)
		if len(loops) != 1 {
			s.Undecided(rule, key, m.Pos(fn.Pos()), "expected exactly one loop, found %d", len(loops))
			continue
		}
		li := loops[0]
		isRange := false
		for _, in := range li.header.Instrs {
			if phi, ok := in.(*ssa.Phi); ok && phi.Comment == "rangeindex" {
				isRange = true
			}
		}
		ci := m.newPassInfo(st.emit, func(*ssa.Call) bool { return false }, []*ssa.Function{fn}, nil)
		skip := false
		for _, l := range li.latch {
			latch := l
			if ci.pathAvoiding(fn, li.header, 0, func(b *ssa.BasicBlock) bool { return b == latch }, li.body) && !ci.blockConsumes(latch, 0) {
				skip = true
			}
		}
		switch {
		case !isRange:
			s.Violation(rule, key, m.Pos(fn.Pos()), "the loop in %s is not an ascending range over the statements/elements", fnKey(fn))
		case skip:
			s.Violation(rule, key, m.Pos(fn.Pos()), "the loop in %s has a pass that reaches the next element without emitting the current one: text between constructs would be dropped", fnKey(fn))
		default:
			s.OK(rule, key, m.Pos(fn.Pos()), "ascending range; every pass that continues writes/appends the element's result")
		}
	}
}
