package main

// rule_kw.go — R-PREFIXKW (directive keywords that are proper prefixes of
// others are disambiguated by the lexer) and R-EMIT (statement results are
// concatenated in order with no filtering).

import (
	"fmt"
	"go/ast"
	"go/constant"
	"go/token"
	"go/types"
	"sort"
	"strings"

	"golang.org/x/tools/go/ssa"
)

// directiveTable reads token.directives: keyword -> token constant value.
func (m *Model) directiveTable() (map[string]int64, string) {
	// the table as the package initialiser builds it (literal, or derived from other tables by a function)
	if tab, ok := m.globalStringIntMap("token", "directives"); ok && len(tab) > 0 {
		if w := m.globalMapWritten("token", "directives"); w == "" {
			return tab, ""
		}
	}
	tp := m.ByPath[fullPkg("token")]
	if tp == nil {
		return nil, "package token not found"
	}
	out := map[string]int64{}
	found := false
	for _, f := range tp.Syntax {
		ast.Inspect(f, func(n ast.Node) bool {
			vs, ok := n.(*ast.ValueSpec)
			if !ok {
				return true
			}
			for i, name := range vs.Names {
				if canonVarName("token", name.Name) != "directives" || i >= len(vs.Values) {
					continue
				}
				cl, ok := vs.Values[i].(*ast.CompositeLit)
				if !ok {
					continue
				}
				found = true
				for _, e := range cl.Elts {
					kv, ok := e.(*ast.KeyValueExpr)
					if !ok {
						continue
					}
					k := constStr(tp.TypesInfo, kv.Key)
					v, ok2 := intConst(tp.TypesInfo, kv.Value)
					if k != "" && ok2 {
						out[k] = v
					}
				}
			}
			return true
		})
	}
	if !found {
		return nil, "token.directives composite literal not found"
	}
	return out, ""
}

// lexerAt: the lexer object that lexer.New(input) leaves behind, advanced by `steps` calls of readChar — a real lexer
// state, so that every way of looking at the input (l.char, peekChar(), prevChar(), slices of l.input) agrees.
func (m *Model) lexerAt(input string, steps int) (any, bool) {
	lexNew := m.PkgFunc("lexer", "New")
	rc := m.Method("lexer", "Lexer", "readChar")
	if lexNew == nil || len(lexNew.Params) != 1 || (steps > 0 && rc == nil) {
		return nil, false
	}
	ip := &Interp{m: m, useGlobals: true}
	lx, ok := ip.Run(lexNew, []any{constant.MakeString(input)})
	if !ok || ip.stuck != "" || len(ip.lost) > 0 {
		return nil, false
	}
	for i := 0; i < steps; i++ {
		ip2 := &Interp{m: m, useGlobals: true}
		ip2.Run(rc, []any{lx})
		if ip2.stuck != "" || len(ip2.lost) > 0 {
			return nil, false
		}
	}
	return lx, true
}

func (m *Model) RunPrefixKW(s *Sink, rule string) {
	dirs, prob := m.directiveTable()
	if prob != "" {
		s.Undecided(rule, "directives", "-", "%s", prob)
		return
	}
	fn := m.Method("lexer", "Lexer", "isPotentiallyLong")
	if fn == nil || len(fn.Params) != 2 {
		s.Undecided(rule, "isPotentiallyLong", "-", "the lexer predicate that decides whether a directive keyword may continue was not found")
		return
	}
	var kws []string
	for k := range dirs {
		kws = append(kws, k)
	}
	sort.Strings(kws)
	type pair struct{ a, b string }
	var pairs []pair
	for _, a := range kws {
		for _, b := range kws {
			if a != b && strings.HasPrefix(b, a) {
				pairs = append(pairs, pair{a, b})
			}
		}
	}
	// the predicate is evaluated on a real lexer state: the object lexer.New leaves behind for an input that starts
	// with the two bytes (the end of the input for a zero byte) — whatever way the lexer looks ahead (l.char and
	// peekChar(), a slice of the input, ...) reads the same bytes
	lexNew := m.PkgFunc("lexer", "New")
	evalConcrete := func(tok int64, c1, c2 byte) (bool, bool) {
		if lexNew == nil || len(lexNew.Params) != 1 {
			return false, false
		}
		in := ""
		if c1 != 0 {
			in = string([]byte{c1})
			if c2 != 0 {
				in += string([]byte{c2}) + " tail"
			}
		}
		ip := &Interp{m: m, useGlobals: true}
		lx, ok := ip.Run(lexNew, []any{constant.MakeString(in)})
		if !ok || ip.stuck != "" || len(ip.lost) > 0 {
			return false, false
		}
		ip2 := &Interp{m: m, useGlobals: true}
		res, ok := ip2.Run(fn, []any{lx, constant.MakeInt64(tok)})
		rc, isC := res.(constant.Value)
		if !ok || !isC || rc.Kind() != constant.Bool || ip2.stuck != "" {
			return false, false
		}
		return constant.BoolVal(rc), true
	}
	eval := func(tok int64, c1, c2 byte) (bool, bool) {
		if r, ok := evalConcrete(tok, c1, c2); ok {
			return r, true
		}
		res, ok := m.evalPureHook(fn, []constant.Value{constant.MakeInt64(0), constant.MakeInt64(tok)}, func(v ssa.Value) (constant.Value, bool) {
			switch x := v.(type) {
			case *ssa.UnOp:
				if x.Op == token.MUL {
					if _, p, ok := pathOf(x); ok && p == ".char" {
						return constant.MakeInt64(int64(c1)), true
					}
				}
			case *ssa.Call:
				if sc := x.Call.StaticCallee(); sc != nil && canonFnName(sc) == "peekChar" {
					return constant.MakeInt64(int64(c2)), true
				}
			}
			return nil, false
		})
		if !ok || res.Kind() != constant.Bool {
			return false, false
		}
		return constant.BoolVal(res), true
	}
	// required: each pair continues
	for _, p := range pairs {
		key := fmt.Sprintf("lexer.(*Lexer).isPotentiallyLong|%s may continue to %s", p.a, p.b)
		if len(p.b) < len(p.a)+1 {
			continue
		}
		c1 := p.b[len(p.a)]
		var c2 byte
		if len(p.b) > len(p.a)+1 {
			c2 = p.b[len(p.a)+1]
		}
		got, ok := eval(dirs[p.a], c1, c2)
		switch {
		case !ok:
			s.Undecided(rule, key, m.Pos(fn.Pos()), "isPotentiallyLong could not be evaluated for token %s with next bytes %q %q (it is expected to depend only on the token, l.char and l.peekChar())", p.a, c1, c2)
		case got:
			s.OK(rule, key, m.Pos(fn.Pos()), "after %s with next bytes %q%q the lexer keeps reading", p.a, c1, c2)
		default:
			s.Violation(rule, key, m.Pos(fn.Pos()), "directive %s is a proper prefix of %s, but after reading %s with next bytes %q%q the lexer stops: %s can never be recognised (it lexes as %s followed by text)", p.a, p.b, p.a, c1, c2, p.b, p.a)
		}
	}
	// no spurious continuation: for every directive token and every pair of letters, continue only if some longer keyword matches
	letters := map[byte]bool{}
	for _, k := range kws {
		for i := 0; i < len(k); i++ {
			letters[k[i]] = true
		}
	}
	letters['x'], letters[' '], letters['('], letters[0] = true, true, true, true
	var ls []byte
	for c := range letters {
		ls = append(ls, c)
	}
	sort.Slice(ls, func(i, j int) bool { return ls[i] < ls[j] })
	spurious := ""
	n := 0
	for _, a := range kws {
		for _, c1 := range ls {
			for _, c2 := range ls {
				got, ok := eval(dirs[a], c1, c2)
				n++
				if !ok || !got {
					continue
				}
				want := false
				for _, b := range kws {
					if b != a && strings.HasPrefix(b, a) && len(b) > len(a) && b[len(a)] == c1 && (len(b) == len(a)+1 || b[len(a)+1] == c2) {
						want = true
					}
				}
				if !want && spurious == "" {
					spurious = fmt.Sprintf("after %s with next bytes %q%q", a, c1, c2)
				}
			}
		}
	}
	if spurious != "" {
		s.Violation(rule, "lexer.(*Lexer).isPotentiallyLong|no spurious continuation", m.Pos(fn.Pos()), "the lexer keeps reading %s although no directive keyword continues that way: a complete directive followed by such text is not recognised", spurious)
	} else {
		s.OK(rule, "lexer.(*Lexer).isPotentiallyLong|no spurious continuation", m.Pos(fn.Pos()), "%d (token, byte, byte) combinations evaluated: the lexer continues only towards a longer keyword", n)
	}
	// readDirective uses the predicate to decide when to stop
	rd := m.Method("lexer", "Lexer", "readDirective")
	used := false
	if rd != nil {
		for _, b := range rd.Blocks {
			for _, in := range b.Instrs {
				if c, ok := in.(*ssa.Call); ok && c.Call.StaticCallee() == fn {
					used = true
				}
			}
		}
	}
	if used {
		s.OK(rule, "lexer.(*Lexer).readDirective|consults isPotentiallyLong", m.Pos(rd.Pos()), "the keyword reader stops only when the predicate is false")
	} else {
		s.Undecided(rule, "lexer.(*Lexer).readDirective|consults isPotentiallyLong", "-", "readDirective does not call isPotentiallyLong")
	}
}

// RunEmit: in each listed function the loop over the statements/elements
// emits (writes or appends) the result of every element on every pass that
// does not return.
func (m *Model) RunEmit(s *Sink, rule string) {
	// decided by evaluating each function on three abstract elements whose text is "<A>", "<B>", "<C>":
	// the result must be the three texts in order (nothing dropped, duplicated or reordered).
	htmlT, blockT := m.namedType("object", "HTML"), m.namedType("object", "Block")
	progT, stmtT, blockStmtT := m.namedType("ast", "Program"), m.namedType("ast", "HTMLStmt"), m.namedType("ast", "BlockStmt")
	if htmlT == nil || blockT == nil || progT == nil || stmtT == nil || blockStmtT == nil {
		s.Undecided(rule, "emit anchors", "-", "object.HTML / object.Block / ast.Program / ast.HTMLStmt / ast.BlockStmt not found")
		return
	}
	fieldOf := func(t *types.Named, name string) int {
		st := t.Underlying().(*types.Struct)
		for i := 0; i < st.NumFields(); i++ {
			if canonFieldName(t, i, st.Field(i).Name()) == name {
				return i
			}
		}
		return -1
	}
	texts := []string{"<A>", "<B>", "<C>"}
	mkElems := func() ([]any, map[*iStruct]string) {
		var elems []any
		txt := map[*iStruct]string{}
		for _, t := range texts {
			o := &iStruct{typ: htmlT, fields: map[int]any{}}
			txt[o] = t
			elems = append(elems, o)
		}
		return elems, txt
	}
	textOf := func(v any, txt map[*iStruct]string) (string, bool) {
		switch x := v.(type) {
		case constant.Value:
			if x.Kind() == constant.String {
				return constant.StringVal(x), true
			}
		case *iStruct:
			// an object holding the text (HTML.Value) or the elements (Block.Elements)
			if t, ok := txt[x]; ok {
				return t, true
			}
			for _, fv := range x.fields {
				if c, isC := fv.(constant.Value); isC && c.Kind() == constant.String {
					return constant.StringVal(c), true
				}
				if sl, isSl := fv.(iSlice); isSl {
					out := ""
					for _, e := range sl.arr.elems[sl.lo:sl.high] {
						es, ok := e.(*iStruct)
						if !ok {
							return "", false
						}
						out += txt[es]
					}
					return out, true
				}
			}
		}
		return "", false
	}
	type site struct {
		key  string
		fn   *ssa.Function
		args func(elems []any) []any
	}
	var sites []site
	if fn := m.Method("object", "Block", "String"); fn != nil {
		fe := fieldOf(blockT, "Elements")
		sites = append(sites, site{"object.(*Block).String", fn, func(elems []any) []any {
			return []any{&iStruct{typ: blockT, fields: map[int]any{fe: iSlice{&iArr{elems: elems}, 0, len(elems)}}}}
		}})
	}
	for _, name := range []string{"evalProgram", "evalBlockStmt"} {
		fn := m.Method("evaluator", "Evaluator", name)
		if fn == nil {
			s.Undecided(rule, "evaluator.(*Evaluator)."+name+"|every element is emitted in order", "-", "function not found")
			continue
		}
		holder := progT
		if name == "evalBlockStmt" {
			holder = blockStmtT
		}
		fs := fieldOf(holder, "Statements")
		sites = append(sites, site{"evaluator.(*Evaluator)." + name, fn, func(elems []any) []any {
			// the statements are abstract nodes; Eval of the i-th yields the i-th element
			stmts := make([]any, len(elems))
			for i := range elems {
				stmts[i] = &iStruct{typ: stmtT, fields: map[int]any{-9: elems[i]}}
			}
			return []any{iObj{"evaluator"}, &iStruct{typ: holder, fields: map[int]any{fs: iSlice{&iArr{elems: stmts}, 0, len(stmts)}}}, iObj{"env"}}
		}})
	}
	for _, st := range sites {
		key := st.key + "|every element is emitted in order"
		elems, txt := mkElems()
		ip := &Interp{m: m}
		ip.call = func(c *ssa.Call, args []any) (any, bool) {
			if isEvalCall(m, c) && len(args) >= 2 {
				if n, ok := args[1].(*iStruct); ok {
					return n.fields[-9], true
				}
				return nil, true
			}
			if c.Call.IsInvoke() && c.Call.Method.Name() == "String" && len(args) == 1 {
				if o, ok := args[0].(*iStruct); ok {
					if t, have := txt[o]; have {
						return constant.MakeString(t), true
					}
				}
			}
			return nil, false
		}
		res, known := ip.Run(st.fn, st.args(elems))
		got, okText := textOf(res, txt)
		switch {
		case ip.stuck != "" || !known || !okText:
			why := ip.stuck
			for _, l := range ip.lost {
				why += " " + fnKey(l) + " could not be evaluated"
			}
			s.Undecided(rule, key, m.Pos(st.fn.Pos()), "%s could not be evaluated on three abstract elements (%s)", fnKey(st.fn), why)
		case got == strings.Join(texts, ""):
			s.OK(rule, key, m.Pos(st.fn.Pos()), "case evaluation: three elements with texts <A>, <B>, <C> give <A><B><C>")
		default:
			s.Violation(rule, key, m.Pos(st.fn.Pos()), "%s on three elements with texts <A>, <B>, <C> yields %q: an element's output is dropped, duplicated or out of order (text between constructs would be lost)", fnKey(st.fn), got)
		}
		// at the top level of a page there is no loop to leave: a break / continue marker among the statement results
		// (a stray @break, a truthy @breakIf outside any loop) prints nothing and what follows it is still emitted
		if strings.HasSuffix(st.key, ".evalProgram") {
			for _, marker := range []string{"Break", "Continue"} {
				mt := m.namedType("object", marker)
				if mt == nil {
					continue
				}
				k2 := st.key + "|text after a stray " + strings.ToLower(marker) + " marker is still emitted"
				elems2, txt2 := mkElems()
				mk := &iStruct{typ: mt, fields: map[int]any{}}
				txt2[mk] = ""
				elems2[1] = mk
				ip2 := &Interp{m: m, useGlobals: true}
				ip2.call = func(c *ssa.Call, args []any) (any, bool) {
					if isEvalCall(m, c) && len(args) >= 2 {
						if n, ok := args[1].(*iStruct); ok {
							return n.fields[-9], true
						}
						return nil, true
					}
					if c.Call.IsInvoke() && c.Call.Method.Name() == "String" && len(args) == 1 {
						if o, ok := args[0].(*iStruct); ok {
							if t, have := txt2[o]; have {
								return constant.MakeString(t), true
							}
						}
					}
					return nil, false
				}
				res2, known2 := ip2.Run(st.fn, st.args(elems2))
				got2, ok2 := textOf(res2, txt2)
				switch {
				case ip2.stuck != "" || !known2 || !ok2:
					s.Undecided(rule, k2, m.Pos(st.fn.Pos()), "%s could not be evaluated with a %s marker among the results (%s)", fnKey(st.fn), marker, ip2.stuck)
				case got2 == "<A><C>":
					s.OK(rule, k2, m.Pos(st.fn.Pos()), "case evaluation: results <A>, %s marker, <C> give <A><C>", marker)
				default:
					s.Violation(rule, k2, m.Pos(st.fn.Pos()), "%s with the statement results <A>, a %s marker, <C> yields %q: a loop-control directive outside any loop cuts the rest of the page", fnKey(st.fn), strings.ToLower(marker), got2)
				}
			}
		}
	}
}
