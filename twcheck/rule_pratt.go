package main

// rule_pratt.go — R-PRATT: extract the Pratt operator model from the parser
// (precedence table, registrations, binding powers passed by each parse
// method, the loop comparison) and decide, exhaustively over all operator
// sequences of bounded length, that it groups expressions exactly like the
// specification grammar transcribed from property C01.

import (
	"fmt"
	"go/ast"
	"go/constant"
	"go/token"
	"go/types"
	"sort"
	"strings"

	"golang.org/x/tools/go/ssa"
)

type bpKind int

const (
	bpConst bpKind = iota
	bpOwn          // the precedence of the operator token being parsed
	bpUnknown
)

type bpArg struct {
	kind bpKind
	val  int64
	pos  token.Pos
}

func (b bpArg) String() string {
	switch b.kind {
	case bpConst:
		return fmt.Sprint(b.val)
	case bpOwn:
		return "own-level"
	}
	return "?"
}

// step of a parse method's success path
type parseStep struct {
	op  string // "next", "expect", "parse", "list", "ident", "call"
	tok string // for expect/list: token constant name
	bp  bpArg
}

type handler struct {
	fn    *ssa.Function
	steps []parseStep
	shape string // binary | ternary | index | postfix | dot | prefixop | group | atom | list-atom | unknown
}

type prattModel struct {
	tokName  map[int64]string // TokenType value -> constant name
	tokVal   map[string]int64
	prec     map[string]int64 // token name -> precedence (infix side)
	lowest   int64            // what peekPrecedence returns for unknown tokens
	prefix   map[string]*handler
	infix    map[string]*handler
	cmpOp    token.Token     // comparison in the Pratt loop: precedence <op> peekPrecedence()
	precLit  map[int64]int64 // the precedences literal by token value
	precPeek map[int64]int64 // peekPrecedence() evaluated for every peek token
	stops    []string
	problems []string
}

// extractPratt builds the model from the type-checked parser package.
func (m *Model) extractPratt() *prattModel {
	pm := &prattModel{tokName: map[int64]string{}, tokVal: map[string]int64{}, prec: map[string]int64{}, prefix: map[string]*handler{}, infix: map[string]*handler{}}
	tp := m.ByPath[fullPkg("token")]
	pp := m.ByPath[fullPkg("parser")]
	if tp == nil || pp == nil {
		pm.problems = append(pm.problems, "packages token/parser not found")
		return pm
	}
	// token constants
	for _, n := range tp.Types.Scope().Names() {
		c, ok := tp.Types.Scope().Lookup(n).(*types.Const)
		if !ok || !strings.HasSuffix(c.Type().String(), "token.TokenType") {
			continue
		}
		if v, ok := constant.Int64Val(c.Val()); ok {
			pm.tokName[v] = n
			pm.tokVal[n] = v
		}
	}
	// precedences map literal
	found := false
	for _, f := range pp.Syntax {
		ast.Inspect(f, func(n ast.Node) bool {
			vs, ok := n.(*ast.ValueSpec)
			if !ok {
				return true
			}
			for i, name := range vs.Names {
				if canonVarName("parser", name.Name) != "precedences" || i >= len(vs.Values) {
					continue
				}
				cl, ok := vs.Values[i].(*ast.CompositeLit)
				if !ok {
					pm.problems = append(pm.problems, "precedences is not a composite literal")
					continue
				}
				found = true
				for _, e := range cl.Elts {
					kv, ok := e.(*ast.KeyValueExpr)
					if !ok {
						continue
					}
					k, ok1 := intConst(pp.TypesInfo, kv.Key)
					v, ok2 := intConst(pp.TypesInfo, kv.Value)
					if !ok1 || !ok2 {
						pm.problems = append(pm.problems, "precedences: non-constant entry at "+m.Pos(kv.Pos()))
						continue
					}
					pm.prec[pm.tokName[k]] = v
				}
			}
			return true
		})
	}
	if !found {
		// not a plain literal: take the table the package initialiser builds
		if mp, ok := m.evalGlobals("parser")["precedences"].(*iMap); ok && mp.vals != nil && len(mp.vals) > 0 {
			found = true
			for ks, v := range mp.vals {
				kc, vc := mp.kval[ks], v
				vcc, isC := vc.(constant.Value)
				if kc == nil || !isC {
					found = false
					break
				}
				k, _ := constant.Int64Val(kc)
				val, _ := constant.Int64Val(vcc)
				pm.prec[pm.tokName[k]] = val
			}
		}
	}
	noTable := !found // the levels may come from a function of the token type instead: decided below from what peekPrecedence answers
	// peekPrecedence: evaluated for every token type (constant propagation through whatever helpers it uses)
	if w := m.globalMapWritten("parser", "precedences"); w != "" {
		pm.problems = append(pm.problems, "the precedences table is written at "+w+": it is not a constant table")
	}
	pm.precLit = map[int64]int64{}
	for n, v := range pm.prec {
		pm.precLit[pm.tokVal[n]] = v
	}
	pk := m.Method("parser", "Parser", "peekPrecedence")
	if pk == nil {
		pm.problems = append(pm.problems, "peekPrecedence not found")
	} else {
		pm.precPeek = map[int64]int64{}
		var defaults = map[int64]string{}
		for tv, tn := range pm.tokName {
			ip := m.parserInterp(-1, tv, pm.precLit, nil)
			res, ok := ip.Run(pk, []any{nil})
			c, isC := res.(constant.Value)
			if !ok || !isC || c.Kind() != constant.Int {
				pm.problems = append(pm.problems, "peekPrecedence could not be evaluated for peek token "+tn)
				continue
			}
			v, _ := constant.Int64Val(c)
			pm.precPeek[tv] = v
			if _, inTable := pm.precLit[tv]; !inTable {
				defaults[v] = tn
			}
		}
		lowestConst, haveLowest := int64(0), false
		if c, ok := pp.Types.Scope().Lookup("LOWEST").(*types.Const); ok {
			lowestConst, haveLowest = constant.Int64Val(c.Val())
		}
		switch {
		case noTable && haveLowest && len(pm.precPeek) == len(pm.tokName):
			// no table: every token whose level differs from the LOWEST constant is an operator of that level
			pm.lowest = lowestConst
			for tv, v := range pm.precPeek {
				if v != lowestConst {
					pm.precLit[tv] = v
				}
			}
			defaults = map[int64]string{lowestConst: "(no table)"}
		case noTable:
			pm.problems = append(pm.problems, "parser.precedences table not found (and the levels could not be read off peekPrecedence with the LOWEST constant)")
		}
		switch len(defaults) {
		case 1:
			for v := range defaults {
				pm.lowest = v
			}
		case 0:
			pm.problems = append(pm.problems, "peekPrecedence: no token outside the precedences table")
		default:
			pm.problems = append(pm.problems, fmt.Sprintf("peekPrecedence returns different levels for tokens outside the precedences table: %v", defaults))
		}
		// the effective table is what peekPrecedence computes
		for tv, v := range pm.precPeek {
			tn := pm.tokName[tv]
			if _, inTable := pm.precLit[tv]; inTable || v != pm.lowest {
				pm.prec[tn] = v
			}
		}
	}
	// registrations in parser.New
	newFn := m.PkgFunc("parser", "New")
	if newFn == nil {
		pm.problems = append(pm.problems, "parser.New not found")
		return pm
	}
	var newBlocks []*ssa.BasicBlock
	for _, h := range m.helpersOf(newFn) { // the constructor and the private helpers its body is split into
		newBlocks = append(newBlocks, h.Blocks...)
	}
	for _, b := range newBlocks {
		for _, in := range b.Instrs {
			var key, val ssa.Value
			var mapField string
			switch x := in.(type) {
			case *ssa.Call:
				sc := x.Call.StaticCallee()
				if sc == nil || len(x.Call.Args) != 3 {
					continue
				}
				mapField = registrarField(sc)
				if mapField == "" {
					continue
				}
				key, val = x.Call.Args[1], x.Call.Args[2]
			case *ssa.MapUpdate:
				if registrarField(x.Parent()) != "" {
					continue // the body of a registrar helper: its call sites are the registrations
				}
				if r, p, ok := pathOf(x.Map); ok && r != nil {
					mapField = strings.TrimPrefix(p, ".")
				}
				key, val = x.Key, x.Value
			default:
				continue
			}
			if mapField != "prefixParseFns" && mapField != "infixParseFns" {
				continue
			}
			kc, ok := key.(*ssa.Const)
			if !ok || kc.Value == nil {
				pm.problems = append(pm.problems, "non-constant token in registration at "+m.InstrPos(in))
				continue
			}
			tn := pm.tokName[kc.Int64()]
			fn := boundMethod(m, val)
			if fn == nil {
				pm.problems = append(pm.problems, "registration of "+tn+" is not a method value at "+m.InstrPos(in))
				continue
			}
			h := &handler{fn: fn}
			if mapField == "prefixParseFns" {
				pm.prefix[tn] = h
			} else {
				pm.infix[tn] = h
			}
		}
	}
	// registrations that cannot be read off the constructor's text (a loop over a list of tokens, a map literal, helper
	// functions): evaluate the constructor and read the two tables it leaves in the parser
	regProblem := false
	for _, pr := range pm.problems {
		if strings.Contains(pr, "registration") {
			regProblem = true
		}
	}
	if regProblem || len(pm.prefix) == 0 {
		if parT := m.namedType("parser", "Parser"); parT != nil && len(newFn.Params) == 2 {
			ip := &Interp{m: m, useGlobals: true}
			res, _ := ip.Run(newFn, []any{iObj{"lexer"}, constant.MakeString("x")})
			if po, ok := res.(*iStruct); ok && po.typ == parT {
				st := parT.Underlying().(*types.Struct)
				tabs := map[string]map[string]*handler{}
				good := true
				for i := 0; i < st.NumFields(); i++ {
					fname := canonFieldName(parT, i, st.Field(i).Name())
					if fname != "prefixParseFns" && fname != "infixParseFns" {
						continue
					}
					mp, isM := po.fields[i].(*iMap)
					if !isM || mp.vals == nil {
						good = false
						continue
					}
					tab := map[string]*handler{}
					for ks, v := range mp.vals {
						kc := mp.kval[ks]
						cl, isCl := v.(*iClosure)
						if kc == nil || !isCl || cl.fn == nil {
							good = false
							continue
						}
						fn := cl.fn
						if fn.Synthetic != "" {
							if o, isF := fn.Object().(*types.Func); isF {
								fn = m.Prog.FuncValue(o)
							}
						}
						tv, _ := constant.Int64Val(kc)
						tab[pm.tokName[tv]] = &handler{fn: fn}
					}
					tabs[fname] = tab
				}
				if good && len(tabs["prefixParseFns"]) > 0 && (len(tabs["infixParseFns"]) > 0 || len(pm.infix) == 0) {
					pm.prefix = tabs["prefixParseFns"]
					if len(tabs["infixParseFns"]) > 0 {
						pm.infix = tabs["infixParseFns"]
					}
					var rest []string
					for _, pr := range pm.problems {
						if !strings.Contains(pr, "registration") {
							rest = append(rest, pr)
						}
					}
					pm.problems = rest
				}
			}
		}
	}
	// no registration table (the parse function is chosen by a function of the token type): evaluate the value
	// parseExpression calls, for every token type
	var semInfixCall *ssa.Call
	if pe := m.Method("parser", "Parser", "parseExpression"); pe != nil && (len(pm.infix) == 0 || len(pm.prefix) == 0) {
		for _, b := range pe.Blocks {
			for _, in := range b.Instrs {
				c, ok := in.(*ssa.Call)
				if !ok || c.Call.StaticCallee() != nil || c.Call.IsInvoke() {
					continue
				}
				sig, _ := c.Call.Value.Type().Underlying().(*types.Signature)
				if sig == nil || sig.Results().Len() != 1 || sig.Params().Len() > 1 {
					continue
				}
				infix := sig.Params().Len() == 1
				if (infix && len(pm.infix) != 0) || (!infix && len(pm.prefix) != 0) {
					continue
				}
				tab := map[string]*handler{}
				good := true
				for tv, tn := range pm.tokName {
					var ip *Interp
					if infix {
						ip = m.parserInterp(-1, tv, pm.precLit, nil)
					} else {
						ip = m.parserInterp(tv, -1, pm.precLit, nil)
					}
					res, ok := ip.EvalValue(c.Call.Value, 0)
					if !ok {
						good = false
						break
					}
					switch r := res.(type) {
					case iNil:
					case *iClosure:
						fn := r.fn
						if fn != nil && fn.Synthetic != "" {
							if o, isF := fn.Object().(*types.Func); isF {
								fn = m.Prog.FuncValue(o)
							}
						}
						if fn == nil {
							good = false
						} else {
							tab[tn] = &handler{fn: fn}
						}
					default:
						good = false
					}
					if !good {
						break
					}
				}
				if !good || len(tab) == 0 {
					continue
				}
				if infix {
					pm.infix, semInfixCall = tab, c
				} else {
					pm.prefix = tab
				}
			}
		}
	}
	// handler shapes
	cache := map[*ssa.Function]*handler{}
	for _, tab := range []map[string]*handler{pm.prefix, pm.infix} {
		for tn, h := range tab {
			if c, ok := cache[h.fn]; ok {
				tab[tn] = c
				continue
			}
			m.analyseHandler(pm, h, tab2name(tab, pm))
			cache[h.fn] = h
		}
	}
	// Pratt loop
	pe := m.Method("parser", "Parser", "parseExpression")
	if pe == nil {
		pm.problems = append(pm.problems, "parseExpression not found")
		return pm
	}
	// the dynamic call of the looked-up infix function, and the branch facts that dominate it
	var infixCall, infixHelper *ssa.Call
	for _, hf := range m.helpersOf(pe) {
		for _, b := range hf.Blocks {
			for _, in := range b.Instrs {
				c, ok := in.(*ssa.Call)
				if !ok || c.Call.StaticCallee() != nil || c.Call.IsInvoke() {
					continue
				}
				v := c.Call.Value
				if ex, isEx := v.(*ssa.Extract); isEx {
					v = ex.Tuple
				}
				if lk, isLk := v.(*ssa.Lookup); isLk {
					if _, p, ok := pathOf(lk.X); ok && p == ".infixParseFns" {
						infixCall = c
					}
				}
				// the function comes out of a helper that answers nil ("the expression ends here") or the entry of the
				// infix table for the next token
				if hc, isHC := v.(*ssa.Call); isHC && hc.Call.StaticCallee() != nil && m.InModule(hc.Call.StaticCallee()) && hc.Call.StaticCallee().Blocks != nil {
					okAll, n := true, 0
					for _, hb := range hc.Call.StaticCallee().Blocks {
						r, isR := hb.Instrs[len(hb.Instrs)-1].(*ssa.Return)
						if !isR || len(r.Results) != 1 {
							continue
						}
						if isNilConst(r.Results[0]) {
							continue
						}
						rv := r.Results[0]
						if ex, isEx := rv.(*ssa.Extract); isEx {
							rv = ex.Tuple
						}
						lk, isLk := rv.(*ssa.Lookup)
						if !isLk {
							okAll = false
							continue
						}
						if _, p, ok := pathOf(lk.X); !ok || p != ".infixParseFns" {
							okAll = false
						}
						if _, p, ok := pathOf(lk.Index); !ok || !strings.HasSuffix(p, ".peekToken.Type") {
							okAll = false
						}
						n++
					}
					if okAll && n > 0 {
						infixCall, infixHelper = c, hc
					}
				}
				if c == semInfixCall {
					infixCall = c
				}
			}
		}
	}
	if infixCall == nil {
		pm.problems = append(pm.problems, "parseExpression: the call of the looked-up infix function was not found")
	} else {
		isPeekPrec := func(v ssa.Value) bool {
			c, ok := v.(*ssa.Call)
			if !ok || c.Call.StaticCallee() == nil {
				return false
			}
			if c.Call.StaticCallee() == pk {
				return true
			}
			// any helper that computes the same table
			for tv := range pm.tokName {
				ip := m.parserInterp(-1, tv, pm.precLit, nil)
				res, ok := ip.EvalValue(c, 0)
				rc, isC := res.(constant.Value)
				if !ok || !isC {
					return false
				}
				if got, _ := constant.Int64Val(rc); got != pm.precPeek[tv] {
					return false
				}
			}
			return true
		}
		negate := map[token.Token]token.Token{token.LSS: token.GEQ, token.GEQ: token.LSS, token.LEQ: token.GTR, token.GTR: token.LEQ, token.EQL: token.NEQ, token.NEQ: token.EQL}
		flip := map[token.Token]token.Token{token.LSS: token.GTR, token.GTR: token.LSS, token.LEQ: token.GEQ, token.GEQ: token.LEQ, token.EQL: token.EQL, token.NEQ: token.NEQ}
		// the binding power handed to parseExpression, as the function that holds the call sees it
		isPrecParam := func(v ssa.Value) bool {
			if len(pe.Params) != 2 {
				return false
			}
			if v == ssa.Value(pe.Params[1]) {
				return true
			}
			par, isPar := v.(*ssa.Parameter)
			if !isPar || par.Parent() == pe {
				return false
			}
			rs := m.resolveUp(par, pe, 0)
			for _, r := range rs {
				if r != ssa.Value(pe.Params[1]) {
					return false
				}
			}
			return len(rs) > 0
		}
		for _, f := range expandFacts(factsAt(infixCall.Block())) {
			// the loop condition as a helper: evaluated with the binding power as a named unknown P and a peek token of
			// known precedence q, it must come out as a comparison of P with q
			if fc, isCall := f.Cond.(*ssa.Call); isCall && fc.Call.StaticCallee() != nil && m.InModule(fc.Call.StaticCallee()) && fc.Call.StaticCallee().Blocks != nil {
				callee := fc.Call.StaticCallee()
				args := make([]any, len(fc.Call.Args))
				pIdx := -1
				for i, a := range fc.Call.Args {
					args[i] = iObj{"parser"}
					if isPrecParam(a) {
						pIdx = i
						args[i] = iSym{name: "P"}
					}
				}
				if pIdx < 0 || len(args) != len(callee.Params) {
					continue
				}
				var tvs []int64
				for tv := range pm.precPeek {
					tvs = append(tvs, tv)
				}
				sort.Slice(tvs, func(i, j int) bool { return tvs[i] < tvs[j] })
				var got token.Token
				consistent, seen := true, 0
				for _, tv := range tvs {
					q := pm.precPeek[tv]
					ip := m.parserInterp(-1, tv, pm.precLit, nil)
					res, ok := ip.Run(callee, args)
					sym, isSym := res.(iSym)
					if !ok || !isSym {
						continue // a stop token, or LOWEST: the condition is decided without looking at P
					}
					op := token.ILLEGAL
					xs, xIsSym := sym.x.(iSym)
					ys, yIsSym := sym.y.(iSym)
					xc, xIsC := sym.x.(constant.Value)
					yc, yIsC := sym.y.(constant.Value)
					switch {
					case xIsSym && xs.name == "P" && yIsC:
						if v, _ := constant.Int64Val(yc); v == q {
							op = sym.op
						}
					case yIsSym && ys.name == "P" && xIsC:
						if v, _ := constant.Int64Val(xc); v == q {
							op = flip[sym.op]
						}
					}
					if op == token.ILLEGAL {
						consistent = false
						break
					}
					if seen > 0 && op != got {
						consistent = false
						break
					}
					got, seen = op, seen+1
				}
				if consistent && seen > 0 {
					if !f.Holds {
						got = negate[got]
					}
					pm.cmpOp = got
				}
				continue
			}
			bo, ok := f.Cond.(*ssa.BinOp)
			if !ok || len(pe.Params) != 2 {
				continue
			}
			// `infix := helper(precedence); if infix == nil { return left }`: the helper is evaluated with the binding
			// power as a named unknown P and a peek token of known precedence q, once with its comparison of P taken
			// as true and once as false; the side on which it answers the table's entry is the loop condition
			if infixHelper != nil && (bo.Op == token.NEQ || bo.Op == token.EQL) && (bo.X == ssa.Value(infixHelper) && isNilConst(bo.Y) || bo.Y == ssa.Value(infixHelper) && isNilConst(bo.X)) && (bo.Op == token.NEQ) == f.Holds {
				callee := infixHelper.Call.StaticCallee()
				args := make([]any, len(infixHelper.Call.Args))
				pIdx := -1
				for i, a := range infixHelper.Call.Args {
					args[i] = iObj{"parser"}
					if isPrecParam(a) {
						pIdx = i
						args[i] = iSym{name: "P"}
					}
				}
				if pIdx < 0 || len(args) != len(callee.Params) {
					continue
				}
				var tvs []int64
				for tv := range pm.precPeek {
					tvs = append(tvs, tv)
				}
				sort.Slice(tvs, func(i, j int) bool { return tvs[i] < tvs[j] })
				var got token.Token
				consistent, seen := true, 0
				for _, tv := range tvs {
					q := pm.precPeek[tv]
					var answers [2]string
					var symSeen *iSym
					nSym := 0
					for side := 0; side < 2; side++ {
						ip := m.parserInterp(-1, tv, pm.precLit, func(string, int64) bool { return true })
						ip.branch = func(cond iSym, _ *ssa.If) (bool, bool) {
							c := cond
							symSeen = &c
							nSym++
							return side == 0, true
						}
						res, ok := ip.Run(callee, args)
						switch res.(type) {
						case iNil:
							answers[side] = "nil"
						case iFn, *iClosure:
							answers[side] = "fn"
						default:
							if !ok {
								answers[side] = "?"
							} else {
								answers[side] = "?"
							}
						}
					}
					if symSeen == nil {
						continue // a stop token, or LOWEST: decided without looking at P
					}
					if nSym != 2 || answers[0] == answers[1] || answers[0] == "?" || answers[1] == "?" {
						consistent = false
						break
					}
					sym := *symSeen
					op := token.ILLEGAL
					xs, xIsSym := sym.x.(iSym)
					ys, yIsSym := sym.y.(iSym)
					xc, xIsC := sym.x.(constant.Value)
					yc, yIsC := sym.y.(constant.Value)
					switch {
					case xIsSym && xs.name == "P" && yIsC:
						if v, _ := constant.Int64Val(yc); v == q {
							op = sym.op
						}
					case yIsSym && ys.name == "P" && xIsC:
						if v, _ := constant.Int64Val(xc); v == q {
							op = flip[sym.op]
						}
					}
					if op == token.ILLEGAL {
						consistent = false
						break
					}
					if answers[0] == "nil" { // the comparison holding ends the expression: the loop goes on under its negation
						op = negate[op]
					}
					if seen > 0 && op != got {
						consistent = false
						break
					}
					got, seen = op, seen+1
				}
				if consistent && seen > 0 {
					pm.cmpOp = got
				}
				continue
			}
			op := token.ILLEGAL
			switch {
			case isPrecParam(bo.X) && isPeekPrec(bo.Y):
				op = bo.Op
			case isPrecParam(bo.Y) && isPeekPrec(bo.X):
				op = flip[bo.Op]
			default:
				continue
			}
			if !f.Holds {
				op = negate[op]
			}
			if op == 0 {
				op = token.ILLEGAL
			}
			pm.cmpOp = op
		}
	}
	if pm.cmpOp == 0 {
		pm.problems = append(pm.problems, "parseExpression: comparison of the precedence parameter with peekPrecedence() not found")
	}
	// stop tokens: constants passed to peekTokenIs in parseExpression
	for _, b := range pe.Blocks {
		for _, in := range b.Instrs {
			c, ok := in.(*ssa.Call)
			if !ok || c.Call.StaticCallee() == nil || canonFnName(c.Call.StaticCallee()) != "peekTokenIs" {
				continue
			}
			for _, e := range variadicElems(c.Call.Args[len(c.Call.Args)-1]) {
				if k, ok := e.(*ssa.Const); ok {
					pm.stops = append(pm.stops, pm.tokName[k.Int64()])
				}
			}
		}
	}
	sort.Strings(pm.stops)
	return pm
}

func tab2name(tab map[string]*handler, pm *prattModel) string {
	if &tab == &pm.prefix {
		return "prefix"
	}
	return ""
}

func intConst(info *types.Info, e ast.Expr) (int64, bool) {
	if tv, ok := info.Types[e]; ok && tv.Value != nil {
		return constant.Int64Val(constant.ToInt(tv.Value))
	}
	return 0, false
}

// registrarField: fn(p, tok, f) { p.<field>[tok] = f } -> field name.
func registrarField(fn *ssa.Function) string {
	if fn.Blocks == nil || len(fn.Params) != 3 {
		return ""
	}
	for _, b := range fn.Blocks {
		for _, in := range b.Instrs {
			mu, ok := in.(*ssa.MapUpdate)
			if !ok || mu.Key != ssa.Value(fn.Params[1]) || mu.Value != ssa.Value(fn.Params[2]) {
				continue
			}
			if _, p, ok := pathOf(mu.Map); ok {
				return strings.TrimPrefix(p, ".")
			}
		}
	}
	return ""
}

// boundMethod resolves a method value (p.parseX) to the method's function.
func boundMethod(m *Model, v ssa.Value) *ssa.Function {
	for i := 0; i < 4; i++ {
		switch x := v.(type) {
		case *ssa.ChangeType:
			v = x.X
			continue
		case *ssa.MakeClosure:
			fn, _ := x.Fn.(*ssa.Function)
			if fn == nil {
				return nil
			}
			if fn.Synthetic != "" {
				if o, ok := fn.Object().(*types.Func); ok {
					return m.Prog.FuncValue(o)
				}
				// fall back: the wrapper's single module callee
				if node := m.CG.Nodes[fn]; node != nil {
					for _, e := range node.Out {
						if m.InModule(e.Callee.Func) {
							return e.Callee.Func
						}
					}
				}
				return nil
			}
			return fn
		case *ssa.Function:
			return x
		}
		break
	}
	return nil
}

// analyseHandler linearises the calls on the success path of a parse method.
func (m *Model) analyseHandler(pm *prattModel, h *handler, _ string) {
	fn := h.fn
	if fn.Blocks == nil {
		h.shape = "unknown"
		return
	}
	// success returns: returns of a non-nil value
	var succ []*ssa.BasicBlock
	for _, b := range fn.Blocks {
		if r, ok := b.Instrs[len(b.Instrs)-1].(*ssa.Return); ok && len(r.Results) == 1 {
			if c, ok := r.Results[0].(*ssa.Const); ok && c.IsNil() {
				continue
			}
			succ = append(succ, b)
		}
	}
	if len(succ) == 0 {
		h.shape = "unknown"
		return
	}
	// take the success return whose dominator chain is longest (the plain, non-delegating path is a prefix of it)
	best := succ[0]
	depth := func(b *ssa.BasicBlock) int {
		n := 0
		for d := b; d != nil; d = d.Idom() {
			n++
		}
		return n
	}
	for _, b := range succ[1:] {
		if depth(b) > depth(best) {
			best = b
		}
	}
	var chain []*ssa.BasicBlock
	for d := best; d != nil; d = d.Idom() {
		chain = append([]*ssa.BasicBlock{d}, chain...)
	}
	collect := func(chain []*ssa.BasicBlock) []parseStep {
		h := &handler{fn: fn}
		consumed := false // a nextToken / successful expectPeek happened since entry
		for _, b := range chain {
			for _, in := range b.Instrs {
				c, ok := in.(*ssa.Call)
				if !ok {
					continue
				}
				sc := c.Call.StaticCallee()
				if sc == nil || !m.InModule(sc) {
					continue
				}
				switch canonFnName(sc) {
				case "nextToken":
					h.steps = append(h.steps, parseStep{op: "next"})
					consumed = true
				case "expectPeek":
					tn := "?"
					if k, ok := c.Call.Args[1].(*ssa.Const); ok {
						tn = pm.tokName[k.Int64()]
					}
					h.steps = append(h.steps, parseStep{op: "expect", tok: tn})
					consumed = true
				case "parseExpression":
					h.steps = append(h.steps, parseStep{op: "parse", bp: m.bpOf(pm, c.Call.Args[1], consumed, c.Pos())})
				case "parseExpressionList":
					tn := "?"
					if k, ok := c.Call.Args[1].(*ssa.Const); ok {
						tn = pm.tokName[k.Int64()]
					}
					h.steps = append(h.steps, parseStep{op: "list", tok: tn})
				case "parseIdentifier":
					h.steps = append(h.steps, parseStep{op: "ident"})
				case "parseCallExp":
					h.steps = append(h.steps, parseStep{op: "call"})
				default:
					// a helper of the parser that makes exactly one step onto the next token on every path that can
					// report success (`expectPeekName`: nextToken for a keyword, expectPeek(IDENT) otherwise)
					if st, ok := m.oneStepHelper(pm, sc, c); ok {
						h.steps = append(h.steps, st)
						consumed = true
					}
				}
			}
		}
		return h.steps
	}
	h.steps = collect(chain)
	// classify
	classify := func(steps []parseStep) string {
		h := &handler{fn: fn, steps: steps}
		var sig []string
		for _, s := range h.steps {
			switch s.op {
			case "expect", "list":
				sig = append(sig, s.op+":"+s.tok)
			default:
				sig = append(sig, s.op)
			}
		}
		nparams := len(fn.Params) // receiver + left?
		infix := nparams == 2
		sg := strings.Join(sig, ",")
		switch {
		case infix && sg == "next,parse":
			h.shape = "binary"
		case infix && sg == "next,parse,expect:COLON,next,parse":
			h.shape = "ternary"
		case infix && sg == "next,parse,expect:RBRACKET":
			h.shape = "index"
		case infix && sg == "":
			h.shape = "postfix"
		case infix && (sg == "expect:IDENT,ident" || sg == "expect:IDENT,call" || sg == "expect:IDENT,ident,call" || sg == "expect:IDENT,call,ident"):
			h.shape = "dot"
		case infix && (sg == "next,ident" || sg == "next,call" || sg == "next,ident,call" || sg == "next,call,ident" || sg == "next,expect:IDENT,ident" || sg == "next,expect:IDENT,call" || sg == "next,expect:IDENT,ident,call" || sg == "next,expect:IDENT,call,ident"):
			h.shape = "dot" // the name token is stepped onto either as an identifier or as a keyword used as a name (R-DOTKW says which tokens)
		case !infix && sg == "next,parse":
			h.shape = "prefixop"
		case !infix && sg == "next,parse,expect:RPAREN":
			h.shape = "group"
		case !infix && sg == "":
			h.shape = "atom"
		case !infix:
			// any other prefix construct is closed by its own delimiters (array, object literal);
			// its inner parseExpression calls are complete-expression sites
			h.shape = "atom"
		default:
			h.shape = "unknown:" + sg
		}
		return h.shape
	}
	h.shape = classify(h.steps)
	if strings.HasPrefix(h.shape, "unknown") {
		// the calls of the success path do not all dominate the return (`if peek is a keyword { next } else if
		// !expect(IDENT) { return nil }`): every acyclic path from the entry to that return is read on its own, and
		// the shape stands when all of them agree
		var paths [][]*ssa.BasicBlock
		var dfs func(b *ssa.BasicBlock, path []*ssa.BasicBlock, on map[*ssa.BasicBlock]bool)
		dfs = func(b *ssa.BasicBlock, path []*ssa.BasicBlock, on map[*ssa.BasicBlock]bool) {
			if len(paths) > 64 || on[b] {
				return
			}
			path = append(path, b)
			if b == best {
				paths = append(paths, append([]*ssa.BasicBlock{}, path...))
				return
			}
			on[b] = true
			for _, nx := range b.Succs {
				dfs(nx, path, on)
			}
			delete(on, b)
		}
		dfs(fn.Blocks[0], nil, map[*ssa.BasicBlock]bool{})
		shape, agree := "", len(paths) > 0 && len(paths) <= 64
		var first []parseStep
		for _, pth := range paths {
			st := collect(pth)
			sh := classify(st)
			if shape == "" {
				shape, first = sh, st
			} else if sh != shape {
				agree = false
			}
		}
		if agree && !strings.HasPrefix(shape, "unknown") {
			h.shape, h.steps = shape, first
		}
	}
}

// oneStepHelper: a module function with a single boolean result whose every acyclic path makes at most one step
// (nextToken or expectPeek of a constant token) and nothing else the shapes know of; a path without a step returns
// the constant false. The step it stands for is the common one, or "next" when the paths differ.
func (m *Model) oneStepHelper(pm *prattModel, fn *ssa.Function, site *ssa.Call) (parseStep, bool) {
	if fn.Blocks == nil || fn.Signature.Results().Len() != 1 {
		return parseStep{}, false
	}
	// the verdict is a bool, or a node that is nil on failure (`closeExp(exp, closer)`: exp or nil)
	nodeResult := false
	if !isBoolT(fn.Signature.Results().At(0).Type()) {
		switch fn.Signature.Results().At(0).Type().Underlying().(type) {
		case *types.Interface, *types.Pointer:
			nodeResult = true
		default:
			return parseStep{}, false
		}
	}
	var steps []parseStep
	okAll, n := true, 0
	var dfs func(b *ssa.BasicBlock, cur []parseStep, on map[*ssa.BasicBlock]bool)
	dfs = func(b *ssa.BasicBlock, cur []parseStep, on map[*ssa.BasicBlock]bool) {
		if !okAll || on[b] {
			if on[b] {
				okAll = false // a loop steps an unknown number of times
			}
			return
		}
		n++
		if n > 256 {
			okAll = false
			return
		}
		for _, in := range b.Instrs {
			c, ok := in.(*ssa.Call)
			if !ok {
				continue
			}
			sc := c.Call.StaticCallee()
			if sc == nil || !m.InModule(sc) {
				continue
			}
			switch canonFnName(sc) {
			case "nextToken":
				cur = append(cur[:len(cur):len(cur)], parseStep{op: "next"})
			case "expectPeek":
				tn := "?"
				if k, ok := c.Call.Args[1].(*ssa.Const); ok {
					tn = pm.tokName[k.Int64()]
				}
				// the token is the helper's parameter: what the call site passes
				if par, isPar := c.Call.Args[1].(*ssa.Parameter); isPar && site != nil {
					for i, q := range fn.Params {
						if q == par && i < len(site.Call.Args) {
							if k, ok := site.Call.Args[i].(*ssa.Const); ok && k.Value != nil {
								tn = pm.tokName[k.Int64()]
							}
						}
					}
				}
				cur = append(cur[:len(cur):len(cur)], parseStep{op: "expect", tok: tn})
			case "parseExpression", "parseExpressionList", "parseIdentifier", "parseCallExp":
				okAll = false
				return
			}
		}
		if r, ok := b.Instrs[len(b.Instrs)-1].(*ssa.Return); ok {
			switch {
			case len(cur) == 1:
				steps = append(steps, cur[0])
			case len(cur) == 0 && nodeResult:
				if !isNilConst(r.Results[0]) {
					okAll = false
				}
			case len(cur) == 0:
				if k, isK := r.Results[0].(*ssa.Const); !isK || k.Value == nil || constant.BoolVal(k.Value) {
					okAll = false
				}
			default:
				okAll = false
			}
			return
		}
		on[b] = true
		for _, nx := range b.Succs {
			dfs(nx, cur, on)
		}
		delete(on, b)
	}
	dfs(fn.Blocks[0], nil, map[*ssa.BasicBlock]bool{})
	if !okAll || len(steps) == 0 {
		return parseStep{}, false
	}
	st := steps[0]
	for _, x := range steps[1:] {
		if x != st {
			return parseStep{op: "next"}, true
		}
	}
	return st, true
}

// bpOf classifies the binding power argument of a parseExpression call.
func (m *Model) bpOf(pm *prattModel, v ssa.Value, consumed bool, pos token.Pos) bpArg {
	if c, ok := v.(*ssa.Const); ok && c.Value != nil {
		return bpArg{kind: bpConst, val: c.Int64(), pos: pos}
	}
	// precedences[p.curToken.Type], directly or through a helper method that returns it
	var eff []ssa.Instruction
	if m.isOwnPrecRead(v, 0) || m.ownPrecSemantic(pm, v, &eff) {
		// the read must happen before the operator is consumed; SSA places the
		// read where the expression is evaluated, so check that no consuming call
		// dominates the read (when the token was first copied into a local node, the copy is the read)
		if len(eff) > 0 {
			for _, in := range eff {
				if m.consumedBefore(in) {
					return bpArg{kind: bpUnknown, pos: pos}
				}
			}
			return bpArg{kind: bpOwn, pos: pos}
		}
		if in, ok := v.(ssa.Instruction); ok && m.consumedBefore(in) {
			return bpArg{kind: bpUnknown, pos: pos}
		}
		return bpArg{kind: bpOwn, pos: pos}
	}
	return bpArg{kind: bpUnknown, pos: pos}
}

func (m *Model) consumedBefore(in ssa.Instruction) bool {
	fn := in.Parent()
	ctx := m.Ctx(fn)
	for _, b := range fn.Blocks {
		for _, x := range b.Instrs {
			c, ok := x.(*ssa.Call)
			if !ok || c.Call.StaticCallee() == nil {
				continue
			}
			n := canonFnName(c.Call.StaticCallee())
			if (n == "nextToken" || n == "expectPeek") && ctx.instrDominates(x, in) && x != in {
				return true
			}
		}
	}
	return false
}

// isOwnPrecRead: v is precedences[recv.curToken.Type] (possibly with a default) or a call of a method returning that.
func (m *Model) isOwnPrecRead(v ssa.Value, d int) bool {
	if d > 4 {
		return false
	}
	switch x := v.(type) {
	case *ssa.Extract:
		return m.isOwnPrecRead(x.Tuple, d+1)
	case *ssa.Lookup:
		g, ok := derefGlobal(x.X)
		if !ok || canonGlobalName(g) != "precedences" {
			return false
		}
		_, p, ok := pathOf(x.Index)
		return ok && strings.HasSuffix(p, ".curToken.Type")
	case *ssa.Phi:
		// result, ok := precedences[...]; if !ok { return LOWEST }
		any := false
		for _, e := range x.Edges {
			if _, isC := e.(*ssa.Const); isC {
				continue
			}
			if !m.isOwnPrecRead(e, d+1) {
				return false
			}
			any = true
		}
		return any
	case *ssa.Call:
		sc := x.Call.StaticCallee()
		if sc == nil || !m.InModule(sc) || sc.Blocks == nil {
			return false
		}
		okAll, n := true, 0
		for _, b := range sc.Blocks {
			if r, ok := b.Instrs[len(b.Instrs)-1].(*ssa.Return); ok && len(r.Results) == 1 {
				if _, isC := r.Results[0].(*ssa.Const); isC {
					continue
				}
				n++
				if !m.isOwnPrecRead(r.Results[0], d+1) {
					okAll = false
				}
			}
		}
		return okAll && n > 0
	}
	return false
}

// ---------------------------------------------------------------------------
// Specification grammar (transcribed from the statement of C01)

var specLevel = map[string]int{
	"QUESTION": 1,
	"EQ":       2, "NOT_EQ": 2,
	"LTHAN": 3, "GTHAN": 3, "LTHAN_EQ": 3, "GTHAN_EQ": 3,
	"ADD": 4, "SUB": 4,
	"MUL": 5, "DIV": 5, "MOD": 5,
	"DOT":      6,
	"LBRACKET": 8,
	"INC":      9, "DEC": 9,
}

const specPrefixLevel = 7 // unary - and !

var specBinary = []string{"EQ", "NOT_EQ", "LTHAN", "GTHAN", "LTHAN_EQ", "GTHAN_EQ", "ADD", "SUB", "MUL", "DIV", "MOD"}
var specPrefixOps = []string{"SUB", "NOT"}

// tokens of a test expression
type ptok struct {
	kind string // atom, op (infix/postfix token name), pre (prefix token name), colon, rbracket
	name string
}

// tree node as string; parse returns "" on error
type exprParser struct {
	toks []ptok
	pos  int
	// table
	prec    func(name string) int64 // infix precedence of a token (lowest if none)
	lowest  int64
	less    func(a, b int64) bool
	isInfix func(name string) bool
	shape   func(name string) string           // binary|ternary|index|postfix|dot
	rbp     func(name string, which int) int64 // binding power of sub-expression #which of the handler for name
	prefixB func(name string) int64
	err     bool
}

func (p *exprParser) peek() *ptok {
	if p.pos+1 < len(p.toks) {
		return &p.toks[p.pos+1]
	}
	return nil
}

func (p *exprParser) parse(bp int64) string {
	if p.err || p.pos >= len(p.toks) {
		p.err = true
		return ""
	}
	t := p.toks[p.pos]
	var left string
	switch t.kind {
	case "atom":
		left = t.name
	case "pre":
		p.pos++
		r := p.parse(p.prefixB(t.name))
		left = "(" + t.name + " " + r + ")"
	default:
		p.err = true
		return ""
	}
	for {
		nx := p.peek()
		if nx == nil || nx.kind != "op" {
			break
		}
		if !p.less(bp, p.prec(nx.name)) {
			break
		}
		if !p.isInfix(nx.name) {
			break
		}
		p.pos++ // cur = operator
		op := nx.name
		switch p.shape(op) {
		case "binary":
			p.pos++
			r := p.parse(p.rbp(op, 0))
			left = "(" + left + " " + op + " " + r + ")"
		case "ternary":
			p.pos++
			c := p.parse(p.rbp(op, 0))
			if q := p.peek(); q == nil || q.kind != "colon" {
				p.err = true
				return ""
			}
			p.pos += 2
			a := p.parse(p.rbp(op, 1))
			left = "(" + left + " ? " + c + " : " + a + ")"
		case "index":
			p.pos++
			i := p.parse(p.rbp(op, 0))
			if q := p.peek(); q == nil || q.kind != "rbracket" {
				p.err = true
				return ""
			}
			p.pos++
			left = "(" + left + "[" + i + "])"
		case "postfix":
			left = "(" + left + " " + op + ")"
		case "dot":
			if q := p.peek(); q == nil || q.kind != "atom" {
				p.err = true
				return ""
			}
			p.pos++
			left = "(" + left + "." + p.toks[p.pos].name + ")"
		default:
			p.err = true
			return ""
		}
		if p.err {
			return ""
		}
	}
	return left
}

func specParser(toks []ptok) *exprParser {
	return &exprParser{
		toks:   toks,
		lowest: 0,
		prec: func(n string) int64 {
			return int64(specLevel[n])
		},
		less:    func(a, b int64) bool { return a < b },
		isInfix: func(n string) bool { _, ok := specLevel[n]; return ok },
		shape: func(n string) string {
			switch n {
			case "QUESTION":
				return "ternary"
			case "LBRACKET":
				return "index"
			case "INC", "DEC":
				return "postfix"
			case "DOT":
				return "dot"
			}
			return "binary"
		},
		rbp: func(n string, which int) int64 {
			switch n {
			case "QUESTION":
				return 0 // consequence (delimited by ':') and else part: complete expressions; else nests to the right
			case "LBRACKET":
				return 0
			}
			return int64(specLevel[n]) // left associative
		},
		prefixB: func(string) int64 { return specPrefixLevel },
	}
}

func (pm *prattModel) parser(toks []ptok) *exprParser {
	less := func(a, b int64) bool { return a < b }
	if pm.cmpOp == token.LEQ {
		less = func(a, b int64) bool { return a <= b }
	}
	bpVal := func(b bpArg, own string) int64 {
		if b.kind == bpOwn {
			return pm.precOf(own)
		}
		return b.val
	}
	parses := func(h *handler) []bpArg {
		var out []bpArg
		for _, s := range h.steps {
			if s.op == "parse" {
				out = append(out, s.bp)
			}
		}
		return out
	}
	return &exprParser{
		toks:    toks,
		lowest:  pm.lowest,
		prec:    pm.precOf,
		less:    less,
		isInfix: func(n string) bool { return pm.infix[n] != nil },
		shape: func(n string) string {
			if h := pm.infix[n]; h != nil {
				return h.shape
			}
			return ""
		},
		rbp: func(n string, which int) int64 {
			ps := parses(pm.infix[n])
			if which < len(ps) {
				return bpVal(ps[which], n)
			}
			return pm.lowest
		},
		prefixB: func(n string) int64 {
			if h := pm.prefix[n]; h != nil {
				if ps := parses(h); len(ps) > 0 {
					return bpVal(ps[0], n)
				}
			}
			return pm.lowest
		},
	}
}

func (pm *prattModel) precOf(n string) int64 {
	if v, ok := pm.prec[n]; ok {
		return v
	}
	return pm.lowest
}

// operator "pieces" that can follow an operand
type piece struct {
	name string
	toks func(next func() ptok) []ptok // tokens after the left operand, including following operands
	open bool                          // ends with an open right operand
}

func genExprs(maxOps int) [][]ptok {
	atomN := 0
	atom := func() ptok { atomN++; return ptok{"atom", string(rune('a' + (atomN-1)%26))} }
	var out [][]ptok
	infixNames := append(append([]string{}, specBinary...), "QUESTION", "LBRACKET", "INC", "DEC", "DOT")
	var rec func(cur []ptok, ops int, needOperand bool)
	rec = func(cur []ptok, ops int, needOperand bool) {
		if needOperand {
			// operand: atom, optionally with a prefix operator
			rec(append(append([]ptok{}, cur...), atom()), ops, false)
			if ops < maxOps {
				for _, pre := range specPrefixOps {
					rec(append(append([]ptok{}, cur...), ptok{"pre", pre}), ops+1, true)
				}
			}
			return
		}
		out = append(out, cur)
		if ops >= maxOps {
			return
		}
		for _, n := range infixNames {
			nx := append(append([]ptok{}, cur...), ptok{"op", n})
			switch n {
			case "INC", "DEC":
				rec(nx, ops+1, false)
			case "DOT":
				rec(append(nx, atom()), ops+1, false)
			case "LBRACKET":
				rec(append(nx, atom(), ptok{"rbracket", "]"}), ops+1, false)
			case "QUESTION":
				rec(append(nx, atom(), ptok{"colon", ":"}), ops+1, true)
			default:
				rec(nx, ops+1, true)
			}
		}
	}
	rec(nil, 0, true)
	return out
}

func toksString(ts []ptok) string {
	var s []string
	for _, t := range ts {
		switch t.kind {
		case "atom", "colon", "rbracket":
			s = append(s, t.name)
		default:
			s = append(s, tokSym(t.name))
		}
	}
	return strings.Join(s, " ")
}

func tokSym(n string) string {
	sym := map[string]string{"ADD": "+", "SUB": "-", "MUL": "*", "DIV": "/", "MOD": "%", "EQ": "==", "NOT_EQ": "!=", "LTHAN": "<", "GTHAN": ">",
		"LTHAN_EQ": "<=", "GTHAN_EQ": ">=", "QUESTION": "?", "LBRACKET": "[", "INC": "++", "DEC": "--", "DOT": ".", "NOT": "!"}
	if s, ok := sym[n]; ok {
		return s
	}
	return n
}

// RunPratt produces the R-PRATT obligations.
func (m *Model) RunPratt(s *Sink, rule string) {
	pm := m.extractPratt()
	for _, p := range pm.problems {
		s.Undecided(rule, "model|"+p, "-", "the Pratt model could not be extracted: %s", p)
	}
	if len(pm.problems) > 0 {
		return
	}
	// table rows
	var names []string
	for n := range pm.prec {
		names = append(names, n)
	}
	sort.Strings(names)
	for _, n := range names {
		s.OKTrivial(rule, "precedence-entry "+n, "parser/parser.go", "precedences[%s] = %d", n, pm.prec[n])
	}
	// handlers
	for _, tab := range []struct {
		name string
		t    map[string]*handler
	}{{"prefix", pm.prefix}, {"infix", pm.infix}} {
		var ks []string
		for k := range tab.t {
			ks = append(ks, k)
		}
		sort.Strings(ks)
		for _, k := range ks {
			h := tab.t[k]
			key := fmt.Sprintf("%s-registration %s -> %s", tab.name, k, h.fn.Name())
			if strings.HasPrefix(h.shape, "unknown") {
				s.Undecided(rule, key, m.Pos(h.fn.Pos()), "parse method %s has an unrecognised success-path shape (%s); the operator model cannot be decided", fnKey(h.fn), h.shape)
				continue
			}
			var bps []string
			bad := false
			for _, st := range h.steps {
				if st.op == "parse" {
					bps = append(bps, st.bp.String())
					if st.bp.kind == bpUnknown {
						bad = true
					}
				}
			}
			if bad {
				s.Undecided(rule, key, m.Pos(h.fn.Pos()), "%s passes a binding power that is neither a constant nor the operator's own level read before the operator is consumed", fnKey(h.fn))
				continue
			}
			s.OK(rule, key, m.Pos(h.fn.Pos()), "shape %s, binding powers %v", h.shape, bps)
		}
	}
	// an operator's parse function returns the node it builds — not one of its operands (`-(-x)` folded to x at parse
	// time drops two operators with their type checks)
	{
		seenFn := map[*ssa.Function]bool{}
		for _, tab := range []map[string]*handler{pm.prefix, pm.infix} {
			var ks []string
			for k := range tab {
				ks = append(ks, k)
			}
			sort.Strings(ks)
			for _, k := range ks {
				h := tab[k]
				switch h.shape {
				case "binary", "prefixop", "ternary", "index", "postfix":
				default:
					continue
				}
				if seenFn[h.fn] || h.fn.Blocks == nil {
					continue
				}
				seenFn[h.fn] = true
				key := fnKey(h.fn) + "|returns the node it builds, not an operand"
				bad := ""
				var operand func(v ssa.Value, d int) string
				operand = func(v ssa.Value, d int) string {
					if d > 4 {
						return ""
					}
					switch x := v.(type) {
					case *ssa.MakeInterface:
						return operand(x.X, d+1)
					case *ssa.ChangeInterface:
						return operand(x.X, d+1)
					case *ssa.Phi:
						for _, e := range x.Edges {
							if w := operand(e, d+1); w != "" {
								return w
							}
						}
					case *ssa.Parameter:
						if len(h.fn.Params) == 2 && x == h.fn.Params[1] {
							return "its left operand"
						}
					case *ssa.Call:
						if sc := x.Call.StaticCallee(); sc != nil && canonFnName(sc) == "parseExpression" {
							return "the operand it has just parsed"
						}
					case *ssa.UnOp:
						if fa, isFA := x.X.(*ssa.FieldAddr); isFA && x.Op == token.MUL {
							if nt := ptrNamed(fa.X.Type()); nt != nil && nt.Obj().Pkg() != nil && shortPkg(nt.Obj().Pkg().Path()) == "ast" {
								if _, isExpr := x.Type().Underlying().(*types.Interface); isExpr {
									return "a part of a node (" + valueDesc(x) + ")"
								}
							}
						}
					}
					return ""
				}
				for _, b := range h.fn.Blocks {
					if r, ok := b.Instrs[len(b.Instrs)-1].(*ssa.Return); ok && len(r.Results) == 1 && bad == "" {
						if w := operand(r.Results[0], 0); w != "" {
							bad = w + " at " + m.InstrPos(r)
						}
					}
				}
				if bad == "" {
					s.OK(rule, key, m.Pos(h.fn.Pos()), "no return hands back the left operand, a freshly parsed operand or a part of a node")
				} else {
					s.Violation(rule, key, m.Pos(h.fn.Pos()), "%s returns %s instead of the node of its operator: the operator is dropped from the tree, with its type checks and its value (`!!x` is 0 or 1, not x; `- -s` of a string is an error)", fnKey(h.fn), bad)
				}
			}
		}
	}
	// loop comparison
	if pm.cmpOp == token.LSS {
		s.OK(rule, "pratt-loop comparison", m.Pos(m.Method("parser", "Parser", "parseExpression").Pos()), "loop continues while precedence < peekPrecedence() (strict)")
	} else {
		s.Violation(rule, "pratt-loop comparison", m.Pos(m.Method("parser", "Parser", "parseExpression").Pos()), "the Pratt loop compares with %s instead of the strict <: equal-precedence operators would group to the right", pm.cmpOp)
	}
	// every spec operator must be registered with the expected shape
	wantShape := map[string]string{"QUESTION": "ternary", "LBRACKET": "index", "INC": "postfix", "DEC": "postfix", "DOT": "dot"}
	for _, n := range specBinary {
		wantShape[n] = "binary"
	}
	var wn []string
	for n := range wantShape {
		wn = append(wn, n)
	}
	sort.Strings(wn)
	shapesOK := true
	for _, n := range wn {
		h := pm.infix[n]
		key := "operator " + tokSym(n) + " registered as " + wantShape[n]
		switch {
		case h == nil:
			s.Violation(rule, key, "parser/parser.go", "operator %s has no infix registration in parser.New", tokSym(n))
			shapesOK = false
		case h.shape != wantShape[n]:
			s.Violation(rule, key, m.Pos(h.fn.Pos()), "operator %s is handled by %s whose shape is %q, expected %q", tokSym(n), fnKey(h.fn), h.shape, wantShape[n])
			shapesOK = false
		case pm.precOf(n) <= pm.lowest:
			s.Violation(rule, key, "parser/parser.go", "operator %s has no entry above the lowest level in precedences: the Pratt loop never reaches its handler", tokSym(n))
			shapesOK = false
		default:
			s.OKTrivial(rule, key, m.Pos(h.fn.Pos()), "handled by %s", h.fn.Name())
		}
	}
	for _, n := range specPrefixOps {
		h := pm.prefix[n]
		key := "prefix operator " + tokSym(n)
		if h == nil || h.shape != "prefixop" {
			s.Violation(rule, key, "parser/parser.go", "prefix operator %s is not registered with a prefix-operator parse method", tokSym(n))
			shapesOK = false
		} else {
			s.OKTrivial(rule, key, m.Pos(h.fn.Pos()), "handled by %s", h.fn.Name())
		}
	}
	if !shapesOK {
		return
	}
	// exhaustive comparison
	exprs := genExprs(3)
	type mismatch struct{ src, got, want string }
	byPair := map[string]*mismatch{}
	total, agree := 0, 0
	pairSeen := map[string]bool{}
	for _, toks := range exprs {
		sp := specParser(toks)
		want := sp.parse(0)
		if sp.err || sp.pos != len(toks)-1 {
			continue // not a sentence of the specification grammar
		}
		if strings.Contains(want, "? (") && nestedTernaryInConsequence(toks) {
			continue // the statement is silent on a ternary nested directly in a consequence
		}
		total++
		ip := pm.parser(toks)
		got := ip.parse(pm.lowest)
		if ip.err || ip.pos != len(toks)-1 {
			got = "<error or trailing tokens>"
		}
		ops := opSeq(toks)
		pairSeen[ops] = true
		if got == want {
			agree++
			continue
		}
		if _, ok := byPair[ops]; !ok {
			byPair[ops] = &mismatch{toksString(toks), got, want}
		}
	}
	// one obligation per leading operator for 1- and 2-operator sequences, one aggregate for the rest
	type agg struct {
		n   int
		bad []*mismatch
	}
	groups := map[string]*agg{}
	var order []string
	for k := range pairSeen {
		parts := strings.Split(k, " ")
		g := "sequences of <= 2 operators starting with " + parts[0]
		if len(parts) > 2 {
			g = "sequences of 3 operators"
			// a triple is attributed to the aggregate only if none of its 2-operator prefixes/suffixes already mismatches
			var bare []string
			for _, q := range parts {
				if !strings.HasPrefix(q, "prefix") {
					bare = append(bare, q)
				}
			}
			if byPair[strings.Join(parts[:2], " ")] != nil || byPair[strings.Join(parts[1:], " ")] != nil || byPair[parts[0]] != nil || (len(bare) < len(parts) && byPair[strings.Join(bare, " ")] != nil) {
				if byPair[k] != nil {
					continue
				}
			}
		}
		if groups[g] == nil {
			groups[g] = &agg{}
			order = append(order, g)
		}
		groups[g].n++
		if mm := byPair[k]; mm != nil {
			groups[g].bad = append(groups[g].bad, mm)
		}
	}
	sort.Strings(order)
	for _, g := range order {
		a := groups[g]
		key := "grouping: " + g
		if len(a.bad) == 0 {
			s.OK(rule, key, "-", "%d operator sequences, every layout groups as the specification grammar does", a.n)
			continue
		}
		sort.Slice(a.bad, func(i, j int) bool {
			return len(a.bad[i].src) < len(a.bad[j].src) || len(a.bad[i].src) == len(a.bad[j].src) && a.bad[i].src < a.bad[j].src
		})
		var ex []string
		for i, mm := range a.bad {
			if i >= 4 {
				break
			}
			ex = append(ex, fmt.Sprintf("`%s` is grouped as %s, C01 requires %s", mm.src, pretty(mm.got), pretty(mm.want)))
		}
		s.Violation(rule, key, m.Pos(m.Method("parser", "Parser", "parseExpression").Pos()),
			"%d of %d operator sequences are grouped differently from the precedence order of C01, e.g. %s; binding powers passed by the parse methods: %s (precedences: %s)",
			len(a.bad), a.n, strings.Join(ex, "; "), pm.describeBPs(), pm.describePrec())
	}
	s.Note(rule, "exhaustive-summary", "-", "%d expressions with <= 3 operators compared with the specification grammar, %d agree", total, agree)
}

func nestedTernaryInConsequence(toks []ptok) bool {
	// a '?' between a '?' and its ':'
	depth := 0
	for _, t := range toks {
		if t.kind == "op" && t.name == "QUESTION" {
			if depth > 0 {
				return true
			}
			depth++
		}
		if t.kind == "colon" {
			depth--
		}
	}
	return false
}

func opSeq(toks []ptok) string {
	var s []string
	for _, t := range toks {
		switch t.kind {
		case "op":
			s = append(s, tokSym(t.name))
		case "pre":
			s = append(s, "prefix"+tokSym(t.name))
		}
	}
	if len(s) == 0 {
		return "(atom)"
	}
	return strings.Join(s, " ")
}

func pretty(t string) string {
	for n := range specLevel {
		t = strings.ReplaceAll(t, " "+n+" ", " "+tokSym(n)+" ")
		t = strings.ReplaceAll(t, " "+n+")", " "+tokSym(n)+")")
	}
	for _, n := range specPrefixOps {
		t = strings.ReplaceAll(t, "("+n+" ", "("+tokSym(n))
	}
	return t
}

func (pm *prattModel) describePrec() string {
	var ks []string
	for k := range pm.prec {
		ks = append(ks, k)
	}
	sort.Slice(ks, func(i, j int) bool {
		return pm.prec[ks[i]] < pm.prec[ks[j]] || pm.prec[ks[i]] == pm.prec[ks[j]] && ks[i] < ks[j]
	})
	var out []string
	for _, k := range ks {
		out = append(out, fmt.Sprintf("%s=%d", tokSym(k), pm.prec[k]))
	}
	return strings.Join(out, " ")
}

func (pm *prattModel) describeBPs() string {
	var out []string
	seen := map[*handler]bool{}
	var ks []string
	for k := range pm.infix {
		ks = append(ks, k)
	}
	sort.Strings(ks)
	for _, k := range ks {
		h := pm.infix[k]
		if seen[h] {
			continue
		}
		seen[h] = true
		var bps []string
		for _, st := range h.steps {
			if st.op == "parse" {
				bps = append(bps, st.bp.String())
			}
		}
		out = append(out, fmt.Sprintf("%s%v", h.fn.Name(), bps))
	}
	return strings.Join(out, " ")
}

// RunCompleteExprSites: every parseExpression call that is not the open
// operand of an operator handler must pass the lowest level.
func (m *Model) RunCompleteExprSites(s *Sink, rule string) {
	pm := m.extractPratt()
	if len(pm.problems) > 0 {
		return
	}
	pe := m.Method("parser", "Parser", "parseExpression")
	if pe == nil {
		return
	}
	open := map[*ssa.Function]int{} // handler -> index of its open operand parse (-1 none)
	for _, tab := range []map[string]*handler{pm.prefix, pm.infix} {
		for _, h := range tab {
			switch h.shape {
			case "binary", "prefixop":
				open[h.fn] = 0
			case "ternary":
				open[h.fn] = 1
			default:
				if _, ok := open[h.fn]; !ok {
					open[h.fn] = -1
				}
			}
		}
	}
	node := m.CG.Nodes[pe]
	if node == nil {
		return
	}
	type site struct {
		fn   *ssa.Function
		call ssa.CallInstruction
	}
	var sites []site
	for _, e := range node.In {
		if isUserPkg(fnPkgPath(e.Caller.Func)) || !m.InModule(e.Caller.Func) {
			continue
		}
		sites = append(sites, site{e.Caller.Func, e.Site})
	}
	sort.Slice(sites, func(i, j int) bool {
		if fnKey(sites[i].fn) != fnKey(sites[j].fn) {
			return fnKey(sites[i].fn) < fnKey(sites[j].fn)
		}
		return sites[i].call.Pos() < sites[j].call.Pos()
	})
	perFn := map[*ssa.Function]int{}
	for _, st := range sites {
		idx := perFn[st.fn]
		perFn[st.fn]++
		if oi, isHandler := open[st.fn]; isHandler && oi == idx {
			continue // the operator's own open operand: decided by the grouping obligations
		}
		arg := st.call.Common().Args[1]
		key := fmt.Sprintf("%s|complete-expression parse #%d", fnKey(st.fn), idx+1)
		c, ok := arg.(*ssa.Const)
		if !ok {
			s.Undecided(rule, key, m.InstrPos(st.call), "binding power is not a constant")
			continue
		}
		v := c.Int64()
		tern := pm.precOf("QUESTION")
		if v == pm.lowest {
			s.OK(rule, key, m.InstrPos(st.call), "parsed at the lowest level: any expression is accepted here")
		} else if h := pm.infix["QUESTION"]; h != nil && h.fn == st.fn && idx == 0 && v <= tern {
			s.OK(rule, key, m.InstrPos(st.call), "ternary consequence parsed at level %d <= ternary level (delimited by ':'; only a directly nested ternary needs parentheses)", v)
		} else {
			s.Violation(rule, key, m.InstrPos(st.call),
				"%s parses a complete-expression position at binding power %d instead of the lowest level %d: operators of level <= %d are cut off there (e.g. the value of `x = 1 + 2` would be 1)",
				fnKey(st.fn), v, pm.lowest, v)
		}
	}
}

// parserInterp builds an interpreter for the parser's pure helpers in the token state
// (curToken.Type = cur, peekToken.Type = peek; a negative value means unknown).
// precLit is the `precedences` literal; registered(field, tokenValue) tells whether a parse function is registered.
func (m *Model) parserInterp(cur, peek int64, precLit map[int64]int64, registered func(field string, tok int64) bool) *Interp {
	ip := &Interp{m: m}
	ip.load = func(v *ssa.UnOp, dirty bool) (any, bool) {
		if dirty {
			return nil, false
		}
		root, p, ok := pathOf(v)
		if al, isAl := root.(*ssa.Alloc); ok && isAl {
			// a field of a local node under construction (`exp.Token.Type` after `exp := &X{Token: p.curToken}`):
			// the value stored there, read when it was stored
			if sv, rest, st, fwd := m.forwardLocal(al, p, v); fwd {
				if r2, p2, ok2 := pathOf(sv); ok2 {
					root, p = r2, p2+rest
					if ld, isLd := sv.(ssa.Instruction); isLd {
						ip.effReads = append(ip.effReads, ld)
					} else {
						ip.effReads = append(ip.effReads, st)
					}
				}
			}
		}
		if !ok || root == nil || !strings.HasSuffix(root.Type().String(), "parser.Parser") {
			return nil, false
		}
		switch p {
		case ".curToken.Type":
			if cur >= 0 {
				return constant.MakeInt64(cur), true
			}
		case ".peekToken.Type":
			if peek >= 0 {
				return constant.MakeInt64(peek), true
			}
		}
		return nil, false
	}
	ip.lookup = func(l *ssa.Lookup, key any) (any, bool, bool) {
		kc, isC := key.(constant.Value)
		if !isC || kc.Kind() != constant.Int {
			return nil, false, false
		}
		k, _ := constant.Int64Val(kc)
		if ld, isLd := l.X.(*ssa.UnOp); isLd && ld.Op == token.MUL {
			if g, isG := ld.X.(*ssa.Global); isG && canonGlobalName(g) == "precedences" && shortPkg(g.Pkg.Pkg.Path()) == "parser" && precLit != nil {
				v, present := precLit[k]
				return constant.MakeInt64(v), present, true
			}
		}
		if _, p, ok := pathOf(l.X); ok && registered != nil {
			field := strings.TrimPrefix(p, ".")
			if field == "prefixParseFns" || field == "infixParseFns" {
				if registered(field, k) {
					return iFn{}, true, true
				}
				return iNil{}, false, true
			}
		}
		return nil, false, false
	}
	return ip
}

// globalMapWritten: is the package-level map written anywhere in module code (outside its initialiser)?
func (m *Model) globalMapWritten(pkg, name string) string {
	for _, fn := range m.ModFns {
		if fn.Blocks == nil || fn.Name() == "init" {
			continue
		}
		for _, b := range fn.Blocks {
			for _, in := range b.Instrs {
				var target ssa.Value
				switch x := in.(type) {
				case *ssa.MapUpdate:
					target = x.Map
				case *ssa.Store:
					target = x.Addr
				case *ssa.Call:
					if bi, ok := x.Call.Value.(*ssa.Builtin); ok && (bi.Name() == "delete" || bi.Name() == "clear") && len(x.Call.Args) > 0 {
						target = x.Call.Args[0]
					}
				}
				if target == nil {
					continue
				}
				for d := 0; d < 4; d++ { // an element or a field of the variable is part of it
					switch t := target.(type) {
					case *ssa.IndexAddr:
						target = t.X
						continue
					case *ssa.FieldAddr:
						target = t.X
						continue
					}
					break
				}
				if ld, ok := target.(*ssa.UnOp); ok && ld.Op == token.MUL {
					target = ld.X
				}
				if g, ok := target.(*ssa.Global); ok && canonGlobalName(g) == name && shortPkg(g.Pkg.Pkg.Path()) == pkg {
					return m.InstrPos(in)
				}
			}
		}
	}
	return ""
}

// ownPrecSemantic: for every token type T in the current-token position, v evaluates to the level
// peekPrecedence() yields for T — i.e. v is "the precedence of the operator being parsed", however it is computed.
func (m *Model) ownPrecSemantic(pm *prattModel, v ssa.Value, eff *[]ssa.Instruction) bool {
	if pm.precPeek == nil || len(pm.precPeek) != len(pm.tokName) {
		return false
	}
	for tv := range pm.tokName {
		ip := m.parserInterp(tv, -1, pm.precLit, nil)
		res, ok := ip.EvalValue(v, 0)
		if eff != nil {
			*eff = ip.effReads
		}
		rc, isC := res.(constant.Value)
		if !ok || !isC || rc.Kind() != constant.Int {
			return false
		}
		if got, _ := constant.Int64Val(rc); got != pm.precPeek[tv] {
			return false
		}
	}
	return true
}
