package main

import (
	"sort"

	"golang.org/x/tools/go/ssa"
)

// reachableFns: in-scope module functions reachable from the given roots, sorted by key.
func (m *Model) reachableFns(roots ...[]*ssa.Function) []*ssa.Function {
	var all []*ssa.Function
	for _, r := range roots {
		all = append(all, r...)
	}
	ch := m.Reach(all)
	var out []*ssa.Function
	for fn := range ch {
		if m.InModule(fn) && !isSynthetic(fn) && fn.Blocks != nil {
			out = append(out, fn)
		}
	}
	sort.Slice(out, func(i, j int) bool { return fnKey(out[i]) < fnKey(out[j]) })
	return out
}

var trustedBase = []string{
	"go/types, go/ssa, go/cfg and the VTA call graph of golang.org/x/tools v0.29.0 model the program faithfully",
	"Go spec semantics of int64/float64/string operators, of range over maps (unspecified order) and of type assertions",
	"documented behaviour of the standard library functions the rules name (html, strconv, strings, reflect, path/filepath, fmt)",
	"module-scoped reachability: calls into packages outside the module are leaves except for function-valued arguments (callbacks) and printf-style String()/Error() dispatch",
	"packages lsp/..., repl and textwire/example are user-level programs, not part of the library's render/load path",
}
