package main

// rule_bodyentry.go — R-BODYENTRY (C02, C03, C06, C07): an empty body is an empty body, for every construct that has one.
//
// The block parser (the parser function that loops over the statement parser and yields an *ast.BlockStmt) is entered
// standing on the first token of the body and comes back standing on the last one; the caller then expects the closer
// as the NEXT token. Entered on the closer itself — the body is empty — it comes back at once, still on the closer, and
// the caller's "expect the closer next" takes the closer of the enclosing construct instead (`@component("c")
// @slot("x")@end@end|tail` loses `|tail`; `@insert("a")@end` is a parse error). So: no caller may enter the block parser
// on a token that can be a closer. Every caller of the block parser is evaluated on the abstract parser (token types
// as named unknowns, enumerated over the token types the code mentions plus one other whenever the evaluation
// branches on them; sub-parsers move the parser by an unknown number of tokens); what is observed is the token under
// the parser at each entry into the block parser: it must have been looked at (its type fixed by a test on the path)
// and not be END / ELSE / ELSE_IF.

import (
	"fmt"
	"go/constant"
	"go/types"
	"sort"
	"strings"

	"golang.org/x/tools/go/ssa"
)

type pwEvent struct {
	site   *ssa.Call
	cur    int64 // token type under the parser at entry; -1: a token whose type was never looked at
	curSym string
}

type pwCase struct {
	assign   map[string]int64
	events   []pwEvent
	returned bool
	stuck    string
	moves    int // tokens taken from the lexer
	// at the return: the token under the parser (-1: its type was never looked at) and whether the result is nil
	endCur   int64
	resIsNil bool
	resKnown bool
}

type parserWalker struct {
	m                   *Model
	parT, tokT          *types.Named
	fCur, fPeek, fType  int
	nt                  *ssa.Function
	heavy               map[*ssa.Function]bool // sub-parsers: move the parser by an unknown number of tokens
	lightMemo           map[*ssa.Function]bool
	mayMove             map[*ssa.Function]bool
	protocolFieldsCanon map[string]bool
}

func (m *Model) newParserWalker() (*parserWalker, string) {
	w := &parserWalker{m: m, lightMemo: map[*ssa.Function]bool{}, heavy: map[*ssa.Function]bool{}, mayMove: map[*ssa.Function]bool{}}
	w.parT, w.tokT = m.namedType("parser", "Parser"), m.namedType("token", "Token")
	ps := m.Method("parser", "Parser", "parseStatement")
	pe := m.Method("parser", "Parser", "parseExpression")
	w.nt = m.Method("lexer", "Lexer", "NextToken")
	nextToken, expectPeek := m.Method("parser", "Parser", "nextToken"), m.Method("parser", "Parser", "expectPeek")
	if w.parT == nil || w.tokT == nil || ps == nil || pe == nil || w.nt == nil || nextToken == nil {
		return nil, "parser.Parser / token.Token / parseStatement / parseExpression / Lexer.NextToken / nextToken not found"
	}
	fieldIdx := func(t *types.Named, name string) int {
		st := t.Underlying().(*types.Struct)
		for i := 0; i < st.NumFields(); i++ {
			if canonFieldName(t, i, st.Field(i).Name()) == name {
				return i
			}
		}
		return -1
	}
	w.fCur, w.fPeek, w.fType = fieldIdx(w.parT, "curToken"), fieldIdx(w.parT, "peekToken"), fieldIdx(w.tokT, "Type")
	if w.fCur < 0 || w.fPeek < 0 || w.fType < 0 {
		return nil, "fields curToken / peekToken / Type not found"
	}
	var parFns []*ssa.Function
	for _, fn := range m.ModFns {
		if fn.Blocks != nil && shortPkg(fnPkgPath(fn)) == "parser" {
			parFns = append(parFns, fn)
		}
	}
	// heavy: the statement / expression parser is reachable
	for _, fn := range parFns {
		r := m.Reach([]*ssa.Function{fn})
		if _, ok := r[ps]; ok {
			w.heavy[fn] = true
		}
		if _, ok := r[pe]; ok {
			w.heavy[fn] = true
		}
	}
	ci := m.newConsumerInfo([]*ssa.Function{nextToken}, expectPeek, parFns)
	for _, fn := range parFns {
		if fn == nextToken || ci.may[fn] || ci.always[fn] {
			w.mayMove[fn] = true
		}
	}
	w.protocolFieldsCanon = map[string]bool{"curToken": true, "peekToken": true, "l": true, "errors": true, "filepath": true}
	return w, ""
}

// light: a parser helper that can be evaluated on the abstract parser — it touches only the token protocol state
// (current / next token, lexer, error list), itself and through what it calls.
func (w *parserWalker) light(fn *ssa.Function) bool {
	if v, ok := w.lightMemo[fn]; ok {
		return v
	}
	w.lightMemo[fn] = true // recursion: assume fine
	ok := true
	if fn.Blocks == nil || w.heavy[fn] {
		ok = false
	}
	for _, b := range fn.Blocks {
		for _, in := range b.Instrs {
			if !ok {
				break
			}
			switch x := in.(type) {
			case *ssa.FieldAddr:
				if pn := ptrNamed(x.X.Type()); pn != nil && pn.Obj() == w.parT.Obj() {
					if !w.protocolFieldsCanon[canonFieldName(w.parT, x.Field, fieldName(x.X.Type(), x.Field))] {
						ok = false
					}
				}
			case ssa.CallInstruction:
				sc := x.Common().StaticCallee()
				if sc != nil && shortPkg(fnPkgPath(sc)) == "parser" && sc.Blocks != nil && !w.light(sc) {
					ok = false
				}
			}
		}
	}
	w.lightMemo[fn] = ok
	return ok
}

// tokensMentioned: the token type constants fn and the helpers evaluated with it compare against.
func (w *parserWalker) tokensMentioned(fn *ssa.Function, seen map[*ssa.Function]bool, out map[int64]bool) {
	if seen[fn] || fn.Blocks == nil {
		return
	}
	seen[fn] = true
	tokType := w.tokT.Underlying().(*types.Struct).Field(w.fType).Type()
	for _, b := range fn.Blocks {
		for _, in := range b.Instrs {
			for _, op := range in.Operands(nil) {
				if op == nil || *op == nil {
					continue
				}
				if k, ok := (*op).(*ssa.Const); ok && k.Value != nil && types.Identical(k.Type(), tokType) {
					if v, isInt := constant.Int64Val(k.Value); isInt {
						out[v] = true
					}
				}
				// variadic token lists: constants stored into the argument slice
			}
			if c, ok := in.(ssa.CallInstruction); ok {
				if sc := c.Common().StaticCallee(); sc != nil && shortPkg(fnPkgPath(sc)) == "parser" && w.light(sc) {
					w.tokensMentioned(sc, seen, out)
				}
			}
		}
	}
}

func (w *parserWalker) walk(fn *ssa.Function, observe map[*ssa.Function]bool, domain []int64, preset map[string]int64, maxVars, maxCases int, visit func(pwCase)) string {
	m := w.m
	leafOf := func(c iSym) string {
		var rec func(v any) string
		rec = func(v any) string {
			s, ok := v.(iSym)
			if !ok {
				return ""
			}
			if s.name != "" {
				return s.name
			}
			if l := rec(s.x); l != "" {
				return l
			}
			return rec(s.y)
		}
		return rec(c)
	}
	n := 0
	var rec func(assign map[string]int64) string
	rec = func(assign map[string]int64) string {
		n++
		if n > maxCases {
			return "too many cases"
		}
		mkTok := func(name string) *iStruct {
			t := &iStruct{typ: w.tokT, val: true, fields: map[int]any{}}
			if v, ok := assign[name]; ok {
				t.fields[w.fType] = constant.MakeInt64(v)
			} else {
				t.fields[w.fType] = iSym{name: name}
			}
			return t
		}
		p := &iStruct{typ: w.parT, fields: map[int]any{w.fCur: mkTok("c0"), w.fPeek: mkTok("p0")}}
		pc := pwCase{assign: assign}
		need := ""
		lexed, nres := 0, 0
		ip := &Interp{m: m, useGlobals: true}
		ip.branch = func(c iSym, _ *ssa.If) (bool, bool) {
			if need == "" {
				need = leafOf(c)
			}
			return false, false
		}
		ip.event = func(ssa.CallInstruction, int) bool { return need != "" }
		heavyMove := func() {
			lexed += 100
			p.fields[w.fCur], p.fields[w.fPeek] = mkTok(fmt.Sprintf("t%d", lexed+1)), mkTok(fmt.Sprintf("t%d", lexed+2))
			lexed += 2
		}
		result := func(c *ssa.Call) any {
			res := c.Call.Signature().Results()
			if res.Len() != 1 {
				return nil
			}
			nres++
			switch t := res.At(0).Type().Underlying().(type) {
			case *types.Basic:
				if t.Info()&types.IsBoolean != 0 {
					name := fmt.Sprintf("b%d", nres)
					if v, ok := assign[name]; ok {
						return constant.MakeBool(v == 1)
					}
					return iSym{name: name}
				}
			case *types.Pointer, *types.Interface, *types.Slice, *types.Map:
				name := fmt.Sprintf("r%d", nres)
				v, ok := assign[name]
				if !ok {
					if need == "" {
						need = name // nil or not: both, eagerly
					}
					return nil
				}
				if v == 0 {
					return iNil{}
				}
				return iObj{kind: "?"}
			}
			return nil
		}
		ip.call = func(c *ssa.Call, args []any) (any, bool) {
			if need != "" {
				return nil, true
			}
			sc := c.Call.StaticCallee()
			isNext := sc == w.nt
			if c.Call.IsInvoke() && len(args) > 0 {
				if res := c.Call.Signature().Results(); res.Len() == 1 && types.Identical(res.At(0).Type(), w.tokT) && c.Call.Signature().Params().Len() == 0 {
					isNext = true
				}
			}
			if isNext {
				lexed++
				pc.moves++
				return mkTok(fmt.Sprintf("t%d", lexed)), true
			}
			takesParser := false
			for _, a := range args {
				if a == any(p) {
					takesParser = true
				}
			}
			if sc == nil {
				if takesParser {
					heavyMove() // a parse function held in a table
					return result(c), true
				}
				return nil, false
			}
			if observe[sc] {
				ev := pwEvent{site: c, cur: -1}
				if ct, ok := p.fields[w.fCur].(*iStruct); ok {
					switch k := ct.fields[w.fType].(type) {
					case constant.Value:
						ev.cur, _ = constant.Int64Val(k)
					case iSym:
						ev.curSym = k.name
					}
				}
				pc.events = append(pc.events, ev)
				heavyMove()
				return result(c), true
			}
			if shortPkg(fnPkgPath(sc)) != "parser" || sc.Blocks == nil {
				return nil, false
			}
			if w.heavy[sc] {
				heavyMove()
				return result(c), true
			}
			if !w.light(sc) {
				if w.mayMove[sc] {
					heavyMove()
				}
				return result(c), true
			}
			return nil, false
		}
		args := make([]any, len(fn.Params))
		args[0] = p
		runRes, runKnown := ip.Run(fn, args)
		pc.endCur = -1
		if ct, ok := p.fields[w.fCur].(*iStruct); ok {
			if k, isK := ct.fields[w.fType].(constant.Value); isK {
				pc.endCur, _ = constant.Int64Val(k)
			}
		}
		if runKnown {
			switch runRes.(type) {
			case iNil:
				pc.resIsNil, pc.resKnown = true, true
			case nil:
			default:
				pc.resKnown = true
			}
		}
		if need != "" {
			// the evaluation looked at something not fixed yet: every value in turn
			if _, fixed := assign[need]; fixed || len(assign) >= maxVars {
				pc.stuck = "more than " + fmt.Sprint(maxVars) + " unknowns on one path"
				visit(pc)
				return ""
			}
			dom := domain
			if need[0] == 'b' || need[0] == 'r' {
				dom = []int64{0, 1}
			}
			for _, tv := range dom {
				next := map[string]int64{}
				for k, v := range assign {
					next[k] = v
				}
				next[need] = tv
				if why := rec(next); why != "" {
					return why
				}
			}
			return ""
		}
		pc.stuck = ip.stuck
		pc.returned = ip.stuck == ""
		visit(pc)
		return ""
	}
	start := map[string]int64{}
	for k, v := range preset {
		start[k] = v
	}
	return rec(start)
}

// blockParsers: the parser functions that call the statement parser themselves and yield a block — an *ast.BlockStmt
// or the list of its statements (the program parser, which yields an *ast.Program, is not one).
func (m *Model) blockParsers() []*ssa.Function {
	ps := m.Method("parser", "Parser", "parseStatement")
	if ps == nil {
		return nil
	}
	var bps []*ssa.Function
	for _, fn := range m.ModFns {
		if fn.Blocks == nil || shortPkg(fnPkgPath(fn)) != "parser" || len(callsToFn(fn, ps)) == 0 {
			continue
		}
		res := fn.Signature.Results()
		if res.Len() != 1 {
			continue
		}
		rt := res.At(0).Type()
		if strings.HasSuffix(derefTypeString(rt), "ast.BlockStmt") {
			bps = append(bps, fn)
			continue
		}
		if sl, ok := rt.Underlying().(*types.Slice); ok && strings.HasSuffix(sl.Elem().String(), "ast.Statement") {
			bps = append(bps, fn)
		}
	}
	sort.Slice(bps, func(i, j int) bool { return fnKey(bps[i]) < fnKey(bps[j]) })
	return bps
}

// blockParser: the one block parser (by its name, else the only function of that shape).
func (m *Model) blockParser() *ssa.Function {
	if pb := m.Method("parser", "Parser", "parseBlockStmt"); pb != nil {
		return pb
	}
	if bps := m.blockParsers(); len(bps) == 1 {
		return bps[0]
	}
	return nil
}

func (m *Model) RunBodyEntry(s *Sink, rule string) {
	pm := m.extractPratt()
	closers := map[int64]string{}
	for _, n := range []string{"END", "ELSE", "ELSE_IF"} {
		if v, ok := pm.tokVal[n]; ok {
			closers[v] = n
		}
	}
	if len(closers) != 3 {
		s.Undecided(rule, "tokens", "-", "token.END / token.ELSE / token.ELSE_IF not found")
		return
	}
	w, why := m.newParserWalker()
	if w == nil {
		s.Undecided(rule, "parser", "-", "%s", why)
		return
	}
	ps := m.Method("parser", "Parser", "parseStatement")
	bps := m.blockParsers()
	if len(bps) == 0 {
		s.Undecided(rule, "block parser", "-", "no parser function that calls the statement parser and yields an *ast.BlockStmt")
		return
	}
	sort.Slice(bps, func(i, j int) bool { return fnKey(bps[i]) < fnKey(bps[j]) })
	domainFor := func(fn *ssa.Function, extra ...*ssa.Function) []int64 {
		set := map[int64]bool{}
		seen := map[*ssa.Function]bool{}
		w.tokensMentioned(fn, seen, set)
		for _, e := range extra {
			w.tokensMentioned(e, seen, set)
		}
		for v := range closers {
			set[v] = true
		}
		// one token type nobody mentions
		var all []int64
		for v := range pm.tokName {
			all = append(all, v)
		}
		sort.Slice(all, func(i, j int) bool { return all[i] < all[j] })
		for _, v := range all {
			if !set[v] {
				set[v] = true
				break
			}
		}
		var out []int64
		for v := range set {
			out = append(out, v)
		}
		sort.Slice(out, func(i, j int) bool { return out[i] < out[j] })
		return out
	}
	for _, bp := range bps {
		// the protocol of this block parser: entered on a closer it comes back at once, having moved nothing
		transparent := map[int64]bool{}
		for cv := range closers {
			ok, cases := true, 0
			why := w.walk(bp, map[*ssa.Function]bool{ps: true}, domainFor(bp), map[string]int64{"c0": cv}, 6, 5000, func(pc pwCase) {
				cases++
				if !pc.returned || len(pc.events) > 0 || pc.moves > 0 {
					ok = false
				}
			})
			if why == "" && ok && cases > 0 {
				transparent[cv] = true
			}
		}
		if len(transparent) == 0 {
			s.Note(rule, fnKey(bp)+"|protocol", m.Pos(bp.Pos()), "%s does not come back at once when entered on a closer: its callers are not judged by this rule", fnKey(bp))
			continue
		}
		var callers []*ssa.Function
		for _, fn := range m.ModFns {
			if fn.Blocks != nil && fn != bp && shortPkg(fnPkgPath(fn)) == "parser" && len(callsToFn(fn, bp)) > 0 {
				callers = append(callers, fn)
			}
		}
		sort.Slice(callers, func(i, j int) bool { return fnKey(callers[i]) < fnKey(callers[j]) })
		if len(callers) == 0 {
			s.Undecided(rule, fnKey(bp)+"|callers", m.Pos(bp.Pos()), "no caller of the block parser %s found", fnKey(bp))
		}
		for _, f := range callers {
			sites := callsToFn(f, bp)
			reached := map[*ssa.Call]int{}
			bad := map[*ssa.Call]string{}
			badLen := map[*ssa.Call]int{}
			cases := 0
			dom := domainFor(f)
			why := w.walk(f, map[*ssa.Function]bool{bp: true}, dom, nil, 8, 300000, func(pc pwCase) {
				cases++
				desc := func() string {
					var ks []string
					for k := range pc.assign {
						ks = append(ks, k)
					}
					sort.Slice(ks, func(i, j int) bool {
						if ks[i][0] != ks[j][0] {
							return strings.IndexByte("cptbr", ks[i][0]) < strings.IndexByte("cptbr", ks[j][0])
						}
						return len(ks[i]) < len(ks[j]) || (len(ks[i]) == len(ks[j]) && ks[i] < ks[j])
					})
					var parts []string
					for _, k := range ks {
						switch k[0] {
						case 'c':
							parts = append(parts, "current token "+pm.tokName[pc.assign[k]])
						case 'p':
							parts = append(parts, "next token "+pm.tokName[pc.assign[k]])
						case 't':
							parts = append(parts, "then "+pm.tokName[pc.assign[k]])
						}
					}
					return strings.Join(parts, ", ")
				}
				for _, ev := range pc.events {
					reached[ev.site]++
					if bad[ev.site] != "" && badLen[ev.site] <= len(pc.assign) {
						continue // the shortest witness is kept
					}
					if ev.cur == -1 {
						badLen[ev.site] = len(pc.assign)
						bad[ev.site] = fmt.Sprintf("with %s the block parser is entered on a token whose type was never looked at — it can be the closer", desc())
					} else if cn, isC := closers[ev.cur]; isC && transparent[ev.cur] {
						badLen[ev.site] = len(pc.assign)
						bad[ev.site] = fmt.Sprintf("with %s the block parser is entered standing on %s", desc(), cn)
					}
				}
			})
			for i, site := range sites {
				key := fmt.Sprintf("%s|the block parser is not entered on the closer of an empty body", fnKey(f))
				if i > 0 {
					key += fmt.Sprintf(" #%d", i+1)
				}
				switch {
				case why != "":
					s.Undecided(rule, key, m.InstrPos(site), "%s could not be evaluated on the abstract parser (%s)", fnKey(f), why)
				case bad[site] != "":
					s.Violation(rule, key, m.InstrPos(site), "%s calls the block parser %s at %s; %s: entered on the closer, the block parser returns at once still standing on it, and the caller then expects the closer as the NEXT token — an empty body takes the closer of the enclosing construct for its own (`@component(\"c\")@slot(\"x\")@end@end|tail` loses `|tail`; `@insert(\"a\")@end` is a parse error)", fnKey(f), bp.Name(), m.InstrPos(site), bad[site])
				case reached[site] == 0:
					s.Undecided(rule, key, m.InstrPos(site), "the call of the block parser at %s was not reached in any of the %d cases evaluated", m.InstrPos(site), cases)
				default:
					s.OK(rule, key, m.InstrPos(site), "case evaluation on the abstract parser (%d cases over %d token types): at every entry into %s the token under the parser has been looked at and is not END / ELSE / ELSE_IF", cases, len(dom), bp.Name())
				}
			}
		}
	}
}

// RunSlotListEnd — R-DELIM (slot list): a component use with slots is closed by its own @end. The function that parses
// the slot list (its result becomes ComponentStmt.Slots) is case-evaluated on the abstract parser; whenever it returns a
// list (not nil), the token under the parser has been looked at and is END — the statement parser's caller steps over
// the last token of every statement without looking at it, so anything else there is swallowed: a missing @end is not
// reported, and `@component("c")@slot x@end@if(a)b@end` loses its @if.
func (m *Model) RunSlotListEnd(s *Sink, rule string) {
	pm := m.extractPratt()
	end, okEnd := pm.tokVal["END"]
	w, why := m.newParserWalker()
	if w == nil || !okEnd {
		s.Undecided(rule, "slot list", "-", "%s", why)
		return
	}
	// the slot-list parser: the parser function whose result is stored into ComponentStmt.Slots
	var sl *ssa.Function
	for _, fn := range m.ModFns {
		if fn.Blocks == nil || shortPkg(fnPkgPath(fn)) != "parser" {
			continue
		}
		for _, b := range fn.Blocks {
			for _, in := range b.Instrs {
				st, ok := in.(*ssa.Store)
				if !ok {
					continue
				}
				fa, ok := st.Addr.(*ssa.FieldAddr)
				if !ok || fieldName(fa.X.Type(), fa.Field) != "Slots" || !strings.HasSuffix(derefTypeString(fa.X.Type()), "ast.ComponentStmt") {
					continue
				}
				if c, isC := st.Val.(*ssa.Call); isC && c.Call.StaticCallee() != nil && shortPkg(fnPkgPath(c.Call.StaticCallee())) == "parser" {
					sl = c.Call.StaticCallee()
				}
			}
		}
	}
	if sl == nil {
		s.Undecided(rule, "slot list", "-", "no parser function whose result becomes ComponentStmt.Slots")
		return
	}
	set := map[int64]bool{}
	w.tokensMentioned(sl, map[*ssa.Function]bool{}, set)
	set[end] = true
	var all []int64
	for v := range pm.tokName {
		all = append(all, v)
	}
	sort.Slice(all, func(i, j int) bool { return all[i] < all[j] })
	for _, v := range all {
		if !set[v] {
			set[v] = true
			break
		}
	}
	var dom []int64
	for v := range set {
		dom = append(dom, v)
	}
	sort.Slice(dom, func(i, j int) bool { return dom[i] < dom[j] })
	key := fnKey(sl) + "|a slot list ends on the component's @end"
	cases, lists := 0, 0
	bad, badLen := "", 0
	why2 := w.walk(sl, map[*ssa.Function]bool{}, dom, nil, 9, 300000, func(pc pwCase) {
		cases++
		if !pc.returned || !pc.resKnown || pc.resIsNil {
			return
		}
		lists++
		if pc.endCur == end {
			return
		}
		if bad != "" && badLen <= len(pc.assign) {
			return
		}
		what := "a token whose type was never looked at"
		if pc.endCur >= 0 {
			what = pm.tokName[pc.endCur]
		}
		badLen = len(pc.assign)
		bad = fmt.Sprintf("it can return a slot list while the parser stands on %s", what)
	})
	switch {
	case why2 != "":
		s.Undecided(rule, key, m.Pos(sl.Pos()), "%s could not be evaluated on the abstract parser (%s)", fnKey(sl), why2)
	case lists == 0:
		s.Undecided(rule, key, m.Pos(sl.Pos()), "no evaluated case of %s returns a list (%d cases)", fnKey(sl), cases)
	case bad != "":
		s.Violation(rule, key, m.Pos(sl.Pos()), "%s parses the slots of a component use; %s: the caller steps over the last token of a statement unseen, so a component whose own @end is missing is accepted, and whatever stands there instead is swallowed (`@component(\"c\")@slot x@end@if(a)b@end` loses `@if(a)`; text after the last slot disappears)", fnKey(sl), bad)
	default:
		s.OK(rule, key, m.Pos(sl.Pos()), "case evaluation on the abstract parser (%d cases, %d returning a list): a list is returned only with the parser standing on END", cases, lists)
	}
}

// RunTextSkip — R-TEXTKEEP (skipped text): the parser steps over a text token that it does not turn into a statement
// only when the token is known to be whitespace. A call of nextToken under "the current token is text" is also under
// a whitespace test of that token's literal.
func (m *Model) RunTextSkip(s *Sink, rule string) {
	nt := m.Method("parser", "Parser", "nextToken")
	pm := m.extractPratt()
	html, okH := pm.tokVal["HTML"]
	if nt == nil || !okH {
		s.Undecided(rule, "parser.nextToken", "-", "nextToken / token.HTML not found")
		return
	}
	n, bad := 0, 0
	preds := map[*ssa.Function]bool{}
	defer func() { m.whitespacePredCases(s, rule, preds) }()
	for _, fn := range m.ModFns {
		if fn.Blocks == nil || shortPkg(fnPkgPath(fn)) != "parser" {
			continue
		}
		for _, b := range fn.Blocks {
			for _, in := range b.Instrs {
				c, ok := in.(*ssa.Call)
				if !ok || c.Call.StaticCallee() != nt {
					continue
				}
				onText, white := false, false
				for _, f := range expandFacts(factsAt(b)) {
					fc, isC := f.Cond.(*ssa.Call)
					if !isC || fc.Call.StaticCallee() == nil || !f.Holds {
						continue
					}
					switch canonFnName(fc.Call.StaticCallee()) {
					case "curTokenIs":
						if len(fc.Call.Args) == 2 {
							if k, isK := fc.Call.Args[1].(*ssa.Const); isK && k.Value != nil && k.Int64() == html {
								onText = true
							}
						}
					case "isWhitespace", "IsWhitespace", "isBlank", "IsBlank":
						if len(fc.Call.Args) >= 1 {
							if _, p, okP := pathOf(fc.Call.Args[len(fc.Call.Args)-1]); okP && strings.HasSuffix(p, ".curToken.Literal") {
								white = true
								preds[fc.Call.StaticCallee()] = true
							}
						}
					}
				}
				if !onText {
					continue
				}
				n++
				key := fmt.Sprintf("%s|text stepped over is whitespace", fnKey(fn))
				if white {
					s.OK(rule, key, m.InstrPos(c), "the step lies under isWhitespace(p.curToken.Literal)")
				} else {
					bad++
					s.Violation(rule, key, m.InstrPos(c), "%s steps over a text token (nextToken under curTokenIs(HTML)) without a whitespace test of its literal: text written there disappears from the output without an error", fnKey(fn))
				}
			}
		}
	}
	if n == 0 {
		s.OK(rule, "parser|no text token is stepped over", "-", "no nextToken under curTokenIs(HTML) in the parser")
	}
}

// whitespacePredCases: the predicate under which the parser steps over text is evaluated for every one-byte string, for
// the empty string and for a few longer ones: it holds exactly for strings made of blank, tab, line feed and carriage
// return. (strings.TrimSpace(s) == "" also holds for \v, \f, U+0085, U+00A0: a no-break space between a component and
// the next block would vanish.)
func (m *Model) whitespacePredCases(s *Sink, rule string, preds map[*ssa.Function]bool) {
	var fns []*ssa.Function
	for f := range preds {
		fns = append(fns, f)
	}
	sort.Slice(fns, func(i, j int) bool { return fnKey(fns[i]) < fnKey(fns[j]) })
	isWS := func(b byte) bool { return b == ' ' || b == '\t' || b == '\n' || b == '\r' }
	for _, f := range fns {
		key := fnKey(f) + "|holds exactly for runs of blank, tab, line feed and carriage return"
		if f.Blocks == nil || len(f.Params) != 1 || !isStringT(f.Params[0].Type()) {
			s.Undecided(rule, key, m.Pos(f.Pos()), "the whitespace predicate does not take one string")
			continue
		}
		type tc struct {
			in   string
			want bool
		}
		var cases []tc
		for b := 1; b < 256; b++ {
			cases = append(cases, tc{string([]byte{byte(b)}), isWS(byte(b))})
		}
		cases = append(cases, tc{"", true}, tc{" \t\n\r ", true}, tc{" a", false}, tc{"a ", false}, tc{" \u00a0", false}, tc{"\u0085", false}, tc{"\u2028 ", false}, tc{"\n\u3000", false})
		var wrong []string
		undecided := ""
		for _, c := range cases {
			ip := &Interp{m: m, useGlobals: true}
			res, ok := ip.Run(f, []any{constant.MakeString(c.in)})
			k, isK := res.(constant.Value)
			if !ok || !isK || k.Kind() != constant.Bool || ip.stuck != "" {
				undecided = fmt.Sprintf("on %q: %s", c.in, ip.stuck)
				break
			}
			if constant.BoolVal(k) != c.want {
				wrong = append(wrong, fmt.Sprintf("%q", c.in))
			}
		}
		switch {
		case undecided != "":
			s.Undecided(rule, key, m.Pos(f.Pos()), "%s could not be evaluated (%s)", fnKey(f), undecided)
		case len(wrong) > 0:
			if len(wrong) > 8 {
				wrong = append(wrong[:8], "...")
			}
			s.Violation(rule, key, m.Pos(f.Pos()), "%s, under which the parser steps over a text token, answers differently from \"made of ' ', \\t, \\n, \\r only\" for %s: a text made of such characters between a component use and the next block, directive or slot disappears from the output", fnKey(f), strings.Join(wrong, ", "))
		default:
			s.OK(rule, key, m.Pos(f.Pos()), "case evaluation on all 255 one-byte strings, the empty string and 8 longer ones (Unicode spaces included)")
		}
	}
}

// RunCodeEnd — R-DELIM (end of code): embedded code may be followed by "}}", by ";" or by ")" (the last ends a clause
// of @for). After a statement the program parser steps onto that token and asks the statement parser what it starts:
// for every token the end-of-code test accepts, other than "}}" itself, the statement parser — case-evaluated with
// that token as the current one — hands it to a parse function or records an error. A ")" that is silently skipped
// lets `{{ x )` through: the "{{" is never closed.
func (m *Model) RunCodeEnd(s *Sink, rule string) {
	pm := m.extractPratt()
	ps := m.Method("parser", "Parser", "parseStatement")
	eoc := m.Method("parser", "Parser", "expectEndOfCode")
	w, why := m.newParserWalker()
	if ps == nil || eoc == nil || w == nil {
		s.Undecided(rule, "end of code", "-", "parseStatement / expectEndOfCode not found (%s)", why)
		return
	}
	// the tokens the end-of-code test accepts: the constants it hands to peekTokenIs
	accepted := map[int64]bool{}
	w.tokensMentioned(eoc, map[*ssa.Function]bool{}, accepted)
	var toks []int64
	for tv := range accepted {
		if n := pm.tokName[tv]; n != "RBRACES" && n != "" {
			toks = append(toks, tv)
		}
	}
	sort.Slice(toks, func(i, j int) bool { return toks[i] < toks[j] })
	if len(toks) == 0 {
		s.Undecided(rule, "end of code", "-", "no token constants found in expectEndOfCode")
		return
	}
	for _, tv := range toks {
		key := fmt.Sprintf("%s|%s where a statement is expected is parsed or reported", fnKey(ps), pm.tokName[tv])
		handled, stuck := false, ""
		n := 0
		why2 := w.walk(ps, map[*ssa.Function]bool{}, []int64{tv}, map[string]int64{"c0": tv}, 3, 200, func(pc pwCase) {
			n++
			if pc.stuck != "" && stuck == "" {
				stuck = pc.stuck
			}
		})
		_ = why2
		// what the statement parser does with this token: any call of a parser method other than the token tests
		ip := &Interp{m: m, useGlobals: true}
		p := &iStruct{typ: w.parT, fields: map[int]any{w.fCur: &iStruct{typ: w.tokT, val: true, fields: map[int]any{w.fType: constant.MakeInt64(tv)}}}}
		ip.call = func(c *ssa.Call, args []any) (any, bool) {
			sc := c.Call.StaticCallee()
			if sc == nil || shortPkg(fnPkgPath(sc)) != "parser" {
				return nil, false
			}
			switch canonFnName(sc) {
			case "curTokenIs", "peekTokenIs":
				return nil, false
			}
			handled = true // a parse function takes over, or an error is recorded
			return nil, true
		}
		args := make([]any, len(ps.Params))
		args[0] = p
		ip.Run(ps, args)
		switch {
		case ip.stuck != "" && !handled:
			s.Undecided(rule, key, m.Pos(ps.Pos()), "parseStatement could not be evaluated with %s as the current token (%s)", pm.tokName[tv], ip.stuck)
		case handled:
			s.OK(rule, key, m.Pos(ps.Pos()), "with %s as the current token the statement parser calls a parse function or records an error", pm.tokName[tv])
		default:
			s.Violation(rule, key, m.Pos(ps.Pos()), "embedded code may end before %s (the end-of-code test accepts it), but where a statement is expected %s is skipped without an error: `{{ x %s` is accepted although its opening braces are never closed", pm.tokName[tv], pm.tokName[tv], map[string]string{"RPAREN": ")", "SEMI": ";"}[pm.tokName[tv]])
		}
	}
}
