package main

// rule_tokpos.go — R-ORDERINGS (Position.Contains decided over all orderings)
// and R-TOKPOS (who writes the position counters; token start taken before
// consuming; token end taken from the last consumed byte).

import (
	"fmt"
	"go/constant"
	"go/token"
	"go/types"
	"sort"
	"strings"

	"golang.org/x/tools/go/ssa"
)

func (m *Model) RunOrderings(s *Sink, rule string) {
	fn := m.Method("token", "Position", "Contains")
	key := "token.(Position).Contains|equals lexicographic containment for every ordering of its inputs"
	if fn == nil || len(fn.Params) != 3 {
		s.Undecided(rule, key, "-", "token.Position.Contains(line, col) not found")
		return
	}
	// comparison-only? (the function and the module helpers it calls: only comparisons of its inputs, no arithmetic,
	// no library calls — then its result depends only on the relative order of the six numbers)
	var cmpOnly func(f *ssa.Function, depth int) (bool, string)
	cmpOnly = func(f *ssa.Function, depth int) (bool, string) {
		if f.Blocks == nil || depth > 3 {
			return false, "a callee without a body (or too deep)"
		}
		for _, b := range f.Blocks {
			for _, in := range b.Instrs {
				switch x := in.(type) {
				case *ssa.BinOp:
					switch x.Op {
					case token.LSS, token.LEQ, token.GTR, token.GEQ, token.EQL, token.NEQ:
					default:
						return false, fmt.Sprintf("arithmetic (%s) at %s", x.Op, m.InstrPos(in))
					}
				case *ssa.Call:
					sc := x.Call.StaticCallee()
					if sc == nil || !m.InModule(sc) {
						return false, "a call outside the module at " + m.InstrPos(in)
					}
					if ok, why := cmpOnly(sc, depth+1); !ok {
						return false, why
					}
				}
			}
		}
		return true, ""
	}
	if ok, why := cmpOnly(fn, 0); !ok {
		s.Undecided(rule, key, m.Pos(fn.Pos()), "Contains is not comparison-only (%s): the finite-orderings argument only covers functions that compare their inputs", why)
		return
	}
	fields := map[string]int64{}
	mismatch := ""
	n, wf := 0, 0
	vals := []int64{0, 1, 2}
	for _, sl := range vals {
		for _, sc := range vals {
			for _, el := range vals {
				for _, ec := range vals {
					for _, l := range vals {
						for _, c := range vals {
							// well-formed range: start <= end lexicographically
							if sl > el || (sl == el && sc > ec) {
								continue
							}
							wf++
							fields["StartLine"], fields["StartCol"], fields["EndLine"], fields["EndCol"] = sl, sc, el, ec
							res, ok := m.evalPureHook(fn, []constant.Value{constant.MakeInt64(0), constant.MakeInt64(l), constant.MakeInt64(c)}, func(v ssa.Value) (constant.Value, bool) {
								var fname string
								switch x := v.(type) {
								case *ssa.UnOp:
									if fa, ok := x.X.(*ssa.FieldAddr); ok {
										fname = fieldName(fa.X.Type(), fa.Field)
									}
								case *ssa.Field:
									fname = fieldName(x.X.Type(), x.Field)
								}
								if fv, ok := fields[fname]; ok {
									return constant.MakeInt64(fv), true
								}
								return nil, false
							})
							if !ok || res.Kind() != constant.Bool {
								s.Undecided(rule, key, m.Pos(fn.Pos()), "Contains could not be interpreted over constants (it is expected to read only the four Position fields and its two parameters)")
								return
							}
							n++
							afterStart := l > sl || (l == sl && c >= sc)
							beforeEnd := l < el || (l == el && c <= ec)
							want := afterStart && beforeEnd
							if constant.BoolVal(res) != want && mismatch == "" {
								mismatch = fmt.Sprintf("range (%d,%d)-(%d,%d), cursor (%d,%d): Contains = %v, inclusive lexicographic containment = %v", sl, sc, el, ec, l, c, constant.BoolVal(res), want)
							}
						}
					}
				}
			}
		}
	}
	if mismatch != "" {
		s.Violation(rule, key, m.Pos(fn.Pos()), "Position.Contains disagrees with (StartLine,StartCol) <= (line,col) <= (EndLine,EndCol): %s. Since Contains only compares its inputs, this ordering stands for every concrete input with the same relative order", mismatch)
		return
	}
	s.OK(rule, key, m.Pos(fn.Pos()), "Contains only compares its six inputs; evaluated on %d value assignments realising every weak ordering of {line,StartLine,EndLine} x {col,StartCol,EndCol} over well-formed ranges, it equals inclusive lexicographic containment", n)
}

// RunTokPos: R-TOKPOS.
func (m *Model) RunTokPos(s *Sink, rule string) {
	var lexFns []*ssa.Function
	for _, fn := range m.ModFns {
		if fn.Blocks != nil && shortPkg(fnPkgPath(fn)) == "lexer" {
			lexFns = append(lexFns, fn)
		}
	}
	readChar := m.Method("lexer", "Lexer", "readChar")
	tokBegins := m.Method("lexer", "Lexer", "tokenBegins")
	newTok := m.Method("lexer", "Lexer", "newToken")
	newFn := m.PkgFunc("lexer", "New")
	if readChar == nil || tokBegins == nil || newTok == nil {
		s.Undecided(rule, "anchors", "-", "readChar / tokenBegins / newToken not found")
		return
	}
	// (a) who may write the counters
	owner := map[string][]*ssa.Function{
		"line": {readChar}, "col": {readChar}, "prevLine": {readChar}, "prevCol": {readChar}, "pos": {readChar}, "readPos": {readChar}, "char": {readChar}, "shouldResetCol": {readChar},
		"startLine": {tokBegins}, "startCol": {tokBegins},
	}
	byName := true
	have := map[string]bool{}
	if lexT := m.namedType("lexer", "Lexer"); lexT != nil {
		st := lexT.Underlying().(*types.Struct)
		for i := 0; i < st.NumFields(); i++ {
			have[canonFieldName(lexT, i, st.Field(i).Name())] = true
		}
		for _, n := range []string{"line", "col", "prevLine", "prevCol", "startLine", "startCol"} {
			if !have[n] {
				byName = false
			}
		}
	}
	if !byName {
		m.tokposOwnersGeneral(s, rule, readChar, tokBegins, newFn)
		owner = map[string][]*ssa.Function{}
	} else if !have["shouldResetCol"] {
		delete(owner, "shouldResetCol") // an auxiliary flag: readChar may as well look at the byte it leaves
	}
	writers := map[string]map[*ssa.Function]string{}
	for _, fn := range m.ModFns {
		if fn.Blocks == nil || isUserPkg(fnPkgPath(fn)) {
			continue
		}
		for _, b := range fn.Blocks {
			for _, in := range b.Instrs {
				st, ok := in.(*ssa.Store)
				if !ok {
					continue
				}
				fa, ok := st.Addr.(*ssa.FieldAddr)
				if !ok || !strings.HasSuffix(derefTypeString(fa.X.Type()), "lexer.Lexer") {
					continue
				}
				fname := fieldName(fa.X.Type(), fa.Field)
				if writers[fname] == nil {
					writers[fname] = map[*ssa.Function]string{}
				}
				writers[fname][fn] = m.InstrPos(st)
			}
		}
	}
	var names []string
	for f := range owner {
		names = append(names, f)
	}
	sort.Strings(names)
	for _, f := range names {
		key := "lexer.Lexer." + f + "|written only by its owner"
		bad := ""
		for w, pos := range writers[f] {
			ok := w == newFn
			for _, o := range owner[f] {
				if w == o {
					ok = true
				}
			}
			if !ok {
				bad = fmt.Sprintf("%s at %s", fnKey(w), pos)
			}
		}
		if bad != "" {
			s.Violation(rule, key, bad[strings.LastIndex(bad, " ")+1:], "position field Lexer.%s is written by %s; it may only be written by %s (and the constructor): a token built after such a write carries a wrong range", f, bad, fnKey(owner[f][0]))
		} else if len(writers[f]) == 0 {
			s.Undecided(rule, key, "-", "no writer of Lexer.%s found", f)
		} else {
			s.OK(rule, key, "-", "only %s", fnKey(owner[f][0]))
		}
	}
	// the line counter advances exactly after a line feed
	{
		var v ssa.Value
		var at ssa.Instruction
		for _, b := range readChar.Blocks {
			for _, in := range b.Instrs {
				if st, ok := in.(*ssa.Store); ok {
					if fa, ok := st.Addr.(*ssa.FieldAddr); ok && fieldName(fa.X.Type(), fa.Field) == "shouldResetCol" {
						if k, isK := st.Val.(*ssa.Const); isK && k.Value != nil {
							continue // the reset to false
						}
						v, at = st.Val, st
					}
				}
			}
		}
		key := "lexer.(*Lexer).readChar|a new line starts exactly after \\n"
		ok := false
		if bo, isBo := v.(*ssa.BinOp); isBo && bo.Op == token.EQL && fieldPathOf(bo.X) == ".char" {
			if k, isK := bo.Y.(*ssa.Const); isK && k.Int64() == '\n' {
				ok = true
			}
		}
		switch {
		case v == nil && (!byName || !have["shouldResetCol"]) && m.tokposGeometry(newTok).decided:
			g := m.tokposGeometry(newTok)
			if g.bad["StartLine"] == "" && g.bad["EndLine"] == "" {
				s.OK(rule, key, m.Pos(readChar.Pos()), "case evaluation on real lexer states over inputs with \\n, \\r\\n and \\n\\n: the line of every token start and end is the number of line feeds before it")
			} else {
				s.Violation(rule, key, m.Pos(readChar.Pos()), "%s%s: lines are not counted by line feeds, so every later token and error carries a wrong line", g.bad["StartLine"], g.bad["EndLine"])
			}
		case v == nil:
			s.Undecided(rule, key, m.Pos(readChar.Pos()), "the store that arms the line advance (shouldResetCol) was not found in readChar")
		case ok:
			s.OK(rule, key, m.InstrPos(at), "shouldResetCol = (l.char == '\\n'): a carriage return belongs to the line it ends")
		default:
			s.Violation(rule, key, m.InstrPos(at), "the line counter is armed by %s instead of exactly l.char == '\\n': with CRLF (or other bytes) lines are counted twice or not at all, so every later token and error carries a wrong line", valueDesc(v))
		}
	}
	// (b) tokens with positions are built only by newToken (inside the lexer)
	nb := 0
	for _, fn := range lexFns {
		for _, b := range fn.Blocks {
			for _, in := range b.Instrs {
				st, ok := in.(*ssa.Store)
				if !ok {
					continue
				}
				if fa, ok := st.Addr.(*ssa.FieldAddr); ok && strings.HasSuffix(derefTypeString(fa.X.Type()), "token.Token") && fn != newTok {
					nb++
					s.Violation(rule, fnKey(fn)+"|builds a token outside newToken", m.InstrPos(st), "%s fills a token.Token directly: only newToken computes the range from the position counters", fnKey(fn))
				}
			}
		}
	}
	if nb == 0 {
		s.OK(rule, "lexer|tokens are built only by newToken", m.Pos(newTok.Pos()), "no other lexer function stores into a token.Token")
	}
	// (c) newToken: start from startCol/startLine; end from prevCol/prevLine unless EOF
	if !m.newTokenCases(s, rule, newTok) {
		m.checkNewToken(s, rule, newTok)
	}
	// (c') whatever the encoding: New, readChar, tokenBegins and newToken together, on real lexer states, against the
	// geometry of the input (this is what ties the constructor and readChar's first call to the counters newToken reads)
	if byName {
		g := m.tokposGeometry(newTok)
		key := "lexer|positions follow the geometry of the input"
		var bads []string
		for _, f := range []string{"StartLine", "StartCol", "EndLine", "EndCol"} {
			if g.bad[f] != "" {
				bads = append(bads, g.bad[f])
			}
		}
		switch {
		case !g.decided:
			s.Undecided(rule, key, m.Pos(newTok.Pos()), "the lexer's bookkeeping could not be evaluated on real lexer states (%s)", g.why)
		case len(bads) > 0:
			s.Violation(rule, key, m.Pos(newTok.Pos()), "%s: token positions are not the line and byte column of the bytes", strings.Join(bads, "; "))
		default:
			s.OK(rule, key, m.Pos(newTok.Pos()), "case evaluation of New, readChar, tokenBegins and newToken on real lexer states (%d scenarios over 11 inputs, among them one that begins with a line feed, ones with \\r\\n and ones with multi-byte characters): start = the byte at tokenBegins, end = the byte last read (the current one for EOF)", g.scenarios)
		}
	}
	// (d) start is taken before consuming: in every function that calls newToken, every path from entry to
	// that call passes a beginner (tokenBegins or a callee that begins first), and no input is consumed before it
	beginner := map[*ssa.Function]bool{tokBegins: true}
	consumerCI := m.newConsumerInfo([]*ssa.Function{readChar}, nil, lexFns)
	// skippers: functions that consume input between tokens and never take part in building one
	tokenish := m.newPassInfo(func(ci ssa.CallInstruction) bool {
		sc := ci.Common().StaticCallee()
		return sc != nil && (sc == tokBegins || sc == newTok)
	}, func(*ssa.Call) bool { return false }, lexFns, nil)
	skipper := map[*ssa.Function]bool{}
	for _, fn := range lexFns {
		if consumerCI.may[fn] && !tokenish.may[fn] && fn != readChar {
			skipper[fn] = true
		}
	}
	for changed := true; changed; {
		changed = false
		for _, fn := range lexFns {
			if beginner[fn] || fn == readChar {
				continue
			}
			if m.beginsFirst(fn, beginner, consumerCI, skipper) {
				beginner[fn] = true
				changed = true
			}
		}
	}
	sites := 0
	for _, fn := range lexFns {
		for _, b := range fn.Blocks {
			for i, in := range b.Instrs {
				c, ok := in.(*ssa.Call)
				if !ok || c.Call.StaticCallee() != newTok {
					continue
				}
				sites++
				tt := valueDesc(c.Call.Args[1])
				key := fmt.Sprintf("%s|newToken(%s) has its start taken first", fnKey(fn), tt)
				bi := m.newPassInfo(func(ci ssa.CallInstruction) bool {
					sc := ci.Common().StaticCallee()
					return sc != nil && beginner[sc]
				}, func(*ssa.Call) bool { return false }, lexFns, nil)
				target, idx := b, i
				noBegin := bi.pathAvoiding(fn, fn.Blocks[0], 0, func(x *ssa.BasicBlock) bool { return x == target && !bi.blockConsumesBefore(x, idx) }, nil)
				if noBegin {
					s.Violation(rule, key, m.InstrPos(c), "%s reaches newToken(%s) on a path without tokenBegins: the token's start is that of the previous token", fnKey(fn), tt)
				} else {
					s.OK(rule, key, m.InstrPos(c), "every path to the call passes tokenBegins (directly or through a callee that begins the token before reading)")
				}
				// (f) when the token's text is what a reader returned, the token is complete when the reader returns:
				// whatever is read between the reader's return and newToken extends the token's range beyond its text
				{
					lit := c.Call.Args[2]
					if ex, isEx := lit.(*ssa.Extract); isEx {
						lit = ex.Tuple
					}
					if rc, isCall := lit.(*ssa.Call); isCall && rc.Call.StaticCallee() != nil && consumerCI.may[rc.Call.StaticCallee()] && rc.Parent() == fn {
						k3 := fmt.Sprintf("%s|newToken(%s) follows its reader directly", fnKey(fn), tt)
						ctxf := m.Ctx(fn)
						before := func(a, b ssa.Instruction) bool { // can a execute before b?
							if a.Block() == b.Block() {
								for _, x := range a.Block().Instrs {
									if x == a {
										return true
									}
									if x == b {
										break
									}
								}
								return ctxf.reach[a.Block()][a.Block()]
							}
							return ctxf.reach[a.Block()][b.Block()]
						}
						var between ssa.Instruction
						nBetween := 0
						for _, bb := range fn.Blocks {
							for _, x := range bb.Instrs {
								xc, isXC := x.(*ssa.Call)
								if !isXC || x == ssa.Instruction(rc) || x == ssa.Instruction(c) || xc.Call.StaticCallee() == nil {
									continue
								}
								if sc := xc.Call.StaticCallee(); sc != readChar && !consumerCI.may[sc] {
									continue
								}
								if before(rc, x) && before(x, c) && !before(x, rc) {
									between = x
									nBetween++
								}
							}
						}
						// the reader may leave the lexer ON the closing delimiter and its caller skip it: one direct readChar,
						// made only when the reader's verdict is true, after a reader that — evaluated on real lexer states for
						// a non-empty and an empty literal — stops on the character it started on
						if between != nil && nBetween == 1 {
							if why := m.skipsDelimiterForReader(rc, between, readChar); why == "" {
								s.OK(rule, k3, m.InstrPos(c), "%s returns standing on the closing delimiter (case evaluation on `\"ab\" x`, `\"\" x`, `'ab' x`); the one readChar between its return and newToken is made under its verdict and skips that delimiter", canonFnName(rc.Call.StaticCallee()))
								between = nil
							}
						}
						if between != nil {
							s.Violation(rule, k3, m.InstrPos(between), "%s reads more input (%s) after %s returned the token's text and before newToken: the token's range then covers characters that are not part of it (blanks, the next token's start), so a cursor there is taken to be on this token and the next token starts late", fnKey(fn), valueDesc(between.(ssa.Value)), canonFnName(rc.Call.StaticCallee()))
						} else {
							s.OK(rule, k3, m.InstrPos(c), "nothing is read between the return of %s and newToken", canonFnName(rc.Call.StaticCallee()))
						}
					}
				}
				// (e) newToken ends a token on the PREVIOUS character (unless EOF): that is the token's last character only
				// if the token's characters were read. A path to newToken on which nothing can have been read ends the
				// token before its start — on the previous line when the token starts a line.
				if kc, isK := c.Call.Args[1].(*ssa.Const); !isK || kc.Value == nil || tokenConstNames[kc.Int64()] != "EOF" {
					k2 := fmt.Sprintf("%s|newToken(%s) ends on a character of the token", fnKey(fn), tt)
					mayRead := m.newPassInfo(func(ci ssa.CallInstruction) bool {
						sc := ci.Common().StaticCallee()
						return sc != nil && (sc == readChar || consumerCI.may[sc])
					}, func(*ssa.Call) bool { return false }, lexFns, nil)
					nothingRead := mayRead.pathAvoiding(fn, fn.Blocks[0], 0, func(x *ssa.BasicBlock) bool { return x == target && !mayRead.blockConsumesBefore(x, idx) }, nil)
					// the caller may have read the token's text before handing over (a helper that only builds the token)
					if nothingRead && fn != nil {
						if node := m.CG.Nodes[fn]; node != nil && len(node.In) > 0 {
							all := true
							for _, e := range node.In {
								cf := e.Caller.Func
								if cf == fn || cf.Blocks == nil {
									continue
								}
								sb, si := e.Site.Block(), -1
								for j, x := range sb.Instrs {
									if x == ssa.Instruction(e.Site) {
										si = j
									}
								}
								if mayRead.pathAvoiding(cf, cf.Blocks[0], 0, func(x *ssa.BasicBlock) bool { return x == sb && !mayRead.blockConsumesBefore(x, si) }, nil) {
									all = false
								}
							}
							if all {
								nothingRead = false
							}
						}
					}
					if nothingRead && m.newTokenUnread {
						s.OK(rule, k2, m.InstrPos(c), "a path reads nothing before this call, and newToken ends such a token on the current character (the position recorded by tokenBegins is still the current one)")
					} else if nothingRead {
						s.Violation(rule, k2, m.InstrPos(c), "%s can reach newToken(%s) without any character having been read since the token began: newToken takes the token's end from the previous character, so the token ends before it starts — an error about it is reported on the previous line when it is the first character of a line, and its range contains no position", fnKey(fn), tt)
					} else {
						s.OK(rule, k2, m.InstrPos(c), "every path to the call passes a call that reads input (readChar or a reader)")
					}
				}
			}
		}
	}
	// every token is built by newToken (clause b) and newToken is recognised by what it computes (clause c), so each
	// site that exists is checked above whatever their number; one shared emit path is as good as twenty spelled out
	if sites < 1 {
		s.Undecided(rule, "newToken sites", "-", "no call of newToken found in the lexer")
	}
	// each beginner-first constructor: no consumption before the start is taken
	var bn []string
	for fn := range beginner {
		bn = append(bn, fnKey(fn))
	}
	sort.Strings(bn)
	s.OK(rule, "lexer|functions that take the token start before reading", "-", "%v", bn)
	for _, fn := range lexFns {
		callsBegin := false
		for _, b := range fn.Blocks {
			for _, in := range b.Instrs {
				if c, ok := in.(*ssa.Call); ok && c.Call.StaticCallee() == tokBegins {
					callsBegin = true
				}
			}
		}
		if !callsBegin || fn == tokBegins {
			continue
		}
		key := fnKey(fn) + "|tokenBegins precedes any read"
		if beginner[fn] {
			s.OK(rule, key, m.Pos(fn.Pos()), "no path from entry reaches readChar before tokenBegins")
		} else {
			s.Violation(rule, key, m.Pos(fn.Pos()), "%s can consume input (readChar) before it calls tokenBegins: the token's start is taken after its first byte, so its range is wrong", fnKey(fn))
		}
	}
	// (e) ErrorLine = Pos.EndLine + 1
	el := m.Method("token", "Token", "ErrorLine")
	if el != nil {
		ok := false
		if len(el.Blocks) == 1 {
			if ret, isRet := el.Blocks[0].Instrs[len(el.Blocks[0].Instrs)-1].(*ssa.Return); isRet {
				if bo, isBo := ret.Results[0].(*ssa.BinOp); isBo && bo.Op == token.ADD && strings.HasSuffix(fieldPathOf(bo.X), ".Pos.EndLine") {
					if k, isK := bo.Y.(*ssa.Const); isK && k.Int64() == 1 {
						ok = true
					}
				}
			}
		}
		if ok {
			s.OK(rule, "token.(*Token).ErrorLine|end line plus one", m.Pos(el.Pos()), "returns Pos.EndLine + 1")
		} else {
			s.Violation(rule, "token.(*Token).ErrorLine|end line plus one", m.Pos(el.Pos()), "ErrorLine is not Pos.EndLine + 1: reported lines are not the 1-based line on which the token ends")
		}
	}
}

// beginsFirst: on every path from fn's entry, a beginner is called before any consuming call, and some beginner is always called before return
// (functions that never consume nor begin are not beginners).
func (m *Model) beginsFirst(fn *ssa.Function, beginner map[*ssa.Function]bool, cons *consumerInfo, skipper map[*ssa.Function]bool) bool {
	hasBegin := false
	for _, b := range fn.Blocks {
		for _, in := range b.Instrs {
			if c, ok := in.(*ssa.Call); ok && c.Call.StaticCallee() != nil && beginner[c.Call.StaticCallee()] {
				hasBegin = true
			}
		}
	}
	if !hasBegin {
		return false
	}
	// search: path from entry to a consuming call that avoids beginner calls
	seen := map[*ssa.BasicBlock]bool{}
	stack := []*ssa.BasicBlock{fn.Blocks[0]}
	for len(stack) > 0 {
		b := stack[len(stack)-1]
		stack = stack[:len(stack)-1]
		if seen[b] {
			continue
		}
		seen[b] = true
		began := false
		for _, in := range b.Instrs {
			c, ok := in.(ssa.CallInstruction)
			if !ok {
				continue
			}
			sc := c.Common().StaticCallee()
			if sc == nil {
				continue
			}
			if beginner[sc] {
				began = true
				break
			}
			if cons.may[sc] && !skipper[sc] {
				return false // consumes before beginning
			}
		}
		if began {
			continue
		}
		if _, isRet := b.Instrs[len(b.Instrs)-1].(*ssa.Return); isRet {
			return false // returns without beginning
		}
		stack = append(stack, b.Succs...)
	}
	return true
}

func (m *Model) checkNewToken(s *Sink, rule string, fn *ssa.Function) {
	// stores into token.Position fields
	want := map[string][2]string{ // field -> (source on the non-EOF path, source on the EOF path)
		"StartCol": {".startCol", ".startCol"}, "StartLine": {".startLine", ".startLine"},
		"EndCol": {".prevCol", ".col"}, "EndLine": {".prevLine", ".line"},
	}
	got := map[string]ssa.Value{}
	for _, b := range fn.Blocks {
		for _, in := range b.Instrs {
			st, ok := in.(*ssa.Store)
			if !ok {
				continue
			}
			if fa, ok := st.Addr.(*ssa.FieldAddr); ok && strings.HasSuffix(derefTypeString(fa.X.Type()), "token.Position") {
				got[fieldName(fa.X.Type(), fa.Field)] = st.Val
			}
		}
	}
	eofVal := int64(-1)
	for v, n := range tokenConstNames {
		if n == "EOF" {
			eofVal = v
		}
	}
	var names []string
	for f := range want {
		names = append(names, f)
	}
	sort.Strings(names)
	for _, f := range names {
		key := fnKey(fn) + "|Position." + f
		v, ok := got[f]
		if !ok {
			s.Violation(rule, key, m.Pos(fn.Pos()), "newToken does not set Position.%s", f)
			continue
		}
		w := want[f]
		if w[0] == w[1] {
			if fieldPathOf(v) == w[0] {
				s.OK(rule, key, m.Pos(fn.Pos()), "taken from l%s (set by tokenBegins)", w[0])
			} else {
				s.Violation(rule, key, m.Pos(fn.Pos()), "Position.%s is %s, expected l%s recorded by tokenBegins", f, valueDesc(v), w[0])
			}
			continue
		}
		phi, isPhi := v.(*ssa.Phi)
		okEnd := false
		if isPhi && len(phi.Edges) >= 2 {
			okEnd = true
			for i, e := range phi.Edges {
				pred := phi.Block().Preds[i]
				// what is known on this edge: tokType != EOF / == EOF; nothing was read since the token began
				// (the current position still is the recorded start)
				nonEOF, isEOF := false, false
				samePos := map[string]bool{}
				for _, fc := range expandFacts(factsOnEdge(pred, phi.Block())) {
					bo, isBo := fc.Cond.(*ssa.BinOp)
					if !isBo || (bo.Op != token.NEQ && bo.Op != token.EQL) {
						continue
					}
					if k, isK := bo.Y.(*ssa.Const); isK && k.Value != nil && k.Int64() == eofVal {
						if (bo.Op == token.NEQ) == fc.Holds {
							nonEOF = true
						} else {
							isEOF = true
						}
						continue
					}
					if (bo.Op == token.EQL) == fc.Holds {
						a, b := fieldPathOf(bo.X), fieldPathOf(bo.Y)
						for _, pr := range [][2]string{{".col", ".startCol"}, {".line", ".startLine"}} {
							if (a == pr[0] && b == pr[1]) || (a == pr[1] && b == pr[0]) {
								samePos[pr[0]] = true
							}
						}
					}
				}
				unread := samePos[".col"] && samePos[".line"]
				switch fieldPathOf(e) {
				case w[0]: // the previous character: only for tokens that are not EOF
					if !nonEOF {
						okEnd = false
					}
				case w[1]: // the current character: EOF, or a token that has read nothing (it ends where it starts)
					if !isEOF && !unread && nonEOF {
						okEnd = false
					}
					if unread {
						m.newTokenUnread = true
					}
				default:
					okEnd = false
				}
			}
		}
		if okEnd {
			s.OK(rule, key, m.Pos(fn.Pos()), "l%s for every token but EOF (the last consumed byte), l%s for EOF", w[0], w[1])
		} else {
			s.Violation(rule, key, m.Pos(fn.Pos()), "Position.%s is not taken from l%s for ordinary tokens and l%s for EOF: the token's end is not the position of its last byte", f, w[0], w[1])
		}
	}
}

// newTokenCases decides clause (c) by evaluating newToken on abstract lexers whose six position counters hold six
// different numbers: the Position it returns tells which counter each field is taken from. Cases: every token type
// with something read; nothing read since the token began (col/line still equal the recorded start); only the column
// or only the line equal to the start. Returns false when newToken cannot be evaluated (the structural reading decides).
func (m *Model) newTokenCases(s *Sink, rule string, fn *ssa.Function) bool {
	lexT, tokT, posT := m.namedType("lexer", "Lexer"), m.namedType("token", "Token"), m.namedType("token", "Position")
	if lexT == nil || tokT == nil || posT == nil || len(fn.Params) != 3 {
		return false
	}
	fieldIdx := func(t *types.Named, name string) int {
		st := t.Underlying().(*types.Struct)
		for i := 0; i < st.NumFields(); i++ {
			if canonFieldName(t, i, st.Field(i).Name()) == name {
				return i
			}
		}
		return -1
	}
	ctr := map[string]int{}
	for _, n := range []string{"col", "line", "prevCol", "prevLine", "startCol", "startLine"} {
		ctr[n] = fieldIdx(lexT, n)
		if ctr[n] < 0 {
			// the counters are kept some other way (grouped into a struct, behind a helper type with methods):
			// decided on real lexer states instead
			return m.newTokenGeometry(s, rule, fn)
		}
	}
	fPos := fieldIdx(tokT, "Pos")
	pf := map[string]int{}
	for _, n := range []string{"StartCol", "StartLine", "EndCol", "EndLine"} {
		pf[n] = fieldIdx(posT, n)
		if pf[n] < 0 || fPos < 0 {
			return false
		}
	}
	eofVal := int64(-1)
	var tokVals []int64
	for v, n := range tokenConstNames {
		if n == "EOF" {
			eofVal = v
		}
		tokVals = append(tokVals, v)
	}
	sort.Slice(tokVals, func(i, j int) bool { return tokVals[i] < tokVals[j] })
	if eofVal < 0 {
		return false
	}
	run := func(tok int64, vals map[string]int64) (map[string]int64, bool) {
		lx := &iStruct{typ: lexT, fields: map[int]any{}}
		for n, v := range vals {
			lx.fields[ctr[n]] = constant.MakeInt64(v)
		}
		ip := &Interp{m: m, useGlobals: true}
		res, ok := ip.Run(fn, []any{lx, constant.MakeInt64(tok), constant.MakeString("x")})
		t, isT := res.(*iStruct)
		if !ok || !isT || ip.stuck != "" {
			return nil, false
		}
		pv, isP := t.fields[fPos].(*iStruct)
		if !isP {
			return nil, false
		}
		out := map[string]int64{}
		for n, i := range pf {
			c, isC := pv.fields[i].(constant.Value)
			if !isC {
				return nil, false
			}
			out[n], _ = constant.Int64Val(c)
		}
		return out, true
	}
	read := map[string]int64{"startCol": 11, "startLine": 12, "col": 13, "line": 14, "prevCol": 15, "prevLine": 16}
	nameOf := func(vals map[string]int64, v int64) string {
		var ns []string
		for n, x := range vals {
			if x == v {
				ns = append(ns, "l."+n)
			}
		}
		sort.Strings(ns)
		if len(ns) == 0 {
			return fmt.Sprint(v)
		}
		return strings.Join(ns, " = ")
	}
	bad := map[string]string{}
	check := func(what string, tok int64, vals map[string]int64, want map[string]string) bool {
		got, ok := run(tok, vals)
		if !ok {
			return false
		}
		for f, src := range want {
			if got[f] != vals[src] && bad[f] == "" {
				bad[f] = fmt.Sprintf("for %s Position.%s is %s, expected l.%s", what, f, nameOf(vals, got[f]), src)
			}
		}
		return true
	}
	for _, tv := range tokVals {
		want := map[string]string{"StartCol": "startCol", "StartLine": "startLine", "EndCol": "prevCol", "EndLine": "prevLine"}
		what := "a token that has read its characters"
		if tv == eofVal {
			want["EndCol"], want["EndLine"] = "col", "line"
			what = "EOF"
		}
		if !check(what+" ("+tokenConstNames[tv]+")", tv, read, want) {
			return false
		}
	}
	other := tokVals[0]
	if other == eofVal {
		other = tokVals[1]
	}
	prevWant := map[string]string{"StartCol": "startCol", "StartLine": "startLine", "EndCol": "prevCol", "EndLine": "prevLine"}
	sameCol := map[string]int64{"startCol": 11, "startLine": 12, "col": 11, "line": 14, "prevCol": 15, "prevLine": 16}
	sameLine := map[string]int64{"startCol": 11, "startLine": 12, "col": 13, "line": 12, "prevCol": 15, "prevLine": 16}
	if !check("a token that ends in the column it started in, lines later", other, sameCol, prevWant) || !check("a token on one line", other, sameLine, prevWant) {
		return false
	}
	// nothing read: either the token ends where it starts (then unread tokens like the illegal character are fine),
	// or newToken assumes something was read (then clause (e) demands it of every caller)
	unread := map[string]int64{"startCol": 11, "startLine": 12, "col": 11, "line": 12, "prevCol": 15, "prevLine": 16}
	got, ok := run(other, unread)
	if !ok {
		return false
	}
	switch {
	case got["EndCol"] == 11 && got["EndLine"] == 12:
		m.newTokenUnread = true
	case got["EndCol"] == 15 && got["EndLine"] == 16:
	default:
		bad["EndCol"] = fmt.Sprintf("for a token that has read nothing the end is (%s, %s): neither the current nor the previous character", nameOf(unread, got["EndLine"]), nameOf(unread, got["EndCol"]))
	}
	for _, f := range []string{"EndCol", "EndLine", "StartCol", "StartLine"} {
		key := fnKey(fn) + "|Position." + f
		if bad[f] != "" {
			s.Violation(rule, key, m.Pos(fn.Pos()), "%s: the token's range is not that of its text, so errors about it name a wrong line and a cursor on it is not found", bad[f])
		} else {
			s.OK(rule, key, m.Pos(fn.Pos()), "case evaluation of newToken with six distinct counters, for all %d token types: start from tokenBegins' record, end on the previous character (the current one for EOF%s)", len(tokVals), map[bool]string{true: " and for a token that has read nothing", false: ""}[m.newTokenUnread])
		}
	}
	return true
}

// RunNoReadPastEnd — R-TOKPOS (g): a scanner that reports "not terminated" has not read past the end of the input. In a
// lexer function with a bool verdict, a readChar made after the verdict was computed from the current character
// (`closed := l.char == quote`) is made only when the verdict is true: read at the end of the input, readChar still
// advances the column (and the line), so the ILLEGAL token of an unterminated string ends one position — or one line —
// past the last byte, and so does everything positioned after it (the end-of-input token).
func (m *Model) RunNoReadPastEnd(s *Sink, rule string) {
	rc := m.Method("lexer", "Lexer", "readChar")
	if rc == nil {
		s.Undecided(rule, "lexer.readChar", "-", "readChar not found")
		return
	}
	n := 0
	for _, fn := range m.ModFns {
		if fn.Blocks == nil || shortPkg(fnPkgPath(fn)) != "lexer" || verdictIndexAny(fn) < 0 {
			continue
		}
		vi := verdictIndexAny(fn)
		ctx := m.Ctx(fn)
		// verdicts computed from the current character
		var verdicts []ssa.Instruction
		for _, b := range fn.Blocks {
			ret, ok := b.Instrs[len(b.Instrs)-1].(*ssa.Return)
			if !ok || vi >= len(ret.Results) {
				continue
			}
			bo, isBo := ret.Results[vi].(*ssa.BinOp)
			if !isBo || (bo.Op != token.EQL && bo.Op != token.NEQ) {
				continue
			}
			readsChar := false
			for _, side := range []ssa.Value{bo.X, bo.Y} {
				if _, p, ok := pathOf(side); ok && p == ".char" {
					readsChar = true
				}
			}
			if readsChar {
				verdicts = append(verdicts, bo)
			}
		}
		for _, v := range verdicts {
			n++
			bad := ""
			for _, b := range fn.Blocks {
				for _, in := range b.Instrs {
					c, ok := in.(*ssa.Call)
					if !ok || c.Call.StaticCallee() != rc || !ctx.instrDominates(v, c) {
						continue
					}
					guarded := false
					for _, f := range expandFacts(factsAt(b)) {
						if f.Cond == v.(ssa.Value) && f.Holds == (v.(*ssa.BinOp).Op == token.EQL) {
							guarded = true
						}
					}
					if !guarded && bad == "" {
						bad = m.InstrPos(c)
					}
				}
			}
			key := fmt.Sprintf("%s|nothing is read after the scanner found its input unterminated", fnKey(fn))
			if bad != "" {
				s.Violation(rule, key, bad, "%s computes its verdict from the current character and then calls readChar at %s whether or not the verdict holds: when the input ended (the verdict is false) this read moves the column — and, after a line feed, the line — past the last byte, so the ILLEGAL token reported for the unterminated construct, and the end-of-input token after it, are positioned beyond the input", fnKey(fn), bad)
			} else {
				s.OK(rule, key, m.Pos(fn.Pos()), "every readChar after the verdict lies under the verdict being true")
			}
		}
	}
	if n == 0 {
		s.OK(rule, "lexer|no scanner computes a verdict from the current character and reads on", "-", "no lexer function with a bool result compared from l.char followed by a read")
	}
}

// skipsDelimiterForReader: "" when the instruction x — between the return of the reader call rc and newToken — is a direct
// readChar made only under the reader's verdict being true, and the reader leaves the lexer on the delimiter it
// started on. Otherwise the reason why not.
func (m *Model) skipsDelimiterForReader(rc *ssa.Call, x ssa.Instruction, readChar *ssa.Function) string {
	xc, ok := x.(*ssa.Call)
	if !ok || xc.Call.StaticCallee() != readChar {
		return "not a direct readChar"
	}
	reader := rc.Call.StaticCallee()
	vi := verdictIndexAny(reader)
	if vi < 0 || reader.Signature.Results().Len() < 2 {
		return "the reader has no verdict"
	}
	var verdict ssa.Value
	for _, r := range *rc.Referrers() {
		if ex, isEx := r.(*ssa.Extract); isEx && ex.Index == vi {
			verdict = ex
		}
	}
	if verdict == nil {
		return "the verdict is not looked at"
	}
	guarded := false
	for _, f := range expandFacts(factsAt(x.Block())) {
		if f.Cond == verdict && f.Holds {
			guarded = true
		}
	}
	if !guarded {
		return "the read is not made under the verdict"
	}
	lexT := m.namedType("lexer", "Lexer")
	if lexT == nil || len(reader.Params) != 1 {
		return "the reader is not a method of the lexer alone"
	}
	fChar := -1
	st := lexT.Underlying().(*types.Struct)
	for i := 0; i < st.NumFields(); i++ {
		if canonFieldName(lexT, i, st.Field(i).Name()) == "char" {
			fChar = i
		}
	}
	if fChar < 0 {
		return "Lexer.char not found"
	}
	for _, in := range []string{"\"ab\" x", "\"\" x", "'ab' x"} {
		lx, okL := m.lexerAt(in, 0)
		if !okL {
			return "lexer.New could not be evaluated"
		}
		ip := &Interp{m: m, useGlobals: true}
		if _, okR := ip.Run(reader, []any{lx}); !okR || ip.stuck != "" {
			return "the reader could not be evaluated: " + ip.stuck
		}
		obj, isS := lx.(*iStruct)
		if !isS {
			return "the lexer object is not a struct"
		}
		cv, isK := obj.fields[fChar].(constant.Value)
		if !isK {
			return "the current character after the reader is not known"
		}
		if v, _ := constant.Int64Val(constant.ToInt(cv)); v != int64(in[0]) {
			return fmt.Sprintf("on %s the reader does not stop on the closing delimiter", in)
		}
	}
	return ""
}

// verdictIndexAny: the index of the last bool result (also of a function with a single result).
func verdictIndexAny(fn *ssa.Function) int {
	rs := fn.Signature.Results()
	for i := rs.Len() - 1; i >= 0; i-- {
		if isBoolT(rs.At(i).Type()) {
			return i
		}
	}
	return -1
}

// tokposGeometry evaluates the lexer's own position bookkeeping — New, readChar, tokenBegins, newToken, whatever
// helper types they use — on real lexer states: the lexer New leaves for an input, advanced by k1 reads, then
// tokenBegins, then k2 more reads, then newToken for every token type. What the returned Position must be is a fact
// about the input's geometry (line = line feeds before the byte, column = bytes since the last line feed), not about
// how the counters are stored: start = the byte the lexer stood on at tokenBegins; end = the previous byte (the byte
// last read) for every type but EOF, the current byte for EOF; for a token that has read nothing, the start itself
// (then unread tokens are fine) or the byte before it (then every caller must have read). A carriage return does not
// start a line; a line feed does.
type tokposGeom struct {
	done, decided bool
	why           string
	bad           map[string]string
	unreadAtStart bool
	scenarios     int
}

func (m *Model) tokposGeometry(fn *ssa.Function) *tokposGeom {
	if m.tokposGeom != nil {
		return m.tokposGeom
	}
	g := &tokposGeom{bad: map[string]string{}}
	m.tokposGeom = g
	tokT, posT := m.namedType("token", "Token"), m.namedType("token", "Position")
	rc, tb := m.Method("lexer", "Lexer", "readChar"), m.Method("lexer", "Lexer", "tokenBegins")
	if tokT == nil || posT == nil || rc == nil || tb == nil || len(fn.Params) != 3 {
		g.why = "token.Token / token.Position / readChar / tokenBegins not found"
		return g
	}
	fieldIdx := func(t *types.Named, name string) int {
		st := t.Underlying().(*types.Struct)
		for i := 0; i < st.NumFields(); i++ {
			if canonFieldName(t, i, st.Field(i).Name()) == name {
				return i
			}
		}
		return -1
	}
	fPos := fieldIdx(tokT, "Pos")
	pf := map[string]int{}
	for _, n := range []string{"StartCol", "StartLine", "EndCol", "EndLine"} {
		pf[n] = fieldIdx(posT, n)
		if pf[n] < 0 || fPos < 0 {
			g.why = "fields of token.Token / token.Position not found"
			return g
		}
	}
	eofVal := int64(-1)
	var tokVals []int64
	for v, n := range tokenConstNames {
		if n == "EOF" {
			eofVal = v
		}
		tokVals = append(tokVals, v)
	}
	sort.Slice(tokVals, func(i, j int) bool { return tokVals[i] < tokVals[j] })
	if eofVal < 0 {
		g.why = "token.EOF not found"
		return g
	}
	geom := func(in string, i int) (line, col int64) {
		for k := 0; k < i && k < len(in); k++ {
			if in[k] == '\n' {
				line++
				col = 0
			} else {
				col++
			}
		}
		if i > len(in) {
			col += int64(i - len(in))
		}
		return
	}
	run := func(in string, k1, k2 int, tok int64) (map[string]int64, string) {
		lx, ok := m.lexerAt(in, k1)
		if !ok {
			return nil, "lexer.New / readChar could not be evaluated"
		}
		ip := &Interp{m: m, useGlobals: true}
		if ip.Run(tb, []any{lx}); ip.stuck != "" || len(ip.lost) > 0 {
			return nil, "tokenBegins could not be evaluated: " + ip.stuck
		}
		for i := 0; i < k2; i++ {
			ip2 := &Interp{m: m, useGlobals: true}
			if ip2.Run(rc, []any{lx}); ip2.stuck != "" || len(ip2.lost) > 0 {
				return nil, "readChar could not be evaluated: " + ip2.stuck
			}
		}
		ip3 := &Interp{m: m, useGlobals: true}
		res, okR := ip3.Run(fn, []any{lx, constant.MakeInt64(tok), constant.MakeString("x")})
		t, isT := res.(*iStruct)
		if !okR || !isT || ip3.stuck != "" || len(ip3.lost) > 0 {
			return nil, "newToken could not be evaluated: " + ip3.stuck
		}
		pv, isP := t.fields[fPos].(*iStruct)
		if !isP {
			return nil, "the token's position is not known"
		}
		out := map[string]int64{}
		for n, i := range pf {
			c, isC := pv.fields[i].(constant.Value)
			if !isC {
				return nil, "Position." + n + " is not known"
			}
			out[n], _ = constant.Int64Val(c)
		}
		return out, ""
	}
	type scen struct {
		in     string
		k1, k2 int
	}
	scens := []scen{
		{"ab\ncd\nef", 1, 5}, // start (0,1); previous byte the line feed at (1,2); current byte (2,0): six different numbers
		{"a\r\nb", 0, 3},     // a carriage return does not start a line
		{"a\r\nb", 1, 1},
		{"ab", 0, 2}, // the current position is just past the last byte
		{"ab\n", 0, 3},
		{"x\n\ny", 0, 3},
		{"abc", 1, 1},
		{"\nab", 0, 2}, // the very first byte is a line feed
		{"\nab", 1, 1},
		{"\xc3\xa9ab", 0, 3},        // columns count bytes: a two-byte character is two columns
		{"a\xe2\x82\xacb\nc", 1, 4}, // a three-byte character, then a line feed
		{"\xff\x80z", 1, 2},         // bytes that are no valid UTF-8 count like any other
	}
	other := tokVals[0]
	if other == eofVal {
		other = tokVals[1]
	}
	for _, sc := range scens {
		toks := []int64{other, eofVal}
		if sc.in == "ab\ncd\nef" {
			toks = tokVals // every token type on the scenario with six different numbers
		}
		for _, tv := range toks {
			got, why := run(sc.in, sc.k1, sc.k2, tv)
			if why != "" {
				g.why = fmt.Sprintf("%q after %d reads, tokenBegins, %d reads: %s", sc.in, sc.k1, sc.k2, why)
				return g
			}
			g.scenarios++
			sl, scol := geom(sc.in, sc.k1)
			endIdx := sc.k1 + sc.k2 - 1
			what := "a token that has read its characters"
			if tv == eofVal {
				endIdx = sc.k1 + sc.k2
				what = "EOF"
			}
			el, ec := geom(sc.in, endIdx)
			want := map[string]int64{"StartLine": sl, "StartCol": scol, "EndLine": el, "EndCol": ec}
			for f, w := range want {
				if got[f] != w && g.bad[f] == "" {
					g.bad[f] = fmt.Sprintf("on the input %q — %d reads, tokenBegins, %d more reads — Position.%s of %s (%s) is %d, expected %d", sc.in, sc.k1, sc.k2, f, what, tokenConstNames[tv], got[f], w)
				}
			}
		}
	}
	// a token that has read nothing
	for _, sc := range []scen{{"ab\ncd", 4, 0}, {"abc", 2, 0}} {
		got, why := run(sc.in, sc.k1, sc.k2, other)
		if why != "" {
			g.why = fmt.Sprintf("%q after %d reads and tokenBegins: %s", sc.in, sc.k1, why)
			return g
		}
		g.scenarios++
		sl, scol := geom(sc.in, sc.k1)
		pl, pc := geom(sc.in, sc.k1-1)
		switch {
		case got["EndLine"] == sl && got["EndCol"] == scol:
			g.unreadAtStart = true
		case got["EndLine"] == pl && got["EndCol"] == pc:
		default:
			if g.bad["EndCol"] == "" {
				g.bad["EndCol"] = fmt.Sprintf("on the input %q, for a token that begins after %d reads and has read nothing, the end is (%d, %d): neither the current nor the previous byte", sc.in, sc.k1, got["EndLine"], got["EndCol"])
			}
		}
		if got["StartLine"] != sl || got["StartCol"] != scol {
			if g.bad["StartCol"] == "" {
				g.bad["StartCol"] = fmt.Sprintf("on the input %q, for a token that begins after %d reads, the start is (%d, %d), expected (%d, %d)", sc.in, sc.k1, got["StartLine"], got["StartCol"], sl, scol)
			}
		}
	}
	g.decided = true
	return g
}

func (m *Model) newTokenGeometry(s *Sink, rule string, fn *ssa.Function) bool {
	g := m.tokposGeometry(fn)
	if !g.decided {
		for _, f := range []string{"EndCol", "EndLine", "StartCol", "StartLine"} {
			s.Undecided(rule, fnKey(fn)+"|Position."+f, m.Pos(fn.Pos()), "the position counters are not fields of the lexer under the names this rule knows, and the lexer's bookkeeping could not be evaluated on real lexer states (%s)", g.why)
		}
		return true
	}
	if g.unreadAtStart {
		m.newTokenUnread = true
	}
	for _, f := range []string{"EndCol", "EndLine", "StartCol", "StartLine"} {
		key := fnKey(fn) + "|Position." + f
		if g.bad[f] != "" {
			s.Violation(rule, key, m.Pos(fn.Pos()), "%s: the token's range is not that of its text, so errors about it name a wrong line and a cursor on it is not found", g.bad[f])
		} else {
			s.OK(rule, key, m.Pos(fn.Pos()), "case evaluation of New, readChar, tokenBegins and newToken on real lexer states (%d scenarios over 11 inputs, every token type on the one whose six line and column numbers differ): start = the byte at tokenBegins, end = the byte last read (the current one for EOF%s); a carriage return does not start a line", g.scenarios, map[bool]string{true: " and for a token that has read nothing", false: ""}[g.unreadAtStart])
		}
	}
	return true
}

// tokposOwnersGeneral — clause (a) when the counters are not plain fields of the lexer: the position state is whatever
// memory readChar, tokenBegins and their exclusive helpers (functions of the lexer package all of whose callers are
// among them) store to, as (struct type, field) pairs — `cursor.col`, `tracker.start`, `Lexer.cur`. Every store to
// such a pair lies in those functions or in the constructor and its exclusive helpers.
func (m *Model) tokposOwnersGeneral(s *Sink, rule string, readChar, tokBegins, newFn *ssa.Function) {
	var lexFns []*ssa.Function
	for _, fn := range m.ModFns {
		if fn.Blocks != nil && shortPkg(fnPkgPath(fn)) == "lexer" {
			lexFns = append(lexFns, fn)
		}
	}
	closure := func(roots ...*ssa.Function) map[*ssa.Function]bool {
		set := map[*ssa.Function]bool{}
		for _, r := range roots {
			if r != nil {
				set[r] = true
			}
		}
		for changed := true; changed; {
			changed = false
			for _, f := range lexFns {
				if set[f] {
					continue
				}
				node := m.CG.Nodes[f]
				if node == nil || len(node.In) == 0 {
					continue
				}
				all := true
				for _, e := range node.In {
					if !set[e.Caller.Func] {
						all = false
					}
				}
				if all {
					set[f] = true
					changed = true
				}
			}
		}
		return set
	}
	type tf struct {
		t *types.Named
		i int
	}
	storesOf := func(set map[*ssa.Function]bool) map[tf]bool {
		out := map[tf]bool{}
		for f := range set {
			for _, b := range f.Blocks {
				for _, in := range b.Instrs {
					st, ok := in.(*ssa.Store)
					if !ok {
						continue
					}
					if fa, isFA := st.Addr.(*ssa.FieldAddr); isFA && !localBase(fa) {
						if nt, i, okA := fieldAccess(fa); okA && nt.Obj().Pkg() != nil && shortPkg(nt.Obj().Pkg().Path()) == "lexer" {
							out[tf{nt, i}] = true
						}
					}
				}
			}
		}
		return out
	}
	readers, beginners, makers := closure(readChar), closure(tokBegins), closure(newFn)
	state := storesOf(readers)
	for k := range storesOf(beginners) {
		state[k] = true
	}
	if len(state) < 4 {
		s.Undecided(rule, "lexer|position state", "-", "readChar, tokenBegins and their helpers store to only %d fields: the position bookkeeping was not found", len(state))
		return
	}
	var keys []tf
	for k := range state {
		keys = append(keys, k)
	}
	sort.Slice(keys, func(i, j int) bool {
		if keys[i].t.Obj().Name() != keys[j].t.Obj().Name() {
			return keys[i].t.Obj().Name() < keys[j].t.Obj().Name()
		}
		return keys[i].i < keys[j].i
	})
	for _, k := range keys {
		name := k.t.Obj().Name() + "." + canonFieldName(k.t, k.i, k.t.Underlying().(*types.Struct).Field(k.i).Name())
		key := "lexer." + name + "|written only by its owner"
		bad := ""
		for _, fn := range m.ModFns {
			if fn.Blocks == nil || isUserPkg(fnPkgPath(fn)) || readers[fn] || beginners[fn] || makers[fn] {
				continue
			}
			for _, b := range fn.Blocks {
				for _, in := range b.Instrs {
					st, ok := in.(*ssa.Store)
					if !ok {
						continue
					}
					if fa, isFA := st.Addr.(*ssa.FieldAddr); isFA && !localBase(fa) {
						if nt, i, okA := fieldAccess(fa); okA && nt == k.t && i == k.i && bad == "" {
							bad = fmt.Sprintf("%s at %s", fnKey(fn), m.InstrPos(st))
						}
					}
				}
			}
		}
		if bad != "" {
			s.Violation(rule, key, bad[strings.LastIndex(bad, " ")+1:], "the position state %s is written by %s; it may only be written by readChar, tokenBegins, the constructor and their own helpers: a token built after such a write carries a wrong range", name, bad)
		} else {
			s.OK(rule, key, "-", "stored to only by readChar / tokenBegins / the constructor and their exclusive helpers")
		}
	}
}

// localBase: the field address is that of a variable of the function (a local copy, a composite literal being built),
// not of the lexer's state.
func localBase(fa *ssa.FieldAddr) bool {
	var v ssa.Value = fa
	for i := 0; i < 8; i++ {
		x, ok := v.(*ssa.FieldAddr)
		if !ok {
			break
		}
		v = x.X
	}
	al, isAlloc := v.(*ssa.Alloc)
	return isAlloc && !al.Heap
}

// RunUnterminatedAtEnd: a scanner of the lexer — a function with a verdict that reads characters in a loop (a comment,
// a string) — answers "unterminated" (the constant false) only where the input has ended. Answering it earlier (a
// look-ahead search that found no terminator) leaves the rest of the construct to be lexed as ordinary template text,
// where a directive in it can close a block: an unterminated construct is accepted.
func (m *Model) RunUnterminatedAtEnd(s *Sink, rule string) {
	rc := m.Method("lexer", "Lexer", "readChar")
	if rc == nil {
		s.Undecided(rule, "lexer.readChar", "-", "readChar not found")
		return
	}
	atEnd := func(b *ssa.BasicBlock) bool {
		for _, f := range expandFacts(factsAt(b)) {
			bo, ok := f.Cond.(*ssa.BinOp)
			if !ok || (bo.Op != token.EQL && bo.Op != token.NEQ) || (bo.Op == token.EQL) != f.Holds {
				continue
			}
			for _, pr := range [][2]ssa.Value{{bo.X, bo.Y}, {bo.Y, bo.X}} {
				if _, p, okP := pathOf(pr[0]); okP && p == ".char" {
					if k, isK := pr[1].(*ssa.Const); isK && k.Value != nil && k.Int64() == 0 {
						return true
					}
				}
			}
		}
		return false
	}
	n := 0
	for _, fn := range m.ModFns {
		if fn.Blocks == nil || shortPkg(fnPkgPath(fn)) != "lexer" || verdictIndexAny(fn) < 0 {
			continue
		}
		vi := verdictIndexAny(fn)
		// reads in a loop
		inLoop := false
		for _, li := range naturalLoops(fn) {
			for b := range li.body {
				for _, in := range b.Instrs {
					if c, ok := in.(*ssa.Call); ok && c.Call.StaticCallee() == rc {
						inLoop = true
					}
				}
			}
		}
		if !inLoop {
			continue
		}
		bad, nFalse := "", 0
		for _, b := range fn.Blocks {
			ret, ok := b.Instrs[len(b.Instrs)-1].(*ssa.Return)
			if !ok || vi >= len(ret.Results) {
				continue
			}
			k, isK := ret.Results[vi].(*ssa.Const)
			if !isK || k.Value == nil || constant.BoolVal(k.Value) {
				continue
			}
			nFalse++
			if !atEnd(b) && bad == "" {
				bad = m.InstrPos(ret)
			}
		}
		if nFalse == 0 {
			continue
		}
		n++
		key := fmt.Sprintf("%s|\"unterminated\" is answered only at the end of the input", fnKey(fn))
		if bad == "" {
			s.OK(rule, key, m.Pos(fn.Pos()), "every `return false` lies where l.char == 0")
		} else {
			s.Violation(rule, key, bad, "%s answers \"unterminated\" at %s without the input having ended (the current character is not known to be 0 there): what follows the opening of the construct is then lexed as ordinary template text — a directive in it closes the enclosing block, and a template with an unterminated construct is accepted", fnKey(fn), bad)
		}
	}
	s.Note(rule, "scanners with an unterminated verdict", "-", "%d", n)
}

// RunZeroByteMatch: the byte 0 is the lexer's end-of-input sentinel. A comparison of the current byte with a value
// taken out of a table (a map lookup without a found test, or a field of such an entry) holds at the end of the input
// for every key the table does not have — the zero value is the sentinel. A readChar under such a comparison reads
// past the end: the token's range and the EOF position lie beyond the input.
func (m *Model) RunZeroByteMatch(s *Sink, rule string) {
	rc := m.Method("lexer", "Lexer", "readChar")
	if rc == nil {
		s.Undecided(rule, "lexer.readChar", "-", "readChar not found")
		return
	}
	var fromTable func(v ssa.Value, d int) *ssa.Lookup
	fromTable = func(v ssa.Value, d int) *ssa.Lookup {
		if d > 4 {
			return nil
		}
		switch x := v.(type) {
		case *ssa.Lookup:
			if _, isMap := x.X.Type().Underlying().(*types.Map); isMap && !x.CommaOk {
				return x
			}
		case *ssa.Field:
			return fromTable(x.X, d+1)
		case *ssa.UnOp:
			if fa, ok := x.X.(*ssa.FieldAddr); ok && x.Op == token.MUL {
				if al, isAl := fa.X.(*ssa.Alloc); isAl && al.Referrers() != nil {
					for _, r := range *al.Referrers() {
						if st, isSt := r.(*ssa.Store); isSt && st.Addr == ssa.Value(al) {
							return fromTable(st.Val, d+1)
						}
					}
				}
			}
		case *ssa.Convert:
			return fromTable(x.X, d+1)
		case *ssa.ChangeType:
			return fromTable(x.X, d+1)
		}
		return nil
	}
	n := 0
	for _, fn := range m.ModFns {
		if fn.Blocks == nil || shortPkg(fnPkgPath(fn)) != "lexer" {
			continue
		}
		for _, b := range fn.Blocks {
			iff, ok := b.Instrs[len(b.Instrs)-1].(*ssa.If)
			if !ok {
				continue
			}
			bo, isBo := iff.Cond.(*ssa.BinOp)
			if !isBo || (bo.Op != token.EQL && bo.Op != token.NEQ) {
				continue
			}
			var other ssa.Value
			for _, pr := range [][2]ssa.Value{{bo.X, bo.Y}, {bo.Y, bo.X}} {
				if _, p, okP := pathOf(pr[0]); okP && p == ".char" {
					other = pr[1]
				}
			}
			if other == nil {
				continue
			}
			lk := fromTable(other, 0)
			if lk == nil {
				continue
			}
			// the side on which the bytes are equal
			eqSucc := b.Succs[0]
			if bo.Op == token.NEQ {
				eqSucc = b.Succs[1]
			}
			reads := false
			for _, in := range eqSucc.Instrs {
				if c, isC := in.(*ssa.Call); isC && c.Call.StaticCallee() == rc {
					reads = true
				}
			}
			if !reads {
				continue
			}
			// known not to be at the end: a dominating l.char != 0 (or other != 0)
			safe := false
			for _, f := range expandFacts(factsAt(b)) {
				fb, isFB := f.Cond.(*ssa.BinOp)
				if !isFB || (fb.Op != token.EQL && fb.Op != token.NEQ) || (fb.Op == token.NEQ) != f.Holds {
					continue
				}
				for _, pr := range [][2]ssa.Value{{fb.X, fb.Y}, {fb.Y, fb.X}} {
					if k, isK := pr[1].(*ssa.Const); isK && k.Value != nil && k.Int64() == 0 {
						if _, p, okP := pathOf(pr[0]); (okP && p == ".char") || pr[0] == other {
							safe = true
						}
					}
				}
			}
			n++
			key := fmt.Sprintf("%s|a table entry compared with the current byte is not the end-of-input byte", fnKey(fn))
			if safe {
				s.OK(rule, key, m.InstrPos(iff), "under l.char != 0 (or entry != 0)")
			} else {
				s.Violation(rule, key, m.InstrPos(iff), "%s compares the current byte with %s, an entry of the table %s looked up without a found test, and reads on when they are equal: for a key the table does not have the entry is 0 — the byte the lexer holds at the end of the input — so at the end of the input one more character is read: the token ends one column past the last byte and the end-of-input token two", fnKey(fn), valueDesc(other), valueDesc(lk.X))
			}
		}
	}
	s.Note(rule, "table entries compared with the current byte", "-", "%d", n)
}

// RunIdentLiteral: a word read in code becomes an identifier or a keyword token by a lookup of its text; whichever it
// is, the token's literal is the text that was read — the value handed to the lookup — so that the bytes of the
// token's range are its literal (not the keyword's canonical spelling).
func (m *Model) RunIdentLiteral(s *Sink, rule string) {
	newTok := m.Method("lexer", "Lexer", "newToken")
	li := m.PkgFunc("token", "LookupIdent")
	if newTok == nil || li == nil {
		s.Note(rule, "lexer|identifier literal", "-", "newToken / token.LookupIdent not found")
		return
	}
	n := 0
	for _, fn := range m.ModFns {
		if fn.Blocks == nil || shortPkg(fnPkgPath(fn)) != "lexer" {
			continue
		}
		for _, b := range fn.Blocks {
			for _, in := range b.Instrs {
				c, ok := in.(*ssa.Call)
				if !ok || c.Call.StaticCallee() != newTok || len(c.Call.Args) < 3 {
					continue
				}
				lc, isCall := c.Call.Args[1].(*ssa.Call)
				if !isCall || lc.Call.StaticCallee() != li || len(lc.Call.Args) != 1 {
					continue
				}
				n++
				key := fmt.Sprintf("%s|the literal of an identifier or keyword token is the word that was read", fnKey(fn))
				if c.Call.Args[2] == lc.Call.Args[0] {
					s.OK(rule, key, m.InstrPos(c), "newToken(LookupIdent(word), word)")
				} else {
					s.Violation(rule, key, m.InstrPos(c), "%s looks the word %s up and builds the token with the literal %s: for a keyword written differently from its canonical spelling the literal is not the text of the token's range", fnKey(fn), valueDesc(lc.Call.Args[0]), valueDesc(c.Call.Args[2]))
				}
			}
		}
	}
	s.Note(rule, "identifier / keyword tokens", "-", "%d construction sites", n)
}
