package main

// rule_branch.go — R-TRUTH (the truthiness table), R-BRANCH (first truthy
// branch only) for C02, plus shared helpers for matching evaluator code.

import (
	"fmt"
	"go/constant"
	"go/token"
	"go/types"
	"sort"
	"strings"

	"golang.org/x/tools/go/ssa"
)

func stripIface(v ssa.Value) ssa.Value {
	for i := 0; i < 6; i++ {
		switch x := v.(type) {
		case *ssa.MakeInterface:
			v = x.X
		case *ssa.ChangeInterface:
			v = x.X
		case *ssa.ChangeType:
			v = x.X
		default:
			return v
		}
	}
	return v
}

// fieldPathOf: ".Condition", ".Insert.Block" for loads of field chains; "" otherwise.
func fieldPathOf(v ssa.Value) string {
	_, p, ok := pathOf(stripIface(v))
	if !ok {
		return ""
	}
	return p
}

func isEvalCall(m *Model, c *ssa.Call) bool {
	sc := c.Call.StaticCallee()
	if sc != nil && canonFnName(sc) == "Eval" && inPkg(sc, "evaluator") && sc.Signature.Recv() != nil {
		return true
	}
	return sc != nil && m.evalWrapper(sc) != 0
}

// evalWrapper: fn is `func (e) f(node, env) (Object, bool)` whose body is one call of Eval on its own parameters,
// returned together with isError of that result (+1) or its negation (-1). 0 otherwise. Calls of such a wrapper are
// evaluations like calls of Eval itself: the value is result #0 and result #1 is the error test already made.
func (m *Model) evalWrapper(fn *ssa.Function) int {
	if m.evalWrappers == nil {
		m.evalWrappers = map[*ssa.Function]int{}
	}
	if v, ok := m.evalWrappers[fn]; ok {
		return v
	}
	m.evalWrappers[fn] = 0
	if fn.Blocks == nil || len(fn.Blocks) != 1 || !inPkg(fn, "evaluator") || fn.Signature.Results().Len() != 2 || !isBoolT(fn.Signature.Results().At(1).Type()) || len(fn.Params) != 3 {
		return 0
	}
	ret, ok := fn.Blocks[0].Instrs[len(fn.Blocks[0].Instrs)-1].(*ssa.Return)
	if !ok {
		return 0
	}
	ev, ok := ret.Results[0].(*ssa.Call)
	if !ok || ev.Call.StaticCallee() == nil || canonFnName(ev.Call.StaticCallee()) != "Eval" || !inPkg(ev.Call.StaticCallee(), "evaluator") {
		return 0
	}
	if ev.Call.Args[1] != ssa.Value(fn.Params[1]) || ev.Call.Args[2] != ssa.Value(fn.Params[2]) {
		return 0
	}
	pol := 1
	v := ret.Results[1]
	if u, isU := v.(*ssa.UnOp); isU && u.Op == token.NOT {
		pol, v = -1, u.X
	}
	if c, isC := v.(*ssa.Call); isC && staticCalleeNamed(c, "evaluator", "isError") && c.Call.Args[0] == ssa.Value(ev) {
		m.evalWrappers[fn] = pol
		return pol
	}
	return 0
}

// evalValue: the object an evaluation call yields (the call itself for Eval, result #0 for a wrapper).
func evalValue(m *Model, c *ssa.Call) ssa.Value {
	if sc := c.Call.StaticCallee(); sc != nil && m.evalWrapper(sc) != 0 {
		for _, r := range *c.Referrers() {
			if ex, ok := r.(*ssa.Extract); ok && ex.Index == 0 {
				return ex
			}
		}
	}
	return c
}

// wrapperErrorFact: f is the error verdict of the wrapper call that produced v; returns (isError holds?, ok).
func wrapperErrorFact(m *Model, f Fact, v ssa.Value) (bool, bool) {
	ex, ok := f.Cond.(*ssa.Extract)
	if !ok || ex.Index != 1 {
		return false, false
	}
	c, ok := ex.Tuple.(*ssa.Call)
	if !ok || c.Call.StaticCallee() == nil {
		return false, false
	}
	pol := m.evalWrapper(c.Call.StaticCallee())
	if pol == 0 {
		return false, false
	}
	if vx, isEx := v.(*ssa.Extract); !isEx || vx.Tuple != ssa.Value(c) || vx.Index != 0 {
		return false, false
	}
	return f.Holds == (pol > 0), true
}

// evalCallsOn: calls e.Eval(x, env) in fn where x is a load whose field path ends in suffix.
func evalCallsOn(m *Model, fn *ssa.Function, suffix string) []*ssa.Call {
	var out []*ssa.Call
	for _, b := range fn.Blocks {
		for _, in := range b.Instrs {
			c, ok := in.(*ssa.Call)
			if !ok || !isEvalCall(m, c) || len(c.Call.Args) < 2 {
				continue
			}
			if strings.HasSuffix(fieldPathOf(c.Call.Args[1]), suffix) {
				out = append(out, c)
			}
		}
	}
	return out
}

// evalCallsOnInlined: like evalCallsOn, also through same-package helpers the function hands the node field to
// (the helper's parameter resolved to the field load at the call site).
func evalCallsOnInlined(m *Model, fn *ssa.Function, suffix string) []*ssa.Call {
	var out []*ssa.Call
	seen := map[*ssa.Call]bool{}
	m.walkInlined(fn, 2, func(in ssa.Instruction, resolve func(ssa.Value) ssa.Value, _ int) {
		c, ok := in.(*ssa.Call)
		if !ok || !isEvalCall(m, c) || len(c.Call.Args) < 2 || seen[c] || m.evalWrapper(c.Parent()) != 0 {
			return
		}
		if strings.HasSuffix(fieldPathOf(resolve(stripIface(c.Call.Args[1]))), suffix) || strings.HasSuffix(fieldPathOf(c.Call.Args[1]), suffix) {
			seen[c] = true
			out = append(out, c)
		}
	})
	return out
}

func staticCalleeNamed(c *ssa.Call, pkg, name string) bool {
	sc := c.Call.StaticCallee()
	return sc != nil && canonFnName(sc) == name && inPkg(sc, pkg)
}

// truthFactOn: a dominating fact isTruthy(v) == want at block b.
func truthFactOn(b *ssa.BasicBlock, v ssa.Value, want bool) bool {
	for _, f := range expandFacts(factsAt(b)) {
		c, ok := f.Cond.(*ssa.Call)
		if ok && staticCalleeNamed(c, "evaluator", "isTruthy") && len(c.Call.Args) == 1 && c.Call.Args[0] == v && f.Holds == want {
			return true
		}
	}
	return false
}

func errorFactOn(b *ssa.BasicBlock, v ssa.Value, want bool) bool {
	for _, f := range expandFacts(factsAt(b)) {
		if curModel != nil {
			if isErr, ok := wrapperErrorFact(curModel, f, v); ok && isErr == want {
				return true
			}
		}
		c, ok := f.Cond.(*ssa.Call)
		if ok && staticCalleeNamed(c, "evaluator", "isError") && len(c.Call.Args) == 1 && c.Call.Args[0] == v && f.Holds == want {
			return true
		}
	}
	return false
}

// onlyReturned: every use of the call result is a Return (possibly via phi).
func onlyReturned(v ssa.Value) bool {
	if v.Referrers() == nil {
		return false
	}
	n := 0
	for _, r := range *v.Referrers() {
		switch x := r.(type) {
		case *ssa.Return:
			n++
		case *ssa.DebugRef:
		case *ssa.Phi:
			if !onlyReturned(x) {
				return false
			}
			n++
		default:
			return false
		}
	}
	return n > 0
}

// ---------------------------------------------------------------------------
// R-TRUTH

type truthRow struct {
	typ  string // "*object.Bool", "nil", "default"
	expr string // "payload", "payload != 0", "false", "true"
}

var specTruth = map[string]string{
	"*object.Bool":  "payload",
	"*object.Int":   "payload != 0",
	"*object.Float": "payload != 0",
	"*object.Str":   "payload != \"\"",
	"*object.Nil":   "false",
	"nil":           "false",
	"default":       "true",
}

func (m *Model) RunTruth(s *Sink, rule string) {
	fn := m.PkgFunc("evaluator", "isTruthy")
	if fn == nil || len(fn.Params) != 1 {
		s.Undecided(rule, "isTruthy", "-", "evaluator.isTruthy(obj) not found")
		return
	}
	par := fn.Params[0]
	got := map[string]string{}
	pos := map[string]string{}
	// walk the type-switch chain from the entry block
	b := fn.Blocks[0]
	for steps := 0; steps < 40 && b != nil; steps++ {
		last := b.Instrs[len(b.Instrs)-1]
		switch t := last.(type) {
		case *ssa.If:
			typ, caseBlock, next, ok := truthCase(t, par, b)
			if !ok {
				s.Undecided(rule, "isTruthy|switch shape", m.InstrPos(t), "isTruthy is expected to be a type switch on its operand; found a condition %s that is neither a type test nor a nil test of the operand", valueDesc(t.Cond))
				return
			}
			e, p := truthReturn(m, caseBlock, par)
			got[typ] = e
			pos[typ] = p
			b = next
		case *ssa.Return:
			e, p := truthReturn(m, b, par)
			got["default"] = e
			pos["default"] = p
			b = nil
		case *ssa.Jump:
			b = b.Succs[0]
		default:
			b = nil
		}
	}
	var ks []string
	for k := range specTruth {
		ks = append(ks, k)
	}
	sort.Strings(ks)
	for _, k := range ks {
		key := "isTruthy|row " + k
		g, ok := got[k]
		switch {
		case !ok:
			// a missing case falls to the default
			if got["default"] == specTruth[k] {
				s.OK(rule, key, pos["default"], "no explicit case; falls to the default, which returns %s as specified", got["default"])
			} else {
				s.Violation(rule, key, m.Pos(fn.Pos()), "isTruthy has no case for %s, so such a value is %s (the default) but C02 requires truthiness = %s", k, got["default"], specTruth[k])
			}
		case g == specTruth[k]:
			s.OK(rule, key, pos[k], "returns %s", g)
		default:
			s.Violation(rule, key, pos[k], "isTruthy returns `%s` for %s but C02 requires `%s` (false, nil, 0, 0.0 and \"\" are falsy, everything else truthy)", g, k, specTruth[k])
		}
	}
	for k, g := range got {
		if _, spec := specTruth[k]; !spec && g != "true" {
			s.Violation(rule, "isTruthy|extra row "+k, pos[k], "isTruthy returns `%s` for %s, but every value other than false, nil, 0, 0.0 and \"\" must be truthy", g, k)
		}
	}
}

// truthCase: decode `if obj.(T) ok` / `if obj == nil` -> (type name, case block, next block).
func truthCase(iff *ssa.If, par *ssa.Parameter, b *ssa.BasicBlock) (string, *ssa.BasicBlock, *ssa.BasicBlock, bool) {
	switch c := iff.Cond.(type) {
	case *ssa.Extract:
		ta, ok := c.Tuple.(*ssa.TypeAssert)
		if !ok || c.Index != 1 || ta.X != ssa.Value(par) {
			return "", nil, nil, false
		}
		return typeStr(ta.AssertedType), b.Succs[0], b.Succs[1], true
	case *ssa.BinOp:
		if c.Op == token.EQL && c.X == ssa.Value(par) {
			if k, ok := c.Y.(*ssa.Const); ok && k.IsNil() {
				return "nil", b.Succs[0], b.Succs[1], true
			}
		}
	}
	return "", nil, nil, false
}

func truthReturn(m *Model, b *ssa.BasicBlock, par *ssa.Parameter) (string, string) {
	// follow jumps to the return
	for i := 0; i < 4; i++ {
		if j, ok := b.Instrs[len(b.Instrs)-1].(*ssa.Jump); ok && len(b.Instrs) <= 2 {
			_ = j
			b = b.Succs[0]
			continue
		}
		break
	}
	r, ok := b.Instrs[len(b.Instrs)-1].(*ssa.Return)
	if !ok || len(r.Results) != 1 {
		return "?", m.Pos(b.Parent().Pos())
	}
	return truthExpr(r.Results[0]), m.InstrPos(r)
}

func truthExpr(v ssa.Value) string {
	switch x := v.(type) {
	case *ssa.Const:
		if x.Value != nil && x.Value.Kind() == constant.Bool {
			if constant.BoolVal(x.Value) {
				return "true"
			}
			return "false"
		}
	case *ssa.UnOp:
		if x.Op == token.MUL && strings.HasSuffix(fieldPathOf(x), ".Value") {
			return "payload"
		}
		if x.Op == token.NOT {
			inner := truthExpr(x.X)
			if strings.HasPrefix(inner, "payload == ") {
				return "payload != " + strings.TrimPrefix(inner, "payload == ")
			}
		}
	case *ssa.BinOp:
		var pay, other ssa.Value
		if strings.HasSuffix(fieldPathOf(x.X), ".Value") {
			pay, other = x.X, x.Y
		} else if strings.HasSuffix(fieldPathOf(x.Y), ".Value") {
			pay, other = x.Y, x.X
		}
		if pay == nil {
			return "?"
		}
		k, ok := other.(*ssa.Const)
		if !ok || k.Value == nil {
			return "?"
		}
		zero := ""
		switch k.Value.Kind() {
		case constant.Int, constant.Float:
			if constant.Sign(k.Value) == 0 {
				zero = "0"
			}
		case constant.String:
			if constant.StringVal(k.Value) == "" {
				zero = "\"\""
			}
		}
		if zero == "" {
			return fmt.Sprintf("payload %s %s", x.Op, k.Value.String())
		}
		return fmt.Sprintf("payload %s %s", x.Op, zero)
	}
	return "?"
}

// RunTruthUsers: the constructs named in C02 branch on isTruthy of their evaluated condition and on nothing else.
func (m *Model) RunTruthUsers(s *Sink, rule string) {
	type site struct{ fn, field string }
	for _, st := range []site{
		{"evalIfStmt", ".Condition"}, {"evalTernaryExp", ".Condition"}, {"evalBreakIfStmt", ".Condition"}, {"evalContinueIfStmt", ".Condition"}, {"evalForStmt", ".Condition"},
	} {
		fn := m.Method("evaluator", "Evaluator", st.fn)
		key := fmt.Sprintf("evaluator.(*Evaluator).%s|condition decided by isTruthy only", st.fn)
		// @breakIf / @continueIf: decided by case evaluation over the rows of the truthiness table (rule_ifcases.go);
		// the structural reading below decides when the cases cannot be evaluated
		if ct := map[string][2]string{"evalBreakIfStmt": {"BreakIfStmt", "Break"}, "evalContinueIfStmt": {"ContinueIfStmt", "Continue"}}[st.fn]; ct[0] != "" {
			if bad, decided, _ := m.controlIfCases(ct[0], ct[1]); decided {
				if bad == "" {
					s.OK(rule, key, "-", "case evaluation of Eval on an abstract %s: the marker exactly for truthy conditions (13 condition values, none a singleton), the nil object for falsy ones, the error for a failing one", ct[0])
				} else {
					s.Violation(rule, key, "-", "@%s: %s — its condition is not decided by the truthiness table of C02", strings.ToLower(ct[1])+"If", bad)
				}
				continue
			}
		}
		// @if: decided by case evaluation over the rows of the truthiness table, whatever the shape of evalIfStmt
		if st.fn == "evalIfStmt" {
			if bad, decided, _ := m.ifTruthCases(); decided {
				if bad == "" {
					s.OK(rule, key, "-", "case evaluation of Eval on an abstract `@if(c) body @end`: the body exactly for truthy conditions (13 condition values, none a singleton), nothing for falsy ones, the error for a failing one")
				} else {
					s.Violation(rule, key, "-", "@if: %s — its condition is not decided by the truthiness table of C02", bad)
				}
				continue
			}
		}
		// the ternary: decided by case evaluation over the rows of the truthiness table
		if st.fn == "evalTernaryExp" {
			if bad, decided, _ := m.ternaryCases(); decided {
				if bad == "" {
					s.OK(rule, key, "-", "case evaluation of Eval on an abstract `c ? a : b`: a exactly for truthy conditions (13 condition values, none a singleton), b for falsy ones, the error for a failing one")
				} else {
					s.Violation(rule, key, "-", "the ternary: %s — its condition is not decided by the truthiness table of C02", bad)
				}
				continue
			}
		}
		if fn == nil {
			s.Undecided(rule, key, "-", "%s not found (anchor of C02/C03)", st.fn)
			continue
		}
		calls := evalCallsOnInlined(m, fn, st.field)
		if len(calls) == 0 {
			s.Undecided(rule, key, m.Pos(fn.Pos()), "no Eval(node%s, ...) call found in %s", st.field, fnKey(fn))
			continue
		}
		for _, c := range calls {
			bad := ""
			nTruthy := 0
			for _, r := range *evalValue(m, c).Referrers() {
				switch x := r.(type) {
				case *ssa.Call:
					switch {
					case staticCalleeNamed(x, "evaluator", "isError"):
					case staticCalleeNamed(x, "evaluator", "isTruthy"):
						nTruthy++
					default:
						bad = "passed to " + calleeName(&x.Call)
					}
				case *ssa.Return, *ssa.DebugRef, *ssa.Phi:
				default:
					bad = fmt.Sprintf("used by %T at %s", r, m.InstrPos(r))
				}
			}
			k2 := key
			if len(calls) > 1 {
				k2 = fmt.Sprintf("%s (evaluation at %s)", key, fieldPathOf(c.Call.Args[1]))
			}
			switch {
			case bad != "":
				s.Violation(rule, k2, m.InstrPos(c), "the evaluated condition in %s is %s: its truth must be decided by isTruthy alone (no comparison with TRUE/FALSE singletons, no second predicate)", fnKey(fn), bad)
			case nTruthy == 0:
				s.Violation(rule, k2, m.InstrPos(c), "the evaluated condition in %s never reaches isTruthy", fnKey(fn))
			default:
				s.OK(rule, k2, m.InstrPos(c), "the condition value is used only by isError, isTruthy and returns")
			}
		}
	}
}

// ---------------------------------------------------------------------------
// R-BRANCH

func (m *Model) RunBranch(s *Sink, rule string) {
	// @if: decided by case evaluation (rule_ifcases.go); the structural reading of evalIfStmt below is kept as the
	// diagnosis (it names the construct) and as the decision when the cases cannot be evaluated
	sub := NewSink()
	m.runBranchIf(sub, rule)
	cr := m.ifCases()
	switch {
	case cr.decided && len(cr.bad) == 0:
		s.OK(rule, "@if by cases|first truthy branch only, errors returned, nothing evaluated afterwards", cr.evalPos,
			"case evaluation of Eval on an abstract @if/@elseif/@elseif/[@else] statement: %d combinations of truthy / falsy / failing conditions, children evaluated and result as specified in each", cr.cases)
		for _, o := range sub.Obls {
			if o.Status == Violated || o.Status == Undecided {
				s.OK(o.Rule, o.Key, o.Pos, "the code does not have the shape this structural reading expects (%s); decided by case evaluation instead", o.Detail)
			} else {
				s.Obls = append(s.Obls, o)
			}
		}
	case cr.decided:
		for i, b := range cr.bad {
			if i >= 3 {
				break
			}
			s.Violation(rule, fmt.Sprintf("@if by cases|wrong branch behaviour (%d)", i+1), cr.evalPos, "evaluating an @if statement with %s (%d of %d cases differ)", b, len(cr.bad), cr.cases)
		}
		s.Obls = append(s.Obls, sub.Obls...)
	default:
		s.Note(rule, "@if by cases", cr.evalPos, "case evaluation not possible (%s); structural reading only", cr.why)
		s.Obls = append(s.Obls, sub.Obls...)
	}
	m.runBranchTernary(s, rule)
}

func (m *Model) runBranchIf(s *Sink, rule string) {
	fn := m.Method("evaluator", "Evaluator", "evalIfStmt")
	if fn == nil {
		s.Undecided(rule, "evalIfStmt", "-", "evalIfStmt not found")
		return
	}
	fk := fnKey(fn)
	conds := evalCallsOn(m, fn, ".Condition")
	var c0, ci *ssa.Call
	loops := naturalLoops(fn)
	inLoop := func(b *ssa.BasicBlock) *loopInfo {
		for _, li := range loops {
			if li.body[b] {
				return li
			}
		}
		return nil
	}
	// node.X (rooted at the parameter) belongs to the @if itself; alt.X (rooted at a loaded element) to an @elseif
	ofElem := func(c *ssa.Call) bool {
		r, _, _ := pathOf(stripIface(c.Call.Args[1]))
		_, isParam := r.(*ssa.Parameter)
		return !isParam
	}
	for _, c := range conds {
		if ofElem(c) {
			ci = c
		} else {
			c0 = c
		}
	}
	if c0 == nil {
		s.Undecided(rule, fk+"|main condition", m.Pos(fn.Pos()), "no Eval(node.Condition) outside a loop")
		return
	}
	// (1) consequence under isTruthy(c0)
	cons := evalCallsOn(m, fn, ".Consequence")
	var consMain, consAlt *ssa.Call
	for _, c := range cons {
		if ofElem(c) {
			consAlt = c
		} else {
			consMain = c
		}
	}
	check := func(key string, ok bool, pos string, okMsg, badMsg string) {
		if ok {
			s.OK(rule, fk+"|"+key, pos, "%s", okMsg)
		} else {
			s.Violation(rule, fk+"|"+key, pos, "%s", badMsg)
		}
	}
	if consMain == nil {
		s.Undecided(rule, fk+"|consequence", m.Pos(fn.Pos()), "no Eval(node.Consequence) found")
	} else {
		check("consequence runs exactly when the @if condition is truthy", truthFactOn(consMain.Block(), c0, true) && errorFactOn(consMain.Block(), c0, false), m.InstrPos(consMain),
			"Eval(node.Consequence) is dominated by the true edge of isTruthy(condition) and the false edge of isError(condition)",
			"Eval(node.Consequence) is not control-dependent on isTruthy(Eval(node.Condition)) being true (after the error check)")
		check("consequence result is returned unchanged", onlyReturned(consMain), m.InstrPos(consMain),
			"the result flows directly to a return, so no later condition is evaluated",
			"the result of the chosen branch is not returned directly: later conditions could still be evaluated or the branch's control objects (break/continue) altered")
	}
	// (2) alternatives
	if ci == nil || consAlt == nil {
		s.Violation(rule, fk+"|@elseif branches", m.Pos(fn.Pos()), "no loop evaluating alt.Condition / alt.Consequence for node.Alternatives was found: @elseif branches are not visited in order")
	} else {
		li := inLoop(ci.Block())
		// same element: both field loads share the root
		r1, _, _ := pathOf(stripIface(ci.Call.Args[1]))
		r2, _, _ := pathOf(stripIface(consAlt.Call.Args[1]))
		sameAlt := r1 != nil && r1 == r2
		check("@elseif consequence runs exactly when its own condition is truthy", sameAlt && truthFactOn(consAlt.Block(), ci, true) && errorFactOn(consAlt.Block(), ci, false), m.InstrPos(consAlt),
			"Eval(alt.Consequence) is dominated by isTruthy(Eval(alt.Condition)) of the same alt, after its error check",
			"Eval(alt.Consequence) is not control-dependent on the truthiness of the condition of the same @elseif branch")
		check("@elseif consequence result is returned unchanged", onlyReturned(consAlt), m.InstrPos(consAlt),
			"the result flows directly to a return",
			"the result of an @elseif branch is not returned directly")
		// visited in source order: a range loop over node.Alternatives
		rangeOK := false
		for _, in := range li.header.Instrs {
			if phi, ok := in.(*ssa.Phi); ok && phi.Comment == "rangeindex" {
				rangeOK = true
			}
		}
		altSlice := false
		for b := range li.body {
			for _, in := range b.Instrs {
				if ia, ok := in.(*ssa.IndexAddr); ok && strings.HasSuffix(fieldPathOf(ia.X), ".Alternatives") {
					altSlice = true
				}
			}
		}
		check("@elseif branches are visited in source order", rangeOK && altSlice, m.InstrPos(li.header.Instrs[0]),
			"ascending range over node.Alternatives",
			"the @elseif loop is not an ascending range over node.Alternatives")
		// the loop is entered only when the main condition was falsy
		check("@elseif conditions are evaluated only after the @if condition was falsy", truthFactOn(li.header, c0, false) || truthFactOn(ci.Block(), c0, false), m.InstrPos(ci),
			"the loop is dominated by the false edge of isTruthy(main condition)",
			"an @elseif condition can be evaluated although the @if condition was truthy")
		// no condition evaluation reachable from a consequence evaluation
		ctx := m.Ctx(fn)
		leak := false
		for _, c := range []*ssa.Call{consMain, consAlt} {
			if c == nil {
				continue
			}
			for _, cond := range conds {
				if ctx.pathAvoiding(c, cond, c) && !onlyReturned(c) {
					leak = true
				}
			}
		}
		check("no condition is evaluated after a branch was chosen", !leak, m.Pos(fn.Pos()),
			"every consequence evaluation is immediately returned; no Eval(*.Condition) is reachable from it",
			"a condition evaluation is reachable after a consequence was evaluated: an error in a later condition would surface")
	}
	// (4) @else
	alts := evalCallsOn(m, fn, ".Alternative")
	if len(alts) != 1 {
		s.Undecided(rule, fk+"|@else", m.Pos(fn.Pos()), "expected exactly one Eval(node.Alternative), found %d", len(alts))
	} else {
		a := alts[0]
		okElse := inLoop(a.Block()) == nil && truthFactOn(a.Block(), c0, false)
		// dominated by loop exhaustion: the block must be dominated by the loop header's exit edge
		if ci != nil {
			li := inLoop(ci.Block())
			okElse = okElse && li.header.Dominates(a.Block())
		}
		check("@else runs only when no condition was truthy", okElse, m.InstrPos(a),
			"Eval(node.Alternative) lies after the exhausted @elseif loop, under the falsy main condition",
			"Eval(node.Alternative) is not confined to the path on which the @if condition and every @elseif condition were falsy")
		check("@else result is returned unchanged", onlyReturned(a), m.InstrPos(a), "the result flows directly to a return", "the @else result is not returned directly")
	}
}

func (m *Model) runBranchTernary(s *Sink, rule string) {
	// decided by case evaluation (rule_ifcases.go); the structural reading below is the diagnosis and the decision
	// when the cases cannot be evaluated
	if bad, decided, _ := m.ternaryCases(); decided {
		key := "ternary by cases|the condition once, then exactly the chosen part, its result unchanged"
		if bad == "" {
			s.OK(rule, key, "-", "case evaluation of Eval on an abstract `c ? a : b` over 13 condition values, with ordinary and failing parts")
			sub := NewSink()
			m.runBranchTernaryShape(sub, rule)
			for _, o := range sub.Obls {
				if o.Status == Violated || o.Status == Undecided {
					s.OK(o.Rule, o.Key, o.Pos, "the code does not have the shape this structural reading expects (%s); decided by case evaluation instead", o.Detail)
				} else {
					s.Obls = append(s.Obls, o)
				}
			}
			return
		}
		s.Violation(rule, key, "-", "the ternary: %s", bad)
	}
	m.runBranchTernaryShape(s, rule)
}

func (m *Model) runBranchTernaryShape(s *Sink, rule string) {
	tf := m.Method("evaluator", "Evaluator", "evalTernaryExp")
	if tf == nil {
		s.Undecided(rule, "evalTernaryExp", "-", "evalTernaryExp not found")
		return
	}
	tk := fnKey(tf)
	tc := evalCallsOn(m, tf, ".Condition")
	tcons := evalSitesOn(m, tf, ".Consequence")
	talt := evalSitesOn(m, tf, ".Alternative")
	if len(tc) != 1 || len(tcons) != 1 || len(talt) != 1 {
		s.Undecided(rule, tk+"|shape", m.Pos(tf.Pos()), "expected one evaluation each of Condition, Consequence and Alternative (directly or as one arm of a selected operand)")
		return
	}
	if truthFactIn(tcons[0].facts, evalValue(m, tc[0]), true) && errorFactIn(tcons[0].facts, evalValue(m, tc[0]), false) {
		s.OK(rule, tk+"|consequence under truthy condition", m.InstrPos(tcons[0].call), "evaluated (or selected for evaluation) under isTruthy(condition) true")
	} else {
		s.Violation(rule, tk+"|consequence under truthy condition", m.InstrPos(tcons[0].call), "the ternary's consequence is not evaluated exactly under isTruthy(condition)")
	}
	if truthFactIn(talt[0].facts, evalValue(m, tc[0]), false) && errorFactIn(talt[0].facts, evalValue(m, tc[0]), false) {
		s.OK(rule, tk+"|alternative under falsy condition", m.InstrPos(talt[0].call), "evaluated (or selected for evaluation) under isTruthy(condition) false")
	} else {
		s.Violation(rule, tk+"|alternative under falsy condition", m.InstrPos(talt[0].call), "the ternary's else part is not evaluated exactly under !isTruthy(condition)")
	}
}

// evalSite: an evaluation e.Eval(x, env) of a node field, with the branch facts under which that field is the operand:
// the facts dominating the call, plus — when the operand is selected first (`branch := a; if c { branch = b }; Eval(branch)`) —
// the facts of the phi edge that carries the field.
type evalSite struct {
	call  *ssa.Call
	facts []Fact
}

func evalSitesOn(m *Model, fn *ssa.Function, suffix string) []evalSite {
	var out []evalSite
	for _, b := range fn.Blocks {
		for _, in := range b.Instrs {
			c, ok := in.(*ssa.Call)
			if !ok || !isEvalCall(m, c) || len(c.Call.Args) < 2 {
				continue
			}
			arg := stripIface(c.Call.Args[1])
			if strings.HasSuffix(fieldPathOf(arg), suffix) {
				out = append(out, evalSite{c, expandFacts(factsAt(b))})
				continue
			}
			phi, isPhi := arg.(*ssa.Phi)
			if !isPhi {
				continue
			}
			for i, e := range phi.Edges {
				if !strings.HasSuffix(fieldPathOf(stripIface(e)), suffix) {
					continue
				}
				pred := phi.Block().Preds[i]
				fs := append([]Fact{}, factsAt(pred)...)
				fs = append(fs, edgeFact(pred, phi.Block())...)
				fs = append(fs, factsAt(b)...)
				out = append(out, evalSite{c, expandFacts(fs)})
			}
		}
	}
	return out
}

func truthFactIn(facts []Fact, v ssa.Value, want bool) bool {
	for _, f := range facts {
		c, ok := f.Cond.(*ssa.Call)
		if ok && staticCalleeNamed(c, "evaluator", "isTruthy") && len(c.Call.Args) == 1 && c.Call.Args[0] == v && f.Holds == want {
			return true
		}
	}
	return false
}

func errorFactIn(facts []Fact, v ssa.Value, want bool) bool {
	for _, f := range facts {
		if curModel != nil {
			if isErr, ok := wrapperErrorFact(curModel, f, v); ok && isErr == want {
				return true
			}
		}
		c, ok := f.Cond.(*ssa.Call)
		if ok && staticCalleeNamed(c, "evaluator", "isError") && len(c.Call.Args) == 1 && c.Call.Args[0] == v && f.Holds == want {
			return true
		}
	}
	return false
}

var _ = types.Typ

// RunBlockEnd: a block body ends at the next @else / @elseif / @end. In parseBlockStmt, the loop's own step to the next
// statement (nextToken after the statement was parsed) happens only when the next token is none of the three closers —
// decided by evaluating, for each closer as the peek token, the branch conditions that were tested after the statement
// was parsed and that dominate the step. Otherwise `@else` (or the condition of an `@elseif`) is swallowed into the
// branch that precedes it.
func (m *Model) RunBlockEnd(s *Sink, rule string) {
	pb := m.blockParser()
	ps := m.Method("parser", "Parser", "parseStatement")
	nt := m.Method("parser", "Parser", "nextToken")
	if pb == nil || ps == nil || nt == nil {
		s.Undecided(rule, "parser.parseBlockStmt", "-", "parseBlockStmt / parseStatement / nextToken not found")
		return
	}
	pm := m.extractPratt()
	ctx := m.Ctx(pb)
	var stmtCall *ssa.Call
	for _, c := range callsToFn(pb, ps) {
		stmtCall = c
	}
	if stmtCall == nil {
		s.Undecided(rule, fnKey(pb)+"|statement parse", m.Pos(pb.Pos()), "no call of parseStatement in parseBlockStmt")
		return
	}
	closers := []string{"ELSE", "ELSE_IF", "END"}
	n := 0
	for _, step := range callsToFn(pb, nt) {
		if !ctx.instrDominates(stmtCall, step) {
			continue // a step before the statement is parsed (none today)
		}
		n++
		key := fmt.Sprintf("%s|step #%d to the next statement is not taken at a block closer", fnKey(pb), n)
		var open []string
		for _, cl := range closers {
			tv, ok := pm.tokVal[cl]
			if !ok {
				s.Undecided(rule, key, m.InstrPos(step), "token %s not found", cl)
				continue
			}
			excluded := false
			for _, f := range expandFacts(factsAt(step.Block())) {
				ci, isInstr := f.Cond.(ssa.Instruction)
				if !isInstr || !ctx.instrDominates(stmtCall, ci) {
					continue // tested before the statement was parsed: says nothing about the token after it
				}
				ip := m.parserInterp(-1, tv, pm.precLit, nil)
				res, known := ip.EvalValue(f.Cond, 0)
				rc, isC := res.(constant.Value)
				if known && isC && rc.Kind() == constant.Bool && constant.BoolVal(rc) != f.Holds {
					excluded = true
				}
			}
			if !excluded {
				open = append(open, cl)
			}
		}
		if len(open) == 0 {
			s.OK(rule, key, m.InstrPos(step), "for each of ELSE, ELSE_IF, END as the next token a condition tested after parseStatement rules the step out")
		} else {
			s.Violation(rule, key, m.InstrPos(step), "parseBlockStmt can step over the next token although it is %v: the @else / @elseif / @end that closes this block is swallowed into it (the following branch is merged into this one, silently)", open)
		}
	}
	if n == 0 {
		s.Undecided(rule, fnKey(pb)+"|steps", m.Pos(pb.Pos()), "no nextToken step after parseStatement in parseBlockStmt")
	}
}
