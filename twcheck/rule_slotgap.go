package main

// rule_slotgap.go — R-SLOTGAP (C07): between "@component(...)" and its first @slot, and between two slots, the lexer
// yields one text token per run of text — and two when a {{-- comment --}} sits in the run. Wherever the parser of a
// component use steps over a text token to get to the next @slot, that step must be the body of a loop whose condition
// is the text-token test itself, so that any number of text tokens is stepped over; a single conditional step attaches
// the slots only when exactly one text token is in the way.

import (
	"fmt"
	"go/constant"

	"golang.org/x/tools/go/ssa"
)

func (m *Model) RunSlotGap(s *Sink, rule string) {
	pc := m.Method("parser", "Parser", "parseComponentStmt")
	psl := m.Method("parser", "Parser", "parseSlots")
	nt := m.Method("parser", "Parser", "nextToken")
	pm := m.extractPratt()
	html, okH := pm.tokVal["HTML"]
	if pc == nil || nt == nil || !okH {
		s.Undecided(rule, "parser.parseComponentStmt", "-", "parseComponentStmt / nextToken / token.HTML not found")
		return
	}
	fns := m.helpersOf(pc)
	if psl != nil {
		have := false
		for _, f := range fns {
			if f == psl {
				have = true
			}
		}
		if !have {
			fns = append(fns, m.helpersOf(psl)...)
		}
	}
	// is v a test "the current / next token is a text token"?
	isTextTest := func(v ssa.Value) bool {
		c, ok := v.(*ssa.Call)
		if !ok || c.Call.StaticCallee() == nil {
			return false
		}
		switch canonFnName(c.Call.StaticCallee()) {
		case "curTokenIs":
			k, isK := c.Call.Args[1].(*ssa.Const)
			return isK && k.Value != nil && k.Value.Kind() == constant.Int && k.Int64() == html
		case "peekTokenIs":
			for _, e := range variadicElems(c.Call.Args[len(c.Call.Args)-1]) {
				if k, isK := e.(*ssa.Const); isK && k.Value != nil && k.Int64() == html {
					return true
				}
			}
		}
		return false
	}
	n := 0
	seenFn := map[*ssa.Function]bool{}
	for _, fn := range fns {
		if seenFn[fn] || fn.Blocks == nil {
			continue
		}
		seenFn[fn] = true
		loops := naturalLoops(fn)
		for _, b := range fn.Blocks {
			for _, in := range b.Instrs {
				c, ok := in.(*ssa.Call)
				if !ok || c.Call.StaticCallee() != nt {
					continue
				}
				// the innermost text-token test this step depends on
				var test *ssa.Call
				for _, f := range factsAt(b) {
					if f.Holds && isTextTest(f.Cond) {
						test = f.Cond.(*ssa.Call)
					}
				}
				if test == nil {
					continue
				}
				n++
				key := fmt.Sprintf("%s|text tokens before a slot are stepped over in a loop #%d", fnKey(fn), n)
				inLoop := false
				for _, li := range loops {
					if li.header == test.Block() && li.body[b] {
						inLoop = true
					}
				}
				if inLoop {
					s.OK(rule, key, m.InstrPos(c), "the step is the body of a loop whose condition is the text-token test at %s", m.InstrPos(test))
				} else {
					s.Violation(rule, key, m.InstrPos(c), "%s steps over a text token once (test at %s, not a loop condition): a run of text that the lexer delivers as two tokens — whitespace, a {{-- comment --}}, whitespace — is only half stepped over, the @slot after it is not recognised, so the slots are silently not attached to the component (their placeholders stay empty and their bodies appear as loose text after it)", fnKey(fn), m.InstrPos(test))
				}
			}
		}
	}
	if n == 0 {
		s.Undecided(rule, "parser|text-token steps in the component parser", "-", "no step over a text token found in parseComponentStmt / parseSlots")
	}
}

// RunTextKeep — R-TEXTKEEP (C05): a text token the parser steps onto is made into a statement. Wherever a parser
// function moves onto a token it has just found to be text (nextToken under "the next token is a text token"), every
// path from there leads to a call of the statement parser / the text-statement constructor while the parser still
// stands on it, or runs under "a @slot follows" (text in front of a slot is part of the component use and by design not
// output). A path on which the function returns standing on the token loses it: the caller steps over the last token of
// every statement.
func (m *Model) RunTextKeep(s *Sink, rule string) {
	nt := m.Method("parser", "Parser", "nextToken")
	pm := m.extractPratt()
	html, okH := pm.tokVal["HTML"]
	slot, okS := pm.tokVal["SLOT"]
	if nt == nil || !okH || !okS {
		s.Undecided(rule, "parser", "-", "nextToken / token.HTML / token.SLOT not found")
		return
	}
	peekIs := func(v ssa.Value, tv int64) bool {
		c, ok := v.(*ssa.Call)
		if !ok || c.Call.StaticCallee() == nil || canonFnName(c.Call.StaticCallee()) != "peekTokenIs" {
			return false
		}
		for _, e := range variadicElems(c.Call.Args[len(c.Call.Args)-1]) {
			if k, isK := e.(*ssa.Const); isK && k.Value != nil && k.Int64() == tv {
				return true
			}
		}
		return false
	}
	uses := func(in ssa.Instruction) bool { // the token under the parser is consumed into the tree
		c, ok := in.(*ssa.Call)
		if !ok || c.Call.StaticCallee() == nil {
			return false
		}
		switch canonFnName(c.Call.StaticCallee()) {
		case "parseStatement", "parseHTMLStmt", "parseBlockStmt", "parseBody":
			return true
		}
		return false
	}
	n := 0
	perFn := map[*ssa.Function]int{}
	for _, fn := range m.ModFns {
		if fn.Blocks == nil || shortPkg(fnPkgPath(fn)) != "parser" {
			continue
		}
		for _, b := range fn.Blocks {
			for i, in := range b.Instrs {
				c, ok := in.(*ssa.Call)
				if !ok || c.Call.StaticCallee() != nt {
					continue
				}
				onto := false
				for _, f := range factsAt(b) {
					if f.Holds && peekIs(f.Cond, html) {
						onto = true
					}
				}
				if !onto {
					continue
				}
				n++
				perFn[fn]++
				key := fmt.Sprintf("%s|text token stepped onto (#%d in this function) is not lost", fnKey(fn), perFn[fn])
				// forward search for a return
				type item struct {
					b    *ssa.BasicBlock
					from int
				}
				seen := map[*ssa.BasicBlock]bool{}
				stack := []item{{b, i + 1}}
				lost := ""
				for len(stack) > 0 && lost == "" {
					it := stack[len(stack)-1]
					stack = stack[:len(stack)-1]
					stop := false
					for j := it.from; j < len(it.b.Instrs) && !stop; j++ {
						x := it.b.Instrs[j]
						if uses(x) {
							stop = true
						}
						if _, isRet := x.(*ssa.Return); isRet {
							lost = m.InstrPos(x)
							stop = true
						}
					}
					if stop {
						continue
					}
					for si, sc := range it.b.Succs {
						if seen[sc] {
							continue
						}
						// the edge on which a slot is known to follow: the text belongs to the component use
						if iff, isIf := it.b.Instrs[len(it.b.Instrs)-1].(*ssa.If); isIf && si == 0 && peekIs(iff.Cond, slot) {
							continue
						}
						seen[sc] = true
						stack = append(stack, item{sc, 0})
					}
				}
				if lost == "" {
					s.OK(rule, key, m.InstrPos(c), "every path from the step uses the token (statement parser) or runs under \"a @slot follows\"")
				} else {
					s.Violation(rule, key, m.InstrPos(c), "%s moves onto a text token at %s and can return at %s still standing on it without making a statement of it: the caller steps over it, so that text (whitespace after a component use that has no slots, when a directive or {{ }} follows it) is missing from the output", fnKey(fn), m.InstrPos(c), lost)
				}
			}
		}
	}
	if n == 0 {
		s.OK(rule, "parser|no function steps onto a text token by itself", "-", "text tokens only ever become statements through parseStatement")
	}
}
