package main

// rule_dotkw.go — R-DOTKW (C12): "a struct's exported fields and a map's keys are reachable by name (a field also
// with its first letter lower-cased) through dot and index syntax". The words of the language's keyword table (true,
// false, nil, in) are names like any other after a dot: `x.in` is the field In, `m.nil` the key "nil". The parse
// function registered for "." is evaluated on an abstract parser standing on the dot, with the next token an
// identifier and then each keyword token in turn: it records no error and yields a node. With a token that is not a
// name (an integer) it records an error.

import (
	"fmt"
	"go/constant"
	"go/types"
	"sort"
	"strings"

	"golang.org/x/tools/go/ssa"
)

func (m *Model) RunDotKeywords(s *Sink, rule string) {
	pm := m.extractPratt()
	h := pm.infix["DOT"]
	kws, whyK := m.keywordSet()
	okK := whyK == ""
	parT, tokT := m.namedType("parser", "Parser"), m.namedType("token", "Token")
	nt := m.Method("lexer", "Lexer", "NextToken")
	newErr := m.parserNewError()
	if h == nil || h.fn == nil || !okK || len(kws) == 0 || parT == nil || tokT == nil || nt == nil || newErr == nil {
		s.Undecided(rule, "dot parser", "-", "the parse function registered for DOT, the keyword table, parser.Parser / token.Token, Lexer.NextToken or the parser's error recorder was not found")
		return
	}
	fieldIdx := func(t *types.Named, name string) int {
		st := t.Underlying().(*types.Struct)
		for i := 0; i < st.NumFields(); i++ {
			if canonFieldName(t, i, st.Field(i).Name()) == name {
				return i
			}
		}
		return -1
	}
	fCur, fPeek, fType, fLit := fieldIdx(parT, "curToken"), fieldIdx(parT, "peekToken"), fieldIdx(tokT, "Type"), fieldIdx(tokT, "Literal")
	if fCur < 0 || fPeek < 0 || fType < 0 || fLit < 0 {
		s.Undecided(rule, "dot parser", "-", "fields curToken / peekToken / Type / Literal not found")
		return
	}
	type tc struct {
		word    string
		tok     int64
		isName  bool
		comment string
	}
	cases := []tc{{"name", pm.tokVal["IDENT"], true, "an identifier"}, {"5", pm.tokVal["INT"], false, "an integer"}}
	var words []string
	for w := range kws {
		words = append(words, w)
	}
	sort.Strings(words)
	for _, w := range words {
		cases = append(cases, tc{w, kws[w], true, "the keyword " + w})
	}
	run := func(c tc, followed int64) (errs int, resNil, decided bool, why string) {
		mk := func(tt int64, lit string) *iStruct {
			return &iStruct{typ: tokT, val: true, fields: map[int]any{fType: constant.MakeInt64(tt), fLit: constant.MakeString(lit)}}
		}
		p := &iStruct{typ: parT, fields: map[int]any{fCur: mk(pm.tokVal["DOT"], "."), fPeek: mk(c.tok, c.word)}}
		fed := 0
		ip := &Interp{m: m, useGlobals: true}
		ip.call = func(cl *ssa.Call, args []any) (any, bool) {
			sc := cl.Call.StaticCallee()
			isNext := sc == nt
			if cl.Call.IsInvoke() {
				if res := cl.Call.Signature().Results(); res.Len() == 1 && types.Identical(res.At(0).Type(), tokT) && cl.Call.Signature().Params().Len() == 0 {
					isNext = true
				}
			}
			if isNext {
				fed++
				switch {
				case fed == 1:
					return mk(followed, "?"), true
				case fed == 2 && followed == pm.tokVal["LPAREN"]:
					return mk(pm.tokVal["RPAREN"], ")"), true // an empty argument list
				case fed == 2 || fed == 3:
					return mk(pm.tokVal["RBRACES"], "}}"), true
				}
				return mk(pm.tokVal["EOF"], ""), true
			}
			if sc == newErr {
				errs++
				return nil, true
			}
			return nil, false
		}
		args := make([]any, len(h.fn.Params))
		args[0] = p
		if len(args) > 1 {
			args[1] = iObj{"left operand"}
		}
		res, known := ip.Run(h.fn, args)
		if ip.stuck != "" {
			return 0, false, false, ip.stuck
		}
		if !known {
			return errs, false, false, "the result is not known"
		}
		_, isNil := res.(iNil)
		return errs, isNil, true, ""
	}
	var bad []string
	for _, c := range cases {
		for _, followed := range []int64{pm.tokVal["RBRACES"], pm.tokVal["LPAREN"]} {
			errs, resNil, decided, why := run(c, followed)
			if !decided {
				s.Undecided(rule, fnKey(h.fn)+"|a keyword after the dot is a name", m.Pos(h.fn.Pos()), "%s could not be evaluated with %s after the dot (%s)", fnKey(h.fn), c.comment, why)
				return
			}
			what := "a property access"
			if followed == pm.tokVal["LPAREN"] {
				what = "a call"
			}
			if c.isName && (errs > 0 || resNil) {
				bad = append(bad, fmt.Sprintf("`x.%s` (%s, %s) is refused", c.word, c.comment, what))
			}
			if !c.isName && errs == 0 && !resNil {
				bad = append(bad, fmt.Sprintf("`x.%s` (%s) is accepted without an error", c.word, c.comment))
			}
		}
	}
	key := fnKey(h.fn) + "|a keyword after the dot is a name"
	if len(bad) > 0 {
		if len(bad) > 4 {
			bad = append(bad[:4], "...")
		}
		s.Violation(rule, key, m.Pos(h.fn.Pos()), "%s: %v — a struct field or map key spelled like a keyword (In, Nil, True, False; \"in\", \"nil\") cannot be reached with dot syntax, and a function registered under such a name cannot be called", fnKey(h.fn), bad)
	} else {
		s.OK(rule, key, m.Pos(h.fn.Pos()), "case evaluation on the abstract parser: after the dot an identifier and each of the %d keywords is taken as a name (as a property and as a call); an integer is refused with an error", len(words))
	}
}

// RunKeywordTable — R-KWTABLE (C12): every data key is reachable by name "unless shadowed". A word of the keyword table
// is never an identifier: `{{ null }}` with `"null": NIL` in the table prints nothing although the data map has a key
// "null", and `row.null` does not parse. The language has four keywords — true, false, nil, in —, and the table holds
// exactly those (C01 and C02 speak of true, false and nil; C03 of `in`).
func (m *Model) RunKeywordTable(s *Sink, rule string) {
	kws, why := m.keywordSet()
	if why != "" {
		s.Undecided(rule, "token.keywords", "-", "the keywords of the language could not be read off (%s)", why)
		return
	}
	spec := map[string]bool{"true": true, "false": true, "nil": true, "in": true}
	var extra, missing []string
	for w := range kws {
		if !spec[w] {
			extra = append(extra, w)
		}
	}
	for w := range spec {
		if _, have := kws[w]; !have {
			missing = append(missing, w)
		}
	}
	sort.Strings(extra)
	sort.Strings(missing)
	key := "token.keywords|the keywords are true, false, nil and in"
	switch {
	case len(extra) > 0:
		s.Violation(rule, key, "-", "the keyword table also holds %v: a data key, struct field or variable of that name is no longer an identifier — `{{ %s }}` does not print the data value and `x.%s` needs the keyword-after-dot rule to parse at all", extra, extra[0], extra[0])
	case len(missing) > 0:
		s.Violation(rule, key, "-", "the keyword table lacks %v", missing)
	default:
		s.OK(rule, key, "-", "the table holds exactly the four keywords and only the package initialiser writes it")
	}
}

// keywordSet: the words that are not identifiers, with their token types — the keyword table of package token, or, when
// the lookup is written as a switch, the string constants LookupIdent compares its argument with, each confirmed by
// evaluating LookupIdent on it (a word for which it answers IDENT is not a keyword).
func (m *Model) keywordSet() (map[string]int64, string) {
	if kws, ok := m.globalStringIntMap("token", "keywords"); ok && len(kws) > 0 {
		if w := m.globalMapWritten("token", "keywords"); w != "" {
			return nil, "the keyword table is written at run time (" + w + ")"
		}
		return kws, ""
	}
	li := m.PkgFunc("token", "LookupIdent")
	pm := m.extractPratt()
	if li == nil || len(li.Params) != 1 || !isStringT(li.Params[0].Type()) {
		return nil, "neither a keyword table nor token.LookupIdent(word) was found"
	}
	cands := map[string]bool{}
	for _, b := range li.Blocks {
		for _, in := range b.Instrs {
			bo, ok := in.(*ssa.BinOp)
			if !ok {
				continue
			}
			for _, pr := range [][2]ssa.Value{{bo.X, bo.Y}, {bo.Y, bo.X}} {
				if pr[0] == ssa.Value(li.Params[0]) {
					if w, isK := constOfValue(pr[1]); isK {
						cands[w] = true
					}
				}
			}
		}
	}
	// words kept in a package-level table the lookup reads (a sorted array searched by name, ...)
	for _, fn := range append([]*ssa.Function{li}, li.AnonFuncs...) {
		for _, b := range fn.Blocks {
			for _, in := range b.Instrs {
				for _, op := range in.Operands(nil) {
					if g, isG := (*op).(*ssa.Global); isG && g.Pkg != nil && strings.HasPrefix(g.Pkg.Pkg.Path(), modPath) {
						sp := shortPkg(g.Pkg.Pkg.Path())
						if m.globalMapWritten(sp, canonGlobalName(g)) == "" {
							collectStrings(m.evalGlobals(sp)[canonGlobalName(g)], cands, 0)
						}
					}
				}
			}
		}
	}
	out := map[string]int64{}
	for w := range cands {
		ip := &Interp{m: m, useGlobals: true}
		res, ok := ip.Run(li, []any{constant.MakeString(w)})
		k, isK := res.(constant.Value)
		if !ok || !isK || ip.stuck != "" {
			return nil, "token.LookupIdent could not be evaluated on " + w
		}
		if v, _ := constant.Int64Val(constant.ToInt(k)); v != pm.tokVal["IDENT"] {
			out[w] = v
		}
	}
	// a word the lookup does not compare with is an identifier: checked on a sample
	for _, w := range []string{"name", "x", "null", "loop"} {
		ip := &Interp{m: m, useGlobals: true}
		res, ok := ip.Run(li, []any{constant.MakeString(w)})
		k, isK := res.(constant.Value)
		if !ok || !isK || ip.stuck != "" {
			return nil, "token.LookupIdent could not be evaluated on " + w
		}
		if v, _ := constant.Int64Val(constant.ToInt(k)); v != pm.tokVal["IDENT"] && !cands[w] {
			return nil, "token.LookupIdent answers a keyword for the word " + w + " without comparing its argument with it"
		}
	}
	if len(out) == 0 {
		return nil, "token.LookupIdent knows no keyword"
	}
	return out, ""
}

// collectStrings: every string constant held in an interpreter value.
func collectStrings(v any, out map[string]bool, d int) {
	if d > 6 {
		return
	}
	switch x := v.(type) {
	case constant.Value:
		if x.Kind() == constant.String {
			out[constant.StringVal(x)] = true
		}
	case *iArr:
		for _, e := range x.elems {
			collectStrings(e, out, d+1)
		}
	case iSlice:
		for _, e := range x.arr.elems[x.lo:x.high] {
			collectStrings(e, out, d+1)
		}
	case iAddr:
		collectStrings(x.arr, out, d+1)
	case *iStruct:
		for _, e := range x.fields {
			collectStrings(e, out, d+1)
		}
	case *iMap:
		for _, k := range x.keys {
			out[k] = true
		}
	}
}
