package main

import (
	"fmt"
	"go/token"
	"go/types"
	"sort"

	"golang.org/x/tools/go/ssa"
)

type selfTestResult struct {
	summary string
	broken  bool
}

func dumpFacts(m *Model, what string) {
	r := m.Roots()
	switch what {
	case "reach":
		for name, roots := range map[string][]*ssa.Function{"render": r.Render, "load": r.Load, "lexparse": r.LexParse, "registry": r.Registry} {
			ch := m.Reach(roots)
			var ks []string
			for fn := range ch {
				if !isSynthetic(fn) {
					ks = append(ks, fnKey(fn))
				}
			}
			sort.Strings(ks)
			fmt.Printf("== %s: %d functions\n", name, len(ks))
			for _, k := range ks {
				fmt.Println("  ", k)
			}
		}
	case "sites":
		all := append(append(append([]*ssa.Function{}, r.Render...), r.Load...), r.LexParse...)
		ch := m.Reach(all)
		var fns []*ssa.Function
		for fn := range ch {
			if m.InModule(fn) && !isSynthetic(fn) {
				fns = append(fns, fn)
			}
		}
		sort.Slice(fns, func(i, j int) bool { return fnKey(fns[i]) < fnKey(fns[j]) })
		for _, fn := range fns {
			for _, b := range fn.Blocks {
				for _, in := range b.Instrs {
					switch x := in.(type) {
					case *ssa.TypeAssert:
						if !x.CommaOk {
							fmt.Printf("ASSERT %s %s: %s.(%s)\n", fnKey(fn), m.InstrPos(in), x.X.Name(), types.TypeString(x.AssertedType, nil))
						}
					case *ssa.BinOp:
						if (x.Op == token.QUO || x.Op == token.REM) && isInteger(x.X.Type()) {
							fmt.Printf("DIV %s %s: %s\n", fnKey(fn), m.InstrPos(in), x.String())
						}
					case *ssa.IndexAddr:
						fmt.Printf("INDEXADDR %s %s: %s  [%s]\n", fnKey(fn), m.InstrPos(in), x.String(), x.X.Type())
					case *ssa.Index:
						fmt.Printf("INDEX %s %s: %s\n", fnKey(fn), m.InstrPos(in), x.String())
					case *ssa.Slice:
						fmt.Printf("SLICE %s %s: %s\n", fnKey(fn), m.InstrPos(in), x.String())
					case *ssa.Lookup:
						if _, ok := x.X.Type().Underlying().(*types.Basic); ok {
							fmt.Printf("STRINDEX %s %s: %s\n", fnKey(fn), m.InstrPos(in), x.String())
						}
					case *ssa.Panic:
						fmt.Printf("PANIC %s %s\n", fnKey(fn), m.InstrPos(in))
					}
				}
			}
		}
	case "nilable":
		ni := m.NilableASTFields()
		var ks []string
		for id, why := range ni.why {
			ks = append(ks, fmt.Sprintf("%s.%d: %s", shortTypeName(id.typ), id.field, why))
		}
		sort.Strings(ks)
		for _, k := range ks {
			fmt.Println(k)
		}
		fmt.Println(len(ni.all), "pointer/interface fields seen;", len(ni.why), "nilable")
	default:
		fmt.Println("unknown dump", what)
	}
}

func isInteger(t types.Type) bool {
	b, ok := t.Underlying().(*types.Basic)
	return ok && b.Info()&types.IsInteger != 0
}

func runSelfTest(repo, verif, prop string) selfTestResult {
	return selfTestResult{summary: "no variants registered"}
}
