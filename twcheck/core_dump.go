package main

import (
	"encoding/json"
	"fmt"
	"go/token"
	"go/types"
	"os"
	"os/exec"
	"path/filepath"
	"sort"
	"strings"
	"sync"

	"golang.org/x/tools/go/ssa"
)

type selfTestResult struct {
	summary string
	broken  bool
}

func dumpFacts(m *Model, what string) {
	r := m.Roots()
	if what == "names-ref" {
		b, _ := json.MarshalIndent(m.buildNamesRef(), "", " ")
		fmt.Println(string(b))
		return
	}
	if strings.HasPrefix(what, "globals:") {
		for name, v := range m.evalGlobals(strings.TrimPrefix(what, "globals:")) {
			switch x := v.(type) {
			case *iMap:
				fmt.Printf("%s: map with %d entries (known=%v)\n", name, len(x.keys), x.vals != nil)
			case *iArr:
				n := 0
				for _, e := range x.elems {
					if e != nil {
						n++
					}
				}
				fmt.Printf("%s: array, %d of %d elements known\n", name, n, len(x.elems))
			default:
				fmt.Printf("%s: %v\n", name, v)
			}
		}
		return
	}
	if strings.HasPrefix(what, "effects:") {
		ea := m.Effects()
		for _, fn := range m.ModFns {
			if !strings.Contains(fnKey(fn), strings.TrimPrefix(what, "effects:")) {
				continue
			}
			sum := ea.sums[fn]
			fmt.Printf("== %s\n", fnKey(fn))
			if sum == nil {
				fmt.Println("   (no summary)")
				continue
			}
			for _, w := range sum.writes {
				fmt.Printf("   write %s (%s) origin=%+v at %s in %s\n", w.kind, w.what, w.o, w.pos, fnKey(w.fn))
			}
		}
		return
	}
	if what == "renames" {
		for _, n := range curAliases.notes {
			fmt.Println(n)
		}
		return
	}
	if strings.HasPrefix(what, "ssa:") {
		// debug: print the SSA of the functions whose key contains the given text
		for _, fn := range m.ModFns {
			if strings.Contains(fnKey(fn), strings.TrimPrefix(what, "ssa:")) {
				fn.WriteTo(os.Stdout)
			}
		}
		return
	}
	switch what {
	case "reach":
		for name, roots := range map[string][]*ssa.Function{"render": r.Render, "load": r.Load, "lexparse": r.LexParse, "registry": r.Registry} {
			ch := m.Reach(roots)
			var ks []string
			for fn := range ch {
				if !isSynthetic(fn) {
					ks = append(ks, fnKey(fn))
				}
			}
			sort.Strings(ks)
			fmt.Printf("== %s: %d functions\n", name, len(ks))
			for _, k := range ks {
				fmt.Println("  ", k)
			}
		}
	case "sites":
		all := append(append(append([]*ssa.Function{}, r.Render...), r.Load...), r.LexParse...)
		ch := m.Reach(all)
		var fns []*ssa.Function
		for fn := range ch {
			if m.InModule(fn) && !isSynthetic(fn) {
				fns = append(fns, fn)
			}
		}
		sort.Slice(fns, func(i, j int) bool { return fnKey(fns[i]) < fnKey(fns[j]) })
		for _, fn := range fns {
			for _, b := range fn.Blocks {
				for _, in := range b.Instrs {
					switch x := in.(type) {
					case *ssa.TypeAssert:
						if !x.CommaOk {
							fmt.Printf("ASSERT %s %s: %s.(%s)\n", fnKey(fn), m.InstrPos(in), x.X.Name(), types.TypeString(x.AssertedType, nil))
						}
					case *ssa.BinOp:
						if (x.Op == token.QUO || x.Op == token.REM) && isInteger(x.X.Type()) {
							fmt.Printf("DIV %s %s: %s\n", fnKey(fn), m.InstrPos(in), x.String())
						}
					case *ssa.IndexAddr:
						fmt.Printf("INDEXADDR %s %s: %s  [%s]\n", fnKey(fn), m.InstrPos(in), x.String(), x.X.Type())
					case *ssa.Index:
						fmt.Printf("INDEX %s %s: %s\n", fnKey(fn), m.InstrPos(in), x.String())
					case *ssa.Slice:
						fmt.Printf("SLICE %s %s: %s\n", fnKey(fn), m.InstrPos(in), x.String())
					case *ssa.Lookup:
						if _, ok := x.X.Type().Underlying().(*types.Basic); ok {
							fmt.Printf("STRINDEX %s %s: %s\n", fnKey(fn), m.InstrPos(in), x.String())
						}
					case *ssa.Panic:
						fmt.Printf("PANIC %s %s\n", fnKey(fn), m.InstrPos(in))
					}
				}
			}
		}
	case "nilable":
		ni := m.NilableASTFields()
		var ks []string
		for id, why := range ni.why {
			ks = append(ks, fmt.Sprintf("%s.%d: %s", shortTypeName(id.typ), id.field, why))
		}
		sort.Strings(ks)
		for _, k := range ks {
			fmt.Println(k)
		}
		fmt.Println(len(ni.all), "pointer/interface fields seen;", len(ni.why), "nilable")
	default:
		fmt.Println("unknown dump", what)
	}
}

func isInteger(t types.Type) bool {
	b, ok := t.Underlying().(*types.Basic)
	return ok && b.Info()&types.IsInteger != 0
}

// ---------------------------------------------------------------------------
// Self-test (thorough tier): seeded variants of /repo in scratch copies.

type variantEdit struct {
	File string `json:"file"`
	Old  string `json:"old"`
	New  string `json:"new"`
}

type variant struct {
	Name   string        `json:"name"`
	Props  []string      `json:"props"`
	Edits  []variantEdit `json:"edits"`
	Expect string        `json:"expect"` // "violation" | "silent"
	Rule   string        `json:"rule"`   // substring expected in a reported obligation id (for violations)
	Note   string        `json:"note"`
}

func loadVariants(verif string) ([]variant, error) {
	var all []variant
	files, _ := filepath.Glob(filepath.Join(verif, "twcheck", "selftest", "*.json"))
	sort.Strings(files)
	for _, f := range files {
		b, err := os.ReadFile(f)
		if err != nil {
			return nil, err
		}
		var vs []variant
		if err := json.Unmarshal(b, &vs); err != nil {
			return nil, fmt.Errorf("%s: %w", f, err)
		}
		all = append(all, vs...)
	}
	return all, nil
}

// applyVariant copies repo (without .git) to a scratch directory and applies the edits.
func applyVariant(repo string, v variant) (string, error) {
	dir, err := os.MkdirTemp("", "twvariant-")
	if err != nil {
		return "", err
	}
	if out, err := copyRepo(repo, dir); err != nil {
		return dir, fmt.Errorf("copy: %v %s", err, out)
	}
	os.RemoveAll(filepath.Join(dir, ".git"))
	for _, e := range v.Edits {
		p := filepath.Join(dir, e.File)
		b, err := os.ReadFile(p)
		if err != nil {
			return dir, err
		}
		if !strings.Contains(string(b), e.Old) {
			return dir, fmt.Errorf("edit anchor not found in %s: %q", e.File, firstLine(e.Old))
		}
		nb := strings.Replace(string(b), e.Old, e.New, 1)
		if err := os.WriteFile(p, []byte(nb), 0o644); err != nil {
			return dir, err
		}
	}
	return dir, nil
}

func firstLine(s string) string {
	if i := strings.Index(s, "\n"); i >= 0 {
		return s[:i]
	}
	return s
}

// runVariant returns the checker's output on the variant for prop and the exit code.
func runVariant(repo, verif, prop string, v variant) (string, int, error) {
	dir, err := applyVariant(repo, v)
	if dir != "" {
		defer os.RemoveAll(dir)
	}
	if err != nil {
		return "", 0, err
	}
	self, err := os.Executable()
	if err != nil {
		return "", 0, err
	}
	cmd := exec.Command(self, "-prop", prop, "-tier", "quick", "-repo", dir, "-verif", verif, "-no-evidence")
	cmd.Env = append(cleanEnv(), "TWCHECK_VARIANT=1")
	out, err := cmd.CombinedOutput()
	code := 0
	if ee, ok := err.(*exec.ExitError); ok {
		code = ee.ExitCode()
	} else if err != nil {
		return string(out), 0, err
	}
	return string(out), code, nil
}

func runSelfTest(repo, verif, prop string) selfTestResult {
	vs, err := loadVariants(verif)
	if err != nil {
		return selfTestResult{summary: "cannot load variants: " + err.Error(), broken: true}
	}
	type res struct {
		v       variant
		ok      bool
		skipped bool
		note    string
	}
	var mine []variant
	for _, v := range vs {
		for _, p := range v.Props {
			if p == prop {
				mine = append(mine, v)
			}
		}
	}
	if len(mine) == 0 {
		return selfTestResult{summary: "no variants registered for " + prop}
	}
	results := make([]res, len(mine))
	sem := make(chan struct{}, 6)
	var wg sync.WaitGroup
	for i, v := range mine {
		wg.Add(1)
		go func(i int, v variant) {
			defer wg.Done()
			sem <- struct{}{}
			defer func() { <-sem }()
			out, code, err := runVariant(repo, verif, prop, v)
			r := res{v: v}
			switch {
			case err != nil && strings.Contains(err.Error(), "edit anchor not found"):
				// the tree under analysis no longer contains the text this variant edits (the tree changed since the
				// variant was written): the variant does not apply to this tree and says nothing about the checker
				r.ok, r.skipped = true, true
			case err != nil:
				r.note = "could not run: " + err.Error()
			case code == 2 && strings.Contains(out, "checker panic"):
				r.note = "checker failed on the variant: " + lastLines(out, 3)
			case code == 2:
				// the edited tree does not load / type-check: the edit does not fit this tree
				r.ok, r.skipped = true, true
			case v.Expect == "violation":
				r.ok = code == 1 && strings.Contains(out, "VIOLATION property="+prop) && (v.Rule == "" || strings.Contains(out, v.Rule))
				if !r.ok {
					r.note = fmt.Sprintf("expected a violation mentioning %q, got exit %d", v.Rule, code)
				}
			case v.Expect == "silent":
				r.ok = code == 0
				if !r.ok {
					r.note = "expected silence (behaviour-preserving variant), got: " + lastLines(out, 4)
				}
			}
			results[i] = r
		}(i, v)
	}
	wg.Wait()
	nOK, nSkip := 0, 0
	var fails []string
	for _, r := range results {
		if r.skipped {
			nSkip++
		} else if r.ok {
			nOK++
		} else {
			fails = append(fails, r.v.Name+": "+r.note)
		}
	}
	sum := fmt.Sprintf("%d/%d seeded variants behaved as expected (breaking variants reported, benign variants silent)", nOK, len(results)-nSkip)
	if nSkip > 0 {
		sum += fmt.Sprintf("; %d variants do not apply to this tree (their edit anchor is gone or the edited tree does not build) and were skipped", nSkip)
	}
	// the stored changes of independent sub-agents: the property's own seeded breaking changes must be reported, every
	// stored behaviour-preserving refactoring must leave the property's check silent (each applied to a scratch copy of
	// the tree under analysis and analysed, never executed; patches that do not apply to this tree are skipped)
	pSum, pFails := runStoredPatches(repo, verif, prop)
	sum += "; " + pSum
	fails = append(fails, pFails...)
	if len(fails) > 0 {
		sum += "; FAILED: " + strings.Join(fails, " || ")
	}
	return selfTestResult{summary: sum, broken: len(fails) > 0}
}

// runStoredPatches applies seeded/<prop>-*/patch.diff (expected: reported, unless its meta.json says no check reports
// it) and benign/*.diff (expected: silent; benign/pending holds the documented false alarms and is not used).
func runStoredPatches(repo, verif, prop string) (string, []string) {
	type job struct {
		name, path string
		wantAlarm  bool
	}
	var jobs []job
	seeds, _ := filepath.Glob(filepath.Join(verif, "seeded", prop+"-*", "patch.diff"))
	sort.Strings(seeds)
	for _, sp := range seeds {
		meta, err := os.ReadFile(filepath.Join(filepath.Dir(sp), "meta.json"))
		if err != nil || !strings.Contains(string(meta), `"detected_by": [`+"\n") {
			continue // recorded as not decided by any check (a wrong value, not a wrong shape)
		}
		jobs = append(jobs, job{"seed " + filepath.Base(filepath.Dir(sp)), sp, true})
	}
	benign, _ := filepath.Glob(filepath.Join(verif, "benign", "*.diff"))
	sort.Strings(benign)
	for _, bp := range benign {
		jobs = append(jobs, job{"refactoring " + strings.TrimSuffix(filepath.Base(bp), ".diff"), bp, false})
	}
	type outcome struct {
		skipped bool
		fail    string
	}
	outs := make([]outcome, len(jobs))
	sem := make(chan struct{}, 8)
	var wg sync.WaitGroup
	self, _ := os.Executable()
	for i, j := range jobs {
		wg.Add(1)
		go func(i int, j job) {
			defer wg.Done()
			sem <- struct{}{}
			defer func() { <-sem }()
			dir, err := os.MkdirTemp("", "twpatch-")
			if err != nil {
				outs[i].fail = j.name + ": " + err.Error()
				return
			}
			defer os.RemoveAll(dir)
			if out, err := copyRepo(repo, dir); err != nil {
				outs[i].fail = fmt.Sprintf("%s: copy: %v %s", j.name, err, out)
				return
			}
			os.RemoveAll(filepath.Join(dir, ".git"))
			pc := exec.Command("patch", "-s", "-p1", "--no-backup-if-mismatch", "-i", j.path)
			pc.Dir = dir
			if err := pc.Run(); err != nil {
				outs[i].skipped = true // written against another state of the tree
				return
			}
			cmd := exec.Command(self, "-prop", prop, "-tier", "quick", "-repo", dir, "-verif", verif, "-no-evidence")
			cmd.Env = append(cleanEnv(), "TWCHECK_VARIANT=1")
			out, err := cmd.CombinedOutput()
			code := 0
			if ee, ok := err.(*exec.ExitError); ok {
				code = ee.ExitCode()
			}
			switch {
			case code == 2:
				outs[i].skipped = true // does not load / type-check on this tree
			case j.wantAlarm && code != 1:
				outs[i].fail = j.name + ": a stored breaking change is no longer reported"
			case !j.wantAlarm && code != 0:
				outs[i].fail = j.name + ": a stored behaviour-preserving refactoring is reported: " + lastLines(string(out), 2)
			}
		}(i, j)
	}
	wg.Wait()
	nSeed, nBen, nSkip := 0, 0, 0
	var fails []string
	for i, o := range outs {
		switch {
		case o.skipped:
			nSkip++
		case o.fail != "":
			fails = append(fails, o.fail)
		case jobs[i].wantAlarm:
			nSeed++
		default:
			nBen++
		}
	}
	return fmt.Sprintf("%d stored breaking changes of this property reported and %d stored refactorings silent (%d patches do not apply to this tree and were skipped)", nSeed, nBen, nSkip), fails
}

func lastLines(s string, n int) string {
	ls := strings.Split(strings.TrimSpace(s), "\n")
	if len(ls) > n {
		ls = ls[len(ls)-n:]
	}
	return strings.Join(ls, " | ")
}

// runVariantCLI: `twcheck -variant <name|all> [-prop P]` prints what the checker says on seeded variants.
func runVariantCLI(repo, verif, name, prop string) int {
	vs, err := loadVariants(verif)
	if err != nil {
		fmt.Println(err)
		return 2
	}
	bad := 0
	for _, v := range vs {
		if name != "all" && v.Name != name {
			continue
		}
		for _, p := range v.Props {
			if prop != "" && prop != p {
				continue
			}
			out, code, err := runVariant(repo, verif, p, v)
			ok := err == nil && ((v.Expect == "violation" && code == 1 && (v.Rule == "" || strings.Contains(out, v.Rule))) || (v.Expect == "silent" && code == 0))
			status := "ok  "
			if !ok {
				status = "FAIL"
				bad++
			}
			fmt.Printf("%s %-60s %s expect=%s exit=%d err=%v\n", status, v.Name, p, v.Expect, code, err)
			if !ok || name != "all" {
				for _, l := range strings.Split(out, "\n") {
					if strings.Contains(l, "VIOLATED") || strings.Contains(l, "UNDECIDED") || strings.Contains(l, "twcheck:") {
						fmt.Println("      ", truncate(l, 220))
					}
				}
			}
		}
	}
	if bad > 0 {
		return 1
	}
	return 0
}

func truncate(s string, n int) string {
	if len(s) > n {
		return s[:n] + "..."
	}
	return s
}

// copyRepo copies the working tree (not .git: it is large, not analysed, and may change while it is copied).
func copyRepo(repo, dir string) ([]byte, error) {
	if _, err := exec.LookPath("rsync"); err == nil {
		return exec.Command("rsync", "-a", "--exclude", ".git", repo+"/", dir+"/").CombinedOutput()
	}
	ents, err := os.ReadDir(repo)
	if err != nil {
		return nil, err
	}
	for _, e := range ents {
		if e.Name() == ".git" {
			continue
		}
		if out, err := exec.Command("cp", "-r", filepath.Join(repo, e.Name()), dir+"/").CombinedOutput(); err != nil {
			return out, err
		}
	}
	return nil, nil
}
