package main

// rule_keep.go — R-KEEP (C02, C03, C07): what the parser has parsed is in the tree. A parser function that calls
// another parse function and gets a node back (not nil) either puts that node somewhere — a field of its own node, a
// list, an argument of a helper, its result — or fails; it does not go on to a successful return on a path that
// never touches the node again. An `@elseif` branch that is parsed and then left out "because its body is empty" is
// a branch whose condition is never consulted: the chain falls through to a later branch.
// Reading a field of the node (to decide something) is not a use; comparing it with nil is not a use; the nil side of
// such a comparison is not a path on which a node is dropped.

import (
	"go/token"
	"go/types"
	"strings"

	"golang.org/x/tools/go/ssa"
)

func (m *Model) RunKeepParsed(s *Sink, rule string) {
	isASTNode := func(t types.Type) bool {
		switch t.Underlying().(type) {
		case *types.Pointer, *types.Interface:
			return strings.Contains(types.TypeString(t, nil), modPath+"/ast.")
		}
		return false
	}
	nSites, nBad := 0, 0
	for _, fn := range m.ModFns {
		if fn.Blocks == nil || shortPkg(fnPkgPath(fn)) != "parser" || fn.Signature.Results().Len() == 0 {
			continue
		}
		for _, b := range fn.Blocks {
			for ci, in := range b.Instrs {
				c, ok := in.(*ssa.Call)
				if !ok || c.Call.StaticCallee() == nil || shortPkg(fnPkgPath(c.Call.StaticCallee())) != "parser" || !isASTNode(c.Type()) {
					continue
				}
				// the value and what it flows into unchanged
				alias := map[ssa.Value]bool{c: true}
				uses := map[ssa.Instruction]bool{}
				work := []ssa.Value{c}
				for len(work) > 0 {
					v := work[len(work)-1]
					work = work[:len(work)-1]
					if v.Referrers() == nil {
						continue
					}
					for _, r := range *v.Referrers() {
						switch x := r.(type) {
						case *ssa.MakeInterface, *ssa.ChangeInterface, *ssa.Phi, *ssa.TypeAssert, *ssa.ChangeType:
							if xv := x.(ssa.Value); !alias[xv] {
								alias[xv] = true
								work = append(work, xv)
							}
						case *ssa.Extract:
							if !alias[x] {
								alias[x] = true
								work = append(work, x)
							}
						case *ssa.FieldAddr, *ssa.Field, *ssa.If, *ssa.DebugRef:
							// looking into the node, or at it
						case *ssa.BinOp:
							// a comparison
						case *ssa.Store:
							if alias[x.Val] {
								uses[x] = true
							}
						case *ssa.Call:
							if x.Call.IsInvoke() && alias[x.Call.Value] {
								isArg := false
								for _, a := range x.Call.Args {
									if alias[a] {
										isArg = true
									}
								}
								if !isArg {
									continue // a method of the node (Line(), String()): looking at it
								}
							}
							uses[x] = true
						default:
							uses[r] = true // returned, appended, sent, captured, ...
						}
					}
				}
				nSites++
				// a path from the call to a successful return that passes no use and not the call again
				type item struct {
					b    *ssa.BasicBlock
					from int
				}
				seen := map[*ssa.BasicBlock]bool{}
				stack := []item{{b, ci + 1}}
				dropAt := ""
				for len(stack) > 0 && dropAt == "" {
					it := stack[len(stack)-1]
					stack = stack[:len(stack)-1]
					stopped := false
					for i := it.from; i < len(it.b.Instrs); i++ {
						x := it.b.Instrs[i]
						if uses[x] || x == ssa.Instruction(c) {
							stopped = true
							break
						}
					}
					if stopped {
						continue
					}
					if _, isRet := it.b.Instrs[len(it.b.Instrs)-1].(*ssa.Return); isRet {
						if isSuccessReturn(it.b) {
							dropAt = m.InstrPos(it.b.Instrs[len(it.b.Instrs)-1])
						}
						continue
					}
					for _, nx := range it.b.Succs {
						if seen[nx] {
							continue
						}
						// the nil side of a nil test of the node: nothing was parsed
						nilSide := false
						for _, f := range edgeFact(it.b, nx) {
							cond, holds := f.Cond, f.Holds
							for {
								u, isU := cond.(*ssa.UnOp)
								if !isU || u.Op != token.NOT {
									break
								}
								cond, holds = u.X, !holds
							}
							if bo, isBo := cond.(*ssa.BinOp); isBo && (bo.Op == token.EQL || bo.Op == token.NEQ) {
								if (alias[bo.X] && isNilConst(bo.Y)) || (alias[bo.Y] && isNilConst(bo.X)) {
									if (bo.Op == token.EQL) == holds {
										nilSide = true
									}
								}
							}
						}
						if nilSide {
							continue
						}
						seen[nx] = true
						stack = append(stack, item{nx, 0})
					}
				}
				key := fnKey(fn) + "|the node parsed by " + canonFnName(c.Call.StaticCallee()) + " is kept"
				if dropAt != "" {
					nBad++
					s.Violation(rule, key, m.InstrPos(c), "%s gets a node from %s and can return successfully (at %s) on a path that never stores, passes on or returns it: a construct that was parsed without an error is missing from the tree — an @elseif left out is a condition never consulted, a body left out is text never rendered", fnKey(fn), canonFnName(c.Call.StaticCallee()), dropAt)
				} else {
					s.OK(rule, key, m.InstrPos(c), "on every path to a successful return the node is stored, passed on or returned (or it is nil)")
				}
			}
		}
	}
	if nSites < 40 {
		s.Undecided(rule, "parse calls", "-", "only %d calls of parse functions that return nodes were found in the parser (expected at least 40)", nSites)
	}
	_ = nBad
}
