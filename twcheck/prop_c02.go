package main

func init() {
	register(&PropInfo{
		ID:    "C02",
		Title: "@if/@elseif/@else renders exactly the first truthy branch",
		Rules: []string{
			"R-SCOPE: Env.Get / Env.Set by cases on chains of three scopes: a condition nested two bodies deep still sees the data",
			"R-KEEP: a node a parse function returns is stored, passed on or returned on every path of its caller to a successful return (no parsed branch or body is left out of the tree)",
			"R-KINDS / R-PRATT: conversion table of Go values (a nil slice or map is an empty container, truthy); grouping of chained ternaries",
			"R-LOOP (evaluator state): no field of an existing Evaluator is written while evaluating, except counter steps",
			"R-ERRLAYER: no fault message of the evaluator (a fail constant referenced from package evaluator) is raised by the parser",
			"R-BODYENTRY: every caller of the block parser, evaluated by cases on an abstract parser (token types as named unknowns), enters it only on a token it has looked at and that is not END / ELSE / ELSE_IF — an empty body is an empty block, not the enclosing construct's closer",
			"R-DIRMODE: after a bare directive (@else @end @break @continue) the lexer stays in text mode whatever follows; decided by case evaluation of directiveToken per (directive, next character)",
			"R-TRUTH: the table (operand type -> returned expression) extracted from isTruthy equals the table of C02; the five constructs branch on isTruthy of their evaluated condition and on nothing else",
			"R-BRANCH: in evalIfStmt/evalTernaryExp each branch evaluation is control-dependent on the truthiness of its own condition, branches are visited in source order, a chosen branch's result is returned at once, @else only after all conditions were falsy",
			"R-PREFIXKW: for every directive keyword that is a proper prefix of another the lexer's continuation predicate is true exactly towards the longer keyword (decided by constant evaluation of the predicate)",
			"R-EMIT: statement results are concatenated in order with no filtering",
			"R-BLOCKEND / R-BLOCKSTART: a branch body ends at the next @else / @elseif / @end, also when it is empty (the body parsers are case-evaluated on an abstract parser over all token types they look at)",
		},
		Decided:     "TODO",
		NotDecided:  "TODO",
		Assumptions: trustedBase,
		Run: func(m *Model, s *Sink) {
			m.RunScope(s, "R-SCOPE")        // a condition reads its variables through every enclosing scope, at any nesting depth
			m.RunKeepParsed(s, "R-KEEP")    // every branch that was parsed is in the tree: an empty @elseif still stops the chain
			m.RunPratt(s, "R-PRATT")        // the ternary nests to the right in its else part
			m.RunKinds(s, "R-KINDS")        // what a Go value becomes decides its truth: a nil slice is an empty array, not nil
			m.RunParserBuffers(s, "R-KEEP") // the branches a statement has collected are its own: no list of the parser is reused across nested statements
			m.RunDebugReaders(s, "R-LOOP")  // which branch is taken and which conditions are evaluated does not depend on the debug setting
			m.RunEvalState(s, "R-LOOP")     // evaluation keeps no flags between constructs
			m.RunErrLayer(s, "R-ERRLAYER")  // evaluation faults are raised by evaluation, not while parsing
			m.RunDirMode(s, "R-DIRMODE")    // text right after a bare @else / @end / @break / @continue stays text, also when it starts with "("
			m.RunTruth(s, "R-TRUTH")
			m.RunTruthUsers(s, "R-TRUTH")
			m.RunEvalErr(s, "R-EVALERR") // a failing condition / body / sub-expression fails the render instead of being treated as a value
			m.RunBranch(s, "R-BRANCH")
			m.RunBlockEnd(s, "R-BLOCKEND")
			m.RunBlockStart(s, "R-BLOCKSTART")
			m.RunBodyEntry(s, "R-BODYENTRY") // an empty body (of a slot, an insert, a branch, a loop) does not take the enclosing closer
			m.RunLoop(s, "R-LOOP")           // a truthy @breakIf / @continueIf acts on its loop wherever it sits in the body (also under @elseif)
			m.RunPrefixKW(s, "R-PREFIXKW")
			m.RunEmit(s, "R-EMIT")
			s.RequireMin("R-TRUTH", 12, "7 table rows + 5 users")
			s.RequireMin("R-PREFIXKW", 4, "3 prefix pairs + spurious check")
		},
	})
}
