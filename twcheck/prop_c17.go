package main

import "golang.org/x/tools/go/ssa"

func init() {
	register(&PropInfo{
		ID:    "C17",
		Title: "Response writes the page or one error page, and leaks no detail unless debugging",
		Rules: []string{
			"R-RESPONSE: the ResponseWriter flows only to Fprint-style calls and never to the renderer; every write is dominated by the nil-error edge of the render it writes; at most one write per path; nil is returned exactly on success and a value that is non-nil by construction on failure; the custom page is chosen under ErrorPagePath != \"\" && !DebugMode and rendered with nil data; the built-in page gets debugMode from the configuration and mentions message/path/line only under @if(debugMode)",
		},
		Decided:     "TODO",
		NotDecided:  "TODO",
		Assumptions: trustedBase,
		Run: func(m *Model, s *Sink) {
			m.RunResponse(s, "R-RESPONSE")
			// a failing sub-expression must fail the render (or the body of a "successful" response carries the error text and path)
			m.RunEvalErr(s, "R-EVALERR")
			// nothing a failed (or debug-mode) response leaves behind may reach a later response
			if resp := m.Method("textwire", "Template", "Response"); resp != nil {
				m.RunSharedWrites(s, "R-SHARED", []*ssa.Function{resp}, "history")
			}
			s.RequireMin("R-RESPONSE", 12, "writer flow, 8 case-evaluation clauses, Error never nil, debugMode, embedded page")
		},
	})
}
