package main

import "golang.org/x/tools/go/ssa"

func init() {
	register(&PropInfo{
		ID:    "C17",
		Title: "Response writes the page or one error page, and leaks no detail unless debugging",
		Rules: []string{
			"R-PATHAPI: the template extension is only ever tested / removed as a suffix",
			"R-OWN: every component use gets its own freshly parsed program (a shared one carries the slot bodies of another page into the error page)",
			"R-PATHAPI (lookup): an unknown template name takes the miss edge of the program lookup to the template-not-found error, whose path is the absolute path computed from the name",
			"R-FORMAT: every printf-like call (fmt family, and the module functions that hand a parameter on as a format: fail.New, newError, ...) gets a constant format, or the caller's own format parameter",
			"R-TRUTH: the truthiness table (the built-in error page hides the message and the path behind @if on a Go boolean)",
			"R-RESPONSE: the ResponseWriter flows only to Fprint-style calls and never to the renderer; every write is dominated by the nil-error edge of the render it writes; at most one write per path; nil is returned exactly on success and a value that is non-nil by construction on failure; the custom page is chosen under ErrorPagePath != \"\" && !DebugMode and rendered with nil data; the built-in page gets debugMode from the configuration and mentions message/path/line only under @if(debugMode)",
		},
		Decided:     "TODO",
		NotDecided:  "TODO",
		Assumptions: trustedBase,
		Run: func(m *Model, s *Sink) {
			m.RunPathAPI(s, "R-PATHAPI")                                 // the custom error page is looked up under its configured name: the extension is removed as a suffix, not as a set of characters
			m.RunErrorPageData(s, "R-RESPONSE")                          // the page's variables are bound whatever the error lacks
			m.RunConfigSource(s, "R-RESPONSE")                           // the page chosen and the details shown follow the configuration as it is now
			m.RunOwn(s, "R-OWN")                                         // the error page is rendered from its own program: no part of the failed page in it
			m.RunTemplateLookup(s, "R-PATHAPI")                          // a template that does not exist is reported with the path of the file its name stands for
			m.RunFormat(s, "R-FORMAT", m.reachableFns(m.Roots().Render)) // no text of a template, a path or an error is used as a printf format
			m.RunTruth(s, "R-TRUTH")                                     // the error page decides what to show with @if(debugMode) on a Go boolean
			m.RunTruthUsers(s, "R-TRUTH")
			m.RunResponse(s, "R-RESPONSE")
			// a failing sub-expression must fail the render (or the body of a "successful" response carries the error text and path)
			m.RunEvalErr(s, "R-EVALERR")
			// nothing a failed (or debug-mode) response leaves behind may reach a later response
			if resp := m.Method("textwire", "Template", "Response"); resp != nil {
				m.RunSharedWrites(s, "R-SHARED", []*ssa.Function{resp}, "history")
			}
			s.RequireMin("R-RESPONSE", 12, "writer flow, 8 case-evaluation clauses, Error never nil, debugMode, embedded page")
		},
	})
}
