package main

// rule_recdepth.go — R-RECDEPTH (C08): lexing and parsing return "without crashing the process". A Go stack overflow
// is not a panic that can be recovered: it ends the process. Every cycle of the call graph among the functions that
// lex and parse (function values stored in the Pratt tables included — the graph is the VTA graph) is a recursion whose
// depth the input decides, one frame set per consecutive comment or per level of nesting. Such a cycle is bounded only
// when it runs through a depth guard: a function on the cycle that compares an integer it carries (a field of its
// receiver, a parameter) with a constant and leaves without recursing on one side. The rule removes the guarded
// functions and reports every cycle that is left, named by its hub (the member most called from inside the cycle).
// What it does not decide: that the bound times the frame size fits the stack.

import (
	"fmt"
	"go/token"
	"go/types"
	"sort"
	"strings"

	"golang.org/x/tools/go/ssa"
)

// visitedOK: a lookup in a map the function carries (a visited set), with a side that leaves, also bounds the recursion —
// true for recursions over data, whose depth is unbounded only through cycles; not for recursions over the input text.
func (m *Model) RunRecDepth(s *Sink, rule string, fns []*ssa.Function, minCycles int, visitedOK bool) {
	what := "the depth of the recursion is decided by the input — one set of frames per consecutive comment, per level of nesting"
	guardDesc := "a depth guard (an integer carried in the receiver or a parameter, compared with a constant, with a side that leaves without recursing)"
	if visitedOK {
		what = "the depth of the recursion is decided by the caller's data — one set of frames per pointer, element or field followed, without end when the data points back to itself"
		guardDesc = "a depth guard (an integer carried in the receiver or a parameter, compared with a constant) or a visited-set guard (a lookup in a map it carries), with a side that leaves without recursing"
	}
	in := map[*ssa.Function]bool{}
	for _, f := range fns {
		if f.Blocks != nil && m.InModule(f) {
			in[f] = true
		}
	}
	succ := func(f *ssa.Function) []*ssa.Function {
		var out []*ssa.Function
		seen := map[*ssa.Function]bool{}
		var add func(g *ssa.Function, d int)
		add = func(g *ssa.Function, d int) {
			n := m.CG.Nodes[g]
			if n == nil {
				return
			}
			for _, e := range n.Out {
				c := e.Callee.Func
				if in[c] {
					if !seen[c] {
						seen[c] = true
						out = append(out, c)
					}
				} else if c.Synthetic != "" && d < 3 {
					add(c, d+1) // bound-method and interface wrappers are looked through
				}
			}
		}
		add(f, 0)
		sort.Slice(out, func(i, j int) bool { return fnKey(out[i]) < fnKey(out[j]) })
		return out
	}
	// depth guard: an If comparing an integer field of the receiver / an integer parameter (plus a constant) with a
	// constant, one side of which reaches a return without calling back into the cycle's universe
	guarded := func(f *ssa.Function) bool {
		carried := func(v ssa.Value) bool {
			for d := 0; d < 4; d++ {
				switch x := v.(type) {
				case *ssa.BinOp:
					if _, isK := x.Y.(*ssa.Const); isK && (x.Op == token.ADD || x.Op == token.SUB) {
						v = x.X
						continue
					}
					return false
				case *ssa.Convert:
					v = x.X
					continue
				case *ssa.Parameter:
					return isInteger(x.Type())
				case *ssa.UnOp:
					if fa, ok := x.X.(*ssa.FieldAddr); ok && x.Op == token.MUL && isInteger(x.Type()) {
						holder := fa.X
						if ld, isLd := holder.(*ssa.UnOp); isLd {
							if cv, okC := cellValue(ld); okC { // the receiver spilled to a cell because a closure (a defer) captures it
								holder = cv
							}
						}
						_, isPar := holder.(*ssa.Parameter)
						return isPar
					}
					return false
				default:
					return false
				}
			}
			return false
		}
		for _, b := range f.Blocks {
			ifi, ok := b.Instrs[len(b.Instrs)-1].(*ssa.If)
			if !ok {
				continue
			}
			isVisited := false
			if visitedOK {
				c := ifi.Cond
				if u, isU := c.(*ssa.UnOp); isU && u.Op == token.NOT {
					c = u.X
				}
				if ex, isEx := c.(*ssa.Extract); isEx {
					c = ex.Tuple
				}
				if lk, isLk := c.(*ssa.Lookup); isLk {
					if _, isMap := lk.X.Type().Underlying().(*types.Map); isMap {
						switch h := lk.X.(type) {
						case *ssa.Parameter:
							isVisited = true
						case *ssa.UnOp:
							if fa, isFA := h.X.(*ssa.FieldAddr); isFA {
								_, isVisited = fa.X.(*ssa.Parameter)
							}
						}
					}
				}
			}
			if !isVisited {
				bo, ok := ifi.Cond.(*ssa.BinOp)
				if !ok || (bo.Op != token.GTR && bo.Op != token.GEQ && bo.Op != token.LSS && bo.Op != token.LEQ) {
					continue
				}
				_, ky := bo.Y.(*ssa.Const)
				_, kx := bo.X.(*ssa.Const)
				if !(ky && carried(bo.X)) && !(kx && carried(bo.Y)) {
					continue
				}
			}
			// one side leaves without a call into the universe
			for _, sb := range b.Succs {
				leaves := true
				seen := map[*ssa.BasicBlock]bool{}
				var walk func(x *ssa.BasicBlock)
				walk = func(x *ssa.BasicBlock) {
					if seen[x] || !leaves {
						return
					}
					seen[x] = true
					for _, ins := range x.Instrs {
						if c, isC := ins.(ssa.CallInstruction); isC {
							for _, callee := range m.calleesOf(c) {
								if in[callee] && callee != f && m.reaches(callee, f, in) {
									leaves = false
								}
								if callee == f {
									leaves = false
								}
							}
						}
					}
					for _, nx := range x.Succs {
						walk(nx)
					}
				}
				walk(sb)
				if leaves {
					return true
				}
			}
		}
		return false
	}
	isGuarded := map[*ssa.Function]bool{}
	var universe []*ssa.Function
	for f := range in {
		universe = append(universe, f)
	}
	sort.Slice(universe, func(i, j int) bool { return fnKey(universe[i]) < fnKey(universe[j]) })
	// Tarjan
	index, low := map[*ssa.Function]int{}, map[*ssa.Function]int{}
	onStack := map[*ssa.Function]bool{}
	var stack []*ssa.Function
	var sccs [][]*ssa.Function
	idx := 0
	var strong func(v *ssa.Function)
	strong = func(v *ssa.Function) {
		idx++
		index[v], low[v] = idx, idx
		stack = append(stack, v)
		onStack[v] = true
		for _, w := range succ(v) {
			if isGuarded[w] {
				continue
			}
			if index[w] == 0 {
				strong(w)
				if low[w] < low[v] {
					low[v] = low[w]
				}
			} else if onStack[w] && index[w] < low[v] {
				low[v] = index[w]
			}
		}
		if low[v] == index[v] {
			var comp []*ssa.Function
			for {
				w := stack[len(stack)-1]
				stack = stack[:len(stack)-1]
				onStack[w] = false
				comp = append(comp, w)
				if w == v {
					break
				}
			}
			self := false
			for _, w := range succ(v) {
				if w == v {
					self = true
				}
			}
			if len(comp) > 1 || self {
				sccs = append(sccs, comp)
			}
		}
	}
	run := func() {
		index, low, onStack = map[*ssa.Function]int{}, map[*ssa.Function]int{}, map[*ssa.Function]bool{}
		stack, sccs, idx = nil, nil, 0
		for _, f := range universe {
			if index[f] == 0 && !isGuarded[f] {
				strong(f)
			}
		}
	}
	run()
	all := sccs
	nGuarded := 0
	for _, comp := range all {
		for _, f := range comp {
			if guarded(f) {
				isGuarded[f] = true
				nGuarded++
			}
		}
	}
	if nGuarded > 0 {
		run()
	}
	hubOf := func(comp []*ssa.Function) *ssa.Function {
		inComp := map[*ssa.Function]bool{}
		for _, f := range comp {
			inComp[f] = true
		}
		cnt := map[*ssa.Function]int{}
		for _, f := range comp {
			for _, c := range succ(f) {
				if inComp[c] {
					cnt[c]++
				}
			}
		}
		// the entry of the recursion: the member most called from outside the cycle (then: from inside; then: by name)
		ext := map[*ssa.Function]int{}
		for _, g := range universe {
			if inComp[g] {
				continue
			}
			for _, c := range succ(g) {
				if inComp[c] {
					ext[c]++
				}
			}
		}
		var hub *ssa.Function
		for _, f := range comp {
			if hub == nil || ext[f] > ext[hub] || (ext[f] == ext[hub] && (cnt[f] > cnt[hub] || (cnt[f] == cnt[hub] && fnKey(f) < fnKey(hub)))) {
				hub = f
			}
		}
		return hub
	}
	left := map[*ssa.Function][]*ssa.Function{}
	for _, comp := range sccs {
		left[hubOf(comp)] = comp
	}
	seenHub := map[*ssa.Function]bool{}
	for _, comp := range all {
		hub := hubOf(comp)
		if seenHub[hub] {
			continue
		}
		seenHub[hub] = true
		key := fmt.Sprintf("%s.%s|recursion through %s is bounded by a depth guard", shortPkg(fnPkgPath(hub)), canonFnName(hub), canonFnName(hub)) // keyed by name: the same finding whether the entry is a method or a function
		var names []string
		for _, f := range comp {
			names = append(names, f.Name())
		}
		sort.Strings(names)
		if len(names) > 12 {
			names = append(names[:12], fmt.Sprintf("… (%d functions)", len(comp)))
		}
		// is some cycle through this component's functions left?
		var rest []*ssa.Function
		for h, c := range left {
			inAll := false
			for _, f := range comp {
				if f == h {
					inAll = true
				}
			}
			if inAll {
				rest = c
			}
		}
		if rest == nil {
			s.OK(rule, key, m.Pos(hub.Pos()), "every cycle among {%s} runs through a function that compares a carried depth with a constant and leaves", strings.Join(names, ", "))
			continue
		}
		s.Violation(rule, key, m.Pos(hub.Pos()), "the functions {%s} call each other in a cycle and no function on it is %s: %s — and a Go stack overflow is not a panic that can be recovered, it ends the process", strings.Join(names, ", "), guardDesc, what)
	}
	if len(all) < minCycles {
		s.Undecided(rule, "cycles", "-", "%d recursion cycles found among the %d functions analysed, expected at least %d: the call graph no longer shows the recursive descent", len(all), len(universe), minCycles)
	}
}

// reaches: can from reach to through functions of the set?
func (m *Model) reaches(from, to *ssa.Function, in map[*ssa.Function]bool) bool {
	seen := map[*ssa.Function]bool{}
	var walk func(f *ssa.Function) bool
	walk = func(f *ssa.Function) bool {
		if f == to {
			return true
		}
		if seen[f] || !in[f] {
			return false
		}
		seen[f] = true
		if n := m.CG.Nodes[f]; n != nil {
			for _, e := range n.Out {
				if walk(e.Callee.Func) {
					return true
				}
			}
		}
		return false
	}
	return walk(from)
}

// RunNoUserMethods — R-USERCODE (C09, C12): the conversion of the caller's data looks at the data through the type
// switch and through reflect only; it never calls a method of a data value. A method of the caller's type is the
// caller's code: `String()` through fmt.Stringer on a typed nil pointer panics before the nil-pointer case is reached,
// and a struct or map that happens to have such a method would turn into a flat text, its fields and keys gone. In the
// object-package functions reachable from NativeToObject there is no interface method call on an interface that is not
// declared in this module, and no reflect.Value.Method / MethodByName / Call.
func (m *Model) RunNoUserMethods(s *Sink, rule string) {
	nto := m.PkgFunc("object", "NativeToObject")
	if nto == nil {
		s.Undecided(rule, "object.NativeToObject", "-", "not found")
		return
	}
	n, nf := 0, 0
	for _, f := range m.reachableFns([]*ssa.Function{nto}) {
		if shortPkg(fnPkgPath(f)) != "object" {
			continue
		}
		nf++
		for _, b := range f.Blocks {
			for _, in := range b.Instrs {
				c, ok := in.(ssa.CallInstruction)
				if !ok {
					continue
				}
				com := c.Common()
				what := ""
				if com.IsInvoke() {
					if !strings.HasPrefix(pkgOfType(com.Value.Type()), modPath) {
						if nt, isN := com.Value.Type().(*types.Named); !isN || nt.Obj().Pkg() == nil || nt.Obj().Pkg().Path() != "reflect" {
							what = fmt.Sprintf("calls the method %s of a data value through the interface %s", com.Method.Name(), types.TypeString(com.Value.Type(), nil))
						}
					}
				} else if sc := com.StaticCallee(); sc != nil {
					switch fnFullName(sc) {
					case "(reflect.Value).Method", "(reflect.Value).MethodByName", "(reflect.Value).Call", "(reflect.Value).CallSlice":
						what = "reaches a method of a data value through " + fnFullName(sc)
					}
				}
				if what == "" {
					continue
				}
				n++
				s.Violation(rule, fnKey(f)+"|data is converted by its structure, not by its methods", m.InstrPos(in), "%s %s: a method of the caller's type is the caller's code — called on a typed nil pointer it panics before the nil case is reached, and a struct, map or pointer that has such a method is no longer visible by its fields and keys", fnKey(f), what)
			}
		}
	}
	if n == 0 {
		s.OK(rule, "object.NativeToObject|data is converted by its structure, not by its methods", m.Pos(nto.Pos()), "no interface method call on a non-module interface and no reflect method call in the %d conversion functions", nf)
	}
	if nf < 3 {
		s.Undecided(rule, "conversion functions", "-", "only %d object-package functions reachable from NativeToObject (expected at least 3)", nf)
	}
}
