package main

import "golang.org/x/tools/go/ssa"

func init() {
	register(&PropInfo{
		ID:    "C05",
		Title: "Text outside Textwire syntax is emitted byte for byte; escapes, comments work",
		Rules: []string{
			"R-NILERR: a nil result of a parse function means an error was recorded",
			"R-SLOTGAP: text tokens in front of a slot are stepped over in a loop that tests each token (whitespace only)",
			"R-OUTPUT: EvaluateString and Template.String return the String() of the evaluated object unchanged",
			"R-BODYENTRY / R-KEEP: the block parser is entered only on a token that is not a closer (a stray @end at top level does not end the template); parsed nodes are kept",
			"R-PATHAPI (file content): EvaluateFile and the loader hand the file's bytes on unchanged",
			"R-LOOP: @for / @each by cases: the output of a loop is the output of its passes, in order, and nothing else",
			"R-FORMAT: the rendered page is never used as a printf format",
			"R-LEXINPUT: lexer.New stores its argument as the input unchanged and every caller hands it the text it was given (a parameter handed through, or a file's content as read)",
			"R-TEXTKEEP: a text token a parser function steps onto by itself becomes a statement (or a @slot follows) on every path; otherwise it is lost",
			"R-TEXTDROP: every direct call of readChar lies where a token is open (after tokenBegins, before newToken, on every path; followed through the lexer's functions by summaries), or in skipWhitespace / skipComment / New",
			"R-LEXMODE: every call in NextToken that can build a code-alphabet token (anything but HTML, EOF, ILLEGAL, {{ and directives) is dominated by !l.isHTML",
			"R-TEXT: the text scanner writes every byte it consumes, removes only one byte under the escape flags, the escape test reads input[pos-1], and the literal flows unchanged through NextToken -> parseHTMLStmt -> HTMLStmt.String -> object.HTML -> output; a comment ends only at the constant --}}",
			"R-PREFIXKW: directive keywords that are proper prefixes of others are disambiguated",
			"R-BOUNDS on the lexer: Truncate and the slices of the input are in range",
		},
		Decided:     "TODO",
		NotDecided:  "TODO",
		Assumptions: trustedBase,
		Run: func(m *Model, s *Sink) {
			m.RunNilErr(s, "R-NILERR")                                   // a parse function that gives up without an error drops what follows it: text goes missing silently
			m.RunSlotGap(s, "R-SLOTGAP")                                 // the text the parser steps over before a slot is stepped over token by token, each one tested: no text token is merged with or skipped for another
			m.RunOutputUnchanged(s, "R-OUTPUT")                          // the finished text is returned as it was printed
			m.RunBodyEntry(s, "R-BODYENTRY")                             // the top level is not a block that a stray @end / @else closes: text after it is kept
			m.RunKeepParsed(s, "R-KEEP")                                 // what was parsed is in the tree
			m.RunEvalFile(s, "R-PATHAPI")                                // the text of a file reaches the lexer with the bytes the file has (CR, the final newline)
			m.RunLoop(s, "R-LOOP")                                       // a loop emits the output of its passes and nothing else (no text left over from an earlier loop or render)
			m.RunFormat(s, "R-FORMAT", m.reachableFns(m.Roots().Render)) // a percent sign in the text is not a verb
			m.RunTextSkip(s, "R-TEXTKEEP")                               // the parser steps over text only when it is whitespace
			m.RunLexInput(s, "R-LEXINPUT")
			m.RunTextDrop(s, "R-TEXTDROP")
			m.RunTextKeep(s, "R-TEXTKEEP")
			m.RunDirMode(s, "R-DIRMODE")
			m.RunLexMode(s, "R-LEXMODE")
			m.RunTextFlow(s, "R-TEXT")
			m.RunPrefixKW(s, "R-PREFIXKW")
			m.RunEmit(s, "R-EMIT")
			var lex []*ssa.Function
			for _, fn := range m.ModFns {
				if fn.Blocks != nil && shortPkg(fnPkgPath(fn)) == "lexer" {
					lex = append(lex, fn)
				}
			}
			m.newBoundsChecker(s).Run("R-BOUNDS", "R-DIVGUARD", lex)
			s.RequireMin("R-TEXT", 10, "write-before-read, removal, prevChar, 6 chain links, comment terminator")
		},
	})
}
