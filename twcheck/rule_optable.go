package main

// rule_optable.go — R-OPTABLE (C01): each typed operator case computes the Go operator of the same name on (left, right).

import (
	"fmt"
	"go/token"
	"go/types"
	"sort"
	"strings"

	"golang.org/x/tools/go/ssa"
)

var opTok = map[string]token.Token{"+": token.ADD, "-": token.SUB, "*": token.MUL, "/": token.QUO, "%": token.REM,
	"==": token.EQL, "!=": token.NEQ, "<": token.LSS, ">": token.GTR, "<=": token.LEQ, ">=": token.GEQ}

var specOps = map[string][]string{
	"INTEGER": {"+", "-", "*", "/", "%", "==", "!=", "<", ">", "<=", ">="},
	"FLOAT":   {"+", "-", "*", "/", "==", "!=", "<", ">", "<=", ">="},
	"STRING":  {"+", "==", "!="},
}

func (m *Model) RunOpTable(s *Sink, rule string) {
	// the operator table: decided by case evaluation (rule_opcases.go); the structural reading of the typed evaluators
	// is the diagnosis (it names the case) and the decision when the cases cannot be evaluated
	sub := NewSink()
	m.runOpTableStruct(sub, rule)
	cr := m.opCases()
	switch {
	case cr.decided && len(cr.bad) == 0:
		s.OK(rule, "operators by cases|every operator of the table computes the Go operator of the same name on (left, right)", cr.pos,
			"case evaluation of Eval on an abstract infix expression: %d operator/kind cases with named payloads L and R; results are `L op R`, the comparison's truth value, or an error for a zero divisor / operands of different kinds", cr.cases)
		for _, o := range sub.Obls {
			if o.Status == Violated || o.Status == Undecided {
				s.OK(o.Rule, o.Key, o.Pos, "the code does not have the shape this structural reading expects (%s); decided by case evaluation instead", o.Detail)
			} else {
				s.Obls = append(s.Obls, o)
			}
		}
		// one obligation per evaluated case, whatever shape the typed evaluators have (the instance count of this rule
		// does not depend on how many constructs the structural reading recognises)
		kinds := make([]string, 0, len(specOps))
		for k := range specOps {
			kinds = append(kinds, k)
		}
		sort.Strings(kinds)
		for _, k := range kinds {
			for _, sym := range specOps[k] {
				s.OK(rule, "operators by cases|"+k+" "+sym, cr.pos, "`left %s right` on two %s operands evaluates as specified", sym, k)
			}
		}
	case cr.decided:
		keys := make([]string, 0, len(cr.bad))
		for k := range cr.bad {
			keys = append(keys, k)
		}
		sort.Strings(keys)
		for _, k := range keys {
			s.Violation(rule, "operators by cases|"+k, cr.pos, "evaluating `left %s right`: %s", k, cr.bad[k])
		}
		s.Obls = append(s.Obls, sub.Obls...)
	default:
		s.Note(rule, "operators by cases", cr.pos, "case evaluation not possible (%s); structural reading only", cr.why)
		// what the cases did decide before they got stuck stands
		keys := make([]string, 0, len(cr.bad))
		for k := range cr.bad {
			keys = append(keys, k)
		}
		sort.Strings(keys)
		for _, k := range keys {
			s.Violation(rule, "operators by cases|"+k, cr.pos, "evaluating `left %s right`: %s", k, cr.bad[k])
		}
		s.Obls = append(s.Obls, sub.Obls...)
	}
	m.runOpTableRest(s, rule)
}

func (m *Model) runOpTableStruct(s *Sink, rule string) {
	disp := m.Method("evaluator", "Evaluator", "evalInfixOperatorExp")
	outer := m.Method("evaluator", "Evaluator", "evalInfixExp")
	if disp == nil || outer == nil {
		s.Undecided(rule, "evalInfixOperatorExp", "-", "infix evaluators not found")
		return
	}
	// which parameters of the dispatcher are the left and right operand objects?
	var leftP, rightP *ssa.Parameter
	for _, c := range callsToFn(outer, disp) {
		for i, a := range c.Call.Args {
			if ex, isEx := a.(*ssa.Extract); isEx && ex.Index == 0 {
				a = ex.Tuple // the value result of an evaluation wrapper
			}
			if ec, ok := a.(*ssa.Call); ok && isEvalCall(m, ec) && i < len(disp.Params) {
				// Eval(left) / Eval(right): the node argument is a parameter of evalInfixExp named by position
				// ... or the Left / Right operand of the infix node handed to evalInfixExp
				if _, path, ok := pathOf(stripIface(ec.Call.Args[1])); ok {
					if strings.HasSuffix(path, ".Left") {
						leftP = disp.Params[i]
					} else if strings.HasSuffix(path, ".Right") {
						rightP = disp.Params[i]
					}
				}
				if p, ok := stripIface(ec.Call.Args[1]).(*ssa.Parameter); ok {
					// position of p among outer's params: (e, operator, left, right, env)
					for pi, q := range outer.Params {
						if q == p {
							if pi == 2 {
								leftP = disp.Params[i]
							} else if pi == 3 {
								rightP = disp.Params[i]
							}
						}
					}
				}
			}
		}
	}
	if leftP == nil || rightP == nil {
		s.Undecided(rule, fnKey(disp)+"|operand binding", m.Pos(disp.Pos()), "could not follow the evaluated left/right operands from evalInfixExp into evalInfixOperatorExp")
		return
	}
	// mismatch guard dominates the dispatch
	a := m.NewArith(disp)
	var typed []*ssa.Call
	for _, b := range disp.Blocks {
		for _, in := range b.Instrs {
			if c, ok := in.(*ssa.Call); ok && c.Call.StaticCallee() != nil && inPkg(c.Call.StaticCallee(), "evaluator") && strings.HasSuffix(canonFnName(c.Call.StaticCallee()), "InfixExp") {
				typed = append(typed, c)
			}
		}
	}
	for _, c := range typed {
		kk := m.kindFacts(a, expandFacts(factsAt(c.Block())))
		kind := kk.kind[a.canonKey(leftP)]
		same := false
		for _, e := range kk.eq {
			if (e[0] == a.canonKey(leftP) && e[1] == a.canonKey(rightP)) || (e[1] == a.canonKey(leftP) && e[0] == a.canonKey(rightP)) {
				same = true
			}
		}
		callee := c.Call.StaticCallee()
		key := fmt.Sprintf("%s|dispatch to %s", fnKey(disp), callee.Name())
		if kind == "" || !same {
			s.Violation(rule, key, m.InstrPos(c), "the call to %s is not dominated by both the equal-types test of the two operands and a test of the left operand's kind: operands of different types would reach a typed evaluator", callee.Name())
			continue
		}
		s.OK(rule, key, m.InstrPos(c), "under left.Type() == right.Type() and left.Type() == %s", kind)
		// bind callee parameters
		var cl, cr *ssa.Parameter
		var opPar *ssa.Parameter
		for i, arg := range c.Call.Args {
			if i >= len(callee.Params) {
				continue
			}
			switch arg {
			case ssa.Value(leftP):
				cl = callee.Params[i]
			case ssa.Value(rightP):
				cr = callee.Params[i]
			case ssa.Value(disp.Params[1]):
				opPar = callee.Params[i]
			}
		}
		if cl == nil || cr == nil || opPar == nil {
			s.Undecided(rule, fnKey(callee)+"|operand binding", m.InstrPos(c), "operands are not passed through unchanged")
			continue
		}
		m.checkTypedEvaluator(s, rule, callee, kind, cl, cr, opPar)
	}
	kindsSeen := map[string]bool{}
	for _, c := range typed {
		kk := m.kindFacts(a, expandFacts(factsAt(c.Block())))
		kindsSeen[kk.kind[a.canonKey(leftP)]] = true
	}
	for k := range specOps {
		if !kindsSeen[k] {
			s.Violation(rule, fnKey(disp)+"|operands of kind "+k, m.Pos(disp.Pos()), "no typed evaluator is dispatched for operands of kind %s", k)
		}
	}
}

func (m *Model) runOpTableRest(s *Sink, rule string) {
	m.runSingletonsAndPurity(s, rule)
	// prefix minus and postfix ++/--
	if fn := m.Method("evaluator", "Evaluator", "evalMinusPrefixOperatorExp"); fn != nil {
		n := 0
		for _, b := range fn.Blocks {
			for _, in := range b.Instrs {
				if u, ok := in.(*ssa.UnOp); ok && u.Op == token.SUB && strings.HasSuffix(fieldPathOf(u.X), ".Value") {
					n++
				}
			}
		}
		if n >= 2 {
			s.OK(rule, fnKey(fn)+"|unary minus negates the payload", m.Pos(fn.Pos()), "-payload for integers and floats")
		} else {
			s.Violation(rule, fnKey(fn)+"|unary minus negates the payload", m.Pos(fn.Pos()), "unary minus is not the negation of the integer and of the float payload")
		}
	}
	if fn := m.Method("evaluator", "Evaluator", "evalPostfixOperatorExp"); fn != nil {
		got := map[string]bool{}
		for _, b := range fn.Blocks {
			sym := ""
			for _, f := range expandFacts(factsAt(b)) {
				if bo, ok := f.Cond.(*ssa.BinOp); ok && bo.Op == token.EQL && f.Holds {
					if k, ok := constOfValue(bo.Y); ok && (k == "++" || k == "--") {
						sym = k
					}
				}
			}
			if sym == "" {
				continue
			}
			for _, in := range b.Instrs {
				if bo, ok := in.(*ssa.BinOp); ok && strings.HasSuffix(fieldPathOf(bo.X), ".Value") {
					if k, ok := bo.Y.(*ssa.Const); ok && k.Value != nil && k.Value.String() == "1" {
						if (sym == "++" && bo.Op == token.ADD) || (sym == "--" && bo.Op == token.SUB) {
							typ := "int"
							if !isInteger(bo.Type()) {
								typ = "float"
							}
							got[sym+typ] = true
						}
					}
				}
				if c, ok := in.(*ssa.Call); ok && sym == "--" && c.Call.StaticCallee() != nil && canonFnName(c.Call.StaticCallee()) == "SubtractFromFloat" {
					if k, ok := c.Call.Args[1].(*ssa.Const); ok && k.Int64() == 1 {
						got["--float"] = true // digit-preserving helper, its error must be consumed (R-ERRDROP)
					}
				}
			}
		}
		// decided by case evaluation where possible (operand with a named payload; rule_opcases.go); the structural
		// reading above is the fallback
		pbad, pdec, _ := m.postfixCases()
		for _, w := range []string{"++int", "++float", "--int", "--float"} {
			key := fnKey(fn) + "|postfix " + w[:2] + " on " + w[2:]
			ck := map[string]string{"int": "INTEGER", "float": "FLOAT"}[w[2:]] + " " + w[:2]
			if pdec {
				if pbad[ck] == "" {
					s.OK(rule, key, m.Pos(fn.Pos()), "case evaluation: a new object holding the payload %s 1", map[string]string{"++": "+", "--": "-"}[w[:2]])
				} else {
					s.Violation(rule, key, m.Pos(fn.Pos()), "postfix %s on %s: %s", w[:2], w[2:], pbad[ck])
				}
				continue
			}
			if got[w] {
				s.OK(rule, key, m.Pos(fn.Pos()), "payload %s 1", map[string]string{"++": "+", "--": "-"}[w[:2]])
			} else {
				s.Violation(rule, key, m.Pos(fn.Pos()), "postfix %s on %s does not add/subtract exactly 1 to the payload", w[:2], w[2:])
			}
		}
		m.RunErrDrop(s, "R-ERRDROP", []*ssa.Function{fn})
	}
}

func (m *Model) checkTypedEvaluator(s *Sink, rule string, fn *ssa.Function, kind string, L, R, opPar *ssa.Parameter) {
	fk := fnKey(fn)
	// payload of an operand: load of .Value from a TypeAssert of the parameter
	side := func(v ssa.Value) string {
		ld, ok := v.(*ssa.UnOp)
		if !ok {
			return ""
		}
		fa, ok := ld.X.(*ssa.FieldAddr)
		if !ok {
			return ""
		}
		ta, ok := fa.X.(*ssa.TypeAssert)
		if !ok {
			return ""
		}
		switch ta.X {
		case ssa.Value(L):
			return "L"
		case ssa.Value(R):
			return "R"
		}
		return ""
	}
	got := map[string]string{}
	pos := map[string]string{}
	for _, b := range fn.Blocks {
		sym := ""
		for _, f := range expandFacts(factsAt(b)) {
			if bo, ok := f.Cond.(*ssa.BinOp); ok && bo.Op == token.EQL && f.Holds && bo.X == ssa.Value(opPar) {
				if k, ok := constOfValue(bo.Y); ok {
					if sym == "" {
						sym = k
					}
				}
			}
		}
		if sym == "" {
			continue
		}
		// the innermost case only: the block must be directly entered by that comparison or dominated without another op test
		for _, in := range b.Instrs {
			bo, ok := in.(*ssa.BinOp)
			if !ok {
				continue
			}
			l, r := side(bo.X), side(bo.Y)
			if l == "" || r == "" {
				continue
			}
			// result must reach the returned object (Store into Value, or the bool helper's argument)
			if _, seen := got[sym]; !seen || got[sym] == "" {
				got[sym] = fmt.Sprintf("%s %s %s", l, bo.Op, r)
				pos[sym] = m.InstrPos(bo)
			}
		}
	}
	for _, sym := range specOps[kind] {
		key := fmt.Sprintf("%s|%s %s", fk, kind, sym)
		want := fmt.Sprintf("L %s R", opTok[sym])
		g, ok := got[sym]
		switch {
		case !ok || g == "":
			s.Violation(rule, key, m.Pos(fn.Pos()), "%s has no case computing `left %s right` on its payloads for operator %q on %s operands", fk, opTok[sym], sym, kind)
		case g == want:
			s.OK(rule, key, pos[sym], "case %q computes left.Value %s right.Value", sym, opTok[sym])
		default:
			s.Violation(rule, key, pos[sym], "under case %q the %s evaluator computes `%s` (L = left operand, R = right operand), expected `%s`", sym, kind, g, want)
		}
	}
	var extra []string
	for sym := range got {
		known := false
		for _, w := range specOps[kind] {
			if w == sym {
				known = true
			}
		}
		if !known {
			extra = append(extra, sym)
		}
	}
	sort.Strings(extra)
	if len(extra) > 0 {
		s.Note(rule, fk+"|additional operators", m.Pos(fn.Pos()), "operators beyond C01's table: %v", extra)
	}
}

// runSingletonsAndPurity: (1) no object is compared by identity with the TRUE/FALSE/NIL singletons (booleans and
// nil from data, built-ins and custom functions are separate objects); (2) no operator evaluator writes through
// an operand object (operands are shared with the variables they came from).
func (m *Model) runSingletonsAndPurity(s *Sink, rule string) {
	ea := m.Effects()
	fns := m.reachableFns(m.Roots().Render)
	nCmp := 0
	for _, fn := range fns {
		if shortPkg(fnPkgPath(fn)) != "evaluator" {
			continue
		}
		for _, b := range fn.Blocks {
			for _, in := range b.Instrs {
				bo, ok := in.(*ssa.BinOp)
				if !ok || (bo.Op != token.EQL && bo.Op != token.NEQ) {
					continue
				}
				for _, v := range []ssa.Value{bo.X, bo.Y} {
					if ld, ok := stripIface(v).(*ssa.UnOp); ok {
						if g, ok := ld.X.(*ssa.Global); ok && (canonGlobalName(g) == "TRUE" || canonGlobalName(g) == "FALSE" || canonGlobalName(g) == "NIL") {
							nCmp++
							s.Violation(rule, fmt.Sprintf("%s|identity comparison with %s", fnKey(fn), g.Name()), m.InstrPos(bo),
								"%s compares an object by identity with the %s singleton: booleans and nil produced from the data map, by built-ins or by custom functions are different objects with the same value, so the comparison fails for them (e.g. `{{ !flag }}` with flag from the data)", fnKey(fn), g.Name())
						}
					}
				}
			}
		}
		// operand purity
		if _, isBuiltin := m.Facts().BuiltinOf[fn]; isBuiltin {
			continue
		}
		sum := ea.sums[fn]
		if sum == nil {
			continue
		}
		for _, w := range sum.writes {
			if w.o.kind != oParam || w.o.idx >= len(fn.Params) {
				continue
			}
			pt := fn.Params[w.o.idx].Type()
			ts := types.TypeString(pt, nil)
			if _, isFunc := pt.Underlying().(*types.Signature); isFunc || (!strings.HasSuffix(ts, "object.Object") && !strings.Contains(ts, "[]github.com/textwire/textwire/v2/object.Object")) {
				// (a function-typed parameter is a callback, not an operand: what it writes is its creator's business)
				continue
			}
			s.Violation(rule, fmt.Sprintf("%s|writes through operand %s", fnKey(fn), fn.Params[w.o.idx].Name()), w.pos,
				"%s mutates the object passed as %s (%s, chain %s): values are shared with the variables and data they came from, so evaluating an expression changes a variable (e.g. `{{ x-- - x }}`)", fnKey(fn), fn.Params[w.o.idx].Name(), w.what, w.chain())
		}
	}
	if nCmp == 0 {
		s.OK(rule, "evaluator|no identity comparison with TRUE/FALSE/NIL", "-", "booleans and nil are decided by their value in all %d render-reachable functions", len(fns))
	}
	s.OK(rule, "evaluator|operand objects are never written", "-", "checked the write-effect summary of every render-reachable evaluator function for writes through object.Object parameters")
}

// RunSingletons: the identity-comparison and operand-purity clauses of R-OPTABLE on their own (C20: a boolean receiver
// or argument is converted by its value, not by identity with the TRUE singleton).
func (m *Model) RunSingletons(s *Sink, rule string) { m.runSingletonsAndPurity(s, rule) }
