package main

func init() {
	register(&PropInfo{
		ID:    "C19",
		Title: "Token positions are exact, ordered and tile the source",
		Rules: []string{
			"R-PROGRESS / R-TEXT: every scanning loop reads once per end-of-input test; the text scanner writes every byte it consumes (the bytes of a token's range are its text)",
			"R-LEXINPUT: lexer.New stores its argument as the input unchanged and every caller hands it the text it was given (a parameter handed through, or a file's content as read)",
			"R-PREFIXKW: the continuation predicate for @else/@break/@continue is decided by constant evaluation (a keyword that swallows more letters leaves a gap in the token stream)",
			"R-ORDERINGS: Position.Contains only compares its inputs; evaluated over value assignments realising every weak ordering it equals inclusive lexicographic containment (decides the function for all inputs)",
			"R-TOKPOS: the position counters are written only by readChar (start fields only by tokenBegins); tokens are built only by newToken, whose start comes from tokenBegins and whose end from the last consumed byte (current position for EOF); every newToken call is preceded by tokenBegins on all paths and no constructor reads input before taking the start; ErrorLine = EndLine + 1",
		},
		Decided:     "TODO",
		NotDecided:  "TODO",
		Assumptions: trustedBase,
		Run: func(m *Model, s *Sink) {
			m.RunIdentLiteral(s, "R-TOKPOS")  // the literal of a word token is the word
			m.RunZeroByteMatch(s, "R-TOKPOS") // the zero value of a table entry is the end-of-input byte
			m.RunProgress(s, "R-PROGRESS")    // a scanner reads once per end test: a second read in the same pass can pass the end of the input
			m.RunTextFlow(s, "R-TEXT")        // the text token's literal is the bytes of its range: every byte the text scanner consumes is written
			m.RunNoReadPastEnd(s, "R-TOKPOS") // an unterminated string or comment does not push the position past the input
			m.RunLexInput(s, "R-LEXINPUT")
			m.RunPrefixKW(s, "R-PREFIXKW") // the tokens tile the input: a directive keyword ends where the table says it ends
			m.RunOrderings(s, "R-ORDERINGS")
			m.RunTokPos(s, "R-TOKPOS")
		},
	})
}
