package main

// rule_opcases.go — R-OPTABLE decided by case evaluation: Eval is run on an abstract infix expression `l <op> r` for
// every operator of C01's table and every operand kind; the two operand evaluations yield objects of that kind whose
// payloads are the named unknowns L and R. The result is read off: an object of the right kind whose payload is the
// expression `L op R`, a boolean decided by the comparison `L op R`, or an error on the zero-divisor side of the
// divisor test. How the evaluator organises this (switch, tables of function values, generic helpers) does not matter.

import (
	"fmt"
	"go/constant"
	"go/token"
	"go/types"
	"sort"

	"golang.org/x/tools/go/ssa"
)

type symChoice struct {
	cond  iSym
	taken bool
}

type symPath struct {
	choices []symChoice
	res     any
	known   bool
	stuck   string
}

// enumSymPaths runs an evaluation once for every combination of outcomes of its branches on named unknowns.
func enumSymPaths(run func(branch func(iSym, *ssa.If) (bool, bool)) (any, bool, string), maxPaths int) ([]symPath, bool) {
	work := [][]bool{{}}
	var out []symPath
	for len(work) > 0 {
		prefix := work[len(work)-1]
		work = work[:len(work)-1]
		if len(out) >= maxPaths {
			return out, false
		}
		var choices []symChoice
		branch := func(c iSym, at *ssa.If) (bool, bool) {
			i := len(choices)
			t := true
			if i < len(prefix) {
				t = prefix[i]
			} else {
				alt := make([]bool, 0, i+1)
				for _, ch := range choices {
					alt = append(alt, ch.taken)
				}
				work = append(work, append(alt, false))
			}
			choices = append(choices, symChoice{c, t})
			return t, true
		}
		res, known, stuck := run(branch)
		out = append(out, symPath{choices, res, known, stuck})
	}
	return out, true
}

// normCmp brings a comparison of named unknowns into a normal form: key of the atom and the polarity with which the
// given expression states it. `a > b` is `b < a`, `a != b` is not `a == b`; on totally ordered kinds also
// `a <= b` is not `b < a`.
func normCmp(v any, total bool) (string, bool, bool) {
	s, ok := v.(iSym)
	if !ok {
		return "", false, false
	}
	pol := true
	for {
		if s.op == token.NOT && s.y == nil {
			in, isSym := s.x.(iSym)
			if !isSym {
				return "", false, false
			}
			s, pol = in, !pol
			continue
		}
		// `c == true`, `false != c`, ...: the comparison itself, possibly negated
		if s.op == token.EQL || s.op == token.NEQ {
			var in iSym
			var k constant.Value
			if a, ok := s.x.(iSym); ok {
				if b, ok := s.y.(constant.Value); ok {
					in, k = a, b
				}
			} else if a, ok := s.y.(iSym); ok {
				if b, ok := s.x.(constant.Value); ok {
					in, k = a, b
				}
			}
			if k != nil && k.Kind() == constant.Bool {
				if constant.BoolVal(k) != (s.op == token.EQL) {
					pol = !pol
				}
				s = in
				continue
			}
		}
		break
	}
	str := func(x any) string {
		switch t := x.(type) {
		case iSym:
			return t.String()
		case constant.Value:
			return t.ExactString()
		}
		return "?"
	}
	x, y, op := str(s.x), str(s.y), s.op
	switch op {
	case token.GTR:
		x, y, op = y, x, token.LSS
	case token.GEQ:
		x, y, op = y, x, token.LEQ
	}
	if op == token.LEQ && total {
		x, y, op, pol = y, x, token.LSS, !pol
	}
	switch op {
	case token.NEQ:
		op, pol = token.EQL, !pol
	}
	switch op {
	case token.EQL:
		if y < x {
			x, y = y, x
		}
	case token.LSS, token.LEQ:
	default:
		return "", false, false
	}
	return x + " " + op.String() + " " + y, pol, true
}

type opCaseResult struct {
	decided bool
	why     string
	bad     map[string]string // "INTEGER +" -> what is wrong
	cases   int
	pos     string
	// integer divisions executed while INTEGER / and INTEGER % were evaluated, and the call sites executed on the way:
	// when those cases are decided and as specified (error on the zero side, L/R resp. L%R on the other and nothing
	// else), these divisions run only under the divisor test — wherever in the code the test and the division sit
	divSites  map[*ssa.BinOp]bool
	callSites map[ssa.CallInstruction]bool
}

func (m *Model) opCases() *opCaseResult {
	if m.opCaseRes != nil {
		return m.opCaseRes
	}
	r := &opCaseResult{bad: map[string]string{}, divSites: map[*ssa.BinOp]bool{}, callSites: map[ssa.CallInstruction]bool{}}
	m.opCaseRes = r
	ev := m.Method("evaluator", "Evaluator", "Eval")
	infixT := m.namedType("ast", "InfixExp")
	errT, boolT := m.namedType("object", "Error"), m.namedType("object", "Bool")
	if ev == nil || infixT == nil || errT == nil || boolT == nil {
		r.why = "Eval / ast.InfixExp / object.Error / object.Bool not found"
		return r
	}
	r.pos = m.Pos(ev.Pos())
	fieldIdx := func(t *types.Named, name string) int {
		st := t.Underlying().(*types.Struct)
		for i := 0; i < st.NumFields(); i++ {
			if canonFieldName(t, i, st.Field(i).Name()) == name {
				return i
			}
		}
		return -1
	}
	fOp, fL, fR := fieldIdx(infixT, "Operator"), fieldIdx(infixT, "Left"), fieldIdx(infixT, "Right")
	bVal := fieldIdx(boolT, "Value")
	if fOp < 0 || fL < 0 || fR < 0 || bVal < 0 {
		r.why = "fields of ast.InfixExp / object.Bool not found"
		return r
	}
	kindT := map[string]*types.Named{}
	valIdx := map[string]int{}
	for kind := range specOps {
		pt, ok := m.Facts().TypeOfKind[kind].(*types.Pointer)
		if !ok {
			r.why = "no object type of kind " + kind
			return r
		}
		nt, _ := pt.Elem().(*types.Named)
		if nt == nil || fieldIdx(nt, "Value") < 0 {
			r.why = "object type of kind " + kind + " has no Value payload"
			return r
		}
		kindT[kind], valIdx[kind] = nt, fieldIdx(nt, "Value")
	}
	L, R := iSym{name: "L"}, iSym{name: "R"}
	var allEvents [][]string // the operand evaluations of every path of the last case evaluated
	sameOperand := false     // both operands evaluate to one and the same object (`x == x`, `arr[0] == arr[0]`)
	evalCase := func(sym string, lk, rk string) ([]symPath, []string, bool) {
		var events []string
		allEvents = nil
		paths, complete := enumSymPaths(func(branch func(iSym, *ssa.If) (bool, bool)) (any, bool, string) {
			events = nil
			defer func() { allEvents = append(allEvents, append([]string{}, events...)) }()
			lnode, rnode := iObj{"left operand"}, iObj{"right operand"}
			node := &iStruct{typ: infixT, fields: map[int]any{fOp: constant.MakeString(sym), fL: lnode, fR: rnode}}
			var leftObj *iStruct
			ip := &Interp{m: m, useGlobals: true, branch: branch}
			if lk == "INTEGER" && rk == "INTEGER" && (sym == "/" || sym == "%") {
				ip.instr = func(in ssa.Instruction, _ int) {
					switch x := in.(type) {
					case *ssa.BinOp:
						if (x.Op == token.QUO || x.Op == token.REM) && isInteger(x.X.Type()) {
							r.divSites[x] = true
						}
					case ssa.CallInstruction:
						r.callSites[x] = true
					}
				}
			}
			ip.call = func(c *ssa.Call, args []any) (any, bool) {
				sc := c.Call.StaticCallee()
				if sc == ev && len(args) >= 2 {
					switch args[1] {
					case any(lnode):
						events = append(events, "left")
						leftObj = &iStruct{typ: kindT[lk], fields: map[int]any{valIdx[lk]: L}}
						return leftObj, true
					case any(rnode):
						events = append(events, "right")
						if sameOperand && leftObj != nil {
							return leftObj, true
						}
						return &iStruct{typ: kindT[rk], fields: map[int]any{valIdx[rk]: R}}, true
					}
					events = append(events, "other")
					return nil, true
				}
				// an error object is an error object, whatever its message is built from
				if sc != nil && m.InModule(sc) && sc.Signature.Results().Len() == 1 && types.Identical(sc.Signature.Results().At(0).Type(), types.NewPointer(errT)) {
					return &iStruct{typ: errT, fields: map[int]any{}}, true
				}
				return nil, false
			}
			res, known := ip.Run(ev, []any{iObj{"evaluator"}, node, iObj{"env"}})
			stuck := ip.stuck
			for _, l := range ip.lost {
				if stuck == "" {
					stuck = fnKey(l) + " could not be evaluated"
				}
			}
			return res, known, stuck
		}, 16)
		return paths, events, complete
	}
	isErr := func(v any) bool {
		o, ok := v.(*iStruct)
		return ok && o.typ == errT
	}
	kinds := make([]string, 0, len(specOps))
	for k := range specOps {
		kinds = append(kinds, k)
	}
	sort.Strings(kinds)
	for _, kind := range kinds {
		total := kind != "FLOAT"
		for _, sym := range specOps[kind] {
			r.cases++
			key := kind + " " + sym
			paths, events, complete := evalCase(sym, kind, kind)
			// whatever the payloads are, both operands are evaluated, the left one first, once each: on every path that
			// could be followed to its end — an operand that is not evaluated cannot fail
			for i, ev := range allEvents {
				if i < len(paths) && paths[i].stuck == "" && (len(ev) != 2 || ev[0] != "left" || ev[1] != "right") && r.bad[key] == "" {
					when := ""
					for _, ch := range paths[i].choices {
						when += fmt.Sprintf(" when `%s` is %v", ch.cond, ch.taken)
					}
					r.bad[key] = fmt.Sprintf("the operands are evaluated as %v%s, expected the left one, then the right one, once each (L = left payload, R = right payload): an operand that is not evaluated cannot fail — `0 * missing`, `0 / 0` render a value instead of an error", ev, when)
				}
			}
			if r.bad[key] != "" {
				continue
			}
			if !complete {
				r.why = key + ": too many branches on the payloads"
				return r
			}
			for _, p := range paths {
				if p.stuck != "" {
					r.why = key + ": " + p.stuck
					return r
				}
			}
			if len(events) != 2 || events[0] != "left" || events[1] != "right" {
				r.bad[key] = fmt.Sprintf("the operands are evaluated as %v, expected the left one, then the right one, once each", events)
				continue
			}
			op := opTok[sym]
			want := iSym{op: op, x: L, y: R}
			isCmp := op == token.EQL || op == token.NEQ || op == token.LSS || op == token.GTR || op == token.LEQ || op == token.GEQ
			if isCmp {
				wantKey, wantPol, _ := normCmp(want, total)
				for _, p := range paths {
					o, isO := p.res.(*iStruct)
					if !p.known || !isO || o.typ != boolT {
						r.bad[key] = "the result is not a boolean object"
						break
					}
					switch len(p.choices) {
					case 0:
						k, pol, ok := normCmp(o.fields[bVal], total)
						if !ok || k != wantKey || pol != wantPol {
							r.bad[key] = fmt.Sprintf("the boolean result holds `%v`, expected `%s` (L = left payload, R = right payload)", symStr(o.fields[bVal]), want)
						}
					case 1:
						k, pol, ok := normCmp(p.choices[0].cond, total)
						c, isC := o.fields[bVal].(constant.Value)
						if !ok || k != wantKey {
							r.bad[key] = fmt.Sprintf("the result depends on `%s`, expected `%s` (L = left payload, R = right payload)", p.choices[0].cond, want)
						} else if !isC || c.Kind() != constant.Bool {
							r.bad[key] = "the boolean result is not determined by the comparison"
						} else {
							atom := p.choices[0].taken == pol
							if constant.BoolVal(c) != (atom == wantPol) {
								r.bad[key] = fmt.Sprintf("the result is %v when `%s` is %v: not the value of `%s`", constant.BoolVal(c), p.choices[0].cond, p.choices[0].taken, want)
							}
						}
					default:
						r.why = key + ": several branches on the payloads"
						return r
					}
					if r.bad[key] != "" {
						break
					}
				}
				continue
			}
			// arithmetic / concatenation
			needsDivisorTest := kind == "INTEGER" && (op == token.QUO || op == token.REM)
			zeroKey, zeroPol, _ := normCmp(iSym{op: token.EQL, x: R, y: constant.MakeInt64(0)}, total)
			sawZeroSide := false
			for _, p := range paths {
				// the choices made on this path: the divisor test (integer / and %), and possibly tests of the payloads that
				// turn out not to matter — then the path's result is still the expected one
				zeroSide, extra := false, ""
				for _, ch := range p.choices {
					k, pol, ok := normCmp(ch.cond, total)
					if needsDivisorTest && ok && k == zeroKey {
						if (ch.taken == pol) == zeroPol {
							zeroSide = true
						}
						continue
					}
					extra = fmt.Sprintf("%s", ch.cond)
				}
				if zeroSide {
					sawZeroSide = true
					if !p.known || !isErr(p.res) {
						if extra != "" {
							r.why = fmt.Sprintf("%s: the result depends on a test of the payloads (%s)", key, extra)
							return r
						}
						r.bad[key] = "with a zero divisor the result is not an error object"
					}
					continue
				}
				o, isO := p.res.(*iStruct)
				if !p.known || !isO || o.typ != kindT[kind] {
					if extra != "" {
						r.why = fmt.Sprintf("%s: the result depends on a test of the payloads (%s)", key, extra)
						return r
					}
					r.bad[key] = fmt.Sprintf("the result is not an object of kind %s", kind)
					break
				}
				got, isSym := o.fields[valIdx[kind]].(iSym)
				okVal := isSym && got.String() == want.String()
				if !okVal && isSym && kind != "STRING" && (op == token.ADD || op == token.MUL) && got.String() == (iSym{op: op, x: R, y: L}).String() {
					okVal = true // commutative on numbers
				}
				if !okVal {
					if extra != "" {
						r.why = fmt.Sprintf("%s: the result depends on a test of the payloads (%s)", key, extra)
						return r
					}
					r.bad[key] = fmt.Sprintf("the result's payload is `%v`, expected `%s` (L = left payload, R = right payload)", symStr(o.fields[valIdx[kind]]), want)
					break
				}
			}
			if r.bad[key] == "" && needsDivisorTest && !sawZeroSide {
				r.bad[key] = "the divisor is not tested against zero before the division: a zero divisor panics instead of yielding an error"
			}
		}
	}
	// operands of different kinds never reach a typed evaluator: the result is an error object
	for _, pr := range [][2]string{{"INTEGER", "FLOAT"}, {"FLOAT", "INTEGER"}, {"STRING", "INTEGER"}, {"INTEGER", "STRING"}, {"FLOAT", "STRING"}, {"STRING", "FLOAT"}} {
		for _, sym := range []string{"+", "=="} {
			r.cases++
			key := pr[0] + " " + sym + " " + pr[1]
			paths, _, complete := evalCase(sym, pr[0], pr[1])
			if !complete || len(paths) != 1 {
				r.why = key + ": branches on the payloads"
				return r
			}
			if paths[0].stuck != "" {
				r.why = key + ": " + paths[0].stuck
				return r
			}
			if !paths[0].known || !isErr(paths[0].res) {
				r.bad[key] = "operands of different kinds do not yield an error object"
			}
		}
	}
	// one and the same object on both sides (`x == x` for a variable, an element, a property; `true == true`, where both
	// sides are the TRUE singleton): the comparison still looks at the payloads — a NaN is not equal to itself — and a
	// kind without operators still yields an error. An "identical objects are equal" shortcut breaks both.
	if boolT != nil {
		kindT["BOOLEAN"], valIdx["BOOLEAN"] = boolT, bVal
	}
	sameOperand = true
	for _, kind := range []string{"FLOAT", "INTEGER", "BOOLEAN"} {
		if kindT[kind] == nil {
			continue
		}
		for _, sym := range []string{"==", "!="} {
			r.cases++
			key := kind + " " + sym + " (one object on both sides)"
			paths, _, complete := evalCase(sym, kind, kind)
			if !complete {
				r.why = key + ": too many branches on the payloads"
				sameOperand = false
				return r
			}
			for _, p := range paths {
				if p.stuck != "" {
					r.why = key + ": " + p.stuck
					sameOperand = false
					return r
				}
			}
			for _, p := range paths {
				if kind == "BOOLEAN" {
					if !p.known || !isErr(p.res) {
						r.bad[key] = "`b " + sym + " b` with one boolean object on both sides does not yield an error object: booleans have no operators, and an identity shortcut makes `true == true` render 1 while `true == false` fails"
					}
					continue
				}
				o, isO := p.res.(*iStruct)
				if !p.known || !isO || o.typ != boolT {
					r.bad[key] = "the result is not a boolean object"
					continue
				}
				// the result is decided by a comparison of the payload with itself: a branch on it, or a symbolic value
				_, isSym := o.fields[bVal].(iSym)
				if len(p.choices) == 0 && !isSym {
					r.bad[key] = fmt.Sprintf("`x %s x` with one %s object on both sides yields a constant without comparing the payloads: for a NaN `x == x` is false", sym, kind)
				}
			}
		}
	}
	sameOperand = false
	r.decided = true
	return r
}

func symStr(v any) string {
	switch t := v.(type) {
	case iSym:
		return t.String()
	case constant.Value:
		return t.ExactString()
	case nil:
		return "an unknown value"
	}
	return fmt.Sprintf("%T", v)
}

// postfixCases: x++ / x-- on an integer or float operand with the named payload L yields a NEW object of the same kind
// holding L+1 / L-1 (for float `--` the digit-preserving helper SubtractFromFloat(1) called on a fresh copy holding L,
// its error consumed). Returns the verdict per case ("" = as specified), or decided=false when a case cannot be evaluated.
func (m *Model) postfixCases() (bad map[string]string, decided bool, why string) {
	bad = map[string]string{}
	ev := m.Method("evaluator", "Evaluator", "Eval")
	pt := m.namedType("ast", "PostfixExp")
	errT := m.namedType("object", "Error")
	if ev == nil || pt == nil || errT == nil {
		return bad, false, "Eval / ast.PostfixExp not found"
	}
	fieldIdx := func(t *types.Named, name string) int {
		st := t.Underlying().(*types.Struct)
		for i := 0; i < st.NumFields(); i++ {
			if canonFieldName(t, i, st.Field(i).Name()) == name {
				return i
			}
		}
		return -1
	}
	fOp, fL := fieldIdx(pt, "Operator"), fieldIdx(pt, "Left")
	if fOp < 0 || fL < 0 {
		return bad, false, "fields of ast.PostfixExp not found"
	}
	L := iSym{name: "L"}
	for _, kind := range []string{"INTEGER", "FLOAT"} {
		ptT, ok := m.Facts().TypeOfKind[kind].(*types.Pointer)
		if !ok {
			return bad, false, "no object type of kind " + kind
		}
		nt, _ := ptT.Elem().(*types.Named)
		vi := fieldIdx(nt, "Value")
		if nt == nil || vi < 0 {
			return bad, false, "object type of kind " + kind + " has no Value"
		}
		for _, op := range []string{"++", "--"} {
			key := kind + " " + op
			lnode := iObj{"operand"}
			node := &iStruct{typ: pt, fields: map[int]any{fOp: constant.MakeString(op), fL: lnode}}
			operand := &iStruct{typ: nt, fields: map[int]any{vi: L}}
			var helperRecv *iStruct
			var helperArg, helperVal any
			ip := &Interp{m: m, useGlobals: true}
			ip.call = func(c *ssa.Call, args []any) (any, bool) {
				sc := c.Call.StaticCallee()
				if sc == ev && len(args) >= 2 && args[1] == any(lnode) {
					return operand, true
				}
				if sc != nil && canonFnName(sc) == "SubtractFromFloat" && len(args) == 2 {
					if r, ok := args[0].(*iStruct); ok {
						helperRecv, helperArg, helperVal = r, args[1], r.fields[vi]
					}
					return iNil{}, true // no error
				}
				if sc != nil && m.InModule(sc) && sc.Signature.Results().Len() == 1 && types.Identical(sc.Signature.Results().At(0).Type(), types.NewPointer(errT)) {
					return &iStruct{typ: errT, fields: map[int]any{}}, true
				}
				return nil, false
			}
			res, known := ip.Run(ev, []any{iObj{"evaluator"}, node, iObj{"env"}})
			if ip.stuck != "" || len(ip.lost) > 0 {
				return bad, false, key + ": " + ip.stuck
			}
			o, isO := res.(*iStruct)
			if !known || !isO || o.typ != nt {
				bad[key] = "the result is not an object of kind " + kind
				continue
			}
			if o == operand {
				bad[key] = "the operand object itself is changed and returned: the variable it came from changes with it"
				continue
			}
			if operand.fields[vi] != any(L) {
				bad[key] = "the operand object is written"
				continue
			}
			tok := map[string]token.Token{"++": token.ADD, "--": token.SUB}[op]
			want := iSym{op: tok, x: L, y: constant.MakeInt64(1)}
			got, _ := o.fields[vi].(iSym)
			if got.String() == want.String() || (op == "++" && got.String() == (iSym{op: tok, x: constant.MakeInt64(1), y: L}).String()) {
				continue
			}
			// a float may also be written as 1.0
			if kind == "FLOAT" {
				if y, isC := got.y.(constant.Value); isC && got.op == tok && got.x == any(L) && constant.Compare(constant.ToFloat(y), token.EQL, constant.MakeFloat64(1)) {
					continue
				}
			}
			if kind == "FLOAT" && op == "--" && helperRecv == o && helperVal == any(L) {
				if a, isC := helperArg.(constant.Value); isC && constant.Compare(a, token.EQL, constant.MakeInt64(1)) {
					continue // SubtractFromFloat(1) on a fresh copy of the operand
				}
			}
			bad[key] = fmt.Sprintf("the result's payload is `%v`, expected `%s` (L = the operand's payload)", symStr(o.fields[vi]), want)
		}
	}
	return bad, true, ""
}
