package main

// rule_toktable.go — R-TOKTABLE: the token-name table used by error messages has a non-empty entry for every TokenType constant.

import (
	"go/ast"
	"go/types"
	"sort"
)

// tokTable: (array length, constant value -> name) of token.tokens; ok=false if not found.
func (m *Model) tokTable() (int64, map[int64]string, bool) {
	tp := m.ByPath[fullPkg("token")]
	if tp == nil {
		return 0, nil, false
	}
	entries := map[int64]string{}
	var length int64 = -1
	for _, f := range tp.Syntax {
		ast.Inspect(f, func(n ast.Node) bool {
			vs, ok := n.(*ast.ValueSpec)
			if !ok {
				return true
			}
			for i, name := range vs.Names {
				if canonVarName("token", name.Name) != "tokens" || i >= len(vs.Values) {
					continue
				}
				cl, ok := vs.Values[i].(*ast.CompositeLit)
				if !ok {
					continue
				}
				if tv, ok := tp.TypesInfo.Types[cl]; ok {
					if arr, ok := tv.Type.Underlying().(*types.Array); ok {
						length = arr.Len()
					}
				}
				for _, e := range cl.Elts {
					kv, ok := e.(*ast.KeyValueExpr)
					if !ok {
						continue
					}
					k, ok1 := intConst(tp.TypesInfo, kv.Key)
					v := constStr(tp.TypesInfo, kv.Value)
					if ok1 {
						entries[k] = v
					}
				}
			}
			return true
		})
	}
	return length, entries, length >= 0
}

// tokTableComplete: every TokenType constant indexes a non-empty entry.
func (m *Model) tokTableComplete() (bool, []string) {
	n, entries, ok := m.tokTable()
	if !ok {
		return false, []string{"token.tokens table not found"}
	}
	var missing []string
	var vals []int64
	for v := range tokenConstNames {
		vals = append(vals, v)
	}
	sort.Slice(vals, func(i, j int) bool { return vals[i] < vals[j] })
	for _, v := range vals {
		if v >= n || v < 0 {
			missing = append(missing, tokenConstNames[v]+" (index out of range: String panics)")
		} else if entries[v] == "" {
			missing = append(missing, tokenConstNames[v]+" (empty name)")
		}
	}
	return len(missing) == 0, missing
}

func (m *Model) RunTokTable(s *Sink, rule string) {
	ok, missing := m.tokTableComplete()
	n, entries, _ := m.tokTable()
	if ok {
		s.OK(rule, "token.tokens|a name for every token type", "token/utils.go", "array of length %d, %d named entries, %d TokenType constants, all covered", n, len(entries), len(tokenConstNames))
	} else {
		s.Violation(rule, "token.tokens|a name for every token type", "token/utils.go", "the token-name table has no usable entry for %v: the parser's \"expected X, got Y\" error indexes this table with the type of the unexpected token, so an input that puts such a token there panics (or prints an empty name) instead of returning the parse error", missing)
	}
}
