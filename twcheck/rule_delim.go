package main

// rule_delim.go — R-DELIM: a delimited construct that ends at end of input is
// an error. Parser side: every opener is followed, on all paths to a
// successful return, by a point where its closer is seen. Lexer side: the
// string and comment scanners report end-of-input, and their callers turn
// that into an ILLEGAL token.

import (
	"fmt"
	"go/constant"
	"go/token"
	"go/types"
	"sort"
	"strings"

	"golang.org/x/tools/go/ssa"
)

// expectLike: G(p[, tok]) bool that returns true only when the peek token is
// in a set, and records an error on every path that returns false.
type expectLike struct {
	fn       *ssa.Function
	consts   []int64 // constant members of the accepted set
	hasParam bool    // the set also contains parameter #1
}

func (m *Model) findExpectLikes(parFns []*ssa.Function) map[*ssa.Function]*expectLike {
	if m.expectLikes != nil {
		return m.expectLikes
	}
	out := map[*ssa.Function]*expectLike{}
	m.expectLikes = out
	newErr := m.parserNewError()
	nextTok := m.Method("parser", "Parser", "nextToken")
	pm := m.extractPratt()
	var toks []int64
	for tv := range pm.tokName {
		toks = append(toks, tv)
	}
	sort.Slice(toks, func(i, j int) bool { return toks[i] < toks[j] })
	// A function is expect-like when, evaluated for every peek token (and every value of its token parameter, if it
	// has one), it returns true exactly for a fixed set of tokens (plus "the parameter"), and every false result is
	// preceded by a recorded error. Decided by case evaluation, so the function's shape and helpers do not matter.
	for _, fn := range parFns {
		if fn.Blocks == nil || fn.Signature.Results().Len() != 1 || !isBoolT(fn.Signature.Results().At(0).Type()) || fn.Signature.Recv() == nil {
			continue
		}
		np := len(fn.Params)
		if np > 2 || (np == 2 && !strings.HasSuffix(fn.Params[1].Type().String(), "token.TokenType")) {
			continue
		}
		run := func(peek, par int64) (res, known, errRec bool) {
			advanced := false
			ip := m.parserInterp(-1, peek, pm.precLit, nil)
			inner := ip.load
			ip.load = func(v *ssa.UnOp, dirty bool) (any, bool) {
				if advanced {
					return nil, false
				}
				return inner(v, false)
			}
			ip.call = func(c *ssa.Call, args []any) (any, bool) {
				switch c.Call.StaticCallee() {
				case nil:
					return nil, false
				case newErr:
					errRec = true
					return nil, true
				case nextTok:
					advanced = true
					return nil, true
				}
				return nil, false
			}
			args := make([]any, np)
			if np == 2 {
				args[1] = constant.MakeInt64(par)
			}
			r, ok := ip.Run(fn, args)
			rc, isC := r.(constant.Value)
			if !ok || !isC || rc.Kind() != constant.Bool {
				return false, false, errRec
			}
			return constant.BoolVal(rc), true, errRec
		}
		el := &expectLike{fn: fn}
		ok := true
		nTrue, nFalse := 0, 0
		pars := []int64{-1}
		if np == 2 {
			pars = toks
		}
		always := map[int64]bool{}
		for _, t := range toks {
			allTrue := true
			for _, u := range pars {
				res, known, errRec := run(t, u)
				if !known {
					ok = false
					break
				}
				if res {
					nTrue++
				} else {
					nFalse++
					allTrue = false
					if !errRec {
						ok = false // a plain predicate: false without an error
					}
					if np == 2 && t == u {
						ok = false // does not accept its own parameter
					}
				}
				if res && np == 2 && t != u {
					// true although the peek token is not the parameter: must be a constant member for every parameter value
					always[t] = true
				}
			}
			if !ok {
				break
			}
			if np == 1 && allTrue {
				el.consts = append(el.consts, t)
			}
			if np == 2 {
				if allTrue && len(pars) > 1 {
					el.consts = append(el.consts, t)
				} else if always[t] {
					ok = false // accepted for some parameter values only: not of the form "set or parameter"
				}
			}
		}
		if np == 2 {
			el.hasParam = true
		}
		if ok && nTrue > 0 && nFalse > 0 {
			out[fn] = el
		}
	}
	return out
}

// accepts: does this call to an expect-like function accept token t?
func (el *expectLike) accepts(call *ssa.Call, t int64) bool {
	for _, c := range el.consts {
		if c == t {
			return true
		}
	}
	if el.hasParam && len(call.Call.Args) > 1 {
		if k, ok := call.Call.Args[1].(*ssa.Const); ok && k.Value != nil && k.Int64() == t {
			return true
		}
	}
	return false
}

// onlyAccepts: the call accepts t and nothing else.
func (el *expectLike) onlyAccepts(call *ssa.Call, t int64) bool {
	if !el.accepts(call, t) {
		return false
	}
	n := len(el.consts)
	if el.hasParam {
		n++
	}
	return n == 1
}

type delimCtx struct {
	pcMemo map[string]bool
	m      *Model
	s      *Sink
	rule   string
	parFns []*ssa.Function
	pm     *prattModel
	els    map[*ssa.Function]*expectLike
}

// closerInfo builds the must-pass summaries for "token t has been seen as peek/cur".
func (dc *delimCtx) closerInfo(t int64) *consumerInfo {
	callPoint := func(c ssa.CallInstruction) bool {
		sc := c.Common().StaticCallee()
		if sc == nil || canonFnName(sc) != "parseExpressionList" || len(c.Common().Args) < 2 {
			return false
		}
		k, ok := c.Common().Args[1].(*ssa.Const)
		return ok && k.Value != nil && k.Int64() == t
	}
	okPoint := func(c *ssa.Call) bool {
		sc := c.Call.StaticCallee()
		if sc == nil {
			return false
		}
		if el := dc.els[sc]; el != nil {
			return el.accepts(c, t)
		}
		if canonFnName(sc) == "curTokenIs" && len(c.Call.Args) == 2 {
			k, ok := c.Call.Args[1].(*ssa.Const)
			return ok && k.Value != nil && k.Int64() == t
		}
		// a helper that requires the token it is given (`closeExp(exp, closer)`: exp when expectPeek(closer) succeeds,
		// nil otherwise), called with this closer
		if dc.m.InModule(sc) && sc.Blocks != nil && shortPkg(fnPkgPath(sc)) == "parser" && dc.els[sc] == nil {
			for i, a := range c.Call.Args {
				if k, ok := a.(*ssa.Const); ok && k.Value != nil && k.Value.Kind() == constant.Int && k.Int64() == t && i < len(sc.Params) && dc.paramCloser(sc, i) {
					return true
				}
			}
		}
		if canonFnName(sc) == "peekTokenIs" {
			elems := variadicElems(c.Call.Args[len(c.Call.Args)-1])
			if len(elems) != 1 {
				return false
			}
			k, ok := elems[0].(*ssa.Const)
			return ok && k.Value != nil && k.Int64() == t
		}
		return false
	}
	return dc.m.newPassInfo(callPoint, okPoint, dc.parFns, nil)
}

// paramCloser: every successful return of h lies behind the success edge of an expect function called with h's
// parameter i as the token.
func (dc *delimCtx) paramCloser(h *ssa.Function, i int) bool {
	if dc.pcMemo == nil {
		dc.pcMemo = map[string]bool{}
	}
	key := fmt.Sprintf("%s#%d", fnKey(h), i)
	if v, ok := dc.pcMemo[key]; ok {
		return v
	}
	dc.pcMemo[key] = false
	par := h.Params[i]
	ci := dc.m.newPassInfo(func(ssa.CallInstruction) bool { return false }, func(c *ssa.Call) bool {
		sc := c.Call.StaticCallee()
		if sc == nil || dc.els[sc] == nil {
			return false
		}
		for _, a := range c.Call.Args {
			if a == ssa.Value(par) {
				return true
			}
		}
		return false
	}, []*ssa.Function{h}, nil)
	res := !ci.pathAvoiding(h, h.Blocks[0], 0, ci.successReturn, nil)
	dc.pcMemo[key] = res
	return res
}

func (m *Model) RunDelim(s *Sink, rule string) {
	dc := &delimCtx{m: m, s: s, rule: rule}
	for _, fn := range m.ModFns {
		if fn.Blocks != nil && shortPkg(fnPkgPath(fn)) == "parser" {
			dc.parFns = append(dc.parFns, fn)
		}
	}
	dc.pm = m.extractPratt()
	if len(dc.pm.problems) > 0 {
		s.Undecided(rule, "pratt-model", "-", "operator tables could not be extracted: %v", dc.pm.problems)
		return
	}
	dc.els = m.findExpectLikes(dc.parFns)
	var elNames []string
	for fn := range dc.els {
		elNames = append(elNames, fn.Name())
	}
	sort.Strings(elNames)
	if len(elNames) == 0 {
		s.Undecided(rule, "expect-like functions", "-", "no function of the form 'return true iff the peek token is in a set, else record an error' was found (expectPeek was the confirmed instance)")
		return
	}
	s.OK(rule, "expect-like functions", "-", "functions that accept a token set or record an error: %v", elNames)
	tv := dc.pm.tokVal
	dc.parens(tv["LPAREN"], tv["RPAREN"])
	dc.blocks(tv["END"])
	dc.entryClosers()
	dc.lexerScanners()
}

// parens: every consumption of "(" is followed by a ")"-point on all paths to a successful return.
func (dc *delimCtx) parens(lp, rp int64) {
	m := dc.m
	ci := dc.closerInfo(rp)
	for _, fn := range dc.parFns {
		for _, b := range fn.Blocks {
			for i, in := range b.Instrs {
				call, ok := in.(*ssa.Call)
				if !ok || call.Call.StaticCallee() == nil {
					continue
				}
				el := dc.els[call.Call.StaticCallee()]
				if el == nil || !el.onlyAccepts(call, lp) {
					continue
				}
				// start: the success edge of this call
				key := fmt.Sprintf("%s|\"(\" opened by %s is closed", fnKey(fn), canonFnName(call.Call.StaticCallee()))
				starts := successTargets(call)
				if len(starts) == 0 {
					// result not branched on: start right after the call
					if dc.escapes(ci, fn, b, i+1) {
						dc.s.Violation(dc.rule, key, m.InstrPos(call), "%s consumes \"(\" and can return successfully without a point where \")\" is required (expectPeek(RPAREN) or an argument list closed by it): a template truncated inside the argument list is accepted", fnKey(fn))
					} else {
						dc.s.OK(dc.rule, key, m.InstrPos(call), "every path to a successful return passes a \")\" point")
					}
					continue
				}
				bad := false
				for _, st := range starts {
					if dc.escapes(ci, fn, st, 0) {
						bad = true
					}
				}
				if bad {
					dc.s.Violation(dc.rule, key, m.InstrPos(call), "%s consumes \"(\" and can return successfully without a point where \")\" is required (expectPeek(RPAREN) or an argument list closed by it): a template truncated inside the argument list (e.g. `@use(\"x\"`) is accepted without an error", fnKey(fn))
				} else {
					dc.s.OK(dc.rule, key, m.InstrPos(call), "every path to a successful return passes a \")\" point")
				}
			}
		}
	}
}

// successTargets: blocks entered on the true edge of a bool call result.
func successTargets(call *ssa.Call) []*ssa.BasicBlock {
	var out []*ssa.BasicBlock
	var walk func(v ssa.Value, want bool, d int)
	walk = func(v ssa.Value, want bool, d int) {
		if d > 3 || v.Referrers() == nil {
			return
		}
		for _, r := range *v.Referrers() {
			switch x := r.(type) {
			case *ssa.If:
				if want {
					out = append(out, x.Block().Succs[0])
				} else {
					out = append(out, x.Block().Succs[1])
				}
			case *ssa.UnOp:
				if x.Op == token.NOT {
					walk(x, !want, d+1)
				}
			}
		}
	}
	walk(call, true, 0)
	return out
}

func (dc *delimCtx) escapes(ci *consumerInfo, fn *ssa.Function, start *ssa.BasicBlock, idx int) bool {
	return ci.pathAvoiding(fn, start, idx, ci.successReturn, nil)
}

// blocks: every block opened with parseBlockStmt is closed by expectPeek(END)
// in the same function, or the function is a sub-block parser all of whose
// callers close it.
func (dc *delimCtx) blocks(end int64) {
	m := dc.m
	pbs := m.blockParser()
	if pbs == nil {
		dc.s.Undecided(dc.rule, "parseBlockStmt", "-", "parseBlockStmt not found")
		return
	}
	ci := dc.closerInfo(end)
	// roots: functions dispatched from parseStatement and the operator handlers
	roots := map[*ssa.Function]bool{}
	if ps := m.Method("parser", "Parser", "parseStatement"); ps != nil {
		for _, b := range ps.Blocks {
			for _, in := range b.Instrs {
				if call, ok := in.(*ssa.Call); ok && call.Call.StaticCallee() != nil {
					roots[call.Call.StaticCallee()] = true
				}
			}
		}
	}
	for _, tab := range []map[string]*handler{dc.pm.prefix, dc.pm.infix} {
		for _, h := range tab {
			roots[h.fn] = true
		}
	}
	// openers per function: calls to parseBlockStmt or to a sub-block parser
	sub := map[*ssa.Function]bool{}
	type opener struct {
		fn   *ssa.Function
		b    *ssa.BasicBlock
		idx  int
		call *ssa.Call
	}
	openersOf := func(fn *ssa.Function) []opener {
		var out []opener
		for _, b := range fn.Blocks {
			for i, in := range b.Instrs {
				call, ok := in.(*ssa.Call)
				if !ok {
					continue
				}
				sc := call.Call.StaticCallee()
				if sc != nil && (sc == pbs || (sub[sc] && !roots[sc])) {
					out = append(out, opener{fn, b, i, call})
				}
			}
		}
		return out
	}
	for changed := true; changed; {
		changed = false
		for _, fn := range dc.parFns {
			if fn == pbs || sub[fn] {
				continue
			}
			for _, op := range openersOf(fn) {
				if dc.escapes(ci, fn, op.b, op.idx+1) {
					sub[fn] = true
					changed = true
					break
				}
			}
		}
	}
	n := 0
	for _, fn := range dc.parFns {
		ops := openersOf(fn)
		if len(ops) == 0 || fn == pbs {
			continue
		}
		n++
		key := fmt.Sprintf("%s|blocks it opens are closed by @end", fnKey(fn))
		if !sub[fn] {
			dc.s.OK(dc.rule, key, m.Pos(fn.Pos()), "after each of its %d block(s) every path to a successful return passes expectPeek(END)", len(ops))
			continue
		}
		if roots[fn] {
			dc.s.Violation(dc.rule, key, m.Pos(fn.Pos()), "%s parses a block with parseBlockStmt and can return successfully without requiring \"@end\" (no expectPeek(END) on some path): a template truncated inside the block is accepted without an error", fnKey(fn))
			continue
		}
		// sub-block parser: all callers must be in-package and are checked as openers themselves
		okCallers := true
		if node := m.CG.Nodes[fn]; node != nil {
			for _, e := range node.In {
				if shortPkg(fnPkgPath(e.Caller.Func)) != "parser" {
					okCallers = false
				}
			}
		}
		if okCallers {
			dc.s.OK(dc.rule, key, m.Pos(fn.Pos()), "sub-block parser (its block is closed by the caller's @end); every caller is checked as an opener")
		} else {
			dc.s.Undecided(dc.rule, key, m.Pos(fn.Pos()), "sub-block parser with callers outside the parser package")
		}
	}
	if n == 0 {
		dc.s.Undecided(dc.rule, "block-openers", "-", "no function calls parseBlockStmt")
	}
}

// entryClosers: constructs entered on an opening token must see their closer.
func (dc *delimCtx) entryClosers() {
	m := dc.m
	tv := dc.pm.tokVal
	type ent struct {
		what   string
		fn     *ssa.Function
		closer string
	}
	var ents []ent
	if h := dc.pm.prefix["LPAREN"]; h != nil {
		ents = append(ents, ent{"grouped expression \"(\"", h.fn, "RPAREN"})
	}
	if h := dc.pm.prefix["LBRACKET"]; h != nil {
		ents = append(ents, ent{"array literal \"[\"", h.fn, "RBRACKET"})
	}
	if h := dc.pm.infix["LBRACKET"]; h != nil {
		ents = append(ents, ent{"index expression \"[\"", h.fn, "RBRACKET"})
	}
	if h := dc.pm.prefix["LBRACE"]; h != nil {
		ents = append(ents, ent{"object literal \"{\"", h.fn, "RBRACE"})
	}
	if h := dc.pm.infix["QUESTION"]; h != nil {
		ents = append(ents, ent{"ternary \"?\"", h.fn, "COLON"})
	}
	// embedded code: what parseStatement calls first when the current token is "{{"
	// (evaluated by constant propagation of the token type through the dispatch, whatever its shape)
	if ps := m.Method("parser", "Parser", "parseStatement"); ps != nil {
		if fn := m.firstParserCall(ps, tv["LBRACES"], dc.pm); fn != nil {
			ents = append(ents, ent{"embedded code \"{{\"", fn, "RBRACES"})
		}
	}
	// the list parser itself requires the end token it is given: the constructs above count a call of it with their
	// closer as the point where the closer is required
	if pel := m.Method("parser", "Parser", "parseExpressionList"); pel != nil && pel.Blocks != nil {
		idx := -1
		for i, q := range pel.Params {
			if strings.HasSuffix(q.Type().String(), "token.TokenType") {
				idx = i
			}
		}
		key := fnKey(pel) + "|an expression list requires the end token it is given"
		switch {
		case idx < 0:
			dc.s.Undecided(dc.rule, key, m.Pos(pel.Pos()), "no token parameter found")
		case dc.paramCloser(pel, idx):
			dc.s.OK(dc.rule, key, m.Pos(pel.Pos()), "every successful return lies behind the success edge of an expect function called with that parameter")
		default:
			dc.s.Violation(dc.rule, key, m.Pos(pel.Pos()), "%s can return a list without having required its end token (a return on another condition, e.g. at the end of the input): a directive or a literal cut off inside its list is accepted without an error", fnKey(pel))
		}
	}
	seenLB := false
	for _, e := range ents {
		if e.closer == "RBRACES" {
			seenLB = true
		}
		ci := dc.closerInfo(tv[e.closer])
		key := fmt.Sprintf("%s|%s requires its closer %s", fnKey(e.fn), e.what, e.closer)
		if dc.escapes(ci, e.fn, e.fn.Blocks[0], 0) {
			dc.s.Violation(dc.rule, key, m.Pos(e.fn.Pos()), "%s (%s) can return successfully without a point where %s is required or seen: a template truncated inside this construct is accepted without an error", fnKey(e.fn), e.what, e.closer)
		} else {
			dc.s.OK(dc.rule, key, m.Pos(e.fn.Pos()), "every path to a successful return passes a point where %s is required or seen", e.closer)
		}
	}
	if !seenLB {
		dc.s.Undecided(dc.rule, "embedded-code entry", "-", "the parseStatement case for LBRACES was not found")
	}
}

// lexerScanners: functions that scan to a terminator or to end of input must
// return a bool that is false (or not constant true) on the end-of-input
// exit, and every caller must map the false outcome to an ILLEGAL token.
func (dc *delimCtx) lexerScanners() {
	m := dc.m
	tv := dc.pm.tokVal
	newTok := m.Method("lexer", "Lexer", "newToken")
	n := 0
	for _, name := range []string{"readString", "skipComment"} {
		fn := m.Method("lexer", "Lexer", name)
		key := "lexer.(*Lexer)." + name + "|reports end of input before the terminator"
		if fn == nil {
			dc.s.Undecided(dc.rule, key, "-", "scanner %s not found (anchor of C08)", name)
			continue
		}
		n++
		res := fn.Signature.Results()
		bi := -1
		for i := 0; i < res.Len(); i++ {
			if isBoolT(res.At(i).Type()) {
				bi = i
			}
		}
		// the verdict may also be the type of the token to build: ILLEGAL on the end-of-input exit
		tokTypeVerdict := false
		if bi < 0 {
			for i := 0; i < res.Len(); i++ {
				if nt, ok := res.At(i).Type().(*types.Named); ok && nt.Obj().Name() == "TokenType" && nt.Obj().Pkg() != nil && shortPkg(nt.Obj().Pkg().Path()) == "token" {
					bi, tokTypeVerdict = i, true
				}
			}
		}
		if bi < 0 {
			dc.s.Violation(dc.rule, key, m.Pos(fn.Pos()), "%s scans until its terminator or the end of the input but returns nothing that tells the two apart: an unterminated construct is accepted silently", fnKey(fn))
			continue
		}
		// evaluate returns reachable with l.char == 0 from each loop header
		pc := &progressCtx{m: m}
		verdict := ""
		for _, li := range naturalLoops(fn) {
			if finiteIdiom(li) != "" {
				continue
			}
			ev := pc.lexEvalAfter(0, li)
			rets := returnsInState(li, ev)
			for _, r := range rets {
				v := r.Results[bi]
				if tokTypeVerdict {
					if c, ok := v.(*ssa.Const); !ok || c.Value == nil || c.Int64() != tv["ILLEGAL"] {
						verdict = fmt.Sprintf("returns the token type %s at %s on the path where the loop ends because the input ended, not ILLEGAL", valueDesc(v), m.InstrPos(r))
					}
					continue
				}
				if c, ok := v.(*ssa.Const); ok && c.Value != nil {
					if constant.BoolVal(c.Value) {
						verdict = fmt.Sprintf("returns constant true at %s on the path where the loop ends because the input ended", m.InstrPos(r))
					}
					continue
				}
				known, val := evalCond(v, ev, r.Block())
				if known && val {
					verdict = fmt.Sprintf("returns true at %s on the path where the loop ends because the input ended", m.InstrPos(r))
				}
				if !known {
					// accepted idiom: a comparison of the current character (after the loop) with the delimiter
					if bo, ok := v.(*ssa.BinOp); !ok || bo.Op != token.EQL || !(isCharLoad(bo.X) || isCharLoad(bo.Y)) {
						verdict = fmt.Sprintf("the value returned at %s on the end-of-input path is neither false nor a comparison of the current character with the delimiter", m.InstrPos(r))
					}
				}
			}
		}
		if verdict != "" {
			dc.s.Violation(dc.rule, key, m.Pos(fn.Pos()), "%s %s: an unterminated construct is reported as terminated", fnKey(fn), verdict)
		} else {
			dc.s.OK(dc.rule, key, m.Pos(fn.Pos()), "on the end-of-input exit of its scanning loop the bool result is false or `char == delimiter` evaluated at char == 0")
		}
		// callers
		node := m.CG.Nodes[fn]
		if node == nil || len(node.In) == 0 {
			dc.s.Undecided(dc.rule, key+" (callers)", "-", "no caller of %s found", fnKey(fn))
			continue
		}
		for _, e := range node.In {
			call, ok := e.Site.(*ssa.Call)
			if !ok {
				continue
			}
			ck := fmt.Sprintf("%s|unterminated result of %s becomes ILLEGAL", fnKey(e.Caller.Func), name)
			var bv ssa.Value = call
			if res.Len() > 1 {
				bv = nil
				for _, r := range *call.Referrers() {
					if ex, ok := r.(*ssa.Extract); ok && ex.Index == bi {
						bv = ex
					}
				}
			}
			okIllegal := false
			if bv != nil && tokTypeVerdict {
				// the verdict is the token's type: it is what newToken is given
				for _, r := range *bv.Referrers() {
					if c, isC := r.(*ssa.Call); isC && c.Call.StaticCallee() == newTok && len(c.Call.Args) > 1 && c.Call.Args[1] == bv {
						okIllegal = true
					}
				}
				if okIllegal {
					dc.s.OK(dc.rule, ck, m.InstrPos(call), "the token type %s returns is the type newToken is given", name)
					continue
				}
			}
			if bv != nil {
				for _, blk := range failureTargets(bv) {
					// the failure block (or its successors up to a return) builds an ILLEGAL token
					if buildsIllegal(blk, newTok, tv["ILLEGAL"]) {
						okIllegal = true
					}
				}
			}
			if okIllegal {
				dc.s.OK(dc.rule, ck, m.InstrPos(call), "the false outcome leads to newToken(ILLEGAL, ...)")
			} else {
				dc.s.Violation(dc.rule, ck, m.InstrPos(call), "%s ignores (or does not map to an ILLEGAL token) the result of %s that says the input ended before the terminator: an unterminated string/comment is accepted", fnKey(e.Caller.Func), name)
			}
		}
	}
	if n == 0 {
		dc.s.Undecided(dc.rule, "lexer scanners", "-", "neither readString nor skipComment found")
	}
}

func isCharLoad(v ssa.Value) bool {
	_, p, ok := pathOf(v)
	return ok && p == ".char"
}

func failureTargets(v ssa.Value) []*ssa.BasicBlock {
	var out []*ssa.BasicBlock
	var walk func(x ssa.Value, want bool, d int)
	walk = func(x ssa.Value, want bool, d int) {
		if d > 3 || x.Referrers() == nil {
			return
		}
		for _, r := range *x.Referrers() {
			switch u := r.(type) {
			case *ssa.If:
				if want {
					out = append(out, u.Block().Succs[0])
				} else {
					out = append(out, u.Block().Succs[1])
				}
			case *ssa.UnOp:
				if u.Op == token.NOT {
					walk(u, !want, d+1)
				}
			}
		}
	}
	walk(v, false, 0)
	return out
}

func buildsIllegal(b *ssa.BasicBlock, newTok *ssa.Function, illegal int64) bool {
	seen := map[*ssa.BasicBlock]bool{}
	stack := []*ssa.BasicBlock{b}
	for len(stack) > 0 {
		x := stack[len(stack)-1]
		stack = stack[:len(stack)-1]
		if seen[x] || len(seen) > 6 {
			continue
		}
		seen[x] = true
		for _, in := range x.Instrs {
			if call, ok := in.(*ssa.Call); ok && call.Call.StaticCallee() != nil {
				sc := call.Call.StaticCallee()
				if sc == newTok && len(call.Call.Args) > 1 {
					if k, ok := call.Call.Args[1].(*ssa.Const); ok && k.Value != nil && k.Int64() == illegal {
						return true
					}
				}
				if canonFnName(sc) == "illegalToken" {
					return true
				}
			}
		}
		if _, isJump := x.Instrs[len(x.Instrs)-1].(*ssa.Jump); isJump {
			stack = append(stack, x.Succs...)
		}
	}
	return false
}

// lexEvalAfter: like lexEval, but only loads of l.char executed inside or after
// the loop are known to be c; loads that happened before the loop are unknown.
func (pc *progressCtx) lexEvalAfter(c int64, li *loopInfo) condEval {
	base := pc.lexEvalFiltered(c, func(in ssa.Instruction) bool {
		b := in.Block()
		if li.body[b] {
			return true
		}
		// after the loop: reachable from the header
		return pc.m.Ctx(li.fn).reach[li.header][b]
	})
	return base
}

// returnsInState: the Return instructions reachable from the loop header when
// conditions are evaluated in the given state (following only feasible edges).
func returnsInState(li *loopInfo, ev condEval) []*ssa.Return {
	var out []*ssa.Return
	seen := map[*ssa.BasicBlock]bool{}
	stack := []*ssa.BasicBlock{li.header}
	for len(stack) > 0 {
		b := stack[len(stack)-1]
		stack = stack[:len(stack)-1]
		if seen[b] {
			continue
		}
		seen[b] = true
		switch t := b.Instrs[len(b.Instrs)-1].(type) {
		case *ssa.Return:
			out = append(out, t)
		case *ssa.If:
			known, val := evalCond(t.Cond, ev, b)
			if !known {
				// `l.char == quote` with quote the character the scanner started on (loaded before the loop): at the
				// end of the input the current character is NUL, the delimiter a byte that was read
				if bo, ok := t.Cond.(*ssa.BinOp); ok && (bo.Op == token.EQL || bo.Op == token.NEQ) {
					for _, pair := range [][2]ssa.Value{{bo.X, bo.Y}, {bo.Y, bo.X}} {
						ld, isLd := pair[1].(*ssa.UnOp)
						if isCharLoad(pair[0]) && li.body[pair[0].(ssa.Instruction).Block()] && isLd && isCharLoad(ld) && !li.body[ld.Block()] {
							known, val = true, bo.Op == token.NEQ
						}
					}
				}
			}
			if known {
				if val {
					stack = append(stack, b.Succs[0])
				} else {
					stack = append(stack, b.Succs[1])
				}
			} else {
				stack = append(stack, b.Succs...)
			}
		default:
			stack = append(stack, b.Succs...)
		}
	}
	return out
}

var _ = strings.TrimSpace

// firstParserCall: the first parser-package function that fn calls when the current token has type cur
// (nil if the dispatch cannot be evaluated or calls nothing).
func (m *Model) firstParserCall(fn *ssa.Function, cur int64, pm *prattModel) *ssa.Function {
	ip := m.parserInterp(cur, -1, pm.precLit, nil)
	var first *ssa.Function
	ip.event = func(c ssa.CallInstruction, depth int) bool {
		sc := c.Common().StaticCallee()
		if depth == 0 && sc != nil && shortPkg(fnPkgPath(sc)) == "parser" && sc.Signature.Results().Len() == 1 && !isBoolT(sc.Signature.Results().At(0).Type()) {
			first = sc
			return true
		}
		return false
	}
	args := make([]any, len(fn.Params))
	ip.Run(fn, args)
	return first
}

// RunBraceCount: the lexer tells the `}}` that ends embedded code from two closing braces of nested object literals
// by a nesting counter. Where a function builds the `{` token (newToken with the constant LBRACE) a store "counter + 1"
// into a field of the lexer happens on every path to it, and "counter − 1" where it builds `}` — not only in one
// mode: the arguments of a directive are object literals too (`@component("c", {a: {b: 1}})` ends with `}})`).
func (m *Model) RunBraceCount(s *Sink, rule string) {
	newTok := m.Method("lexer", "Lexer", "newToken")
	if newTok == nil {
		s.Undecided(rule, "lexer.newToken", "-", "not found")
		return
	}
	n := 0
	for _, fn := range m.ModFns {
		if fn.Blocks == nil || shortPkg(fnPkgPath(fn)) != "lexer" {
			continue
		}
		ctx := m.Ctx(fn)
		for _, b := range fn.Blocks {
			for _, in := range b.Instrs {
				c, ok := in.(*ssa.Call)
				if !ok || c.Call.StaticCallee() != newTok || len(c.Call.Args) < 2 {
					continue
				}
				k, isK := c.Call.Args[1].(*ssa.Const)
				if !isK || k.Value == nil {
					continue
				}
				name := tokenConstNames[k.Int64()]
				want := 0
				switch name {
				case "LBRACE":
					want = 1
				case "RBRACE":
					want = -1
				default:
					continue
				}
				// the counter steps of this function
				var any, dominating bool
				for _, sb := range fn.Blocks {
					for _, si := range sb.Instrs {
						st, isSt := si.(*ssa.Store)
						if !isSt {
							continue
						}
						fa, isFA := st.Addr.(*ssa.FieldAddr)
						if !isFA || !strings.HasSuffix(derefTypeString(fa.X.Type()), "lexer.Lexer") {
							continue
						}
						bo, isBo := st.Val.(*ssa.BinOp)
						if !isBo || (bo.Op != token.ADD && bo.Op != token.SUB) {
							continue
						}
						kk, isKK := bo.Y.(*ssa.Const)
						if !isKK || kk.Value == nil || kk.Int64() != 1 {
							continue
						}
						if _, p, okP := pathOf(bo.X); !okP || p != "."+fieldName(fa.X.Type(), fa.Field) {
							continue
						}
						step := 1
						if bo.Op == token.SUB {
							step = -1
						}
						if step != want {
							continue
						}
						any = true
						if ctx.instrDominates(st, c) || st.Block() == c.Block() {
							dominating = true // before the token is built, or right after it in the same straight line
						}
					}
				}
				if !any {
					continue // the nesting is kept elsewhere (by the caller, by a merged function): not this rule's shape
				}
				n++
				key := fmt.Sprintf("%s|the nesting counter is stepped for every %s", fnKey(fn), name)
				if dominating {
					s.OK(rule, key, m.InstrPos(c), "a step of %+d dominates the construction of the token", want)
				} else {
					s.Violation(rule, key, m.InstrPos(c), "%s builds the %s token on a path that does not step the nesting counter (the step is made under a condition): in the mode that is skipped — the arguments of a directive are object literals too — the closing braces of a nested object (`}})` ) are taken for the `}}` that ends embedded code, and a correct template is rejected", fnKey(fn), name)
				}
			}
		}
	}
	s.Note(rule, "brace tokens built next to a counter step", "-", "%d", n)
}
