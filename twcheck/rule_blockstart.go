package main

// rule_blockstart.go — R-BLOCKSTART (C02, C03): a body that is empty is an empty body.
//
// The parser functions that parse the body of @if / @elseif / @else / @for / @each (found by what receives their
// result: IfStmt.Consequence/Alternative, ElseIfStmt.Consequence, ForStmt/EachStmt.Block/Alternative) are evaluated on
// an abstract parser whose current token, next token and the tokens the lexer yields afterwards are named unknowns
// (token types only). Whenever the evaluation branches on one of them, that unknown is enumerated over every token
// type. What is observed: the token the parser stands on each time the statement parser is called. If that token can
// be @else or @elseif, the closer of an empty body is taken for a statement of the body and everything up to the next
// closer — the following branch — is merged into it: `@if(c)@else B@end` renders B exactly when c is truthy.

import (
	"fmt"
	"go/constant"
	"go/token"
	"go/types"
	"sort"
	"strings"

	"golang.org/x/tools/go/ssa"
)

type parserCase struct {
	assign   map[string]int64 // c0 (current), p0 (next), t1, t2, ...: token types fixed so far
	events   []int64          // token type under the parser at each call of the statement parser (-1 unknown)
	returned bool
	stuck    string
}

// parserCases evaluates fn on the abstract parser for every combination of the token types it actually looks at
// (at most maxVars of them per case).
func (m *Model) parserCases(fn *ssa.Function, tokVals []int64, maxVars, maxCases int, visit func(parserCase)) string {
	parT := m.namedType("parser", "Parser")
	tokT := m.namedType("token", "Token")
	ps := m.Method("parser", "Parser", "parseStatement")
	nt := m.Method("lexer", "Lexer", "NextToken")
	if parT == nil || tokT == nil || ps == nil || nt == nil {
		return "parser.Parser / token.Token / parseStatement / Lexer.NextToken not found"
	}
	fieldIdx := func(t *types.Named, name string) int {
		st := t.Underlying().(*types.Struct)
		for i := 0; i < st.NumFields(); i++ {
			if canonFieldName(t, i, st.Field(i).Name()) == name {
				return i
			}
		}
		return -1
	}
	fCur, fPeek, fType := fieldIdx(parT, "curToken"), fieldIdx(parT, "peekToken"), fieldIdx(tokT, "Type")
	if fCur < 0 || fPeek < 0 || fType < 0 {
		return "fields curToken / peekToken / Type not found"
	}
	leafOf := func(c iSym) string {
		var walk func(v any) string
		walk = func(v any) string {
			s, ok := v.(iSym)
			if !ok {
				return ""
			}
			if s.name != "" {
				return s.name
			}
			if l := walk(s.x); l != "" {
				return l
			}
			return walk(s.y)
		}
		return walk(c)
	}
	n := 0
	var rec func(assign map[string]int64) string
	rec = func(assign map[string]int64) string {
		n++
		if n > maxCases {
			return "too many cases"
		}
		mkTok := func(name string) *iStruct {
			t := &iStruct{typ: tokT, val: true, fields: map[int]any{}}
			if v, ok := assign[name]; ok {
				t.fields[fType] = constant.MakeInt64(v)
			} else {
				t.fields[fType] = iSym{name: name}
			}
			return t
		}
		p := &iStruct{typ: parT, fields: map[int]any{fCur: mkTok("c0"), fPeek: mkTok("p0")}}
		pc := parserCase{assign: assign}
		need := ""
		lexed := 0
		ip := &Interp{m: m, useGlobals: true}
		ip.branch = func(c iSym, _ *ssa.If) (bool, bool) {
			if need == "" {
				need = leafOf(c)
			}
			return false, false
		}
		ip.call = func(c *ssa.Call, args []any) (any, bool) {
			// the next token from the source: the lexer's NextToken, directly or through an interface the parser holds
			isNext := c.Call.StaticCallee() == nt
			if c.Call.IsInvoke() && len(args) > 0 {
				if res := c.Call.Signature().Results(); res.Len() == 1 && types.Identical(res.At(0).Type(), tokT) && c.Call.Signature().Params().Len() == 0 {
					isNext = true
				}
			}
			if isNext {
				lexed++
				return mkTok(fmt.Sprintf("t%d", lexed)), true
			}
			switch c.Call.StaticCallee() {
			case ps:
				cur := int64(-1)
				if ct, ok := p.fields[fCur].(*iStruct); ok {
					if k, isK := ct.fields[fType].(constant.Value); isK {
						cur, _ = constant.Int64Val(k)
					}
				}
				pc.events = append(pc.events, cur)
				// the statement parser moves on by an unknown number of tokens
				lexed += 100
				p.fields[fCur], p.fields[fPeek] = mkTok(fmt.Sprintf("t%d", lexed+1)), mkTok(fmt.Sprintf("t%d", lexed+2))
				lexed += 2
				return nil, true
			}
			return nil, false
		}
		args := make([]any, len(fn.Params))
		args[0] = p
		_, _ = ip.Run(fn, args)
		pc.stuck = ip.stuck
		pc.returned = ip.stuck == ""
		if need != "" && len(pc.events) == 0 && !pc.returned {
			// the evaluation looked at a token that is not fixed yet: every token type in turn
			if _, fixed := assign[need]; fixed || len(assign) >= maxVars {
				visit(pc)
				return ""
			}
			for _, tv := range tokVals {
				next := map[string]int64{}
				for k, v := range assign {
					next[k] = v
				}
				next[need] = tv
				if why := rec(next); why != "" {
					return why
				}
			}
			return ""
		}
		visit(pc)
		return ""
	}
	return rec(map[string]int64{})
}

func (m *Model) RunBlockStart(s *Sink, rule string) {
	pm := m.extractPratt()
	closers := map[int64]string{}
	for _, n := range []string{"ELSE", "ELSE_IF"} {
		if v, ok := pm.tokVal[n]; ok {
			closers[v] = n
		}
	}
	if len(closers) != 2 {
		s.Undecided(rule, "tokens", "-", "token.ELSE / token.ELSE_IF not found")
		return
	}
	var tokVals []int64
	for v := range pm.tokName {
		tokVals = append(tokVals, v)
	}
	sort.Slice(tokVals, func(i, j int) bool { return tokVals[i] < tokVals[j] })
	// the body parsers: callees whose result is stored into the body fields of the branching and looping statements
	want := map[string]map[string]bool{
		"ast.IfStmt":     {"Consequence": true, "Alternative": true},
		"ast.ElseIfStmt": {"Consequence": true},
		"ast.ForStmt":    {"Block": true, "Alternative": true},
		"ast.EachStmt":   {"Block": true, "Alternative": true},
	}
	type site struct {
		fn   *ssa.Function
		pos  string
		what string
	}
	bodyParsers := map[*ssa.Function][]site{}
	for _, fn := range m.ModFns {
		if fn.Blocks == nil || shortPkg(fnPkgPath(fn)) != "parser" {
			continue
		}
		for _, b := range fn.Blocks {
			for _, in := range b.Instrs {
				st, ok := in.(*ssa.Store)
				if !ok {
					continue
				}
				fa, ok := st.Addr.(*ssa.FieldAddr)
				if !ok {
					continue
				}
				tn := strings.TrimPrefix(derefTypeString(fa.X.Type()), "*")
				if i := strings.LastIndex(tn, "/"); i >= 0 {
					tn = tn[i+1:]
				}
				fname := fieldName(fa.X.Type(), fa.Field)
				if !want[tn][fname] {
					continue
				}
				var srcs []ssa.Value
				var collect func(v ssa.Value, d int)
				collect = func(v ssa.Value, d int) {
					if d > 3 {
						return
					}
					if phi, isPhi := v.(*ssa.Phi); isPhi {
						for _, e := range phi.Edges {
							collect(e, d+1)
						}
						return
					}
					srcs = append(srcs, v)
				}
				collect(st.Val, 0)
				for _, v := range srcs {
					c, isC := v.(*ssa.Call)
					if !isC || c.Call.StaticCallee() == nil || shortPkg(fnPkgPath(c.Call.StaticCallee())) != "parser" {
						continue // an empty block literal, nil, ...
					}
					bodyParsers[c.Call.StaticCallee()] = append(bodyParsers[c.Call.StaticCallee()], site{fn, m.InstrPos(c), tn + "." + fname})
				}
			}
		}
	}
	if len(bodyParsers) == 0 {
		s.Undecided(rule, "body parsers", "-", "no call was found whose result becomes the body of an @if / @elseif / @else / @for / @each")
		return
	}
	var bps []*ssa.Function
	for f := range bodyParsers {
		bps = append(bps, f)
	}
	sort.Slice(bps, func(i, j int) bool { return fnKey(bps[i]) < fnKey(bps[j]) })
	for _, bp := range bps {
		sites := bodyParsers[bp]
		var whats []string
		for _, st := range sites {
			whats = append(whats, st.what)
		}
		whats = dedup(whats)
		sort.Strings(whats)
		key := fnKey(bp) + "|the closer of an empty body is not taken for a statement of the body"
		cases, bad, undec := 0, "", ""
		why := m.parserCases(bp, tokVals, 4, 400000, func(pc parserCase) {
			cases++
			desc := func() string {
				var parts []string
				for _, k := range []string{"c0", "p0", "t1", "t2", "t3"} {
					if v, ok := pc.assign[k]; ok {
						parts = append(parts, map[string]string{"c0": "current token ", "p0": "next token ", "t1": "then ", "t2": "then ", "t3": "then "}[k]+pm.tokName[v])
					}
				}
				return strings.Join(parts, ", ")
			}
			for _, ev := range pc.events {
				if cn, isCloser := closers[ev]; isCloser && bad == "" {
					bad = fmt.Sprintf("with %s the statement parser is called while the parser stands on %s", desc(), cn)
				}
			}
			if len(pc.events) == 0 && !pc.returned && undec == "" {
				undec = fmt.Sprintf("with %s: %s", desc(), pc.stuck)
			}
		})
		switch {
		case why != "":
			s.Undecided(rule, key, m.Pos(bp.Pos()), "%s could not be evaluated on the abstract parser (%s)", fnKey(bp), why)
		case bad != "":
			s.Violation(rule, key, m.Pos(bp.Pos()), "%s parses the body stored into %s; %s: the @else / @elseif that closes an empty body is taken for a statement of that body, and the branch that follows is merged into it (`@if(c)@else B@end` renders B exactly when c is truthy; `@each(x in xs)@else E@end` renders E when xs is not empty)", fnKey(bp), strings.Join(whats, ", "), bad)
		case undec != "":
			s.Undecided(rule, key, m.Pos(bp.Pos()), "%s could not be followed to its first statement or its return (%s)", fnKey(bp), undec)
		default:
			s.OK(rule, key, m.Pos(bp.Pos()), "case evaluation on the abstract parser over every combination of the token types it looks at (%d cases; body of %s): the statement parser is never entered on ELSE or ELSE_IF", cases, strings.Join(whats, ", "))
		}
	}
	_ = token.ADD
}
