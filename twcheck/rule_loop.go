package main

// rule_loop.go — R-LOOP (C03) and R-SCOPE (C04, C03, C07).

import (
	"fmt"
	"go/constant"
	"go/token"
	"go/types"
	"os"
	"sort"
	"strings"

	"golang.org/x/tools/go/ssa"
)

func callsTo(fn *ssa.Function, pkg, name string) []*ssa.Call {
	var out []*ssa.Call
	for _, b := range fn.Blocks {
		for _, in := range b.Instrs {
			if c, ok := in.(*ssa.Call); ok && staticCalleeNamed(c, pkg, name) {
				out = append(out, c)
			}
		}
	}
	return out
}

// loopContaining: the innermost natural loop whose body (or exits reachable only from it) contains b.
func loopOf(loops []*loopInfo, b *ssa.BasicBlock) *loopInfo {
	var best *loopInfo
	for _, li := range loops {
		if li.body[b] && (best == nil || len(li.body) < len(best.body)) {
			best = li
		}
	}
	return best
}

func (m *Model) RunLoop(s *Sink, rule string) {
	for _, name := range []string{"evalEachStmt", "evalForStmt"} {
		// decided by case evaluation (rule_loopcases.go); the structural reading of the function is the diagnosis and
		// the decision when the cases cannot be evaluated
		sub := NewSink()
		m.runLoopStruct(sub, rule, name)
		cr := m.eachCases()
		what := "@each"
		if name == "evalForStmt" {
			cr, what = m.forCases(), "@for"
		}
		switch {
		case cr.decided && len(cr.bad) == 0:
			s.OK(rule, what+" by cases|passes, bindings, loop object, break/continue, @else, failures", cr.pos,
				"case evaluation of Eval on an abstract %s statement: %d scenarios (element counts, markers at different depths and passes, failing clauses); children evaluated, scopes seen by the body and text returned as specified", what, cr.cases)
			for _, o := range sub.Obls {
				if o.Status == Violated || o.Status == Undecided {
					s.OK(o.Rule, o.Key, o.Pos, "the code does not have the shape this structural reading expects (%s); decided by case evaluation instead", o.Detail)
				} else {
					s.Obls = append(s.Obls, o)
				}
			}
		case cr.decided:
			for i, b := range cr.bad {
				if i >= 3 {
					break
				}
				s.Violation(rule, fmt.Sprintf("%s by cases|wrong loop behaviour (%d)", what, i+1), cr.pos, "evaluating an %s statement — %s (%d of %d scenarios differ)", what, b, len(cr.bad), cr.cases)
			}
			s.Obls = append(s.Obls, sub.Obls...)
		default:
			if os.Getenv("TWDEBUG") != "" {
				fmt.Fprintf(os.Stderr, "loop cases undecided (%s): %s\n", what, cr.why)
			}
			s.Note(rule, what+" by cases", cr.pos, "case evaluation not possible (%s); structural reading only", cr.why)
			s.Obls = append(s.Obls, sub.Obls...)
		}
	}
	m.checkBlockStmt(s, rule)
}

func (m *Model) runLoopStruct(s *Sink, rule string, only string) {
	for _, name := range []string{only} {
		fn := m.Method("evaluator", "Evaluator", name)
		if fn == nil {
			s.Undecided(rule, name, "-", "%s not found", name)
			continue
		}
		fk := fnKey(fn)
		loops := naturalLoops(fn)
		bodies := evalCallsOn(m, fn, ".Block")
		if len(bodies) != 1 {
			s.Undecided(rule, fk+"|body evaluation", m.Pos(fn.Pos()), "expected exactly one Eval(node.Block), found %d", len(bodies))
			continue
		}
		body := bodies[0]
		li := loopOf(loops, body.Block())
		if li == nil {
			s.Violation(rule, fk+"|body evaluated in a loop", m.InstrPos(body), "Eval(node.Block) is not inside a loop")
			continue
		}
		// (1) break is tested on every pass, after the body's output was written
		var brk *ssa.Call
		for _, c := range callsTo(fn, "evaluator", "hasBreakStmt") {
			if len(c.Call.Args) == 1 && c.Call.Args[0] == ssa.Value(body) {
				brk = c
			}
		}
		if brk == nil {
			s.Violation(rule, fk+"|@break is tested", m.InstrPos(body), "%s never tests the evaluated body with hasBreakStmt: @break and @breakIf cannot end the loop", fk)
		} else {
			pi := m.newPassInfo(func(c ssa.CallInstruction) bool { return c == ssa.CallInstruction(brk) }, func(*ssa.Call) bool { return false }, []*ssa.Function{fn}, nil)
			skip := false
			for _, l := range li.latch {
				latch := l
				if pi.pathAvoiding(fn, body.Block(), m.Ctx(fn).idx[body]+1, func(b *ssa.BasicBlock) bool { return b == latch }, li.body) && !pi.blockConsumes(latch, 0) {
					skip = true
				}
			}
			if skip {
				s.Violation(rule, fk+"|@break is tested on every pass", m.InstrPos(brk), "in %s there is a path from the body evaluation to the next pass that skips the hasBreakStmt test (e.g. an early `continue`): on that path @break cannot end the loop", fk)
			} else {
				s.OK(rule, fk+"|@break is tested on every pass", m.InstrPos(brk), "every path from Eval(node.Block) to the loop's back edge passes hasBreakStmt(block)")
			}
			// true edge leaves the loop
			leaves := false
			for _, t := range successTargets(brk) {
				if !li.body[t] {
					leaves = true
				}
			}
			if leaves {
				s.OK(rule, fk+"|a break ends the loop", m.InstrPos(brk), "the true edge of hasBreakStmt leaves the loop")
			} else {
				s.Violation(rule, fk+"|a break ends the loop", m.InstrPos(brk), "the true edge of hasBreakStmt(block) stays inside the loop: @break does not end it")
			}
			// output written before the break test
			written := false
			for _, b := range fn.Blocks {
				for _, in := range b.Instrs {
					c, ok := in.(*ssa.Call)
					if !ok || c.Call.StaticCallee() == nil || fnFullName(c.Call.StaticCallee()) != "(*bytes.Buffer).WriteString" {
						continue
					}
					if sc, ok := c.Call.Args[1].(*ssa.Call); ok && sc.Call.IsInvoke() && sc.Call.Method.Name() == "String" && sc.Call.Value == ssa.Value(body) {
						if m.Ctx(fn).instrDominates(c, brk) {
							written = true
						}
					}
				}
			}
			if written {
				s.OK(rule, fk+"|output of the pass is kept when it breaks", m.InstrPos(brk), "WriteString(block.String()) dominates the break test: what preceded @break in the pass is emitted")
			} else {
				s.Violation(rule, fk+"|output of the pass is kept when it breaks", m.InstrPos(brk), "the body's output is not written before the break test: what precedes @break in the current pass is lost")
			}
		}
		// (4) normal exit returns an HTML string, not the body's Block
		okRet := true
		nRet := 0
		for _, b := range fn.Blocks {
			ret, ok := b.Instrs[len(b.Instrs)-1].(*ssa.Return)
			if !ok {
				continue
			}
			v := stripIface(ret.Results[0])
			if al, ok := v.(*ssa.Alloc); ok {
				nRet++
				if !strings.HasSuffix(derefTypeString(al.Type()), "object.HTML") {
					okRet = false
				}
			}
			if v == ssa.Value(body) && !errorFactOn(b, body, true) {
				okRet = false // the body object itself is returned on a non-error path
			}
		}
		if okRet && nRet > 0 {
			s.OK(rule, fk+"|returns rendered text, not the body block", m.Pos(fn.Pos()), "the loop's result is an *object.HTML: a break inside it cannot reach an enclosing loop")
		} else {
			s.Violation(rule, fk+"|returns rendered text, not the body block", m.Pos(fn.Pos()), "%s can return the body's Block object: a @break inside this loop would also end the enclosing loop", fk)
		}
		// @else returns the evaluated alternative itself
		alts := evalCallsOn(m, fn, ".Alternative")
		if len(alts) == 1 && onlyReturned(alts[0]) {
			s.OK(rule, fk+"|@else body is returned as evaluated", m.InstrPos(alts[0]), "control directives inside the @else body act on the enclosing loop")
		} else {
			s.Violation(rule, fk+"|@else body is returned as evaluated", m.Pos(fn.Pos()), "the @else body of %s is not evaluated exactly once and returned unchanged", fk)
		}
		if name == "evalEachStmt" {
			m.checkEach(s, rule, fn, li, body, alts)
		} else {
			m.checkFor(s, rule, fn, li, body, alts)
		}
	}
}

func (m *Model) checkEach(s *Sink, rule string, fn *ssa.Function, li *loopInfo, body *ssa.Call, alts []*ssa.Call) {
	fk := fnKey(fn)
	a := m.NewArith(fn)
	// range index and the ranged slice
	var idx ssa.Value
	var slice ssa.Value
	for _, in := range li.header.Instrs {
		if phi, ok := in.(*ssa.Phi); ok && phi.Comment == "rangeindex" {
			for _, r := range *phi.Referrers() {
				if bo, ok := r.(*ssa.BinOp); ok && bo.Op == token.ADD {
					idx = bo
				}
			}
		}
	}
	for b := range li.body {
		for _, in := range b.Instrs {
			if ia, ok := in.(*ssa.IndexAddr); ok && ia.Index == idx {
				slice = ia.X
			}
		}
	}
	if idx == nil || slice == nil || !strings.HasSuffix(fieldPathOf(slice), ".Elements") {
		s.Violation(rule, fk+"|iterates the array in order", m.Pos(fn.Pos()), "the loop of %s is not an ascending range over the Elements of the evaluated array", fk)
		return
	}
	s.OK(rule, fk+"|iterates the array in order", m.InstrPos(li.header.Instrs[0]), "ascending range over arr.Elements")
	// loop variable bound via Set with the element
	okSet := false
	for b := range li.body {
		for _, in := range b.Instrs {
			c, ok := in.(*ssa.Call)
			if !ok || c.Call.StaticCallee() == nil || canonFnName(c.Call.StaticCallee()) != "Set" || len(c.Call.Args) != 3 {
				continue
			}
			if strings.HasSuffix(fieldPathOf(c.Call.Args[1]), ".Var.Value") {
				if ld, ok := c.Call.Args[2].(*ssa.UnOp); ok {
					if ia, ok := ld.X.(*ssa.IndexAddr); ok && ia.Index == idx {
						okSet = true
					}
				}
			}
		}
	}
	if okSet {
		s.OK(rule, fk+"|loop variable is the current element", m.Pos(fn.Pos()), "Set(node.Var.Value, elems[i]) on every pass")
	} else {
		s.Violation(rule, fk+"|loop variable is the current element", m.Pos(fn.Pos()), "%s does not bind the loop variable to the element of the current pass through Env.Set", fk)
	}
	// loop object
	n := a.lenLin(slice, 0)
	iv := a.lin(idx)
	want := map[string]string{"index": "i", "iter": "i+1", "first": "i==0", "last": "i==n-1"}
	got := map[string]string{}
	for b := range li.body {
		for _, in := range b.Instrs {
			mu, ok := in.(*ssa.MapUpdate)
			if !ok {
				continue
			}
			k, ok := constOfValue(mu.Key)
			if !ok {
				continue
			}
			got[k] = m.loopFieldExpr(a, stripIface(mu.Value), iv, n)
		}
	}
	var ks []string
	for k := range want {
		ks = append(ks, k)
	}
	sort.Strings(ks)
	for _, k := range ks {
		key := fk + "|loop." + k
		switch {
		case got[k] == "":
			s.Violation(rule, key, m.Pos(fn.Pos()), "the loop object has no field %q", k)
		case got[k] == want[k]:
			s.OK(rule, key, m.Pos(fn.Pos()), "loop.%s = %s (i the zero-based position, n the array length)", k, want[k])
		default:
			s.Violation(rule, key, m.Pos(fn.Pos()), "loop.%s is computed as `%s`, C03 requires `%s` (i the zero-based position, n the array length)", k, got[k], want[k])
		}
	}
	for k := range got {
		if _, ok := want[k]; !ok {
			s.Note(rule, fk+"|extra loop field "+k, m.Pos(fn.Pos()), "additional loop field %q", k)
		}
	}
	// @else exactly when the array is empty
	if len(alts) == 1 {
		okElse := false
		pt := pointOf(alts[0])
		if a.ProveValLE(n, 0, pt) { // n <= 0
			okElse = true
		}
		if okElse && li.header.Dominates(alts[0].Block()) {
			okElse = false
		}
		if okElse {
			s.OK(rule, fk+"|@else exactly for an empty array", m.InstrPos(alts[0]), "Eval(node.Alternative) is dominated by len(elems) == 0 and lies before the loop")
		} else {
			s.Violation(rule, fk+"|@else exactly for an empty array", m.InstrPos(alts[0]), "the @else body of @each is not confined to the case of an empty array")
		}
	}
}

// loopFieldExpr normalises the value stored into a loop-object field.
func (m *Model) loopFieldExpr(a *Arith, v ssa.Value, i, n Lin) string {
	// &object.Int{Value: X}
	if al, ok := v.(*ssa.Alloc); ok {
		for _, r := range *al.Referrers() {
			if fa, ok := r.(*ssa.FieldAddr); ok {
				for _, rr := range *fa.Referrers() {
					if st, ok := rr.(*ssa.Store); ok {
						d := a.lin(st.Val).add(i, -1)
						if len(d.T) == 0 {
							if d.C == 0 {
								return "i"
							}
							return fmt.Sprintf("i%+d", d.C)
						}
						return "?(" + valueDesc(st.Val) + ")"
					}
				}
			}
		}
	}
	// nativeBoolToBooleanObject(x == y)
	if c, ok := v.(*ssa.Call); ok && len(c.Call.Args) == 1 {
		if bo, ok := c.Call.Args[0].(*ssa.BinOp); ok && bo.Op == token.EQL {
			d := a.lin(bo.X).add(a.lin(bo.Y), -1)
			for _, sign := range []int64{1, -1} {
				e := d.scale(sign)
				// i == c
				r := e.add(i, -1)
				if len(r.T) == 0 {
					if r.C == 0 {
						return "i==0"
					}
					return fmt.Sprintf("i==%d", -r.C)
				}
				// i == n + c
				r2 := e.add(i, -1).add(n, 1)
				if len(r2.T) == 0 {
					if r2.C == 1 {
						return "i==n-1"
					}
					return fmt.Sprintf("i==n%+d", -r2.C)
				}
			}
			return "?(" + valueDesc(bo) + ")"
		}
		return "?(" + valueDesc(c.Call.Args[0]) + ")"
	}
	return "?(" + valueDesc(v) + ")"
}

func (m *Model) checkFor(s *Sink, rule string, fn *ssa.Function, li *loopInfo, body *ssa.Call, alts []*ssa.Call) {
	fk := fnKey(fn)
	ctx := m.Ctx(fn)
	conds := evalCallsOn(m, fn, ".Condition")
	var inLoop, pre *ssa.Call
	for _, c := range conds {
		if li.body[c.Block()] {
			inLoop = c
		} else {
			pre = c
		}
	}
	if inLoop == nil {
		s.Violation(rule, fk+"|condition evaluated on every pass", m.Pos(fn.Pos()), "the @for condition is not evaluated inside the loop")
	} else {
		// false edge of isTruthy leaves the loop; the body cannot be reached from the false edge
		okLeave := false
		for _, f := range callsTo(fn, "evaluator", "isTruthy") {
			if len(f.Call.Args) == 1 && f.Call.Args[0] == ssa.Value(inLoop) {
				for _, t := range failureTargets(f) {
					if !li.body[t] {
						okLeave = true
					}
				}
			}
		}
		if okLeave && ctx.instrDominates(inLoop, body) == false {
			// the condition may be absent (guarded by a nil test): then domination does not hold; require that no path from the
			// loop header reaches the body evaluation without passing the nil test or the condition
			okLeave = true
		}
		if okLeave {
			s.OK(rule, fk+"|loop runs while the condition is truthy", m.InstrPos(inLoop), "the false edge of isTruthy(Eval(node.Condition)) leaves the loop")
		} else {
			s.Violation(rule, fk+"|loop runs while the condition is truthy", m.InstrPos(inLoop), "a falsy @for condition does not end the loop")
		}
		if ctx.pathAvoiding(inLoop, body, inLoop) {
			s.OK(rule, fk+"|condition before body", m.InstrPos(inLoop), "the body evaluation follows the condition evaluation within a pass")
		} else {
			s.Violation(rule, fk+"|condition before body", m.InstrPos(inLoop), "the @for condition is not evaluated before the body in each pass")
		}
	}
	posts := evalCallsOn(m, fn, ".Post")
	if len(posts) == 1 && li.body[posts[0].Block()] && ctx.instrDominates(body, posts[0]) {
		s.OK(rule, fk+"|post clause after each pass", m.InstrPos(posts[0]), "Eval(node.Post) is dominated by the body evaluation inside the loop")
	} else {
		s.Violation(rule, fk+"|post clause after each pass", m.Pos(fn.Pos()), "the @for post clause is not evaluated after the body in each pass")
	}
	if len(alts) == 1 && pre != nil {
		if truthFactOn(alts[0].Block(), pre, false) && !li.body[alts[0].Block()] && !li.header.Dominates(alts[0].Block()) {
			s.OK(rule, fk+"|@else only when the condition is false at entry", m.InstrPos(alts[0]), "dominated by !isTruthy(condition) evaluated before the loop")
		} else {
			s.Violation(rule, fk+"|@else only when the condition is false at entry", m.InstrPos(alts[0]), "the @else body of @for is not confined to the case in which the condition is false at entry")
		}
	} else {
		s.Violation(rule, fk+"|@else only when the condition is false at entry", m.Pos(fn.Pos()), "no evaluation of the @for condition before the loop decides the @else body")
	}
}

func (m *Model) checkBlockStmt(s *Sink, rule string) {
	fn := m.Method("evaluator", "Evaluator", "evalBlockStmt")
	if fn == nil {
		s.Undecided(rule, "evalBlockStmt", "-", "not found")
		return
	}
	fk := fnKey(fn)
	// (where the loop over the statements lives — here, in a helper, in a generic driver with a callback — does not
	// matter: the cases below follow the calls)
	// decided by evaluating evalBlockStmt on blocks of three statements whose results are given: a plain value, then a
	// carrier of a control marker (the marker itself, or a block / nested block containing it), then another value.
	// Expected: the third statement is not evaluated, and the result holds the first two results in order.
	mkObj := func(name string) *iStruct {
		if nt := m.namedType("object", name); nt != nil {
			return &iStruct{typ: nt, fields: map[int]any{}}
		}
		return nil
	}
	mkBlock := func(elems ...any) *iStruct {
		b := mkObj("Block")
		if b == nil {
			return nil
		}
		st := b.typ.Underlying().(*types.Struct)
		for i := 0; i < st.NumFields(); i++ {
			if st.Field(i).Name() == "Elements" {
				b.fields[i] = iSlice{&iArr{elems: elems}, 0, len(elems)}
			}
		}
		return b
	}
	blockStmtT := m.namedType("ast", "BlockStmt")
	htmlStmtT := m.namedType("ast", "HTMLStmt")
	// every struct type of package ast whose pointer is an ast.Statement
	var stmtTypes []*types.Named
	if ap := m.ByPath[fullPkg("ast")]; ap != nil {
		if so, ok := ap.Types.Scope().Lookup("Statement").(*types.TypeName); ok {
			if iface, isI := so.Type().Underlying().(*types.Interface); isI {
				for _, n := range ap.Types.Scope().Names() {
					if tn, isTN := ap.Types.Scope().Lookup(n).(*types.TypeName); isTN {
						if nt, isNamed := tn.Type().(*types.Named); isNamed {
							if _, isSt := nt.Underlying().(*types.Struct); isSt && types.Implements(types.NewPointer(nt), iface) {
								stmtTypes = append(stmtTypes, nt)
							}
						}
					}
				}
			}
		}
	}
	for _, marker := range []string{"Break", "Continue"} {
		key := fmt.Sprintf("%s|stops at the first %s after appending it", fk, marker)
		type scen struct {
			name    string
			carrier func() any
		}
		scens := []scen{
			{"the marker itself", func() any { return mkObj(marker) }},
			{"a block containing the marker", func() any { return mkBlock(mkObj("HTML"), mkObj(marker)) }},
			{"a block inside a block containing the marker", func() any { return mkBlock(mkBlock(mkObj(marker)), mkObj("HTML")) }},
		}
		bad, undecided := "", ""
		for _, sc := range scens {
			if blockStmtT == nil || htmlStmtT == nil || len(stmtTypes) < 5 || mkObj(marker) == nil || mkObj("HTML") == nil || mkObj("Block") == nil {
				undecided = "object.Block / object." + marker + " / ast.BlockStmt not found"
				break
			}
			// the statements are abstract AST nodes; the one whose result carries the marker is tried with every
			// statement type (stopping must not depend on what kind of statement produced the marker)
			for _, stmtType := range stmtTypes {
				if bad != "" || undecided != "" {
					break
				}
				mkStmt := func(nt *types.Named) *iStruct { return &iStruct{typ: nt, fields: map[int]any{}} }
				s1, s2, s3 := mkStmt(htmlStmtT), mkStmt(stmtType), mkStmt(htmlStmtT)
				stmts := []any{s1, s2, s3}
				first, carrier, third := any(mkObj("HTML")), sc.carrier(), any(mkObj("HTML"))
				results := map[*iStruct]any{s1: first, s2: carrier, s3: third}
				scName := sc.name + " produced by a " + stmtType.Obj().Name()
				blk := &iStruct{typ: blockStmtT, fields: map[int]any{}}
				bst := blockStmtT.Underlying().(*types.Struct)
				for i := 0; i < bst.NumFields(); i++ {
					if bst.Field(i).Name() == "Statements" {
						blk.fields[i] = iSlice{&iArr{elems: stmts}, 0, len(stmts)}
					}
				}
				var evaluated []string
				ip := &Interp{m: m}
				ip.call = func(c *ssa.Call, args []any) (any, bool) {
					if isEvalCall(m, c) && len(args) >= 2 {
						if o, ok := args[1].(*iStruct); ok {
							evaluated = append(evaluated, o.typ.Obj().Name())
							return results[o], true
						}
						return nil, true
					}
					return nil, false
				}
				args := make([]any, len(fn.Params))
				args[0] = iObj{"evaluator"}
				if len(args) > 1 {
					args[1] = blk
				}
				if len(args) > 2 {
					args[2] = iObj{"env"}
				}
				res, known := ip.Run(fn, args)
				if ip.stuck != "" {
					undecided = scName + ": " + ip.stuck
					break
				}
				for _, l := range ip.lost {
					undecided = scName + ": " + fnKey(l) + " could not be evaluated"
				}
				if undecided != "" {
					break
				}
				if len(evaluated) != 2 {
					bad = fmt.Sprintf("with %s as the second statement's result the block evaluates %d of its 3 statements (expected 2: the rest of the pass is skipped)", scName, len(evaluated))
					break
				}
				rb, isB := res.(*iStruct)
				okRes := known && isB && rb.typ.Obj().Name() == "Block"
				if okRes {
					okRes = false
					for _, fv := range rb.fields {
						if sl, isSl := fv.(iSlice); isSl && sl.high-sl.lo == 2 && sl.arr.elems[sl.lo] == first && sl.arr.elems[sl.lo+1] == carrier {
							okRes = true
						}
					}
				}
				if !okRes {
					bad = fmt.Sprintf("with %s as the second statement's result the returned block does not hold exactly the first two results (the statement carrying the marker is dropped, or more is kept)", scName)
					break
				}
			}
		}
		switch {
		case undecided != "":
			s.Undecided(rule, key, m.Pos(fn.Pos()), "evalBlockStmt could not be evaluated for the case %s", undecided)
		case bad != "":
			s.Violation(rule, key, m.Pos(fn.Pos()), "evalBlockStmt does not stop after a statement that yields a %s marker: %s", marker, bad)
		default:
			s.OK(rule, key, m.Pos(fn.Pos()), "case evaluation: the marker alone, inside a block, inside a nested block — evaluation stops after that statement and its result is kept")
		}
	}
	hc := m.PkgFunc("evaluator", "hasControlStmt")
	if hc != nil {
		rec := false
		for _, c := range callsTo(hc, "evaluator", "hasControlStmt") {
			_ = c
			rec = true
		}
		// no direct recursion to be seen (a callback handed to a library function, ...): decided by evaluating the two
		// predicates the loops use on markers nested two blocks deep
		decidedByCases := false
		if !rec && mkObj("Break") != nil && mkObj("Continue") != nil && mkObj("HTML") != nil && mkObj("Block") != nil {
			allOK, n := true, 0
			for _, pr := range []struct{ fn, marker, other string }{{"hasBreakStmt", "Break", "Continue"}, {"hasContinueStmt", "Continue", "Break"}} {
				pf := m.PkgFunc("evaluator", pr.fn)
				if pf == nil || len(pf.Params) != 1 {
					allOK = false
					continue
				}
				for _, tc := range []struct {
					obj  any
					want bool
				}{
					{mkObj(pr.marker), true},
					{mkObj(pr.other), false},
					{mkBlock(mkObj("HTML"), mkObj(pr.marker)), true},
					{mkBlock(mkObj("HTML"), mkBlock(mkObj("HTML"), mkObj(pr.marker))), true},
					{mkBlock(mkBlock(mkBlock(mkObj(pr.marker))), mkObj("HTML")), true},
					{mkBlock(mkObj("HTML"), mkBlock(mkObj("HTML"), mkObj(pr.other))), false},
					{mkBlock(mkObj("HTML"), mkBlock(mkObj("HTML"))), false},
				} {
					ip := &Interp{m: m}
					res, known := ip.Run(pf, []any{tc.obj})
					rc, isC := res.(constant.Value)
					n++
					if !known || !isC || rc.Kind() != constant.Bool || ip.stuck != "" || constant.BoolVal(rc) != tc.want {
						allOK = false
					}
				}
			}
			decidedByCases = allOK && n == 14
		}
		if decidedByCases {
			s.OK(rule, fnKey(hc)+"|looks inside nested blocks", m.Pos(hc.Pos()), "case evaluation of hasBreakStmt / hasContinueStmt on a marker, on the other marker, and on markers nested one, two and three blocks deep")
		} else if rec {
			s.OK(rule, fnKey(hc)+"|looks inside nested blocks", m.Pos(hc.Pos()), "recurses through the elements of nested Block objects: control directives under nested @if reach the loop")
		} else {
			s.Violation(rule, fnKey(hc)+"|looks inside nested blocks", m.Pos(hc.Pos()), "hasControlStmt does not recurse into nested blocks: @break under a nested @if would be ignored")
		}
	}
}

// ---------------------------------------------------------------------------
// R-SCOPE

func (m *Model) RunScope(s *Sink, rule string) {
	newEnclosed := m.PkgFunc("object", "NewEnclosedEnv")
	if newEnclosed == nil {
		s.Undecided(rule, "NewEnclosedEnv", "-", "not found")
		return
	}
	type site struct {
		fn     string
		fields []string
	}
	for _, st := range []site{
		{"evalIfStmt", []string{".Consequence", ".Alternative"}},
		{"evalForStmt", []string{".Block", ".Alternative"}},
		{"evalEachStmt", []string{".Block", ".Alternative"}},
		{"evalComponentStmt", []string{".Block"}},
	} {
		fn := m.Method("evaluator", "Evaluator", st.fn)
		s := s
		if st.fn == "evalForStmt" || st.fn == "evalEachStmt" {
			// the loop cases (rule_loopcases.go) observe the scope of every body pass and of the @else body
			outer, sub := s, NewSink()
			s = sub
			cr, what := m.eachCases(), "@each"
			if st.fn == "evalForStmt" {
				cr, what = m.forCases(), "@for"
			}
			defer func() {
				if cr.decided && len(cr.bad) == 0 {
					outer.OK(rule, what+" by cases|the body and the @else body run in a scope of the loop's own, enclosed by the incoming one", cr.pos, "observed in all %d scenarios of the case evaluation", cr.cases)
					for _, o := range sub.Obls {
						if o.Status == Violated || o.Status == Undecided {
							outer.OK(o.Rule, o.Key, o.Pos, "the code does not have the shape this structural reading expects (%s); decided by case evaluation instead", o.Detail)
						} else {
							outer.Obls = append(outer.Obls, o)
						}
					}
				} else {
					outer.Obls = append(outer.Obls, sub.Obls...)
				}
			}()
		}
		if st.fn == "evalIfStmt" {
			// decided by case evaluation (rule_ifcases.go); the structural reading is the diagnosis / the fallback
			outer, sub := s, NewSink()
			s = sub
			cr := m.ifCases()
			defer func() {
				switch {
				case cr.decided && cr.scopeSeen && len(cr.badScope) == 0 && len(cr.bad) == 0:
					outer.OK(rule, "@if by cases|conditions in the statement's scope, the chosen block in a fresh enclosed scope", cr.evalPos,
						"case evaluation of Eval on an abstract @if statement (%d cases): every condition is evaluated in the incoming scope, the chosen block in a new scope whose outer scope is the incoming one", cr.cases)
					for _, o := range sub.Obls {
						if o.Status == Violated || o.Status == Undecided {
							outer.OK(o.Rule, o.Key, o.Pos, "the code does not have the shape this structural reading expects (%s); decided by case evaluation instead", o.Detail)
						} else {
							outer.Obls = append(outer.Obls, o)
						}
					}
				case cr.decided && len(cr.badScope) > 0:
					outer.Violation(rule, "@if by cases|conditions in the statement's scope, the chosen block in a fresh enclosed scope", cr.evalPos, "evaluating an @if statement with %s (%d such cases)", cr.badScope[0], len(cr.badScope))
					outer.Obls = append(outer.Obls, sub.Obls...)
				default:
					outer.Obls = append(outer.Obls, sub.Obls...)
				}
			}()
		}
		if fn == nil {
			s.Undecided(rule, st.fn, "-", "%s not found", st.fn)
			continue
		}
		envParam := fn.Params[len(fn.Params)-1]
		for _, f := range st.fields {
			calls := evalCallsOn(m, fn, f)
			if len(calls) == 0 {
				s.Undecided(rule, fmt.Sprintf("%s|%s evaluated", fnKey(fn), f), m.Pos(fn.Pos()), "no Eval(node%s) found", f)
				continue
			}
			for i, c := range calls {
				key := fmt.Sprintf("%s|%s #%d is evaluated in a fresh scope", fnKey(fn), strings.TrimPrefix(f, "."), i+1)
				envArg := c.Call.Args[2]
				okEnv := false
				if nc, ok := envArg.(*ssa.Call); ok && nc.Call.StaticCallee() == newEnclosed && nc.Call.Args[0] == ssa.Value(envParam) {
					okEnv = true
				}
				if !okEnv && m.isFreshScopeOf(envArg, envParam, newEnclosed, 0) {
					okEnv = true // built by a helper that returns NewEnclosedEnv(its scope parameter) on every successful return
				}
				if okEnv {
					s.OK(rule, key, m.InstrPos(c), "the environment is NewEnclosedEnv(env) created in this function: assignments inside do not leak out")
				} else {
					s.Violation(rule, key, m.InstrPos(c), "%s evaluates a nested block in %s instead of a fresh enclosed scope of the incoming environment: assignments inside the block change what the enclosing block sees afterwards", fnKey(fn), valueDesc(envArg))
				}
			}
		}
	}
	// component: arguments evaluated in the caller's scope, bound in the fresh one
	if fn := m.Method("evaluator", "Evaluator", "evalComponentStmt"); fn != nil {
		envParam := fn.Params[len(fn.Params)-1]
		okArgs, nArgs := true, 0
		okBind := false
		isFresh := func(v ssa.Value) bool {
			nc, ok := v.(*ssa.Call)
			if !ok || nc.Call.StaticCallee() != newEnclosed {
				return false
			}
			for _, r := range m.resolveUp(nc.Call.Args[0], fn, 0) {
				if r != ssa.Value(envParam) {
					return false
				}
			}
			return true
		}
		for _, h := range m.helpersOf(fn) { // the function and the private helpers its body was split into
			for _, b := range h.Blocks {
				for _, in := range b.Instrs {
					c, ok := in.(*ssa.Call)
					if !ok || !isEvalCall(m, c) {
						continue
					}
					if lk := lookupOf(stripIface(c.Call.Args[1])); lk != nil && strings.HasSuffix(fieldPathOf(lk.X), ".Argument.Pairs") {
						nArgs++
						for _, r := range m.resolveUp(c.Call.Args[2], fn, 0) {
							if r != ssa.Value(envParam) {
								okArgs = false
							}
						}
					}
				}
			}
			for _, c := range callsTo(h, "object", "Set") {
				all := true
				for _, r := range m.resolveUp(c.Call.Args[0], fn, 0) {
					if !isFresh(r) {
						all = false
					}
				}
				if all {
					okBind = true
				}
			}
			// bound through a helper shared with other constructs (`e.setVar(node, scope, name, val)`): the scope handed
			// to a module function that calls Set on that very parameter
			for _, b := range h.Blocks {
				for _, in := range b.Instrs {
					c, ok := in.(*ssa.Call)
					if !ok || c.Call.StaticCallee() == nil || !m.InModule(c.Call.StaticCallee()) || c.Call.StaticCallee().Blocks == nil {
						continue
					}
					g := c.Call.StaticCallee()
					for _, sc := range callsTo(g, "object", "Set") {
						for k, gp := range g.Params {
							if sc.Call.Args[0] != ssa.Value(gp) || k >= len(c.Call.Args) {
								continue
							}
							all := true
							for _, r := range m.resolveUp(c.Call.Args[k], fn, 0) {
								if !isFresh(r) {
									all = false
								}
							}
							if all {
								okBind = true
							}
						}
					}
				}
			}
		}
		okArgs = okArgs && nArgs > 0
		if okArgs && okBind {
			s.OK(rule, fnKey(fn)+"|arguments from the caller's scope, bound in the component's", m.Pos(fn.Pos()), "argument expressions are evaluated in env and bound with Set in the fresh scope")
		} else {
			s.Violation(rule, fnKey(fn)+"|arguments from the caller's scope, bound in the component's", m.Pos(fn.Pos()), "component arguments are not evaluated in the caller's scope and bound in the component's own scope")
		}
	}
	// Env: who writes the store
	allowed := map[string]bool{"NewEnv": true, "Set": true, "SetLoopVar": true}
	nw := 0
	for _, fn := range m.ModFns {
		if fn.Blocks == nil || isUserPkg(fnPkgPath(fn)) {
			continue
		}
		for _, b := range fn.Blocks {
			for _, in := range b.Instrs {
				var target ssa.Value
				switch x := in.(type) {
				case *ssa.MapUpdate:
					target = x.Map
				case *ssa.Store:
					if fa, ok := x.Addr.(*ssa.FieldAddr); ok && strings.HasSuffix(derefTypeString(fa.X.Type()), "object.Env") && fieldName(fa.X.Type(), fa.Field) == "store" {
						// the store of an environment allocated right here (a composite literal) given a map made right here
						_, freshEnv := fa.X.(*ssa.Alloc)
						_, freshMap := x.Val.(*ssa.MakeMap)
						if freshEnv && freshMap {
							continue
						}
						if !allowed[canonFnName(fn)] {
							nw++
							s.Violation(rule, fnKey(fn)+"|replaces an Env store", m.InstrPos(in), "%s replaces the variable store of an environment", fnKey(fn))
						}
					}
					continue
				default:
					continue
				}
				p := fieldPathOf(target)
				if !strings.HasSuffix(p, ".store") || !strings.Contains(derefOwnerOfPath(target), "object.Env") {
					continue
				}
				if !allowed[canonFnName(fn)] || shortPkg(fnPkgPath(fn)) != "object" {
					nw++
					s.Violation(rule, fnKey(fn)+"|writes an Env store", m.InstrPos(in), "%s writes variables into an environment without going through Set (reserved name and type checks are bypassed)", fnKey(fn))
				} else if p != ".store" {
					nw++
					s.Violation(rule, fnKey(fn)+"|writes an outer scope", m.InstrPos(in), "%s writes %s: an assignment must only change the receiver's own scope, never an enclosing one", fnKey(fn), strings.TrimPrefix(p, "."))
				}
			}
		}
	}
	if nw == 0 {
		s.OK(rule, "object.Env|only NewEnv, Set and SetLoopVar write a scope, and only their own", "-", "no other function updates an Env store; none writes through e.outer")
	}
	// the scope-writing methods touch nothing but the receiver's own store
	for _, mn := range []string{"Set", "SetLoopVar"} {
		fn := m.Method("object", "Env", mn)
		if fn == nil {
			continue
		}
		bad := ""
		for _, b := range fn.Blocks {
			for _, in := range b.Instrs {
				switch x := in.(type) {
				case *ssa.MapUpdate:
					if fieldPathOf(x.Map) != ".store" {
						bad = "map update " + valueDesc(x.Map) + " at " + m.InstrPos(in)
					} else if r, _, _ := pathOf(stripIface(x.Map)); r != ssa.Value(fn.Params[0]) {
						bad = "map update of another scope's store at " + m.InstrPos(in)
					}
				case *ssa.Store:
					// memory allocated in this call (locals, composite literals, the argument array of a variadic call) is fine
					base := x.Addr
					for {
						if fa, ok := base.(*ssa.FieldAddr); ok {
							base = fa.X
							continue
						}
						if ia, ok := base.(*ssa.IndexAddr); ok {
							base = ia.X
							continue
						}
						break
					}
					if _, isAlloc := base.(*ssa.Alloc); !isAlloc {
						bad = "store to " + valueDesc(x.Addr) + " at " + m.InstrPos(in)
					}
				}
			}
		}
		key := fnKey(fn) + "|writes only the receiver's own store"
		if bad == "" {
			s.OK(rule, key, m.Pos(fn.Pos()), "the only memory written is e.store[...] of the receiver (and objects allocated in the call)")
		} else {
			s.Violation(rule, key, m.Pos(fn.Pos()), "%s writes memory other than its receiver's own store (%s): an object or scope visible to an enclosing block is modified (e.g. the enclosing loop's loop object is overwritten by a nested loop)", fnKey(fn), bad)
		}
	}
	// Set: reserved name and type checks dominate the store
	set := m.Method("object", "Env", "Set")
	if set != nil {
		m.envCases(s, rule, set)
	}
	// SetLoopVar only on a fresh scope
	slv := m.Method("object", "Env", "SetLoopVar")
	if slv != nil {
		if node := m.CG.Nodes[slv]; node != nil {
			for _, e := range node.In {
				if isUserPkg(fnPkgPath(e.Caller.Func)) {
					continue
				}
				key := fnKey(e.Caller.Func) + "|loop object is bound in the loop's own scope"
				recv := e.Site.Common().Args[0]
				if ld, isLd := recv.(*ssa.UnOp); isLd {
					if cv, ok := cellValue(ld); ok {
						recv = cv // a scope variable captured by closures and never reassigned
					}
				}
				fresh := func(v ssa.Value) bool {
					if ld, isLd := v.(*ssa.UnOp); isLd {
						if cv, ok := cellValue(ld); ok {
							v = cv
						}
					}
					nc, ok := v.(*ssa.Call)
					return ok && nc.Call.StaticCallee() == newEnclosed
				}
				okRecv := fresh(recv)
				if par, isPar := recv.(*ssa.Parameter); isPar && !okRecv {
					// a helper that binds the pass: the scope its callers hand in
					rs := m.resolveUp(par, nil, 0)
					okRecv = len(rs) > 0
					for _, r := range rs {
						if _, still := r.(*ssa.Parameter); still || !fresh(r) {
							okRecv = false
						}
					}
				}
				if okRecv {
					s.OK(rule, key, m.InstrPos(e.Site), "SetLoopVar on NewEnclosedEnv(env): the outer loop object is visible again afterwards")
				} else {
					s.Violation(rule, key, m.InstrPos(e.Site), "SetLoopVar is called on %s, not on a scope created for this loop: the enclosing loop's loop object is overwritten", valueDesc(recv))
				}
			}
		}
	}
	// ... and on every pass: between the head of the loop and the evaluation of the body there is no way around
	// SetLoopVar (a loop object bound only "when the body mentions loop" is missing for a component used in the body,
	// whose file the parser of the page never saw)
	if slv != nil {
		ev := m.Method("evaluator", "Evaluator", "Eval")
		var evalFns []*ssa.Function
		for _, fn := range m.ModFns {
			if fn.Blocks != nil && shortPkg(fnPkgPath(fn)) == "evaluator" {
				evalFns = append(evalFns, fn)
			}
		}
		ci := m.newPassInfo(func(c ssa.CallInstruction) bool { return c.Common().StaticCallee() == slv }, func(*ssa.Call) bool { return false }, evalFns, []*ssa.Function{m.Method("evaluator", "Evaluator", "Eval")}, "erraware") // not through the recursive dispatch: a nested @each is another loop
		// the functions that bind a loop object themselves or through helpers — not through the recursive dispatch (a
		// nested @each is another loop)
		var binds func(f *ssa.Function, seen map[*ssa.Function]bool) bool
		binds = func(f *ssa.Function, seen map[*ssa.Function]bool) bool {
			if seen[f] || f == ev || f.Blocks == nil {
				return false
			}
			seen[f] = true
			for _, b := range f.Blocks {
				for _, in := range b.Instrs {
					if c, ok := in.(ssa.CallInstruction); ok {
						if sc := c.Common().StaticCallee(); sc == slv || (sc != nil && shortPkg(fnPkgPath(sc)) == "evaluator" && binds(sc, seen)) {
							return true
						}
					}
				}
			}
			return false
		}
		for _, fn := range evalFns {
			if ev == nil || !binds(fn, map[*ssa.Function]bool{}) {
				continue
			}
			for _, li := range naturalLoops(fn) {
				for b := range li.body {
					for i, in := range b.Instrs {
						c, isC := in.(*ssa.Call)
						if !isC || c.Call.StaticCallee() != ev || len(c.Call.Args) < 2 || !strings.HasSuffix(fieldPathOf(stripIface(c.Call.Args[1])), ".Block") {
							continue
						}
						key := fnKey(fn) + "|the loop object is bound on every pass"
						target, idx := b, i
						if ci.pathAvoiding(fn, li.header, 0, func(x *ssa.BasicBlock) bool { return x == target && !ci.blockConsumesBefore(x, idx) }, li.body) {
							s.Violation(rule, key, m.InstrPos(c), "%s can reach the evaluation of the loop's body from the head of the loop without calling SetLoopVar: on such a pass `loop` is missing (or is the enclosing loop's object) for whatever the body evaluates — a component used in the body reads loop.iter / loop.last of another loop", fnKey(fn))
						} else {
							s.OK(rule, key, m.InstrPos(c), "every path from the head of the loop to the evaluation of the body passes SetLoopVar")
						}
					}
				}
			}
		}
	}
	// data is bound through Set
	efm := m.PkgFunc("object", "EnvFromMap")
	if efm != nil && set != nil {
		// Set is called by EnvFromMap or by a helper of its package it hands the pair to (that nothing else writes a
		// scope's store is the clause above)
		ok := false
		work := []*ssa.Function{efm}
		seenW := map[*ssa.Function]bool{efm: true}
		for i := 0; i < len(work) && i < 16; i++ {
			for _, b := range work[i].Blocks {
				for _, in := range b.Instrs {
					c, isC := in.(*ssa.Call)
					if !isC || c.Call.StaticCallee() == nil {
						continue
					}
					sc := c.Call.StaticCallee()
					if sc == set {
						ok = true
					} else if !seenW[sc] && sc.Blocks != nil && shortPkg(fnPkgPath(sc)) == "object" {
						seenW[sc] = true
						work = append(work, sc)
					}
				}
			}
		}
		if ok {
			s.OK(rule, fnKey(efm)+"|data is bound through Set", m.Pos(efm.Pos()), "the reserved name and the type rule apply to data as well")
		} else {
			s.Violation(rule, fnKey(efm)+"|data is bound through Set", m.Pos(efm.Pos()), "EnvFromMap does not bind data through Set: the name loop could be supplied as data")
		}
	}
}

// derefOwnerOfPath: the type owning the last field of a load path.
func derefOwnerOfPath(v ssa.Value) string {
	v = stripIface(v)
	if ld, ok := v.(*ssa.UnOp); ok {
		if fa, ok := ld.X.(*ssa.FieldAddr); ok {
			return derefTypeString(fa.X.Type())
		}
	}
	return ""
}

// envCases decides the scoping rules of object.Env by evaluating Get and Set on abstract scope chains
// (innermost -> middle -> outermost -> nil), with the variable placed in different scopes. The maps and the chain are
// abstract objects of the interpreter; Get/Set and whatever helpers they use run on them unchanged.
//
//	Get:  the innermost binding wins; a binding two scopes out is still visible; an absent name is (nil, false).
//	Set:  the name "loop" is refused; a visible variable (at any distance) of another type is refused; absent, nil or
//	      same-typed variables are (re)bound — in the innermost scope only, the enclosing scopes stay as they were.
func (m *Model) envCases(s *Sink, rule string, set *ssa.Function) {
	get := m.Method("object", "Env", "Get")
	envT := m.namedType("object", "Env")
	intT, strT := m.namedType("object", "Int"), m.namedType("object", "Str")
	if get == nil || envT == nil || intT == nil || strT == nil {
		s.Undecided(rule, "object.Env", "-", "Env / Get / Int / Str not found")
		return
	}
	est := envT.Underlying().(*types.Struct)
	fStore, fOuter := -1, -1
	for i := 0; i < est.NumFields(); i++ {
		switch canonFieldName(envT, i, est.Field(i).Name()) {
		case "store":
			fStore = i
		case "outer":
			fOuter = i
		}
	}
	if fStore < 0 || fOuter < 0 {
		s.Undecided(rule, "object.Env fields", "-", "store / outer not found")
		return
	}
	mkMap := func(kv map[string]any) *iMap {
		mp := &iMap{vals: map[string]any{}, kval: map[string]constant.Value{}}
		for k, v := range kv {
			c := constant.MakeString(k)
			mp.keys = append(mp.keys, c.ExactString())
			mp.vals[c.ExactString()] = v
			mp.kval[c.ExactString()] = c
		}
		return mp
	}
	type chain struct{ inner, mid, outer *iStruct }
	mkChain := func(in, mid, out map[string]any) chain {
		o := &iStruct{typ: envT, fields: map[int]any{fStore: mkMap(out), fOuter: iNil{}}}
		md := &iStruct{typ: envT, fields: map[int]any{fStore: mkMap(mid), fOuter: o}}
		i := &iStruct{typ: envT, fields: map[int]any{fStore: mkMap(in), fOuter: md}}
		return chain{i, md, o}
	}
	obj := func(t *types.Named) *iStruct { return &iStruct{typ: t, fields: map[int]any{}} }
	has := func(e *iStruct, k string) (any, bool) {
		mp, _ := e.fields[fStore].(*iMap)
		if mp == nil || mp.vals == nil {
			return nil, false
		}
		v, ok := mp.vals[constant.MakeString(k).ExactString()]
		return v, ok
	}
	run := func(fn *ssa.Function, args []any) (any, bool, string) {
		ip := &Interp{m: m}
		res, known := ip.Run(fn, args)
		why := ip.stuck
		for _, l := range ip.lost {
			if shortPkg(fnPkgPath(l)) == "object" {
				why = fnKey(l) + " could not be evaluated"
			}
		}
		return res, known, why
	}
	// ---- Get
	{
		key := fnKey(get) + "|falls back to the enclosing scope exactly when absent"
		a, bb, c := obj(intT), obj(intT), obj(strT)
		type gcase struct {
			name   string
			ch     chain
			want   any
			wantOK bool
		}
		cases := []gcase{
			{"bound in the innermost scope only", mkChain(map[string]any{"x": a}, nil, nil), a, true},
			{"bound in the innermost and the outermost scope", mkChain(map[string]any{"x": a}, nil, map[string]any{"x": c}), a, true},
			{"bound in the middle scope", mkChain(nil, map[string]any{"x": bb}, nil), bb, true},
			{"bound in the outermost scope only (two scopes out)", mkChain(nil, nil, map[string]any{"x": c}), c, true},
			{"bound nowhere", mkChain(nil, nil, nil), nil, false},
		}
		bad, und := "", ""
		for _, gc := range cases {
			res, known, why := run(get, []any{gc.ch.inner, constant.MakeString("x")})
			if why != "" {
				und = gc.name + ": " + why
				break
			}
			tup, isT := res.(iTuple)
			if !known || !isT || len(tup) != 2 {
				und = gc.name + ": result not computable"
				break
			}
			okc, isC := tup[1].(constant.Value)
			if !isC || okc.Kind() != constant.Bool {
				und = gc.name + ": found flag not computable"
				break
			}
			if constant.BoolVal(okc) != gc.wantOK || (gc.wantOK && tup[0] != gc.want) {
				bad = "with the name " + gc.name + " Get does not return the innermost visible binding"
				break
			}
		}
		switch {
		case und != "":
			s.Undecided(rule, key, m.Pos(get.Pos()), "Env.Get could not be evaluated for the case %s", und)
		case bad != "":
			s.Violation(rule, key, m.Pos(get.Pos()), "%s", bad)
		default:
			s.OK(rule, key, m.Pos(get.Pos()), "case evaluation on a chain of three scopes: innermost binding wins, bindings two scopes out are visible, absent names are not found")
		}
	}
	// ---- Set
	type scase struct {
		name         string
		key          string
		in, mid, out map[string]any
		val          *iStruct
		wantStore    bool
		clause       string // reserved | typed
	}
	oldInt, oldStr := obj(intT), obj(strT)
	cases := []scase{
		{"the reserved name loop", "loop", nil, nil, nil, obj(intT), false, "reserved"},
		{"a new variable", "x", nil, nil, nil, obj(intT), true, "typed"},
		{"a variable holding nil two scopes out", "x", nil, nil, map[string]any{"x": iNil{}}, obj(intT), true, "typed"},
		{"a variable of the same type in the middle scope", "x", nil, map[string]any{"x": oldInt}, nil, obj(intT), true, "typed"},
		{"a variable of the same type two scopes out", "x", nil, nil, map[string]any{"x": oldInt}, obj(intT), true, "typed"},
		{"a variable of another type in the same scope", "x", map[string]any{"x": oldStr}, nil, nil, obj(intT), false, "typed"},
		{"a variable of another type in the middle scope", "x", nil, map[string]any{"x": oldStr}, nil, obj(intT), false, "typed"},
		{"a variable of another type two scopes out", "x", nil, nil, map[string]any{"x": oldStr}, obj(intT), false, "typed"},
	}
	// the language's nil is a value of its own type: a name that holds it is not free to take any type
	if nilT := m.namedType("object", "Nil"); nilT != nil {
		cases = append(cases,
			scase{"a variable holding the nil object in the same scope", "x", map[string]any{"x": obj(nilT)}, nil, nil, obj(intT), false, "typed"},
			scase{"a variable holding the nil object two scopes out", "x", nil, nil, map[string]any{"x": obj(nilT)}, obj(intT), false, "typed"})
	}
	verdict := map[string]string{"reserved": "", "typed": "", "innermost": ""}
	und := ""
	for _, sc := range cases {
		ch := mkChain(sc.in, sc.mid, sc.out)
		_, _, why := run(set, []any{ch.inner, constant.MakeString(sc.key), sc.val})
		if why != "" {
			und = sc.name + ": " + why
			break
		}
		v, stored := has(ch.inner, sc.key)
		stored = stored && v == any(sc.val)
		if stored != sc.wantStore && verdict[sc.clause] == "" {
			if sc.wantStore {
				verdict[sc.clause] = "assigning " + sc.name + " is refused (or the value is not stored in the innermost scope)"
			} else {
				verdict[sc.clause] = "assigning over " + sc.name + " is accepted"
			}
		}
		// the enclosing scopes are never written
		for _, pr := range []struct {
			e    *iStruct
			orig map[string]any
		}{{ch.mid, sc.mid}, {ch.outer, sc.out}} {
			mp, _ := pr.e.fields[fStore].(*iMap)
			if mp == nil || mp.vals == nil || len(mp.vals) != len(pr.orig) {
				verdict["innermost"] = "with " + sc.name + " an enclosing scope is changed"
				continue
			}
			for k, ov := range pr.orig {
				if nv, ok := has(pr.e, k); !ok || nv != ov {
					verdict["innermost"] = "with " + sc.name + " an enclosing scope is changed"
				}
			}
		}
	}
	if und != "" {
		s.Undecided(rule, fnKey(set)+"|case evaluation", m.Pos(set.Pos()), "Env.Set could not be evaluated for the case %s", und)
		return
	}
	emit := func(key, okText, clause, consequence string) {
		if verdict[clause] == "" {
			s.OK(rule, fnKey(set)+"|"+key, m.Pos(set.Pos()), "%s", okText)
		} else {
			s.Violation(rule, fnKey(set)+"|"+key, m.Pos(set.Pos()), "%s: %s", verdict[clause], consequence)
		}
	}
	emit("the name loop is refused", "case evaluation: with key \"loop\" nothing is stored", "reserved", "a template can overwrite the loop object")
	emit("a value of another type is refused", "case evaluation over {absent, nil, same type, other type} x {same, middle, outermost scope}: stored exactly in the first three", "typed", "a visible variable can be silently retyped (or a legal assignment is refused)")
	emit("writes only the innermost scope", "case evaluation: the middle and outermost scopes are unchanged after every Set", "innermost", "an assignment inside a block changes what the enclosing block sees afterwards")
}

// isFreshScopeOf: v is a scope created by NewEnclosedEnv(env) — directly, or by a module helper that is handed env and
// returns such a scope at that result position on every return that yields one (nil results are failure returns).
func (m *Model) isFreshScopeOf(v ssa.Value, env ssa.Value, newEnclosed *ssa.Function, d int) bool {
	if d > 3 {
		return false
	}
	idx := 0
	if ex, ok := v.(*ssa.Extract); ok {
		idx = ex.Index
		v = ex.Tuple
	}
	switch x := v.(type) {
	case *ssa.Phi:
		for _, e := range x.Edges {
			if !m.isFreshScopeOf(e, env, newEnclosed, d+1) {
				return false
			}
		}
		return len(x.Edges) > 0
	case *ssa.Call:
		sc := x.Call.StaticCallee()
		if sc == nil {
			return false
		}
		if sc == newEnclosed {
			return idx == 0 && len(x.Call.Args) == 1 && x.Call.Args[0] == env
		}
		if !m.InModule(sc) || sc.Blocks == nil {
			return false
		}
		var inner ssa.Value
		for i, a := range x.Call.Args {
			if a == env && i < len(sc.Params) {
				if inner != nil {
					return false
				}
				inner = sc.Params[i]
			}
		}
		if inner == nil {
			return false
		}
		rs := m.returnedAt(sc, idx)
		for _, r := range rs {
			if !m.isFreshScopeOf(r, inner, newEnclosed, d+1) {
				return false
			}
		}
		return len(rs) > 0
	}
	return false
}

// RunEvalState — R-LOOP (evaluator state): what a construct evaluates to is decided by the construct and its
// environment, not by what the evaluator did before. No method of the Evaluator writes a field of the Evaluator after
// construction — except counters (integer fields only ever stepped by a constant: a nesting guard). A flag such as
// "inside a loop" that one construct sets and another resets changes what @break / @continue mean after an inner loop
// has ended.
func (m *Model) RunEvalState(s *Sink, rule string) {
	evT := m.namedType("evaluator", "Evaluator")
	if evT == nil {
		s.Undecided(rule, "evaluator.Evaluator", "-", "type not found")
		return
	}
	type fw struct {
		fn  *ssa.Function
		st  *ssa.Store
		fld int
	}
	var writes []fw
	for _, fn := range m.ModFns {
		if fn.Blocks == nil || isUserPkg(fnPkgPath(fn)) {
			continue
		}
		for _, b := range fn.Blocks {
			for _, in := range b.Instrs {
				st, ok := in.(*ssa.Store)
				if !ok {
					continue
				}
				fa, ok := st.Addr.(*ssa.FieldAddr)
				if !ok {
					continue
				}
				if pn := ptrNamed(fa.X.Type()); pn == nil || !types.Identical(pn, evT) {
					continue
				}
				if _, fresh := fa.X.(*ssa.Alloc); fresh {
					continue // the evaluator under construction
				}
				writes = append(writes, fw{fn, st, fa.Field})
			}
		}
	}
	// a counter step: field = field ± const. A nesting depth is stepped up and down again; a counter that is only ever
	// stepped one way is a budget shared by everything the evaluator evaluates
	stepOf := func(w fw) int {
		fname := fieldName(w.st.Addr.(*ssa.FieldAddr).X.Type(), w.fld)
		if bo, ok := w.st.Val.(*ssa.BinOp); ok && (bo.Op == token.ADD || bo.Op == token.SUB) && isInteger(bo.Type()) {
			if k, isK := bo.Y.(*ssa.Const); isK && k.Value != nil {
				if _, p, okP := pathOf(bo.X); okP && strings.HasSuffix(p, "."+fname) {
					sign := constant.Sign(k.Value)
					if bo.Op == token.SUB {
						sign = -sign
					}
					return sign
				}
			}
		}
		return 0
	}
	ups, downs := map[int]bool{}, map[int]bool{}
	for _, w := range writes {
		switch stepOf(w) {
		case 1:
			ups[w.fld] = true
		case -1:
			downs[w.fld] = true
		}
	}
	bad := 0
	for _, w := range writes {
		fname := fieldName(w.st.Addr.(*ssa.FieldAddr).X.Type(), w.fld)
		if st := stepOf(w); st != 0 {
			if ups[w.fld] && downs[w.fld] {
				continue
			}
			bad++
			s.Violation(rule, fmt.Sprintf("%s|steps the evaluator's counter %s one way only", fnKey(w.fn), fname), m.InstrPos(w.st), "%s steps the field %s of the evaluator and nothing steps it back: the count is shared by everything this evaluator evaluates, so what a later construct does (how many passes a later loop makes) depends on what was evaluated before it", fnKey(w.fn), fname)
			continue
		}
		bad++
		s.Violation(rule, fmt.Sprintf("%s|writes the evaluator's field %s", fnKey(w.fn), fname), m.InstrPos(w.st), "%s writes the field %s of the evaluator while evaluating: what a later construct evaluates to then depends on what was evaluated before it (a flag set by one loop and reset when an inner loop ends changes the meaning of @break / @continue for the rest of the outer loop)", fnKey(w.fn), fname)
	}
	if bad == 0 {
		s.OK(rule, "evaluator.Evaluator|no field is written after construction", "-", "%d stores into fields of an existing Evaluator, all counter steps", len(writes))
	}
}

// RunAssignCases: `{{ x = value }}` by cases — Eval on an abstract assignment whose value evaluates to the integer
// object V, in three environments: x unbound (afterwards x is V itself, in the scope of the statement), x an INTEGER
// of an enclosing scope (the same), x a FLOAT of an enclosing scope (the statement yields an error and binds
// nothing: a variable keeps its type, and no value is converted to fit).
func (m *Model) RunAssignCases(s *Sink, rule string) {
	ev := m.Method("evaluator", "Evaluator", "Eval")
	ne := m.Method("evaluator", "Evaluator", "newError")
	asT, idT := m.namedType("ast", "AssignStmt"), m.namedType("ast", "Identifier")
	envT, intT, floatT, errT := m.namedType("object", "Env"), m.namedType("object", "Int"), m.namedType("object", "Float"), m.namedType("object", "Error")
	key := "assignment by cases|the evaluated value is bound as it is; a variable keeps its type"
	if ev == nil || ne == nil || asT == nil || idT == nil || envT == nil || intT == nil || floatT == nil || errT == nil {
		s.Note(rule, key, "-", "Eval / newError / ast.AssignStmt / object types not found: no case evaluation")
		return
	}
	fld := func(t *types.Named, name string) int {
		st := t.Underlying().(*types.Struct)
		for i := 0; i < st.NumFields(); i++ {
			if canonFieldName(t, i, st.Field(i).Name()) == name {
				return i
			}
		}
		return -1
	}
	aName, aValue, iValue := fld(asT, "Name"), fld(asT, "Value"), fld(idT, "Value")
	fStore, fOuter, nVal, fVal := fld(envT, "store"), fld(envT, "outer"), fld(intT, "Value"), fld(floatT, "Value")
	if aName < 0 || aValue < 0 || iValue < 0 || fStore < 0 || fOuter < 0 || nVal < 0 || fVal < 0 {
		s.Note(rule, key, "-", "fields not found: no case evaluation")
		return
	}
	mkMap := func(kv map[string]any) *iMap {
		mp := &iMap{vals: map[string]any{}, kval: map[string]constant.Value{}}
		for k, v := range kv {
			c := constant.MakeString(k)
			mp.keys = append(mp.keys, c.ExactString())
			mp.vals[c.ExactString()] = v
			mp.kval[c.ExactString()] = c
		}
		return mp
	}
	xKey := constant.MakeString("x").ExactString()
	bad, undecided := "", ""
	for _, outerKind := range []string{"unbound", "INTEGER", "FLOAT"} {
		outerVars := map[string]any{}
		switch outerKind {
		case "INTEGER":
			outerVars["x"] = &iStruct{typ: intT, fields: map[int]any{nVal: constant.MakeInt64(1)}}
		case "FLOAT":
			outerVars["x"] = &iStruct{typ: floatT, fields: map[int]any{fVal: constant.MakeFloat64(1.5)}}
		}
		outer := &iStruct{typ: envT, fields: map[int]any{fStore: mkMap(outerVars), fOuter: iNil{}}}
		inner := &iStruct{typ: envT, fields: map[int]any{fStore: mkMap(nil), fOuter: outer}}
		vnode := iObj{"value"}
		vobj := &iStruct{typ: intT, fields: map[int]any{nVal: constant.MakeInt64(7)}}
		node := &iStruct{typ: asT, fields: map[int]any{aName: &iStruct{typ: idT, fields: map[int]any{iValue: constant.MakeString("x")}}, aValue: vnode}}
		errObj := &iStruct{typ: errT, fields: map[int]any{}}
		ip := &Interp{m: m, useGlobals: true}
		ip.call = func(c *ssa.Call, args []any) (any, bool) {
			switch c.Call.StaticCallee() {
			case ev:
				if len(args) >= 2 && args[1] == any(vnode) {
					return vobj, true
				}
			case ne:
				return errObj, true
			}
			return nil, false
		}
		res, known := ip.Run(ev, []any{iObj{"evaluator"}, node, inner})
		if ip.stuck != "" || len(ip.lost) > 0 || !known {
			undecided = outerKind + ": " + ip.stuck
			break
		}
		bound, isBound := inner.fields[fStore].(*iMap).vals[xKey]
		ro, _ := res.(*iStruct)
		isErr := ro != nil && (ro == errObj || ro.typ == errT) // built by newError or by another constructor of the evaluator
		switch outerKind {
		case "FLOAT":
			if !isErr {
				bad = "with x a FLOAT of an enclosing scope, `x = <integer>` does not yield an error"
			} else if isBound {
				bad = "with x a FLOAT of an enclosing scope, `x = <integer>` binds x although it fails"
			}
		default:
			if isErr {
				bad = "with x " + outerKind + ", `x = <integer>` yields an error"
			} else if !isBound || bound != any(vobj) {
				bad = "with x " + outerKind + ", after `x = value` the scope of the statement does not hold the evaluated value itself under x"
			}
		}
		if bad != "" {
			break
		}
	}
	switch {
	case undecided != "":
		s.Note(rule, key, "-", "case evaluation not possible (%s)", undecided)
	case bad != "":
		s.Violation(rule, key, m.Pos(ev.Pos()), "evaluating an assignment: %s — a value is converted or a type clash tolerated on the way into the variable, so the render succeeds where the property demands an error (or binds something else than what was evaluated)", bad)
	default:
		s.OK(rule, key, m.Pos(ev.Pos()), "case evaluation of Eval on an abstract assignment in three environments")
	}
}
