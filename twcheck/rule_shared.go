package main

// rule_shared.go — R-SHARED: what the render entry points may write.

import (
	"fmt"
	"go/types"
	"sort"
	"strings"

	"golang.org/x/tools/go/ssa"
)

// paramRole describes a root's parameter for the "no write through" obligations.
func paramRole(fn *ssa.Function, i int) (role string, writable bool) {
	p := fn.Params[i]
	t := p.Type()
	ts := types.TypeString(t, nil)
	switch {
	case strings.HasSuffix(ts, "net/http.ResponseWriter"):
		return "the response writer", true
	case strings.HasSuffix(ts, "textwire/v2.Template"):
		return "the loaded Template (shared program table and parsed programs)", false
	case strings.HasPrefix(ts, "map[string]"):
		return "the caller's data map", false
	case strings.Contains(ts, "config.Config"):
		return "the configuration", false
	}
	return "parameter " + p.Name(), false
}

// RunSharedWrites: for every root, no write to a package-level variable and no
// write through a non-writable parameter is reachable.
// mode "race": every global write counts. mode "history": only globals that
// are also read on a path from some root in readers (a value can flow from one
// call to a later one), plus writes through parameters.
// allowed: package-level variables the roots are specified to set, "pkg.name" -> reason (one named symbol each).
func (m *Model) RunSharedWrites(s *Sink, rule string, roots []*ssa.Function, mode string, allowed ...map[string]string) {
	allow := map[string]string{}
	for _, a := range allowed {
		for k, v := range a {
			allow[k] = v
		}
	}
	ea := m.Effects()
	readOnRender := map[*ssa.Global]string{}
	if mode == "history" {
		for fn, chain := range m.Reach(roots) {
			sum := ea.sums[fn]
			if sum == nil {
				continue
			}
			for g := range sum.globReads {
				if _, ok := readOnRender[g]; !ok {
					readOnRender[g] = chainString(chain)
				}
			}
		}
	}
	for _, root := range roots {
		sum := ea.sums[root]
		if sum == nil {
			s.Undecided(rule, fnKey(root)+"|summary", "-", "no effect summary for root")
			continue
		}
		globals := map[string][]writeEffect{}
		params := map[int][]writeEffect{}
		for _, w := range sum.writes {
			switch w.o.kind {
			case oGlobal:
				synced := strings.HasPrefix(w.kind, "call:(*sync.") || strings.HasPrefix(w.kind, "call:(*sync/atomic.")
				if synced && mode == "race" {
					continue // a synchronised container / atomic: not a data race (history is C16's business)
				}
				if isSyncPrimitive(w.o.g) && !synced {
					continue
				}
				if holdsSyncPrimitive(w.o.g) && !synced && mode == "race" {
					continue // a struct that carries its own mutex: taken to be guarded by it (what it remembers is C16's business)
				}
				gname := w.o.g.Pkg.Pkg.Name() + "." + canonGlobalName(w.o.g)
				if why, ok := allow[gname]; ok {
					s.Note(rule, fmt.Sprintf("%s|sets %s", fnKey(root), gname), w.pos, "specified effect of this entry point: %s", why)
					continue
				}
				globals[gname] = append(globals[gname], w)
			case oParam:
				params[w.o.idx] = append(params[w.o.idx], w)
			}
		}
		// parameters
		for i := range root.Params {
			if !pointerLike(root.Params[i].Type()) {
				continue
			}
			role, writable := paramRole(root, i)
			key := fmt.Sprintf("%s|no write through %s", fnKey(root), role)
			ws := params[i]
			if writable || len(ws) == 0 {
				if writable {
					s.OKTrivial(rule, key, m.Pos(root.Pos()), "%d writes through it (writing the response is its purpose)", len(ws))
				} else {
					s.OK(rule, key, m.Pos(root.Pos()), "no store, map update, in-place append or mutating call reaches memory derived from it on any path from %s", fnKey(root))
				}
				continue
			}
			for _, w := range ws {
				k2 := fmt.Sprintf("%s|%s in %s writes %s", fnKey(root), w.kind, fnKey(w.fn), role)
				s.Violation(rule, k2, w.pos, "%s (%s) writes memory reachable from %s of %s; call chain: %s -> %s. Rendering must leave it unchanged, and concurrent renders share it",
					w.what, w.kind, role, fnKey(root), fnKey(root), w.chain())
			}
		}
		// globals: one obligation per writing site, listing the variables it may reach
		key := fmt.Sprintf("%s|writes no package-level state", fnKey(root))
		type siteAgg struct {
			w     writeEffect
			names []string
		}
		sites := map[string]*siteAgg{}
		var order []string
		var names []string
		for n := range globals {
			names = append(names, n)
		}
		sort.Strings(names)
		for _, n := range names {
			for _, w := range globals[n] {
				if mode == "history" {
					if _, read := readOnRender[w.o.g]; !read {
						s.Note(rule, fmt.Sprintf("%s|write-only global %s", fnKey(root), n), w.pos, "written on the render path but never read on it: no value flows from one call to a later one through it (it is still a race: see C15)")
						continue
					}
				}
				sk := w.pos + "|" + w.kind + "|" + fnKey(w.fn)
				if sites[sk] == nil {
					sites[sk] = &siteAgg{w: w}
					order = append(order, sk)
				}
				sites[sk].names = append(sites[sk].names, n)
			}
		}
		sort.Strings(order)
		for _, sk := range order {
			a := sites[sk]
			w := a.w
			target := strings.Join(dedup(a.names), ", ")
			k2 := fmt.Sprintf("%s|%s %s in %s", fnKey(root), w.kind, target, fnKey(w.fn))
			extra := ""
			if mode == "history" {
				extra = fmt.Sprintf("; it is read on the render path (%s), so an earlier call changes what a later one sees", readOnRender[w.o.g])
			}
			s.Violation(rule, k2, w.pos, "%s: package-level state (%s) is written without synchronisation on a path from %s (call chain %s -> %s)%s",
				w.what, target, fnKey(root), fnKey(root), w.chain(), extra)
		}
		if len(order) == 0 {
			s.OK(rule, key, m.Pos(root.Pos()), "no store or map update whose address derives from a package-level variable is reachable from %s (%d module functions summarised)", fnKey(root), len(ea.sums))
		}
	}
}

// isSyncPrimitive: the variable is a mutex, a Once or an atomic (not a struct that merely contains one).
func isSyncPrimitive(g *ssa.Global) bool {
	t := g.Type()
	if p, ok := t.Underlying().(*types.Pointer); ok {
		t = p.Elem()
	}
	if p, ok := t.Underlying().(*types.Pointer); ok {
		t = p.Elem()
	}
	n, ok := t.(*types.Named)
	if !ok || n.Obj().Pkg() == nil {
		return false
	}
	pk := n.Obj().Pkg().Path()
	return (pk == "sync" && (n.Obj().Name() == "Mutex" || n.Obj().Name() == "RWMutex" || n.Obj().Name() == "Once")) || pk == "sync/atomic"
}

// holdsSyncPrimitive: a struct variable with a mutex among its fields.
func holdsSyncPrimitive(g *ssa.Global) bool {
	ts := types.TypeString(g.Type(), nil)
	return !isSyncPrimitive(g) && (strings.Contains(ts, "sync.Mutex") || strings.Contains(ts, "sync.RWMutex"))
}

// RunBuiltinPurity: no builtin-table function writes through its receiver or arguments.
func (m *Model) RunBuiltinPurity(s *Sink, rule string) {
	ea := m.Effects()
	f := m.Facts()
	for _, p := range f.Problems {
		s.Undecided(rule, "facts|"+p, "-", "%s", p)
	}
	seen := map[*ssa.Function]bool{}
	for _, be := range f.Builtins {
		if seen[be.Fn] {
			continue
		}
		seen[be.Fn] = true
		sum := ea.sums[be.Fn]
		key := fmt.Sprintf("%s|builtin %s.%s leaves receiver and arguments unchanged", fnKey(be.Fn), be.Kind, be.Name)
		if sum == nil {
			s.Undecided(rule, key, m.Pos(be.Pos), "no effect summary")
			continue
		}
		var bad []writeEffect
		for _, w := range sum.writes {
			if w.o.kind == oParam && (w.o.idx == 1 || w.o.idx == 2) {
				bad = append(bad, w)
			}
			if w.o.kind == oGlobal {
				bad = append(bad, w)
			}
		}
		if len(bad) == 0 {
			s.OK(rule, key, m.Pos(be.Fn.Pos()), "no store, in-place append, copy destination, sort or mutating call reaches memory derived from the receiver or the arguments")
			continue
		}
		for _, w := range bad {
			what := "its receiver"
			if w.o.kind == oParam && w.o.idx == 2 {
				what = "its arguments"
			}
			if w.o.kind == oGlobal {
				what = "package-level variable " + w.o.g.Name()
			}
			s.Violation(rule, key+" ("+w.kind+")", w.pos, "builtin %s (registered as %s.%s) mutates %s: %s at %s (chain %s); the value is shared with the variable it came from, so the template sees it changed afterwards",
				fnKey(be.Fn), be.Kind, be.Name, what, w.what, w.pos, w.chain())
		}
	}
}

// RunProcessState: the standard library keeps registries and settings of its own that are shared by the whole
// process (expvar's variables, the environment, the default serve mux, the default logger, the working directory).
// Writing one of them from a render is shared mutable state that no write summary of this module sees: two renders
// interleave on it (expvar.NewInt panics on a name registered twice) and a later render sees what an earlier one left.
func (m *Model) RunProcessState(s *Sink, rule string, roots []*ssa.Function) {
	writers := []string{"expvar.New", "expvar.Publish", "os.Setenv", "os.Unsetenv", "os.Clearenv", "os.Chdir", "net/http.Handle", "net/http.HandleFunc",
		"log.SetOutput", "log.SetFlags", "log.SetPrefix", "flag.Set", "flag.Parse", "flag.Var", "flag.String", "flag.Int", "flag.Bool", "math/rand.Seed", "runtime.GOMAXPROCS",
		"runtime/debug.Set", "(*expvar.Map).", "(*expvar.Int).Add", "(*expvar.Int).Set", "(*expvar.Float).Add", "(*expvar.Float).Set", "(*expvar.String).Set", "time.LoadLocation"}
	fns := m.reachableFns(roots)
	n := 0
	for _, fn := range fns {
		if fn.Blocks == nil || !m.InModule(fn) {
			continue
		}
		for _, b := range fn.Blocks {
			for _, in := range b.Instrs {
				c, ok := in.(ssa.CallInstruction)
				if !ok || c.Common().StaticCallee() == nil {
					continue
				}
				name := fnFullName(c.Common().StaticCallee())
				for _, w := range writers {
					if w == "time.LoadLocation" {
						continue
					}
					if strings.HasPrefix(name, w) {
						n++
						s.Violation(rule, fmt.Sprintf("%s|writes process-wide library state (%s)", fnKey(fn), name), m.InstrPos(in), "%s calls %s on a path from a render entry point: the registry or setting it writes belongs to the whole process — concurrent renders interleave on it (a name registered twice panics) and later renders see what earlier ones left", fnKey(fn), name)
					}
				}
			}
		}
	}
	if n == 0 {
		s.OK(rule, "render paths|no write to process-wide library state", "-", "no call of expvar / os.Setenv / os.Chdir / http.Handle / log.Set* / flag.* / rand.Seed among %d reachable functions", len(fns))
	}
}
