package main

// twcheck — repository-specific static checker for textwire properties C01..C20.
// Decides each property's structural clauses from /repo's current source
// (go/packages + go/ssa + VTA call graph); never executes code from /repo.

import (
	"flag"
	"fmt"
	"os"
	"path/filepath"
	"runtime/debug"
	"sort"
	"strconv"
	"strings"
	"time"
)

var props = map[string]*PropInfo{}

func register(p *PropInfo) { props[p.ID] = p }

type buildConfig struct {
	name  string
	flags []string
	env   []string
}

func configsFor(tier string) []buildConfig {
	cs := []buildConfig{{name: "default"}}
	if tier == "thorough" {
		cs = append(cs,
			buildConfig{name: "tags=verif", flags: []string{"-tags=verif"}},
			buildConfig{name: "GOARCH=386", env: []string{"GOARCH=386"}},
		)
	}
	return cs
}

func main() {
	var (
		propFlag    = flag.String("prop", "", "property id(s), comma separated, or 'all'")
		tier        = flag.String("tier", "quick", "quick|thorough")
		repo        = flag.String("repo", "/repo", "repository root")
		verif       = flag.String("verif", "/verif", "verif root (evidence, known-findings)")
		dump        = flag.String("dump", "", "debug: dump a fact table (reach, panicsites, ...)")
		noEv        = flag.Bool("no-evidence", false, "do not write evidence/replay files (used by self-test)")
		quiet       = flag.Bool("q", false, "only print VIOLATION / KNOWN-FINDING lines")
		variantFlag = flag.String("variant", "", "debug: run the named self-test variant (or 'all') and print the checker output")
	)
	flag.Parse()
	seed := 0
	if s := os.Getenv("VERIF_SEED"); s != "" {
		seed, _ = strconv.Atoi(s)
	}
	if t := os.Getenv("VERIF_TIER"); t != "" && *tier == "" {
		*tier = t
	}
	defer func() {
		if r := recover(); r != nil {
			fmt.Fprintf(os.Stderr, "twcheck: checker panic: %v\n%s\n", r, debug.Stack())
			os.Exit(2)
		}
	}()

	if *variantFlag != "" {
		os.Exit(runVariantCLI(*repo, *verif, *variantFlag, *propFlag))
	}
	if *dump != "" {
		m, err := LoadModel(*repo, nil, nil, "default")
		if err != nil {
			fmt.Fprintln(os.Stderr, "twcheck:", err)
			os.Exit(2)
		}
		dumpFacts(m, *dump)
		return
	}

	var ids []string
	if *propFlag == "all" {
		for id := range props {
			ids = append(ids, id)
		}
	} else {
		for _, id := range strings.Split(*propFlag, ",") {
			if id = strings.TrimSpace(id); id != "" {
				ids = append(ids, id)
			}
		}
	}
	sort.Strings(ids)
	if len(ids) == 0 {
		fmt.Fprintln(os.Stderr, "twcheck: -prop required")
		os.Exit(2)
	}
	for _, id := range ids {
		if props[id] == nil {
			fmt.Fprintf(os.Stderr, "twcheck: unknown property %s\n", id)
			os.Exit(2)
		}
	}
	known, err := loadKnown(filepath.Join(*verif, "known-findings.json"))
	if err != nil {
		fmt.Fprintln(os.Stderr, "twcheck: known-findings.json:", err)
		os.Exit(2)
	}

	start := time.Now()
	results := map[string]*runResult{}
	for _, id := range ids {
		results[id] = &runResult{prop: props[id], sink: NewSink(), stats: map[string]any{}}
	}
	exit := 0
	var firstModel *Model
	for ci, bc := range configsFor(*tier) {
		m, err := LoadModel(*repo, bc.flags, bc.env, bc.name)
		if err != nil {
			fmt.Fprintf(os.Stderr, "twcheck: [%s] %v\n", bc.name, err)
			os.Exit(2)
		}
		if ci == 0 {
			firstModel = m
		}
		r := m.Roots()
		if len(r.Missing) > 0 {
			fmt.Fprintf(os.Stderr, "twcheck: [%s] unresolved root anchors: %v\n", bc.name, r.Missing)
		}
		for _, id := range ids {
			res := results[id]
			res.configs = append(res.configs, bc.name)
			s := res.sink
			if ci > 0 {
				// further configs: run into a scratch sink, keep only non-discharged obligations (prefixed)
				s = NewSink()
			}
			for _, miss := range r.Missing {
				s.Undecided("R-ANCHOR", "root "+miss, "-", "API root %s was not found in the program; every reachability premise would be vacuous", miss)
			}
			res.prop.Run(m, s)
			if ci == 0 {
				res.stats["packages"] = len(m.Pkgs)
				res.stats["module_functions"] = len(m.ModFns)
				res.stats["callgraph_edges"] = m.nEdges
			} else {
				bad := 0
				for _, o := range s.Obls {
					if o.Status == Violated || o.Status == Undecided {
						// only report if not already reported under default config
						dup := false
						for _, p := range res.sink.Obls {
							if p.ID() == o.ID() && (p.Status == Violated || p.Status == Undecided) {
								dup = true
							}
						}
						if !dup {
							o.Key = "[" + bc.name + "] " + o.Key
							res.sink.Obls = append(res.sink.Obls, o)
							bad++
						}
					}
				}
				res.stats["config "+bc.name] = fmt.Sprintf("%d obligations re-decided, %d additional failures", len(s.Obls), bad)
			}
		}
		if ci > 0 {
			m = nil
		}
	}
	if *tier == "thorough" {
		for _, id := range ids {
			// the self-test edits the tree and expects the verdict to change accordingly: only meaningful when the
			// unedited tree is clean for this property
			dirty := false
			for _, o := range results[id].sink.Obls {
				if (o.Status == Violated || o.Status == Undecided) && known.match(id, o) == nil {
					dirty = true
				}
			}
			if dirty {
				results[id].stats["selftest"] = "skipped: the tree itself is reported for this property"
				continue
			}
			st := runSelfTest(*repo, *verif, id)
			results[id].stats["selftest"] = st.summary
			if st.broken {
				fmt.Fprintf(os.Stderr, "twcheck: %s: self-test failed (checker broken): %s\n", id, st.summary)
				exit = 2
			}
		}
	}

	for _, id := range ids {
		res := results[id]
		n := 0
		for _, o := range res.sink.Obls {
			if o.Status != Violated && o.Status != Undecided {
				continue
			}
			if kf := known.match(id, o); kf != nil && o.Status == Violated {
				line := fmt.Sprintf("KNOWN-FINDING: property=%s %s [%s at %s]", id, kf.What, o.ID(), o.Pos)
				res.known = append(res.known, line)
				fmt.Println(line)
				continue
			}
			res.violations = append(res.violations, o)
			n++
			path := "(not written)"
			if !*noEv {
				p, err := writeReplay(*verif, id, n, o, firstModel)
				if err != nil {
					fmt.Fprintln(os.Stderr, "twcheck: replay:", err)
					os.Exit(2)
				}
				path = p
			}
			fmt.Printf("VIOLATION property=%s replay=%s\n", id, path)
			if !*quiet {
				fmt.Printf("  %s %s at %s\n    %s\n", o.StatusText, o.ID(), o.Pos, strings.ReplaceAll(o.Detail, "\n", "\n    "))
			}
		}
		if n > 0 && exit == 0 {
			exit = 1
		}
		wall := time.Since(start).Seconds()
		if !*noEv {
			if err := writeEvidence(*verif, *tier, seed, res, wall); err != nil {
				fmt.Fprintln(os.Stderr, "twcheck: evidence:", err)
				os.Exit(2)
			}
		}
		if os.Getenv("TWLIST") != "" {
			for _, o := range res.sink.Obls {
				fmt.Printf("  %-10s %s|%s at %s\n", o.StatusText, o.Rule, o.Key, o.Pos)
			}
		}
		if !*quiet {
			tot, dis := 0, 0
			for _, o := range res.sink.Obls {
				if o.Status != Info {
					tot++
					if o.Status == Discharged {
						dis++
					}
				}
			}
			fmt.Printf("%s: %d obligations, %d discharged, %d known findings, %d violations (%s, %.1fs)\n",
				id, tot, dis, len(res.known), n, *tier, wall)
		}
	}
	os.Exit(exit)
}
