package main

// rule_errline.go — R-ERRLINE (C13): errors name the line of the offending construct's token and the file that contains it.

import (
	"fmt"
	"go/ast"
	"go/token"
	"go/types"
	"sort"
	"strings"

	"golang.org/x/tools/go/ssa"
)

func (m *Model) RunErrLine(s *Sink, rule string) {
	ap := m.SSA[fullPkg("ast")]
	if ap == nil {
		s.Undecided(rule, "ast", "-", "package ast not found")
		return
	}
	nodeT, _ := ap.Pkg.Scope().Lookup("Node").(*types.TypeName)
	if nodeT == nil {
		s.Undecided(rule, "ast.Node", "-", "interface ast.Node not found")
		return
	}
	it := nodeT.Type().Underlying().(*types.Interface)
	errorLine := m.Method("token", "Token", "ErrorLine")
	var names []string
	for _, n := range ap.Pkg.Scope().Names() {
		names = append(names, n)
	}
	sort.Strings(names)
	nNodes := 0
	for _, n := range names {
		tn, ok := ap.Pkg.Scope().Lookup(n).(*types.TypeName)
		if !ok || types.IsInterface(tn.Type()) || !types.Implements(types.NewPointer(tn.Type()), it) {
			continue
		}
		nNodes++
		fn := m.Method("ast", n, "Line")
		key := fmt.Sprintf("ast.(*%s).Line|line of its own token", n)
		if fn == nil {
			s.Undecided(rule, key, "-", "Line() not found")
			continue
		}
		ok = false
		// ownToken: v is the address of the Token field of recv — directly, or as the result of the node's own Tok()
		// (called statically, or through the Node interface on the receiver itself), which returns that address
		ownTok := func() bool {
			tk := m.Method("ast", n, "Tok")
			if tk == nil || len(tk.Blocks) != 1 {
				return false
			}
			ins := tk.Blocks[0].Instrs
			ret, isRet := ins[len(ins)-1].(*ssa.Return)
			if !isRet || len(ret.Results) != 1 {
				return false
			}
			r, p, okp := pathOf(ret.Results[0])
			return okp && p == ".Token&" && r == ssa.Value(tk.Params[0])
		}
		var ownToken func(v ssa.Value, recv ssa.Value) bool
		ownToken = func(v ssa.Value, recv ssa.Value) bool {
			if r, p, okp := pathOf(v); okp && p == ".Token&" && r == recv {
				return true
			}
			c, isC := v.(*ssa.Call)
			if !isC {
				return false
			}
			if c.Call.IsInvoke() {
				return c.Call.Method.Name() == "Tok" && stripIface(c.Call.Value) == recv && ownTok()
			}
			if sc := c.Call.StaticCallee(); sc != nil && len(c.Call.Args) == 1 && sc == m.Method("ast", n, "Tok") {
				return c.Call.Args[0] == recv && ownTok()
			}
			return false
		}
		if len(fn.Blocks) == 1 {
			ins := fn.Blocks[0].Instrs
			if ret, isRet := ins[len(ins)-1].(*ssa.Return); isRet && len(ret.Results) == 1 {
				if c, isC := ret.Results[0].(*ssa.Call); isC && c.Call.StaticCallee() == errorLine {
					ok = ownToken(c.Call.Args[0], fn.Params[0])
				} else if isC && c.Call.StaticCallee() != nil && len(c.Call.Args) == 1 && stripIface(c.Call.Args[0]) == ssa.Value(fn.Params[0]) {
					// a shared helper `lineOf(node) = node.Tok().ErrorLine()` handed the receiver itself
					h := c.Call.StaticCallee()
					if shortPkg(fnPkgPath(h)) == "ast" && len(h.Blocks) == 1 && len(h.Params) == 1 {
						hins := h.Blocks[0].Instrs
						if hret, isHR := hins[len(hins)-1].(*ssa.Return); isHR && len(hret.Results) == 1 {
							if hc, isHC := hret.Results[0].(*ssa.Call); isHC && hc.Call.StaticCallee() == errorLine {
								if tc, isTC := hc.Call.Args[0].(*ssa.Call); isTC && tc.Call.IsInvoke() && tc.Call.Method.Name() == "Tok" && tc.Call.Value == ssa.Value(h.Params[0]) {
									ok = ownTok()
								}
							}
						}
					}
				}
			}
		}
		if ok {
			s.OK(rule, key, m.Pos(fn.Pos()), "returns ErrorLine() of the node's own Token field")
		} else {
			s.Violation(rule, key, m.Pos(fn.Pos()), "%s does not return the ErrorLine() of the node's own Token: errors about this construct carry another construct's line", fnKey(fn))
		}
	}
	if nNodes < 30 {
		s.Undecided(rule, "ast nodes", "-", "expected at least 30 ast.Node implementations, found %d", nNodes)
	}
	// parser: every AST node built in the parser takes its Token from the current token
	var parFns []*ssa.Function
	for _, fn := range m.ModFns {
		if fn.Blocks != nil && shortPkg(fnPkgPath(fn)) == "parser" {
			parFns = append(parFns, fn)
		}
	}
	for _, fn := range parFns {
		cnt := map[string]int{}
		for _, b := range fn.Blocks {
			for _, in := range b.Instrs {
				al, ok := in.(*ssa.Alloc)
				if !ok || !strings.HasPrefix(derefTypeString(al.Type()), modPath+"/ast.") {
					continue
				}
				st, ok := al.Type().Underlying().(*types.Pointer).Elem().Underlying().(*types.Struct)
				if !ok {
					continue
				}
				ti := -1
				for i := 0; i < st.NumFields(); i++ {
					if st.Field(i).Name() == "Token" {
						ti = i
					}
				}
				if ti < 0 {
					continue
				}
				tname := shortTypeName(derefTypeString(al.Type()))
				cnt[tname]++
				key := fmt.Sprintf("%s|%s#%d takes its Token from the parser's token", fnKey(fn), tname, cnt[tname])
				fromTok := false
				constEmptyValue := false
				for _, r := range *al.Referrers() {
					fa, ok := r.(*ssa.FieldAddr)
					if !ok {
						continue
					}
					for _, rr := range *fa.Referrers() {
						stv, ok := rr.(*ssa.Store)
						if !ok {
							continue
						}
						if fa.Field == ti && tokenSource(m, stv.Val, 0) {
							fromTok = true
						}
						if st.Field(fa.Field).Name() == "Value" && isEmptyStringConst(stv.Val) {
							constEmptyValue = true
						}
					}
				}
				// a node the evaluator reports errors about takes its token BEFORE its children are parsed: in
				// `&X{Token: p.curToken, Args: p.parseArgs()}` Go evaluates the call first, and the token is then the one
				// the child ended on (the closing parenthesis, lines below the construct)
				if fromTok && m.errorReportedNodes()[tname] {
					var tokLoad ssa.Instruction
					var children []*ssa.Call
					for _, r := range *al.Referrers() {
						fa, ok := r.(*ssa.FieldAddr)
						if !ok {
							continue
						}
						for _, rr := range *fa.Referrers() {
							stv, ok := rr.(*ssa.Store)
							if !ok {
								continue
							}
							if fa.Field == ti {
								if ld, isLd := stv.Val.(*ssa.UnOp); isLd && (strings.HasSuffix(fieldPathOf(ld), ".curToken") || strings.HasSuffix(fieldPathOf(ld), ".peekToken")) {
									tokLoad = ld
								}
							} else if c, isC := stripIface(stv.Val).(*ssa.Call); isC && c.Call.StaticCallee() != nil && shortPkg(fnPkgPath(c.Call.StaticCallee())) == "parser" && strings.HasPrefix(canonFnName(c.Call.StaticCallee()), "parse") {
								children = append(children, c)
							}
						}
					}
					late := ""
					if tokLoad != nil {
						for _, c := range children {
							if m.Ctx(fn).instrDominates(c, tokLoad) {
								late = valueDesc(c)
							}
						}
					}
					if late != "" {
						s.Violation(rule, key+" before its children are parsed", m.InstrPos(al), "%s reads the token of the %s it builds after %s has parsed one of its parts (operands of a composite literal are evaluated calls first): the node's token is the one that part ended on, so errors about the construct name the line of its end, not of the construct", fnKey(fn), tname, late)
						continue
					}
				}
				switch {
				case fromTok:
					s.OK(rule, key, m.InstrPos(al), "Token is p.curToken (or a saved copy of it)")
				case constEmptyValue && strings.HasSuffix(tname, "StringLiteral"):
					s.OKTrivial(rule, key, m.InstrPos(al), "synthetic empty name (default slot): never the subject of an error")
				default:
					s.Violation(rule, key, m.InstrPos(al), "%s builds an %s whose Token is not taken from the parser's current token: errors about this construct report line 1", fnKey(fn), tname)
				}
			}
		}
	}
	// parser.newError: every call passes a line derived from a token's ErrorLine()
	pne := m.parserNewError()
	if pne != nil {
		if node := m.CG.Nodes[pne]; node != nil {
			n := 0
			// a site: the call, the token whose ErrorLine() is the line, and the message arguments. A wrapper of the
			// parser that takes the offending token and forwards message and arguments (`errorAt(tok, msg, args...)`:
			// `p.newError(tok.ErrorLine(), msg, args...)`) is looked through: its call sites are the sites.
			type errSite struct {
				caller  *ssa.Function
				call    *ssa.Call
				lineTok ssa.Value // nil: the line is not an ErrorLine() of a token
				lineArg ssa.Value
				args    ssa.Value
			}
			var sites []errSite
			for _, e := range node.In {
				c, ok := e.Site.(*ssa.Call)
				if !ok || isSynthetic(e.Caller.Func) {
					continue // promoted-method wrappers forward their arguments
				}
				st := errSite{caller: e.Caller.Func, call: c, lineArg: c.Call.Args[1]}
				if len(c.Call.Args) > 3 {
					st.args = c.Call.Args[3]
				}
				if lc, isCall := c.Call.Args[1].(*ssa.Call); isCall && lc.Call.StaticCallee() == errorLine {
					st.lineTok = lc.Call.Args[0]
				}
				// wrapper?
				w := e.Caller.Func
				tokIdx, argIdx := -1, -1
				if st.lineTok != nil {
					root, pth, okP := pathOf(st.lineTok)
					if al, isAl := st.lineTok.(*ssa.Alloc); isAl {
						// a token parameter spilled to a local so that its address can be taken
						for _, r := range *al.Referrers() {
							if sto, isSt := r.(*ssa.Store); isSt && sto.Addr == ssa.Value(al) {
								root, pth, okP = sto.Val, "", true
							}
						}
					}
					if par, isPar := root.(*ssa.Parameter); isPar && okP && (pth == "" || pth == "&") {
						for k, q := range w.Params {
							if q == par {
								tokIdx = k
							}
						}
					}
				}
				if par, isPar := st.args.(*ssa.Parameter); isPar {
					for k, q := range w.Params {
						if q == par {
							argIdx = k
						}
					}
				}
				wn := m.CG.Nodes[w]
				if tokIdx >= 0 && argIdx >= 0 && wn != nil && len(wn.In) > 0 && shortPkg(fnPkgPath(w)) == "parser" {
					expanded := true
					var sub []errSite
					for _, we := range wn.In {
						wc, isC := we.Site.(*ssa.Call)
						if !isC || wc.Call.StaticCallee() != w || tokIdx >= len(wc.Call.Args) || argIdx >= len(wc.Call.Args) {
							expanded = false
							break
						}
						sub = append(sub, errSite{caller: we.Caller.Func, call: wc, lineTok: wc.Call.Args[tokIdx], lineArg: wc.Call.Args[tokIdx], args: wc.Call.Args[argIdx]})
					}
					if expanded {
						sites = append(sites, sub...)
						continue
					}
				}
				sites = append(sites, st)
			}
			for _, st := range sites {
				c := st.call
				n++
				key := fmt.Sprintf("%s|parser error line #%d", fnKey(st.caller), n)
				if st.lineTok != nil {
					_, p, _ := pathOf(st.lineTok)
					lineTok := strings.TrimSuffix(strings.TrimPrefix(p, "."), "&")
					// the token the message talks about ("got X") is the offending one: the line must be that token's
					named := map[string]bool{}
					if st.args != nil {
						for _, el := range variadicElems(st.args) {
							tokensNamedBy(el, 0, named)
						}
					}
					if (lineTok == "curToken" || lineTok == "peekToken") && len(named) > 0 && !named[lineTok] {
						var other []string
						for k := range named {
							other = append(other, k)
						}
						sort.Strings(other)
						s.Violation(rule, key, m.InstrPos(c), "%s reports an error about p.%s (its type or text is put into the message) but takes the line from p.%s: when the two tokens are on different lines the error names the wrong line", fnKey(st.caller), strings.Join(other, "/"), lineTok)
						continue
					}
					s.OK(rule, key, m.InstrPos(c), "line = ErrorLine() of %s", lineTok)
				} else {
					s.Violation(rule, key, m.InstrPos(c), "%s records a parser error whose line is %s instead of the ErrorLine() of the offending token", fnKey(st.caller), valueDesc(st.lineArg))
				}
			}
			if n < 10 {
				s.Undecided(rule, "parser.newError sites", "-", "expected at least 10 call sites of parser.newError, found %d", n)
			}
		}
		// path: newError uses p.filepath
		okPath := false
		// the fail.New call may sit in a helper newError hands its arguments to: parameters are followed back
		m.walkInlined(pne, 2, func(in ssa.Instruction, resolve func(ssa.Value) ssa.Value, _ int) {
			c, ok := in.(*ssa.Call)
			if !ok || c.Call.StaticCallee() == nil || canonFnName(c.Call.StaticCallee()) != "New" || shortPkg(fnPkgPath(c.Call.StaticCallee())) != "fail" || len(c.Call.Args) < 2 {
				return
			}
			if resolve(c.Call.Args[0]) != ssa.Value(pne.Params[1]) {
				return
			}
			pathArg := resolve(c.Call.Args[1])
			if fieldPathOf(pathArg) == ".filepath" {
				okPath = true
				return
			}
			// a field under another name (or of an embedded helper): it must only ever hold parser.New's path argument
			if ld, isLd := pathArg.(*ssa.UnOp); isLd {
				if fa, isFA := ld.X.(*ssa.FieldAddr); isFA {
					okPath = m.fieldHoldsOnly(fa, m.PkgFunc("parser", "New"))
				}
			}
		})
		if okPath {
			s.OK(rule, fnKey(pne)+"|line and path", m.Pos(pne.Pos()), "fail.New(line, p.filepath, ...)")
		} else {
			s.Violation(rule, fnKey(pne)+"|line and path", m.Pos(pne.Pos()), "parser errors are not built from the given line and the parser's file path")
		}
	}
	// evaluator.newError: node.Line() and ctx.AbsPath
	ene := m.Method("evaluator", "Evaluator", "newError")
	if ene != nil {
		// every fail.New of the evaluator package (in newError or in a helper it delegates to): the line is some
		// node's Line(), followed through the parameters of the helpers; the path is the context's
		ok := false
		nNew, allGood := 0, true
		for _, fn := range m.ModFns {
			if fn.Blocks == nil || shortPkg(fnPkgPath(fn)) != "evaluator" {
				continue
			}
			for _, b := range fn.Blocks {
				for _, in := range b.Instrs {
					c, isC := in.(*ssa.Call)
					if !isC || c.Call.StaticCallee() == nil || canonFnName(c.Call.StaticCallee()) != "New" || shortPkg(fnPkgPath(c.Call.StaticCallee())) != "fail" || len(c.Call.Args) < 2 {
						continue
					}
					nNew++
					good := strings.HasSuffix(fieldPathOf(c.Call.Args[1]), ".ctx.AbsPath")
					for _, lv := range m.resolveUp(c.Call.Args[0], nil, 0) {
						lc, isL := lv.(*ssa.Call)
						isLine := isL && lc.Call.IsInvoke() && lc.Call.Method.Name() == "Line"
						if isL && !lc.Call.IsInvoke() && lc.Call.StaticCallee() != nil && lc.Call.StaticCallee().Name() == "Line" && shortPkg(fnPkgPath(lc.Call.StaticCallee())) == "ast" {
							isLine = true // Line() of a node of known type
						}
						if !isLine {
							good = false
						}
					}
					if !good {
						allGood = false
					}
				}
			}
		}
		ok = nNew > 0 && allGood
		if ok {
			s.OK(rule, fnKey(ene)+"|line and path", m.Pos(ene.Pos()), "fail.New(node.Line(), e.ctx.AbsPath, ...)")
		} else {
			s.Violation(rule, fnKey(ene)+"|line and path", m.Pos(ene.Pos()), "evaluator errors are not built from node.Line() and the evaluation context's absolute path")
		}
	}
	// the absolute path of the page: String -> templateFullPath -> NewContext; parseProgram -> parser.New(lex, absPath)
	st := m.Method("textwire", "Template", "String")
	if st != nil {
		ok := false
		modeDep := ""
		// String's body, including same-package helpers it hands the work to (parameters resolved along the call chain)
		m.walkInlined(st, 2, func(in ssa.Instruction, resolve func(ssa.Value) ssa.Value, _ int) {
			if c, isC := in.(*ssa.Call); isC && c.Call.StaticCallee() != nil && canonFnName(c.Call.StaticCallee()) == "NewContext" {
				// the path may come straight from the path function or through a helper that returns it among its results
				srcs := []ssa.Value{resolve(c.Call.Args[0])}
				if ex0, isEx0 := srcs[0].(*ssa.Extract); isEx0 {
					if hc, isHC := ex0.Tuple.(*ssa.Call); isHC && hc.Call.StaticCallee() != nil && !filepathAbsOfTemplate(m, hc.Call.StaticCallee()) {
						if rs := m.returnedAt(hc.Call.StaticCallee(), ex0.Index); len(rs) > 0 {
							srcs = rs
						}
					}
				}
				for _, sv := range srcs {
					if ex, isEx := sv.(*ssa.Extract); isEx {
						if src, isS := ex.Tuple.(*ssa.Call); isS && src.Call.StaticCallee() != nil && filepathAbsOfTemplate(m, src.Call.StaticCallee()) {
							ok = true
							// the path of a loaded template's file depends on the configuration only — not on which API was
							// used last (the string API resets the mode flag)
							ea := m.Effects()
							for f := range m.Reach([]*ssa.Function{src.Call.StaticCallee()}) {
								if sum := ea.sums[f]; sum != nil {
									for g := range sum.globReads {
										if n := canonGlobalName(g); n != "userConfig" && m.InModule(f) && g.Pkg != nil && strings.HasPrefix(g.Pkg.Pkg.Path(), modPath) {
											ok = false
											modeDep = fmt.Sprintf("%s reads the package-level variable %s", fnKey(f), n)
										}
									}
								}
							}
						}
					}
				}
			}
		})
		if ok {
			s.OK(rule, fnKey(st)+"|evaluation path is the template's absolute path", m.Pos(st.Pos()), "ctx.AbsPath = filepath.Abs(TemplateDir/name+ext)")
		} else {
			s.Violation(rule, fnKey(st)+"|evaluation path is the template's absolute path", m.Pos(st.Pos()), "the evaluation context of a page does not carry the absolute path of the page's file (as computed from the configuration alone) %s", modeDep)
		}
	}
	// the evaluator that renders the page is built in this call from that context
	if st != nil {
		ok := false
		m.walkInlined(st, 2, func(in ssa.Instruction, resolve func(ssa.Value) ssa.Value, _ int) {
			c, isC := in.(*ssa.Call)
			if !isC || !isEvalCall(m, c) {
				return
			}
			if nc, isN := m.throughCtor(resolve(c.Call.Args[0])).(*ssa.Call); isN && nc.Call.StaticCallee() != nil && canonFnName(nc.Call.StaticCallee()) == "New" && inPkg(nc.Call.StaticCallee(), "evaluator") {
				if cc, isCC := m.throughCtor(resolve(nc.Call.Args[0])).(*ssa.Call); isCC && cc.Call.StaticCallee() != nil && canonFnName(cc.Call.StaticCallee()) == "NewContext" {
					ok = true
				}
			}
		})
		if ok {
			s.OK(rule, fnKey(st)+"|each render gets its own evaluator and context", m.Pos(st.Pos()), "Eval is called on evaluator.New(ctx.NewContext(absPath, ...)) created in this call")
		} else {
			s.Violation(rule, fnKey(st)+"|each render gets its own evaluator and context", m.Pos(st.Pos()), "the evaluator (or its context) used by String is not created in the call from the page's own path (e.g. cached on the Template): errors of later renders name the file of an earlier one")
		}
	}
	pp := m.PkgFuncOr("textwire", "parseProgram", func(f *ssa.Function) bool {
		return callsNamed(f, "ParseProgram", "parser.Parser") && len(f.Params) == 1
	})
	if pp != nil {
		ok := false
		m.walkInlined(pp, 2, func(in ssa.Instruction, resolve func(ssa.Value) ssa.Value, _ int) {
			if c, isC := in.(*ssa.Call); isC && c.Call.StaticCallee() != nil && canonFnName(c.Call.StaticCallee()) == "New" && inPkg(c.Call.StaticCallee(), "parser") {
				if resolve(c.Call.Args[1]) == ssa.Value(pp.Params[0]) {
					ok = true
				}
			}
		})
		if ok {
			s.OK(rule, fnKey(pp)+"|parser knows the file it parses", m.Pos(pp.Pos()), "parser.New(lexer, absPath)")
		} else {
			s.Violation(rule, fnKey(pp)+"|parser knows the file it parses", m.Pos(pp.Pos()), "the parser of a template file is not given that file's absolute path: load errors name the wrong file")
		}
	}
	// loader errors about a construct take the construct's line
	for _, spec := range []struct{ pkg, fn, msg, lineOf string }{
		{"textwire", "applyComponentToProgram", "component '%s' is not defined", "comp"},
		{"ast", "checkUndefinedInsert", "insert with the name", "inserts"},
	} {
		// anchored on the message, wherever the error is built (the named function or a helper it was moved into)
		var sites []*ssa.Call
		for _, fn := range m.ModFns {
			if fn.Blocks == nil || isUserPkg(fnPkgPath(fn)) {
				continue
			}
			for _, b := range fn.Blocks {
				for _, in := range b.Instrs {
					c, isC := in.(*ssa.Call)
					if !isC || c.Call.StaticCallee() == nil || canonFnName(c.Call.StaticCallee()) != "New" || !inPkg(c.Call.StaticCallee(), "fail") || len(c.Call.Args) < 4 {
						continue
					}
					if msg, _ := constOfValue(c.Call.Args[3]); strings.Contains(msg, spec.msg) {
						sites = append(sites, c)
					}
				}
			}
		}
		if len(sites) == 0 {
			s.Undecided(rule, spec.pkg+"."+spec.fn+"|error carries the construct's line", "-", "no fail.New call with the message %q found", spec.msg)
			continue
		}
		for _, c := range sites {
			fn := c.Parent()
			key := fnKey(fn) + "|error carries the construct's line"
			if lc, isL := c.Call.Args[0].(*ssa.Call); isL && (lc.Call.IsInvoke() && lc.Call.Method.Name() == "Line" || lc.Call.StaticCallee() != nil && canonFnName(lc.Call.StaticCallee()) == "Line") {
				s.OK(rule, key, m.InstrPos(c), "the error is built with the Line() of the offending %s", spec.lineOf)
			} else {
				s.Violation(rule, key, m.InstrPos(c), "%s reports its error without the Line() of the offending construct", fnKey(fn))
			}
		}
	}
}

// tokenSource: v is p.curToken / p.peekToken, or a local copy of it.
func tokenSource(m *Model, v ssa.Value, d int) bool {
	if d > 4 {
		return false
	}
	p := fieldPathOf(v)
	if strings.HasSuffix(p, ".curToken") || strings.HasSuffix(p, ".peekToken") {
		return true
	}
	switch x := v.(type) {
	case *ssa.Const:
		// the zero token (`token.Token{}` handed to a constructor): the same as a node built without a Token, which
		// this clause does not judge either
		if _, isStruct := x.Type().Underlying().(*types.Struct); isStruct && x.Value == nil {
			return true
		}
	case *ssa.Parameter:
		// a token handed down by the callers: every call site passes the parser's token (or a copy of it)
		rs := m.resolveUp(x, nil, 0)
		if len(rs) == 1 && rs[0] == v {
			return false
		}
		for _, r := range rs {
			if !tokenSource(m, r, d+1) {
				return false
			}
		}
		return len(rs) > 0
	case *ssa.Phi:
		for _, e := range x.Edges {
			if !tokenSource(m, e, d+1) {
				return false
			}
		}
		return len(x.Edges) > 0
	case *ssa.UnOp:
		// load of a local that was assigned from the token
		if al, ok := x.X.(*ssa.Alloc); ok {
			// a zero token (`token.Token{}` handed to a constructor): the same as a node built without a Token,
			// which this clause does not judge either
			written := false
			for _, r := range *al.Referrers() {
				switch y := r.(type) {
				case *ssa.Store:
					if y.Addr == ssa.Value(al) {
						written = true
					}
				case *ssa.FieldAddr:
					written = true
				case *ssa.UnOp, *ssa.DebugRef:
				default:
					written = true
				}
			}
			if !written {
				return true
			}
			for _, r := range *al.Referrers() {
				if st, ok := r.(*ssa.Store); ok && st.Addr == ssa.Value(al) && tokenSource(m, st.Val, d+1) {
					return true
				}
			}
		}
		// the Token of another syntax node (`fn.Token` of an identifier the caller built): a parser token when every
		// store to that node type's Token field in the module stores one
		if fa, ok := x.X.(*ssa.FieldAddr); ok && x.Op == token.MUL && fieldName(fa.X.Type(), fa.Field) == "Token" {
			if nt := ptrNamed(fa.X.Type()); nt != nil && nt.Obj().Pkg() != nil && shortPkg(nt.Obj().Pkg().Path()) == "ast" {
				n := 0
				for _, f := range m.ModFns {
					if f.Blocks == nil || isUserPkg(fnPkgPath(f)) {
						continue
					}
					for _, b := range f.Blocks {
						for _, in := range b.Instrs {
							st, isSt := in.(*ssa.Store)
							if !isSt {
								continue
							}
							fa2, isFA := st.Addr.(*ssa.FieldAddr)
							if !isFA || fa2.Field != fa.Field || ptrNamed(fa2.X.Type()) == nil || !types.Identical(ptrNamed(fa2.X.Type()), nt) {
								continue
							}
							n++
							if !tokenSource(m, st.Val, d+1) {
								return false
							}
						}
					}
				}
				return n > 0
			}
		}
	}
	return false
}

// filepathAbsOfTemplate: fn returns filepath.Abs of a path built from the template directory.
func filepathAbsOfTemplate(m *Model, fn *ssa.Function) bool {
	if !m.InModule(fn) || fn.Blocks == nil {
		return false
	}
	for _, b := range fn.Blocks {
		for _, in := range b.Instrs {
			if c, ok := in.(*ssa.Call); ok && c.Call.StaticCallee() != nil && fnFullName(c.Call.StaticCallee()) == "path/filepath.Abs" {
				return true
			}
		}
	}
	return false
}

// returnedAt: the values a module function returns at result index i, failure zero values ("" / nil / 0) left out.
func (m *Model) returnedAt(fn *ssa.Function, i int) []ssa.Value {
	if fn == nil || fn.Blocks == nil || !m.InModule(fn) {
		return nil
	}
	var out []ssa.Value
	for _, b := range fn.Blocks {
		ret, ok := b.Instrs[len(b.Instrs)-1].(*ssa.Return)
		if !ok || i >= len(ret.Results) {
			continue
		}
		v := retSource(ret, i)
		if k, isK := v.(*ssa.Const); isK && (k.Value == nil || isEmptyStringConst(k) || k.Value.String() == "0") {
			continue
		}
		out = append(out, v)
	}
	return out
}

// fieldHoldsOnly: every store to the field (same struct type, same index) anywhere in the module stores a value that,
// resolved through helper parameters, is a parameter of fn.
func (m *Model) fieldHoldsOnly(fa *ssa.FieldAddr, fn *ssa.Function) bool {
	if fn == nil {
		return false
	}
	n := 0
	for _, f := range m.ModFns {
		if f.Blocks == nil {
			continue
		}
		for _, b := range f.Blocks {
			for _, in := range b.Instrs {
				st, ok := in.(*ssa.Store)
				if !ok {
					continue
				}
				fa2, ok := st.Addr.(*ssa.FieldAddr)
				if !ok || fa2.Field != fa.Field || derefTypeString(fa2.X.Type()) != derefTypeString(fa.X.Type()) {
					continue
				}
				n++
				for _, r := range m.resolveUp(st.Val, fn, 0) {
					p, isP := r.(*ssa.Parameter)
					if !isP || p.Parent() != fn {
						return false
					}
				}
			}
		}
	}
	return n > 0
}

// ptrNamed: the named struct type behind a pointer (or the named type itself).
func ptrNamed(t types.Type) *types.Named {
	if p, ok := t.Underlying().(*types.Pointer); ok {
		t = p.Elem()
	}
	nt, _ := t.(*types.Named)
	return nt
}

// tokensNamedBy: which of the parser's tokens (curToken / peekToken) a message argument is computed from.
func tokensNamedBy(v ssa.Value, d int, out map[string]bool) {
	if d > 5 {
		return
	}
	v = stripIface(v)
	if _, p, ok := pathOf(v); ok {
		for _, t := range []string{"curToken", "peekToken"} {
			if strings.HasPrefix(p, "."+t+".") || p == "."+t {
				out[t] = true
			}
		}
	}
	switch x := v.(type) {
	case *ssa.Call:
		for _, a := range x.Call.Args {
			tokensNamedBy(a, d+1, out)
		}
	case *ssa.Convert:
		tokensNamedBy(x.X, d+1, out)
	case *ssa.ChangeType:
		tokensNamedBy(x.X, d+1, out)
	case *ssa.BinOp:
		tokensNamedBy(x.X, d+1, out)
		tokensNamedBy(x.Y, d+1, out)
	case *ssa.Phi:
		for _, e := range x.Edges {
			tokensNamedBy(e, d+1, out)
		}
	}
}

// errorReportedNodes: the ast node types the evaluator passes to its newError (errors about them carry their line).
func (m *Model) errorReportedNodes() map[string]bool {
	if m.errNodes != nil {
		return m.errNodes
	}
	m.errNodes = map[string]bool{}
	ne := m.Method("evaluator", "Evaluator", "newError")
	if ne == nil {
		return m.errNodes
	}
	if node := m.CG.Nodes[ne]; node != nil {
		for _, e := range node.In {
			args := e.Site.Common().Args
			for _, a := range args {
				v := stripIface(a)
				t := derefTypeString(v.Type())
				if strings.HasPrefix(t, modPath+"/ast.") {
					m.errNodes[shortTypeName(t)] = true
				}
			}
		}
	}
	return m.errNodes
}

// RunEvalOrder — R-EVALORDER (C13): Go does not specify whether, in one expression, a variable is read before or after a
// function call in that expression is made (the gc compiler makes the calls first). A composite literal of the parser
// that reads the parser's current/next token in one element and calls a token-consuming method of the same parser in
// another (`&ast.X{Token: p.curToken, Args: p.parseArgs()}`) therefore records the token the call ended on. Decided on
// the syntax tree: such literals must not exist.
func (m *Model) RunEvalOrder(s *Sink, rule string) {
	pp := m.ByPath[fullPkg("parser")]
	if pp == nil {
		s.Undecided(rule, "parser", "-", "package parser not found")
		return
	}
	// the parser methods that may move the parser on (call nextToken, directly or through other methods)
	var parFns []*ssa.Function
	for _, fn := range m.ModFns {
		if fn.Blocks != nil && shortPkg(fnPkgPath(fn)) == "parser" {
			parFns = append(parFns, fn)
		}
	}
	nextToken, expectPeek := m.Method("parser", "Parser", "nextToken"), m.Method("parser", "Parser", "expectPeek")
	if nextToken == nil || expectPeek == nil {
		s.Undecided(rule, "parser", "-", "nextToken / expectPeek not found")
		return
	}
	ci := m.newConsumerInfo([]*ssa.Function{nextToken}, expectPeek, parFns)
	mayMove := map[string]bool{}
	for _, fn := range parFns {
		if fn == nextToken || ci.may[fn] || ci.always[fn] {
			mayMove[fn.Name()] = true
		}
	}
	consuming := func(name string) bool { return mayMove[name] }
	n, lits := 0, 0
	for _, f := range pp.Syntax {
		ast.Inspect(f, func(nd ast.Node) bool {
			cl, ok := nd.(*ast.CompositeLit)
			if !ok {
				return true
			}
			lits++
			// a read that is an argument of the moving call itself is made before that call; any other pair is unordered
			type tokRead struct {
				pos  token.Pos
				text string
			}
			type movCall struct {
				lp, rp token.Pos
				text   string
			}
			var reads []tokRead
			var calls []movCall
			for _, el := range cl.Elts {
				v := el
				if kv, isKV := el.(*ast.KeyValueExpr); isKV {
					v = kv.Value
				}
				ast.Inspect(v, func(x ast.Node) bool {
					switch y := x.(type) {
					case *ast.FuncLit:
						return false
					case *ast.SelectorExpr:
						if y.Sel.Name == "curToken" || y.Sel.Name == "peekToken" {
							if id, isID := y.X.(*ast.Ident); isID {
								if tv := pp.TypesInfo.TypeOf(id); tv != nil && strings.HasSuffix(tv.String(), "parser.Parser") {
									reads = append(reads, tokRead{y.Pos(), id.Name + "." + y.Sel.Name})
								}
							}
						}
					case *ast.CallExpr:
						if sel, isSel := y.Fun.(*ast.SelectorExpr); isSel && consuming(sel.Sel.Name) {
							if id, isID := sel.X.(*ast.Ident); isID {
								if tv := pp.TypesInfo.TypeOf(id); tv != nil && strings.HasSuffix(tv.String(), "parser.Parser") {
									calls = append(calls, movCall{y.Lparen, y.Rparen, id.Name + "." + sel.Sel.Name + "()"})
								}
							}
						}
					}
					return true
				})
			}
			var readsTok, callsParser string
			for _, r := range reads {
				for _, c := range calls {
					if r.pos > c.lp && r.pos < c.rp {
						continue
					}
					if readsTok == "" {
						readsTok, callsParser = r.text, c.text
					}
				}
			}
			if readsTok != "" && callsParser != "" {
				n++
				s.Violation(rule, fmt.Sprintf("parser|literal at %s reads the token and moves the parser in one expression", m.Pos(cl.Pos())), m.Pos(cl.Pos()),
					"the composite literal at %s reads %s and calls %s in the same expression: Go leaves the order of the read and the call unspecified and the compiler makes the call first, so the recorded token is the one the call ended on — errors about the construct name the line where it ends", m.Pos(cl.Pos()), readsTok, callsParser)
			}
			return true
		})
	}
	if n == 0 {
		s.OK(rule, "parser|no literal reads the parser's token next to a call that moves it", "-", "%d composite literals of the parser inspected", lits)
	}
}

// hasOperatorField: the AST node is an operator construct (it records its operator: InfixExp, PrefixExp, PostfixExp) —
// its own token is the operator. Access constructs (index, dot, call) name the faulty thing by their key operand.
func hasOperatorField(n *types.Named) bool {
	st, ok := n.Underlying().(*types.Struct)
	if !ok {
		return false
	}
	for i := 0; i < st.NumFields(); i++ {
		if canonFieldName(n, i, st.Field(i).Name()) == "Operator" {
			return true
		}
	}
	return false
}

// RunErrNode — R-ERRNODE (C13): an error the evaluator raises about a construct carries that construct's own token.
// The node handed to the evaluator's error constructor is followed back through interface conversions and parameters
// to where it was taken from; when that is an operand of an operator construct under evaluation (a field of an AST node
// that records an Operator, of one of the ast interface types: InfixExp.Left, ...), the error about the construct's own operation — a division
// by zero, a type mismatch between the two operands — is reported on the line where the operand's token ends, which
// is not the construct's line as soon as the expression spans lines.
func (m *Model) RunErrNode(s *Sink, rule string) {
	ne := m.Method("evaluator", "Evaluator", "newError")
	if ne == nil {
		s.Undecided(rule, "evaluator.newError", "-", "the evaluator's error constructor was not found")
		return
	}
	isAstIface := func(t types.Type) bool {
		n, ok := t.(*types.Named)
		if !ok || n.Obj().Pkg() == nil || shortPkg(n.Obj().Pkg().Path()) != "ast" {
			return false
		}
		_, isI := n.Underlying().(*types.Interface)
		return isI
	}
	evalFn := m.Method("evaluator", "Evaluator", "Eval")
	if evalFn == nil {
		s.Undecided(rule, "evaluator.Eval", "-", "the evaluator's dispatch was not found")
		return
	}
	type origin struct {
		operand string // "InfixExp.Left" when the node is an operand of a construct
	}
	var trace func(v ssa.Value, d int, seen map[ssa.Value]bool) []origin
	trace = func(v ssa.Value, d int, seen map[ssa.Value]bool) []origin {
		if v == nil || seen[v] || d > 8 {
			return nil
		}
		seen[v] = true
		switch x := v.(type) {
		case *ssa.MakeInterface:
			return trace(x.X, d, seen)
		case *ssa.ChangeInterface:
			return trace(x.X, d, seen)
		case *ssa.ChangeType:
			return trace(x.X, d, seen)
		case *ssa.TypeAssert:
			if x.Parent() == evalFn {
				return []origin{{}} // the dispatch: this is the construct under evaluation
			}
			return trace(x.X, d, seen)
		case *ssa.Extract:
			return trace(x.Tuple, d, seen)
		case *ssa.Phi:
			var out []origin
			for _, e := range x.Edges {
				out = append(out, trace(e, d+1, seen)...)
			}
			return out
		case *ssa.UnOp:
			if fa, ok := x.X.(*ssa.FieldAddr); ok && x.Op == token.MUL {
				if isAstIface(x.Type()) {
					if pn := ptrNamed(fa.X.Type()); pn != nil && pn.Obj().Pkg() != nil && shortPkg(pn.Obj().Pkg().Path()) == "ast" && hasOperatorField(pn) {
						return []origin{{operand: pn.Obj().Name() + "." + fieldName(fa.X.Type(), fa.Field)}}
					}
				}
			}
			return []origin{{}}
		case *ssa.Parameter:
			h := x.Parent()
			if h == evalFn {
				return []origin{{}} // whatever is handed to Eval is the construct under evaluation
			}
			idx := -1
			for i, q := range h.Params {
				if q == x {
					idx = i
				}
			}
			node := m.CG.Nodes[h]
			if idx < 0 || node == nil {
				return []origin{{}}
			}
			var out []origin
			for _, e := range node.In {
				if e.Site == nil || e.Site.Common().StaticCallee() != h || idx >= len(e.Site.Common().Args) {
					continue
				}
				out = append(out, trace(e.Site.Common().Args[idx], d+1, seen)...)
			}
			return out
		}
		return []origin{{}}
	}
	n := 0
	for _, fn := range m.ModFns {
		if fn.Blocks == nil || shortPkg(fnPkgPath(fn)) != "evaluator" {
			continue
		}
		for _, b := range fn.Blocks {
			for _, in := range b.Instrs {
				c, ok := in.(*ssa.Call)
				if !ok || c.Call.StaticCallee() != ne || len(c.Call.Args) < 2 {
					continue
				}
				n++
				key := fmt.Sprintf("%s|error about %s carries the construct's own token", fnKey(fn), valueDesc(c.Call.Args[1]))
				bad := ""
				for _, o := range trace(c.Call.Args[1], 0, map[ssa.Value]bool{}) {
					if o.operand != "" && bad == "" {
						bad = o.operand
					}
				}
				if bad != "" {
					s.Violation(rule, key, m.InstrPos(c), "the error raised at %s is given the node %s — an operand of the construct being evaluated, not the construct: a fault of the construct's own operation (division by zero, operands of different types) is reported on the line where that operand ends, not on the line of the construct's token (`{{ 10\\n\\n/ 0 }}` reports line 1, the operator is on line 3)", m.InstrPos(c), bad)
				} else {
					s.OK(rule, key, m.InstrPos(c), "the node is the construct under evaluation (or a construct of its own: an insert, a statement), not one of its operands")
				}
			}
		}
	}
	s.RequireMin(rule, 20, "about 30 error sites in the evaluator")
	_ = n
}

// RunFreshNodes — R-ERRLINE (fresh nodes): every node a parse function returns was built for this use: an allocation of
// its own, the result of another parse function, an operand handed in, or nil — never a node the parser keeps (looked
// up in a table of its own, loaded from one of its fields). A node shared between two uses of a name carries the token
// of the first use: an error about the second is reported on the first one's line.
func (m *Model) RunFreshNodes(s *Sink, rule string) {
	isAstT := func(t types.Type) bool {
		if pn := ptrNamed(t); pn != nil && pn.Obj().Pkg() != nil && shortPkg(pn.Obj().Pkg().Path()) == "ast" {
			return true
		}
		if n, ok := t.(*types.Named); ok && n.Obj().Pkg() != nil && shortPkg(n.Obj().Pkg().Path()) == "ast" {
			_, isI := n.Underlying().(*types.Interface)
			return isI
		}
		return false
	}
	n := 0
	for _, fn := range m.ModFns {
		if fn.Blocks == nil || shortPkg(fnPkgPath(fn)) != "parser" {
			continue
		}
		res := fn.Signature.Results()
		if res.Len() != 1 || !isAstT(res.At(0).Type()) {
			continue
		}
		n++
		bad := ""
		seen := map[ssa.Value]bool{}
		var walk func(v ssa.Value, d int)
		walk = func(v ssa.Value, d int) {
			if v == nil || seen[v] || d > 10 || bad != "" {
				return
			}
			seen[v] = true
			switch x := v.(type) {
			case *ssa.MakeInterface:
				walk(x.X, d+1)
			case *ssa.ChangeInterface:
				walk(x.X, d+1)
			case *ssa.TypeAssert:
				walk(x.X, d+1)
			case *ssa.Extract:
				walk(x.Tuple, d+1)
			case *ssa.Phi:
				for _, e := range x.Edges {
					walk(e, d+1)
				}
			case *ssa.Lookup:
				if _, p, ok := pathOf(x.X); ok && p != "" {
					if root, _, _ := pathOf(x.X); root != nil && strings.HasSuffix(root.Type().String(), "parser.Parser") {
						bad = fmt.Sprintf("a node looked up in the parser's own table `p%s` at %s", p, m.InstrPos(x))
					}
				}
			case *ssa.UnOp:
				if x.Op != token.MUL {
					return
				}
				if al, isAl := x.X.(*ssa.Alloc); isAl {
					for _, r := range *al.Referrers() {
						if st, isSt := r.(*ssa.Store); isSt && st.Addr == ssa.Value(al) {
							walk(st.Val, d+1)
						}
					}
					return
				}
				if root, p, ok := pathOf(x); ok && root != nil && strings.HasSuffix(root.Type().String(), "parser.Parser") {
					bad = fmt.Sprintf("a node loaded from the parser's field `p%s` at %s", p, m.InstrPos(x))
				}
			}
		}
		for _, b := range fn.Blocks {
			if ret, ok := b.Instrs[len(b.Instrs)-1].(*ssa.Return); ok && len(ret.Results) == 1 {
				walk(ret.Results[0], 0)
			}
		}
		key := fnKey(fn) + "|returns a node built for this use"
		if bad != "" {
			s.Violation(rule, key, m.Pos(fn.Pos()), "%s can return %s: a node shared between several places of the template carries the token (and so the line) of the first one — an error about a later use names the wrong line", fnKey(fn), bad)
		} else {
			s.OK(rule, key, m.Pos(fn.Pos()), "every returned node is allocated here, comes from another parse function, is an operand handed in, or is nil")
		}
	}
	if n < 20 {
		s.Undecided(rule, "parser|parse functions", "-", "only %d parse functions with an AST result found", n)
	}
}

// RunTokenWriters — R-ERRLINE (who writes tokens): a token is what the lexer made it. Outside the lexer no field of a
// token.Token or token.Position that belongs to an existing token is stored to — an AST node's token widened in place
// (through the pointer Tok() hands out, to record a span) moves the line every error about that node reports.
// R-LAYOUT (who writes the tables): the Reserves and Inserts tables of a parsed program are written by the parser
// only; a file "is a layout" because its table of reserves is not empty, also after it was linked.
func (m *Model) RunTokenWriters(s *Sink, rule string) {
	n, bad := 0, 0
	for _, fn := range m.ModFns {
		if fn.Blocks == nil || isUserPkg(fnPkgPath(fn)) || shortPkg(fnPkgPath(fn)) == "lexer" || shortPkg(fnPkgPath(fn)) == "token" {
			continue
		}
		for _, b := range fn.Blocks {
			for _, in := range b.Instrs {
				st, ok := in.(*ssa.Store)
				if !ok {
					continue
				}
				fa, ok := st.Addr.(*ssa.FieldAddr)
				if !ok {
					continue
				}
				tn := derefTypeString(fa.X.Type())
				if !strings.HasSuffix(tn, "token.Token") && !strings.HasSuffix(tn, "token.Position") {
					continue
				}
				// a token value under construction in a local, or a field of a node being built, is not an existing token
				root := fa.X
				for d := 0; d < 4; d++ {
					if f2, isF := root.(*ssa.FieldAddr); isF {
						root = f2.X
						continue
					}
					break
				}
				if _, fresh := root.(*ssa.Alloc); fresh {
					continue
				}
				n++
				bad++
				s.Violation(rule, fmt.Sprintf("%s|writes a field of an existing token", fnKey(fn)), m.InstrPos(st), "%s stores into %s of a token it did not build: the token of an AST node is what every error about that node reports its line from, and it is shared with whoever holds the node", fnKey(fn), fieldName(fa.X.Type(), fa.Field))
			}
		}
	}
	if bad == 0 {
		s.OK(rule, "tokens|written by the lexer only", "-", "no store into a field of an existing token.Token / token.Position outside the lexer")
	}
	_ = n
}

func (m *Model) RunProgramTables(s *Sink, rule string) {
	bad := 0
	for _, fn := range m.ModFns {
		if fn.Blocks == nil || isUserPkg(fnPkgPath(fn)) || shortPkg(fnPkgPath(fn)) == "parser" {
			continue
		}
		for _, b := range fn.Blocks {
			for _, in := range b.Instrs {
				st, ok := in.(*ssa.Store)
				if !ok {
					continue
				}
				fa, ok := st.Addr.(*ssa.FieldAddr)
				if !ok || !strings.HasSuffix(derefTypeString(fa.X.Type()), "ast.Program") {
					continue
				}
				f := fieldName(fa.X.Type(), fa.Field)
				if f != "Reserves" && f != "Inserts" && f != "Components" {
					continue
				}
				if _, fresh := fa.X.(*ssa.Alloc); fresh {
					continue
				}
				bad++
				s.Violation(rule, fmt.Sprintf("%s|replaces the %s table of a parsed program", fnKey(fn), f), m.InstrPos(st), "%s replaces the %s table of a program the parser built: whether a file is a layout (it declares reserves) and which inserts / components it has is read from these tables after linking too", fnKey(fn), f)
			}
		}
	}
	if bad == 0 {
		s.OK(rule, "ast.Program|tables written by the parser only", "-", "no store into Reserves / Inserts / Components of an existing program outside the parser")
	}
}

// RunErrSameFile — R-ERRLINE (same file): the line and the path of an error are of the same file. A method of
// ast.Program that links a second program into its own (a component's program into the page that uses it) and is
// given the path of its own file builds its errors with that path; the line must then be the line of a node of its own
// tree (the use, one of the slots passed there) and not of the other program — `prog.Line()` of the component's
// program is a line of the component file, reported with the page's path.
func (m *Model) RunErrSameFile(s *Sink, rule string) {
	progT := m.namedType("ast", "Program")
	if progT == nil {
		s.Undecided(rule, "ast.Program", "-", "not found")
		return
	}
	isProg := func(t types.Type) bool {
		p, ok := t.(*types.Pointer)
		return ok && types.Identical(p.Elem(), progT)
	}
	// the parameter a value is reached from (through loads, fields, elements, ranges)
	var rootParam func(v ssa.Value, d int) *ssa.Parameter
	rootParam = func(v ssa.Value, d int) *ssa.Parameter {
		for i := 0; i < 24 && d < 6; i++ {
			switch x := v.(type) {
			case *ssa.Parameter:
				return x
			case *ssa.UnOp:
				v = x.X
			case *ssa.FieldAddr:
				v = x.X
			case *ssa.Field:
				v = x.X
			case *ssa.IndexAddr:
				v = x.X
			case *ssa.Index:
				v = x.X
			case *ssa.Extract:
				v = x.Tuple
			case *ssa.Next:
				v = x.Iter
			case *ssa.Range:
				v = x.X
			case *ssa.Lookup:
				v = x.X
			case *ssa.MakeInterface:
				v = x.X
			case *ssa.TypeAssert:
				v = x.X
			case *ssa.Phi:
				var only *ssa.Parameter
				for _, e := range x.Edges {
					p := rootParam(e, d+1)
					if p == nil || (only != nil && p != only) {
						return nil
					}
					only = p
				}
				return only
			case *ssa.Call:
				// a getter of the node (x.Tok(), x.Line()): what it is called on
				if x.Call.IsInvoke() {
					v = x.Call.Value
				} else if len(x.Call.Args) > 0 && x.Call.StaticCallee() != nil && x.Call.StaticCallee().Signature.Recv() != nil {
					v = x.Call.Args[0]
				} else {
					return nil
				}
			default:
				return nil
			}
		}
		return nil
	}
	n := 0
	for _, fn := range m.ModFns {
		if fn.Blocks == nil || shortPkg(fnPkgPath(fn)) != "ast" || fn.Signature.Recv() == nil || len(fn.Params) < 3 || !isProg(fn.Params[0].Type()) {
			continue
		}
		var other *ssa.Parameter
		hasPath := false
		for _, p := range fn.Params[1:] {
			if isProg(p.Type()) {
				other = p
			}
			if isStringT(p.Type()) {
				hasPath = true
			}
		}
		if other == nil || !hasPath {
			continue
		}
		m.walkInlined(fn, 2, func(in ssa.Instruction, resolve func(ssa.Value) ssa.Value, _ int) {
			c, ok := in.(*ssa.Call)
			if !ok || c.Call.StaticCallee() == nil || shortPkg(fnPkgPath(c.Call.StaticCallee())) != "fail" || canonFnName(c.Call.StaticCallee()) != "New" || len(c.Call.Args) < 2 {
				return
			}
			if _, isPar := resolve(c.Call.Args[1]).(*ssa.Parameter); !isPar {
				return // not the path handed in
			}
			n++
			key := fmt.Sprintf("%s|error #%d: line and path are of the same file", fnKey(fn), n)
			lv := resolve(c.Call.Args[0])
			// the parameter of fn the line's node is reached from, through the parameters of the helpers on the way
			var rootIn func(v ssa.Value, d int) *ssa.Parameter
			rootIn = func(v ssa.Value, d int) *ssa.Parameter {
				r := rootParam(v, 0)
				if r == nil || r.Parent() == fn || d > 3 {
					return r
				}
				h := r.Parent()
				idx := -1
				for i, q := range h.Params {
					if q == r {
						idx = i
					}
				}
				node := m.CG.Nodes[h]
				if idx < 0 || node == nil || len(node.In) == 0 {
					return nil
				}
				var only *ssa.Parameter
				for _, e := range node.In {
					if e.Site == nil || e.Site.Common().StaticCallee() != h || idx >= len(e.Site.Common().Args) {
						return nil
					}
					p := rootIn(e.Site.Common().Args[idx], d+1)
					if p == nil || (only != nil && p != only) {
						return nil
					}
					only = p
				}
				return only
			}
			root := rootIn(lv, 0)
			switch {
			case root == other:
				s.Violation(rule, key, m.InstrPos(c), "%s builds an error with the path it was given for its own file and the line %s, which is a line of the other program (%s): the error names a line of one file and the path of another", fnKey(fn), valueDesc(lv), other.Name())
			case root == fn.Params[0]:
				s.OK(rule, key, m.InstrPos(c), "the line is that of a node of the receiver's own tree")
			default:
				if _, isK := lv.(*ssa.Const); isK {
					s.OK(rule, key, m.InstrPos(c), "a constant line")
				} else {
					s.Undecided(rule, key, m.InstrPos(c), "the line %s of this error could not be traced to the receiver's tree or to the other program", valueDesc(lv))
				}
			}
		})
	}
	if n < 2 {
		s.Undecided(rule, "ast.Program linking errors", "-", "expected at least 2 errors built in a method of ast.Program that links another program in (ApplyComponent was the confirmed instance), found %d", n)
	}
}

// RunProgPathPairs — R-ERRLINE (pairing): a program and the path of its file travel together. A function that builds
// errors with a path parameter S and lines taken from the nodes of a program parameter X is given, at every call site,
// a program and a path that belong together: when the program handed in was parsed right there from the file z
// (`prog, … := parseProgram(z)`), the path handed in is z. A loader that resolves the components of a component
// file by calling itself with the component's program and the *outer* file's path reports faults found in the
// component file with the path of the page that pulled it in.
func (m *Model) RunProgPathPairs(s *Sink, rule string) {
	progT := m.namedType("ast", "Program")
	if progT == nil {
		s.Undecided(rule, "ast.Program", "-", "not found")
		return
	}
	isProg := func(t types.Type) bool {
		p, ok := t.(*types.Pointer)
		return ok && types.Identical(p.Elem(), progT)
	}
	var fns []*ssa.Function
	for _, fn := range m.ModFns {
		if fn.Blocks == nil {
			continue
		}
		if sp := shortPkg(fnPkgPath(fn)); sp != "textwire" && sp != "ast" {
			continue
		}
		fns = append(fns, fn)
	}
	// the parameter a value is reached from
	var rootParam func(v ssa.Value, d int) *ssa.Parameter
	rootParam = func(v ssa.Value, d int) *ssa.Parameter {
		for i := 0; i < 24 && d < 6; i++ {
			switch x := v.(type) {
			case *ssa.Parameter:
				return x
			case *ssa.UnOp:
				v = x.X
			case *ssa.FieldAddr:
				v = x.X
			case *ssa.Field:
				v = x.X
			case *ssa.IndexAddr:
				v = x.X
			case *ssa.Index:
				v = x.X
			case *ssa.Extract:
				v = x.Tuple
			case *ssa.Next:
				v = x.Iter
			case *ssa.Range:
				v = x.X
			case *ssa.Lookup:
				v = x.X
			case *ssa.MakeInterface:
				v = x.X
			case *ssa.TypeAssert:
				v = x.X
			case *ssa.Call:
				if x.Call.IsInvoke() {
					v = x.Call.Value
				} else if len(x.Call.Args) > 0 && x.Call.StaticCallee() != nil && x.Call.StaticCallee().Signature.Recv() != nil {
					v = x.Call.Args[0]
				} else {
					return nil
				}
			default:
				return nil
			}
		}
		return nil
	}
	// bound pairs: (index of the program parameter, index of the path parameter)
	type pair struct{ x, s int }
	bound := map[*ssa.Function][]pair{}
	paramIdx := func(fn *ssa.Function, p *ssa.Parameter) int {
		for i, q := range fn.Params {
			if q == p {
				return i
			}
		}
		return -1
	}
	for _, fn := range fns {
		for _, b := range fn.Blocks {
			for _, in := range b.Instrs {
				c, ok := in.(*ssa.Call)
				if !ok || c.Call.StaticCallee() == nil || shortPkg(fnPkgPath(c.Call.StaticCallee())) != "fail" || len(c.Call.Args) < 3 {
					continue
				}
				name := canonFnName(c.Call.StaticCallee())
				li, pi := 0, 1
				if name == "FromError" {
					li, pi = 1, 2
				} else if name != "New" {
					continue
				}
				sp, isSP := c.Call.Args[pi].(*ssa.Parameter)
				if !isSP || sp.Parent() != fn {
					continue
				}
				xp := rootParam(c.Call.Args[li], 0)
				if xp == nil || xp.Parent() != fn || !isProg(xp.Type()) {
					continue
				}
				pr := pair{paramIdx(fn, xp), paramIdx(fn, sp)}
				dup := false
				for _, q := range bound[fn] {
					if q == pr {
						dup = true
					}
				}
				if !dup {
					bound[fn] = append(bound[fn], pr)
				}
			}
		}
	}
	nSites := 0
	for _, fn := range fns {
		for _, b := range fn.Blocks {
			for _, in := range b.Instrs {
				c, ok := in.(*ssa.Call)
				if !ok || c.Call.StaticCallee() == nil {
					continue
				}
				g := c.Call.StaticCallee()
				for _, pr := range bound[g] {
					if pr.x >= len(c.Call.Args) || pr.s >= len(c.Call.Args) {
						continue
					}
					x, y := c.Call.Args[pr.x], c.Call.Args[pr.s]
					ex, isEx := x.(*ssa.Extract)
					if !isEx || ex.Index != 0 {
						continue
					}
					pc, isPC := ex.Tuple.(*ssa.Call)
					if !isPC || pc.Call.StaticCallee() == nil || len(pc.Call.Args) != 1 || !isStringT(pc.Call.Args[0].Type()) || !m.InModule(pc.Call.StaticCallee()) {
						continue
					}
					nSites++
					key := fmt.Sprintf("%s|the program handed to %s comes with the path of its own file", fnKey(fn), canonFnName(g))
					if pc.Call.Args[0] == y {
						s.OK(rule, key, m.InstrPos(c), "the program was parsed from the very path that is handed in with it")
					} else {
						s.Violation(rule, key, m.InstrPos(c), "%s hands %s the program it parsed from %s together with the path %s: %s reports what it finds in that program with its lines and the other file's path", fnKey(fn), canonFnName(g), valueDesc(pc.Call.Args[0]), valueDesc(y), canonFnName(g))
					}
				}
			}
		}
	}
	if nSites < 1 {
		// a mismatch detector: where no call has this shape (the pair travels in a struct, the parse sits in a helper)
		// there is nothing to mismatch; the count is in the evidence
		s.Note(rule, "program/path pairs", "-", "no call hands a program parsed on the spot, together with a path, to a function that reports errors with them (on the pinned tree parsePrograms -> applyComponentToProgram is the instance)")
	}
}

// RunErrKeep: the parser's list of errors only grows at its end. The callers report the first entry, so the error
// of the first broken construct stays the one reported: every store into a field of parser.Parser whose type is a
// slice of *fail.Error — outside the constructor — is `field = append(field, ...)` on the same parser.
// RunParserBuffers: the same for every other slice the parser keeps (components met, ...): parse functions call each
// other recursively, so a slice of the parser that one of them truncates or replaces by something built from it
// (`p.buf = chain[:0]`, a scratch buffer reused "for the next statement") is shared by the nested constructs — the
// inner one overwrites what the outer one has collected.
func (m *Model) RunParserBuffers(s *Sink, rule string) { m.runParserSlices(s, rule, false) }

func (m *Model) RunErrKeep(s *Sink, rule string) { m.runParserSlices(s, rule, true) }

func (m *Model) runParserSlices(s *Sink, rule string, errorsOnly bool) {
	pT := m.namedType("parser", "Parser")
	if pT == nil {
		s.Undecided(rule, "parser.Parser", "-", "type not found")
		return
	}
	isErrList := func(t types.Type) bool {
		sl, ok := t.Underlying().(*types.Slice)
		if !ok {
			return false
		}
		nt := ptrNamed(sl.Elem())
		return nt != nil && nt.Obj().Pkg() != nil && shortPkg(nt.Obj().Pkg().Path()) == "fail"
	}
	n, bad := 0, 0
	for _, fn := range m.ModFns {
		if fn.Blocks == nil || isUserPkg(fnPkgPath(fn)) {
			continue
		}
		for _, b := range fn.Blocks {
			for _, in := range b.Instrs {
				st, ok := in.(*ssa.Store)
				if !ok {
					continue
				}
				fa, ok := st.Addr.(*ssa.FieldAddr)
				if !ok {
					continue
				}
				pn := ptrNamed(fa.X.Type())
				if pn == nil || pn.Obj().Pkg() == nil || shortPkg(pn.Obj().Pkg().Path()) != "parser" {
					continue
				}
				if !errorsOnly && !types.Identical(pn, pT) {
					continue // the error list may live in a type of its own (`errorList`); other lists are the parser's
				}
				if _, isSlice := st.Val.Type().Underlying().(*types.Slice); !isSlice || isErrList(st.Val.Type()) != errorsOnly {
					continue
				}
				if _, fresh := fa.X.(*ssa.Alloc); fresh {
					continue // the parser (or its list) under construction
				}
				if _, isC := st.Val.(*ssa.Slice); isC && errorsOnly {
					if al, isAl := st.Val.(*ssa.Slice).X.(*ssa.Alloc); isAl && len(variadicElems(st.Val)) == 0 && al != nil && strings.HasPrefix(fn.Name(), "new") {
						continue // a constructor that returns the list by value
					}
				}
				n++
				key := fmt.Sprintf("%s|the parser's error list only grows at its end", fnKey(fn))
				if !errorsOnly {
					key = fmt.Sprintf("%s|the parser's list %s only grows at its end", fnKey(fn), fieldName(fa.X.Type(), fa.Field))
				}
				good := false
				if !errorsOnly {
					// a fresh list is fine too
					switch x := st.Val.(type) {
					case *ssa.Const:
						good = x.IsNil()
					case *ssa.MakeSlice:
						good = true
					case *ssa.Slice:
						if _, fresh := x.X.(*ssa.Alloc); fresh {
							good = true
						}
					}
				}
				if c, isC := st.Val.(*ssa.Call); isC {
					if bi, isB := c.Call.Value.(*ssa.Builtin); isB && bi.Name() == "append" && len(c.Call.Args) >= 1 {
						if ld, isLd := c.Call.Args[0].(*ssa.UnOp); isLd && ld.Op == token.MUL {
							if fa2, isFA := ld.X.(*ssa.FieldAddr); isFA && fa2.Field == fa.Field && fa2.X == fa.X {
								good = true
							}
						}
					}
				}
				if good {
					s.OK(rule, key, m.InstrPos(st), "append(p.%s, ...) stored back", fieldName(fa.X.Type(), fa.Field))
				} else if !errorsOnly {
					bad++
					s.Violation(rule, key, m.InstrPos(st), "%s stores %s into the parser's field %s: parse functions call each other recursively, so a list of the parser that is truncated or rebuilt from a local slice (a scratch buffer kept \"for the next statement\") is shared with the constructs nested in the current one — an inner @if overwrites the branches its enclosing @if has collected", fnKey(fn), valueDesc(st.Val), fieldName(fa.X.Type(), fa.Field))
				} else {
					bad++
					s.Violation(rule, key, m.InstrPos(st), "%s stores %s into the parser's error list: the callers report the first entry, which must stay the error of the first broken construct (its message, its line); emptying, truncating or reordering the list makes a later error — one that only follows from the first — the reported one", fnKey(fn), valueDesc(st.Val))
				}
			}
		}
	}
	if n == 0 && errorsOnly {
		s.Note(rule, "parser.Parser|error list", "-", "no store into an error list found in package parser outside constructors")
	}
	if n == 0 && !errorsOnly {
		s.OK(rule, "parser.Parser|lists of the parser", "-", "the parser keeps no list besides its errors that is written after construction")
	}
}

// throughCtor: a value that is the result of a module helper whose every return hands back one and the same call
// (`func newEvaluator(p string) *Evaluator { return evaluator.New(ctx.NewContext(p, ...)) }`) stands for that call.
func (m *Model) throughCtor(v ssa.Value) ssa.Value {
	for d := 0; d < 3; d++ {
		c, ok := v.(*ssa.Call)
		if !ok || c.Call.StaticCallee() == nil || !m.InModule(c.Call.StaticCallee()) {
			return v
		}
		callee := c.Call.StaticCallee()
		if n := canonFnName(callee); (n == "New" && inPkg(callee, "evaluator")) || n == "NewContext" {
			return v
		}
		rs := m.returnedAt(callee, 0)
		if len(rs) != 1 || callee.Signature.Results().Len() != 1 {
			return v
		}
		inner, isCall := rs[0].(*ssa.Call)
		if !isCall {
			return v
		}
		v = inner
	}
	return v
}
